import PtVerif.Model.Lazy
/-! Generic lemmas about the lazy-loading interpreter (C09, C10): once nothing is pending, reads
are pure; a read that meets a pending property equals "force, then read purely". -/
namespace PtLazy

/-- no delayed-load property is left on any class -/
def GS.noPending (s : GS) : Bool := s.cls.all (fun e => decide (e.2 ≠ CAttr.pending))

theorem clsGet_noPending {s : GS} (h : s.noPending = true) (c : Cls) (p : Nat) :
    s.clsGet c p ≠ some .pending := by
  intro hc
  unfold GS.clsGet at hc
  cases hf : s.cls.find? (fun e => e.1 = (c, p)) with
  | none => simp [hf] at hc
  | some e =>
    simp only [hf, Option.map_some, Option.some.injEq] at hc
    have hm := List.mem_of_find?_eq_some hf
    have := List.all_eq_true.mp h e hm
    simp only [decide_eq_true_eq] at this
    exact this hc

theorem findStop_noPending (g : GroupCfg) {s : GS} (h : s.noPending = true) (t p : Nat) (orc : Orc) :
    ∀ (chain : List Node) (pos j : Nat), findStop g s t p orc chain pos ≠ .pendingAt j := by
  intro chain
  induction chain with
  | nil => intro pos j; simp [findStop]
  | cons node rest ih =>
    intro pos j
    unfold findStop
    have hnp := clsGet_noPending h node.cls p
    split
    · next hc => exact absurd hc hnp
    · simp
    · split
      · simp
      · split
        · simp
        · split
          · simp
          · split
            · exact ih _ _
            · simp

def resOf : Stop → Res Val
  | .val v => .ok v
  | .fail => .attrError
  | .pendingAt _ => .outOfFuel

/-- with nothing pending a read changes nothing and is the pure walk -/
theorem getAttr_noPending (g : GroupCfg) {s : GS} (h : s.noPending = true) (n t : Nat)
    (chain : List Node) (pos p : Nat) (orc : Orc) :
    getAttr g (n + 1) s t chain pos p orc = (s, resOf (findStop g s t p orc chain pos)) := by
  unfold getAttr
  have := findStop_noPending g h t p orc chain pos
  cases hfs : findStop g s t p orc chain pos with
  | val v => rfl
  | fail => rfl
  | pendingAt j => exact absurd hfs (this j)

/-- the first two statements of the delayed-load getter / setter: `clearprops(); loader()` -/
def forceAt (g : GroupCfg) (fuel : Nat) (s : GS) : GS × Res Unit :=
  match clearprops g s with
  | (s1, .ok _) => runInit g fuel s1 g.loader 0
  | (s1, .attrError) => (s1, .attrError)
  | (s1, _) => (s1, .otherError)

/-- closed form of a read: the pure walk; if it meets a pending property: force, then the pure
    walk from that object, with the `__getattr__` fallback when that raises `AttributeError` -/
def getSpec (g : GroupCfg) (s s1 : GS) (t : Nat) (chain : List Node) (pos p : Nat) (orc : Orc) :
    GS × Res Val :=
  match findStop g s t p orc chain pos with
  | .val v => (s, .ok v)
  | .fail => (s, .attrError)
  | .pendingAt j =>
    let sub := chain.drop (j - pos)
    match findStop g s1 t p orc sub j with
    | .val v => (s1, .ok v)
    | .pendingAt _ => (s1, .outOfFuel)
    | .fail =>
      match sub with
      | node :: rest =>
        if node.cls.delegates then (s1, resOf (findStop g s1 t p orc rest (j + 1))) else (s1, .attrError)
      | [] => (s1, .attrError)

theorem getAttr_spec (g : GroupCfg) (hget : g.getter = [.clear, .load, .get]) {s s1 : GS} (f : Nat)
    (hf : forceAt g (f + 2) s = (s1, .ok ())) (hnp : s1.noPending = true)
    (t : Nat) (chain : List Node) (pos p : Nat) (orc : Orc) :
    getAttr g (f + 5) s t chain pos p orc = getSpec g s s1 t chain pos p orc := by
  unfold getAttr getSpec
  cases hfs : findStop g s t p orc chain pos with
  | val v => rfl
  | fail => rfl
  | pendingAt j =>
    simp only
    unfold forceAt at hf
    rw [hget]
    unfold runAcc
    simp only
    cases hc : clearprops g s with
    | mk s0 r0 =>
      rw [hc] at hf
      cases r0 with
      | ok u =>
        simp only at hf ⊢
        unfold runAcc
        simp only [hf]
        unfold runAcc
        simp only
        rw [getAttr_noPending g hnp]
        have hno := findStop_noPending g hnp t p orc
        cases hfs1 : findStop g s1 t p orc (List.drop (j - pos) chain) j with
        | val v => rfl
        | pendingAt j' => exact absurd hfs1 (hno _ _ _)
        | fail =>
          simp only [resOf]
          cases hsub : List.drop (j - pos) chain with
          | nil => rfl
          | cons node rest =>
            simp only
            split
            · rw [getAttr_noPending g hnp]
              cases findStop g s1 t p orc rest (j + 1) <;> rfl
            · rfl
      | attrError => simp at hf
      | otherError => simp at hf
      | outOfFuel => simp at hf

end PtLazy

namespace PtLazy

/-- closed form of a user assignment `x.p = v` -/
def setSpec (g : GroupCfg) (s s1 : GS) (chain : List Node) (pos p : Nat) : GS × Res Val :=
  match chain with
  | [] => (s, .attrError)
  | node :: _ =>
    match s.clsGet node.cls p with
    | some .pending =>
      match s1.clsGet node.cls p with
      | some (.desc _ _) => (s1, .attrError)
      | some .pending => (s1, .outOfFuel)
      | _ => (s1, .ok (.user pos))
    | some (.desc _ _) => (s, .attrError)
    | _ => (s, .ok (.user pos))

theorem setAttr_spec (g : GroupCfg) (hset : g.setter = [.clear, .load, .set]) {s s1 : GS} (f : Nat)
    (hf : forceAt g (f + 2) s = (s1, .ok ())) (hnp : s1.noPending = true)
    (t : Nat) (chain : List Node) (pos p : Nat) (orc : Orc) :
    setAttr g (f + 5) s t chain pos p orc .user = setSpec g s s1 chain pos p := by
  unfold setAttr setSpec
  cases chain with
  | nil => rfl
  | cons node rest =>
    simp only
    cases hc0 : s.clsGet node.cls p with
    | none => rfl
    | some ca =>
      cases ca with
      | plain _ _ _ => rfl
      | desc _ _ => rfl
      | pending =>
        simp only
        unfold forceAt at hf
        rw [hset]
        unfold runAcc
        simp only
        cases hc : clearprops g s with
        | mk s0 r0 =>
          rw [hc] at hf
          cases r0 with
          | ok u =>
            simp only at hf ⊢
            unfold runAcc
            simp only [hf]
            unfold runAcc
            simp only
            unfold setAttr
            simp only
            have := clsGet_noPending hnp node.cls p
            cases hc1 : s1.clsGet node.cls p with
            | none => rfl
            | some cb =>
              cases cb with
              | plain _ _ _ => rfl
              | desc _ _ => rfl
              | pending => exact absurd hc1 this
          | attrError => simp at hf
          | otherError => simp at hf
          | outOfFuel => simp at hf

/-- with nothing pending an assignment does not touch the control state -/
theorem setAttr_noPending (g : GroupCfg) {s : GS} (h : s.noPending = true) (n t : Nat)
    (chain : List Node) (pos p : Nat) (orc : Orc) :
    (setAttr g (n + 1) s t chain pos p orc .user).1 = s := by
  unfold setAttr
  cases chain with
  | nil => rfl
  | cons node rest =>
    simp only
    have := clsGet_noPending h node.cls p
    cases hc1 : s.clsGet node.cls p with
    | none => rfl
    | some cb =>
      cases cb with
      | plain _ _ _ => rfl
      | desc _ _ => rfl
      | pending => exact absurd hc1 this

/-- fuel used by the top-level events (`fuel0 = 55 + 5`) for the forced load -/
def forceFuel : Nat := 57

theorem fuel0_eq : fuel0 = 55 + 5 := rfl

end PtLazy

namespace PtLazy

variable {ts : List Nat}

/-! ## reachable control states of one group, by closure -/

def GS.norm (s : GS) : GS := { s with trace := [] }

/-- public table and up to two private tables -/
def tables3 : List Nat := [0, 1, 2]

def okU : Res Unit → Bool
  | .ok _ => true
  | _ => false

/-- control successors: the forced load (when something is pending) and every init of the group
    on every table; the flag says the step succeeded (and, for the forced load, left nothing pending) -/
def succs (ts : List Nat) (g : GroupCfg) (c : GS) : List (GS × Bool) :=
  (if c.noPending then [] else
    [((forceAt g forceFuel c).1.norm,
      okU (forceAt g forceFuel c).2 && (forceAt g forceFuel c).1.noPending)]) ++
  g.inits.flatMap fun mi => ts.map fun t =>
    ((runInit g fuel0 c mi.1 t).1.norm, okU (runInit g fuel0 c mi.1 t).2)

def expand (ts : List Nat) (g : GroupCfg) (R : List GS) : List GS :=
  R.foldl (fun acc c => (succs ts g c).foldl (fun a x => if a.contains x.1 then a else a ++ [x.1]) acc) R

def reach (ts : List Nat) (g : GroupCfg) : List GS :=
  expand ts g (expand ts g (expand ts g (expand ts g (expand ts g (expand ts g [g.initGS])))))

/-- R contains the initial state and is closed under every successful control step -/
def closed (ts : List Nat) (g : GroupCfg) (R : List GS) : Bool :=
  R.contains g.initGS && R.all fun c =>
    c.trace.isEmpty && (succs ts g c).all fun x => x.2 && R.contains x.1

theorem okU_eq {r : Res Unit} (h : okU r = true) : r = .ok () := by
  cases r with
  | ok u => rfl
  | _ => cases h

section closedFacts
variable {g : GroupCfg} {R : List GS} (hcl : closed ts g R = true)
include hcl

theorem closed_init : g.initGS ∈ R := by
  unfold closed at hcl
  simp only [Bool.and_eq_true] at hcl
  exact List.contains_iff_mem.mp hcl.1

theorem closed_at {c : GS} (hc : c ∈ R) :
    c.trace = [] ∧ ∀ x ∈ succs ts g c, x.2 = true ∧ x.1 ∈ R := by
  unfold closed at hcl
  simp only [Bool.and_eq_true, List.all_eq_true] at hcl
  have := hcl.2 c hc
  refine ⟨List.isEmpty_iff.mp this.1, fun x hx => ?_⟩
  have h2 := this.2 x hx
  exact ⟨h2.1, List.contains_iff_mem.mp h2.2⟩

theorem closed_norm {c : GS} (hc : c ∈ R) : c.norm = c := by
  have := (closed_at hcl hc).1
  cases c; simp only [GS.norm] at *; simp [this]

theorem closed_force {c : GS} (hc : c ∈ R) (hp : c.noPending = false) :
    ∃ s1, forceAt g forceFuel c = (s1, .ok ()) ∧ s1.noPending = true ∧ s1.norm ∈ R := by
  have h := (closed_at hcl hc).2 ((forceAt g forceFuel c).1.norm,
      okU (forceAt g forceFuel c).2 && (forceAt g forceFuel c).1.noPending) (by
    unfold succs; simp [hp])
  simp only [Bool.and_eq_true] at h
  refine ⟨(forceAt g forceFuel c).1, ?_, h.1.2, h.2⟩
  have := okU_eq h.1.1
  rw [← this]

theorem closed_runInit {c : GS} (hc : c ∈ R) {m : Nat} {es : List Eff} (hm : (m, es) ∈ g.inits)
    {t : Nat} (ht : t ∈ ts) :
    ∃ c', runInit g fuel0 c m t = (c', .ok ()) ∧ c'.norm ∈ R := by
  have h := (closed_at hcl hc).2 ((runInit g fuel0 c m t).1.norm, okU (runInit g fuel0 c m t).2) (by
    unfold succs
    refine List.mem_append_right _ (List.mem_flatMap.mpr ⟨(m, es), hm, List.mem_map.mpr ⟨t, ht, rfl⟩⟩))
  refine ⟨(runInit g fuel0 c m t).1, ?_, h.2⟩
  have := okU_eq h.1
  rw [← this]

end closedFacts

/-- events of one group that the theorems range over: tables 0..2, inits of the group -/
def GEvent.ok3 (ts : List Nat) (g : GroupCfg) : GEvent → Prop
  | .init m t => t ∈ ts ∧ ∃ es, (m, es) ∈ g.inits
  | _ => True

/-- **control closure**: from a state of R every event of the group – whatever atom, route, user
    values – leads to a state of R -/
theorem gstep_closed {g : GroupCfg} (hget : g.getter = [.clear, .load, .get])
    (hset : g.setter = [.clear, .load, .set]) {R : List GS} (hcl : closed ts g R = true)
    {c : GS} (hc : c ∈ R) (orc : Orc) (ev : GEvent) (hev : ev.ok3 ts g) :
    (gstep g c orc ev).1.norm ∈ R := by
  have hnorm := closed_norm hcl hc
  -- reads and hasattr share the state component
  have hread : ∀ t chain p, (getAttr g fuel0 c t chain 0 p orc).1.norm ∈ R := by
    intro t chain p
    cases hp : c.noPending with
    | true =>
      rw [fuel0_eq, getAttr_noPending g hp]; simp only; rw [hnorm]; exact hc
    | false =>
      obtain ⟨s1, hf, hnp, hs1⟩ := closed_force hcl hc hp
      rw [fuel0_eq, getAttr_spec g hget 55 hf hnp]
      unfold getSpec
      split
      · simp only; rw [hnorm]; exact hc
      · simp only; rw [hnorm]; exact hc
      · simp only
        split
        · exact hs1
        · exact hs1
        · split
          · split <;> exact hs1
          · exact hs1
  cases ev with
  | read t chain p => exact hread t chain p
  | has t chain p =>
    have := hread t chain p
    simp only [gstep]
    split <;> simp_all
  | init m t =>
    obtain ⟨ht, es, hm⟩ := hev
    obtain ⟨c', hr, hc'⟩ := closed_runInit hcl hc hm ht
    simp only [gstep, hr]
    exact hc'
  | assign t chain p =>
    have hset' : (setAttr g fuel0 c t chain 0 p orc .user).1.norm ∈ R := by
      cases hp : c.noPending with
      | true => rw [fuel0_eq, setAttr_noPending g hp]; rw [hnorm]; exact hc
      | false =>
        obtain ⟨s1, hf, hnp, hs1⟩ := closed_force hcl hc hp
        rw [fuel0_eq, setAttr_spec g hset 55 hf hnp]
        unfold setSpec
        split
        · simp only; rw [hnorm]; exact hc
        · split
          · split <;> exact hs1
          · simp only; rw [hnorm]; exact hc
          · simp only; rw [hnorm]; exact hc
    simp only [gstep]
    split <;> simp_all

end PtLazy

namespace PtLazy
variable {ts : List Nat}

/-! ## a read only looks at the class of each object and at which of the group's write effects
select it: a finite alphabet of chains -/

/-- all (init, index) positions of the group's effect lists -/
def allPositions (g : GroupCfg) : List (Nat × Nat) :=
  g.inits.flatMap fun mi => (List.range mi.2.length).map fun k => (mi.1, k)

/-- the per-instance write effects of the group on objects of class c -/
def writesOn (g : GroupCfg) (c : Cls) : List (Nat × Nat) :=
  (allPositions g).filter fun ik =>
    match g.eff? ik.1 ik.2 with
    | some (.instWrite c' _ _ _) => c' = c
    | _ => false

theorem mem_writesOn {g : GroupCfg} {i k : Nat} {c : Cls} {p : Nat} {sel : Sel} {sh : Bool}
    (h : g.eff? i k = some (.instWrite c p sel sh)) : (i, k) ∈ writesOn g c := by
  unfold writesOn
  refine List.mem_filter.mpr ⟨?_, by simp [h]⟩
  unfold GroupCfg.eff? GroupCfg.effsOf at h
  cases hf : g.inits.find? (fun x => x.1 = i) with
  | none => simp [hf] at h
  | some mi =>
    simp only [hf, Option.map_some] at h
    have hmem := List.mem_of_find?_eq_some hf
    have hi := List.find?_some hf
    simp only [decide_eq_true_eq] at hi
    have hk : k < mi.2.length := by
      rcases Nat.lt_or_ge k mi.2.length with h1 | h1
      · exact h1
      · rw [List.getElem?_eq_none h1] at h; cases h
    unfold allPositions
    exact List.mem_flatMap.mpr ⟨mi, hmem, List.mem_map.mpr ⟨k, List.mem_range.mpr hk, by rw [hi]⟩⟩

def normNode (g : GroupCfg) (n : Node) : Node :=
  ⟨n.cls, 0, (writesOn g n.cls).filter fun ik => n.rows.contains ik⟩

theorem find?_congr' {α : Type} {p q : α → Bool} : ∀ {l : List α}, (∀ x ∈ l, p x = q x) →
    l.find? p = l.find? q
  | [], _ => rfl
  | x :: xs, h => by
    simp only [List.find?_cons, h x (List.mem_cons_self ..)]
    rw [find?_congr' (fun y hy => h y (List.mem_cons_of_mem _ hy))]

theorem instData_norm (g : GroupCfg) (s : GS) (t : Nat) (n : Node) (p : Nat) :
    s.instData g t (normNode g n) p = s.instData g t n p := by
  unfold GS.instData
  congr 1
  apply find?_congr'
  intro x _
  obtain ⟨t', i, k⟩ := x
  simp only [normNode]
  cases he : g.eff? i k with
  | none => simp
  | some e =>
    cases e with
    | instWrite c p' sel sh =>
      simp only
      by_cases hc : c = n.cls
      · subst hc
        have hm := mem_writesOn he
        have : (List.filter (fun ik => n.rows.contains ik) (writesOn g n.cls)).contains (i, k)
            = n.rows.contains (i, k) := by
          cases hr : n.rows.contains (i, k) with
          | true =>
            exact List.contains_iff_mem.mpr (List.mem_filter.mpr ⟨hm, hr⟩)
          | false =>
            cases hx : (List.filter (fun ik => n.rows.contains ik) (writesOn g n.cls)).contains (i, k) with
            | false => rfl
            | true =>
              have := (List.mem_filter.mp (List.contains_iff_mem.mp hx)).2
              rw [hr] at this; cases this
        rw [this]
        try rfl
      · simp [hc]
    | _ => simp

theorem findStop_norm (g : GroupCfg) (s : GS) (t p : Nat) (orc : Orc) :
    ∀ (chain : List Node) (pos : Nat),
      findStop g s t p orc (chain.map (normNode g)) pos = findStop g s t p orc chain pos := by
  intro chain
  induction chain with
  | nil => intro pos; rfl
  | cons n rest ih =>
    intro pos
    simp only [List.map_cons]
    unfold findStop
    have hcls : (normNode g n).cls = n.cls := rfl
    rw [hcls, instData_norm, ih]

theorem getSpec_norm (g : GroupCfg) (s s1 : GS) (t : Nat) (chain : List Node) (pos p : Nat) (orc : Orc) :
    getSpec g s s1 t (chain.map (normNode g)) pos p orc = getSpec g s s1 t chain pos p orc := by
  unfold getSpec
  rw [findStop_norm]
  cases findStop g s t p orc chain pos with
  | val v => rfl
  | fail => rfl
  | pendingAt j =>
    simp only
    rw [← List.map_drop, findStop_norm]
    cases findStop g s1 t p orc (List.drop (j - pos) chain) j with
    | val v => rfl
    | pendingAt _ => rfl
    | fail =>
      simp only
      cases List.drop (j - pos) chain with
      | nil => rfl
      | cons n rest =>
        simp only [List.map_cons]
        have hcls : (normNode g n).cls = n.cls := rfl
        rw [hcls, findStop_norm]

/-! subsets -/

def subsets {α : Type} : List α → List (List α)
  | [] => [[]]
  | x :: xs => (subsets xs).map (x :: ·) ++ subsets xs

theorem filter_mem_subsets {α : Type} (f : α → Bool) : ∀ l : List α, l.filter f ∈ subsets l
  | [] => by simp [subsets]
  | x :: xs => by
    have ih := filter_mem_subsets f xs
    simp only [List.filter_cons, subsets]
    split
    · exact List.mem_append_left _ (List.mem_map.mpr ⟨_, ih, rfl⟩)
    · exact List.mem_append_right _ ih

def nodesOf (g : GroupCfg) (c : Cls) : List Node := (subsets (writesOn g c)).map fun r => ⟨c, 0, r⟩

theorem normNode_mem (g : GroupCfg) (n : Node) : normNode g n ∈ nodesOf g n.cls :=
  List.mem_map.mpr ⟨_, filter_mem_subsets _ _, rfl⟩

/-- the delegation chains of real atoms: element; isotope → element; ion → element;
    ion → isotope → element -/
def chainsOf (g : GroupCfg) : List (List Node) :=
  (nodesOf g .element).map (fun e => [e]) ++
  (nodesOf g .isotope).flatMap (fun i => (nodesOf g .element).map fun e => [i, e]) ++
  (nodesOf g .ion).flatMap (fun n => (nodesOf g .element).map fun e => [n, e]) ++
  (nodesOf g .ion).flatMap (fun n => (nodesOf g .isotope).flatMap fun i =>
    (nodesOf g .element).map fun e => [n, i, e])

def ChainOK (chain : List Node) : Prop :=
  chain.map (·.cls) = [.element] ∨ chain.map (·.cls) = [.isotope, .element] ∨
  chain.map (·.cls) = [.ion, .element] ∨ chain.map (·.cls) = [.ion, .isotope, .element]

instance (chain : List Node) : Decidable (ChainOK chain) := by unfold ChainOK; exact inferInstance

theorem map_cls_one {chain : List Node} {a : Cls} (h : chain.map (·.cls) = [a]) :
    ∃ e, chain = [e] ∧ e.cls = a := by
  cases chain with
  | nil => simp at h
  | cons e r =>
    cases r with
    | nil => simp at h; exact ⟨e, rfl, h⟩
    | cons _ _ => simp at h

theorem map_cls_two {chain : List Node} {a b : Cls} (h : chain.map (·.cls) = [a, b]) :
    ∃ x y, chain = [x, y] ∧ x.cls = a ∧ y.cls = b := by
  cases chain with
  | nil => simp at h
  | cons x r =>
    simp only [List.map_cons, List.cons.injEq] at h
    obtain ⟨y, hy, hb⟩ := map_cls_one h.2
    exact ⟨x, y, by rw [hy], h.1, hb⟩

theorem map_cls_three {chain : List Node} {a b c : Cls} (h : chain.map (·.cls) = [a, b, c]) :
    ∃ x y z, chain = [x, y, z] ∧ x.cls = a ∧ y.cls = b ∧ z.cls = c := by
  cases chain with
  | nil => simp at h
  | cons x r =>
    simp only [List.map_cons, List.cons.injEq] at h
    obtain ⟨y, z, hyz, hb, hc⟩ := map_cls_two h.2
    exact ⟨x, y, z, by rw [hyz], h.1, hb, hc⟩

theorem norm_mem_chainsOf (g : GroupCfg) {chain : List Node} (h : ChainOK chain) :
    chain.map (normNode g) ∈ chainsOf g := by
  unfold chainsOf
  rcases h with h | h | h | h
  · obtain ⟨e, rfl, he⟩ := map_cls_one h
    refine List.mem_append_left _ (List.mem_append_left _ (List.mem_append_left _ ?_))
    exact List.mem_map.mpr ⟨normNode g e, by rw [← he]; exact normNode_mem g e, rfl⟩
  · obtain ⟨i, e, rfl, hi, he⟩ := map_cls_two h
    refine List.mem_append_left _ (List.mem_append_left _ (List.mem_append_right _ ?_))
    exact List.mem_flatMap.mpr ⟨normNode g i, by rw [← hi]; exact normNode_mem g i,
      List.mem_map.mpr ⟨normNode g e, by rw [← he]; exact normNode_mem g e, rfl⟩⟩
  · obtain ⟨n, e, rfl, hn, he⟩ := map_cls_two h
    refine List.mem_append_left _ (List.mem_append_right _ ?_)
    exact List.mem_flatMap.mpr ⟨normNode g n, by rw [← hn]; exact normNode_mem g n,
      List.mem_map.mpr ⟨normNode g e, by rw [← he]; exact normNode_mem g e, rfl⟩⟩
  · obtain ⟨n, i, e, rfl, hn, hi, he⟩ := map_cls_three h
    refine List.mem_append_right _ ?_
    exact List.mem_flatMap.mpr ⟨normNode g n, by rw [← hn]; exact normNode_mem g n,
      List.mem_flatMap.mpr ⟨normNode g i, by rw [← hi]; exact normNode_mem g i,
        List.mem_map.mpr ⟨normNode g e, by rw [← he]; exact normNode_mem g e, rfl⟩⟩⟩

end PtLazy

namespace PtLazy
variable {ts : List Nat}

/-! ## what a read serves, in closed form; the decidable conditions on a group -/

/-- what `getattr` returns in control state c -/
def readVal (g : GroupCfg) (c : GS) (t : Nat) (chain : List Node) (p : Nat) (orc : Orc) : Res Val :=
  (getSpec g c (forceAt g forceFuel c).1 t chain 0 p orc).2

theorem getAttr_readVal {g : GroupCfg} (hget : g.getter = [.clear, .load, .get]) {R : List GS}
    (hcl : closed ts g R = true) {c : GS} (hc : c ∈ R) (t : Nat) (chain : List Node) (p : Nat) (orc : Orc) :
    (getAttr g fuel0 c t chain 0 p orc).2 = readVal g c t chain p orc := by
  unfold readVal
  cases hp : c.noPending with
  | true =>
    rw [fuel0_eq, getAttr_noPending g hp]
    unfold getSpec
    have := findStop_noPending g hp t p orc chain 0
    cases hfs : findStop g c t p orc chain 0 with
    | val v => rfl
    | fail => rfl
    | pendingAt j => exact absurd hfs (this j)
  | false =>
    obtain ⟨s1, hf, hnp, _⟩ := closed_force hcl hc hp
    rw [fuel0_eq, getAttr_spec g hget 55 hf hnp]
    have : (forceAt g forceFuel c).1 = s1 := by rw [hf]
    rw [this]

theorem readVal_norm (g : GroupCfg) (c : GS) (t : Nat) (chain : List Node) (p : Nat) (orc : Orc) :
    readVal g c t (chain.map (normNode g)) p orc = readVal g c t chain p orc := by
  unfold readVal; rw [getSpec_norm]

/-- a class-level plain value is the same *value* whichever table's init run created the object -/
def Val.strip : Val → Val
  | .dflt i v _ m => .dflt i v 0 m
  | v => v

def Res.strip : Res Val → Res Val
  | .ok v => .ok v.strip
  | r => r

/-- every control state of R serves, for every atom profile and attribute of the group, what the
    initial state (a fresh interpreter) serves on the public table -/
def publicSame (g : GroupCfg) (R : List GS) : Bool :=
  R.all fun c => (chainsOf g).all fun ch => g.attrs.all fun p =>
    decide ((readVal g c 0 ch p noUser).strip = (readVal g g.initGS 0 ch p noUser).strip)

/-- no loader stores a module-level mutable object by reference -/
def noShared (g : GroupCfg) : Bool :=
  g.inits.all fun mi => mi.2.all fun e =>
    match e with
    | .instWrite _ _ _ sh => !sh
    | _ => true

/-- the decidable safety condition on one registration group -/
def SafeG (ts : List Nat) (g : GroupCfg) : Bool :=
  decide (g.getter = [.clear, .load, .get]) && decide (g.setter = [.clear, .load, .set]) &&
  closed ts g (reach ts g) && publicSame g (reach ts g)

theorem publicSame_at {g : GroupCfg} {R : List GS} (h : publicSame g R = true) {c : GS} (hc : c ∈ R)
    {chain : List Node} (hch : ChainOK chain) {p : Nat} (hp : p ∈ g.attrs) :
    (readVal g c 0 chain p noUser).strip = (readVal g g.initGS 0 chain p noUser).strip := by
  unfold publicSame at h
  simp only [List.all_eq_true, decide_eq_true_eq] at h
  have := h c hc _ (norm_mem_chainsOf g hch) p hp
  rw [readVal_norm, readVal_norm] at this
  exact this

theorem sharedEff_false {g : GroupCfg} (h : noShared g = true) (i k : Nat) : g.sharedEff i k = false := by
  unfold GroupCfg.sharedEff
  cases he : g.eff? i k with
  | none => rfl
  | some e =>
    cases e with
    | instWrite c p sel sh =>
      simp only
      unfold GroupCfg.eff? GroupCfg.effsOf at he
      cases hf : g.inits.find? (fun x => x.1 = i) with
      | none => simp [hf] at he
      | some mi =>
        simp only [hf, Option.map_some] at he
        have hmem := List.mem_of_find?_eq_some hf
        unfold noShared at h
        simp only [List.all_eq_true] at h
        have := h mi hmem _ (List.mem_of_getElem? he)
        simpa using this
    | _ => rfl

end PtLazy

namespace PtLazy
variable {ts : List Nat}

/-! ## the whole machine -/

/-- the log holds only user values and mutation marks of private tables -/
def LogOK (log : List LEntry) : Prop :=
  ∀ e ∈ log, match e with
    | .user t _ _ _ _ _ => t ≠ 0
    | .mark scope _ _ _ _ => ∃ t, scope = some t ∧ t ≠ 0

/-- the decidable safety condition on a configuration -/
def SafeCfg (ts : List Nat) (cfg : Config) : Bool := cfg.groups.all (SafeG ts)

theorem safeCfg_at {cfg : Config} (h : SafeCfg ts cfg = true) {gi : Nat} {g : GroupCfg}
    (hg : cfg.groups[gi]? = some g) :
    g.getter = [.clear, .load, .get] ∧ g.setter = [.clear, .load, .set] ∧
    closed ts g (reach ts g) = true ∧ publicSame g (reach ts g) = true := by
  unfold SafeCfg at h
  have := List.all_eq_true.mp h g (List.mem_of_getElem? hg)
  unfold SafeG at this
  simp only [Bool.and_eq_true, decide_eq_true_eq] at this
  exact ⟨this.1.1.1, this.1.1.2, this.1.2, this.2⟩

structure GInv (ts : List Nat) (cfg : Config) (s : State) : Prop where
  len : s.gs.length = cfg.groups.length
  inR : ∀ (gi : Nat) (g : GroupCfg) (c : GS), cfg.groups[gi]? = some g → s.gs[gi]? = some c → c ∈ reach ts g
  log : LogOK s.log

theorem ginv_init {cfg : Config} (h : SafeCfg ts cfg = true) : GInv ts cfg cfg.init := by
  refine ⟨by simp [Config.init], ?_, ?_⟩
  · intro gi g c hg hc
    simp only [Config.init, List.getElem?_map, hg, Option.map_some, Option.some.injEq] at hc
    rw [← hc]
    exact closed_init (safeCfg_at h hg).2.2.1
  · intro e he; simp [Config.init] at he

theorem applyTrace_subset (g : GroupCfg) (log : List LEntry) :
    ∀ (tr : List TraceItem) (e : LEntry), e ∈ applyTrace g log tr → e ∈ log := by
  intro tr
  induction tr with
  | nil => intro e he; exact he
  | cons item older ih =>
    intro e he
    unfold applyTrace at he
    simp only at he
    cases item with
    | wrote t i k =>
      simp only at he
      split at he
      · exact ih e (List.mem_filter.mp he).1
      · exact ih e he
    | delAttr t p =>
      simp only at he
      exact ih e (List.mem_filter.mp he).1

theorem LogOK.subset {log log' : List LEntry} (h : LogOK log) (hs : ∀ e ∈ log', e ∈ log) : LogOK log' :=
  fun e he => h e (hs e he)

/-- one group event keeps the invariant -/
theorem stepG_inv {cfg : Config} (hsafe : SafeCfg ts cfg = true) {s : State} (hinv : GInv ts cfg s)
    (gi : Nat) (orc : Orc) (ev : GEvent)
    (hev : ∀ g, cfg.groups[gi]? = some g → ev.ok3 ts g) :
    GInv ts cfg (stepG cfg s gi orc ev).1 ∧ ∀ e ∈ (stepG cfg s gi orc ev).1.log, e ∈ s.log := by
  unfold stepG
  cases hg : cfg.groups[gi]? with
  | none => simp only; exact ⟨hinv, fun _ h => h⟩
  | some g =>
    cases hc : s.gs[gi]? with
    | none => simp only; exact ⟨hinv, fun _ h => h⟩
    | some c =>
      simp only
      have hs := safeCfg_at hsafe hg
      have hcR := hinv.inR gi g c hg hc
      have hnew := gstep_closed hs.1 hs.2.1 hs.2.2.1 hcR orc ev (hev g hg)
      have hsub : ∀ e ∈ applyTrace g s.log (gstep g c orc ev).1.trace, e ∈ s.log :=
        applyTrace_subset g s.log _
      refine ⟨⟨by simp [hinv.len], ?_, hinv.log.subset hsub⟩, hsub⟩
      intro gj g' c' hg' hc'
      simp only [List.getElem?_set] at hc'
      split at hc'
      · next hij =>
        subst hij
        split at hc'
        · cases hc'
          rw [hg] at hg'; cases hg'
          exact hnew
        · cases hc'
      · exact hinv.inR gj g' c' hg' hc'

end PtLazy

namespace PtLazy
variable {ts : List Nat}

/-- events the theorems range over: the public table and up to two private tables; assignment and
    in-place mutation only on private tables; and no in-place mutation of a class-level default
    object (finding D19: the `Neutron()` placeholder is shared by all tables) -/
def evOK (ts : List Nat) (cfg : Config) (s : State) : Event → Prop
  | .read t _ _ => t ∈ ts
  | .has t _ _ => t ∈ ts
  | .init _ t => t ∈ ts
  | .importMod _ => True
  | .assign t _ _ _ => t ∈ ts ∧ t ≠ 0
  | .mutate t chain p _ => t ∈ ts ∧ t ≠ 0 ∧
      ∀ gi, cfg.groupOf p = some gi → ∀ i v t' m,
        (stepG cfg s gi (orcOf s.log t chain p) (.read t chain p)).2 ≠ .val (.dflt i v t' m)

def runOK (ts : List Nat) (cfg : Config) : State → List Event → Prop
  | _, [] => True
  | s, e :: es => evOK ts cfg s e ∧ runOK ts cfg (step cfg s e).1 es

theorem ginv_of_gs_log {cfg : Config} {s s' : State} (h : GInv ts cfg s) (hgs : s'.gs = s.gs)
    (hlog : LogOK s'.log) : GInv ts cfg s' :=
  ⟨by rw [hgs]; exact h.len, by rw [hgs]; exact h.inR, hlog⟩

theorem stepInit_inv {cfg : Config} (hsafe : SafeCfg ts cfg = true) (m t : Nat) (ht : t ∈ ts) :
    ∀ (l : List Nat) (s : State) (o : Out), GInv ts cfg s →
      GInv ts cfg (l.foldl (fun (acc : State × Out) gi =>
        match cfg.groups[gi]? with
        | some g =>
          if (g.effsOf m).isSome then
            let (s1, o) := stepG cfg acc.1 gi noUser (.init m t)
            (s1, if acc.2 = .done then o else acc.2)
          else acc
        | none => acc) (s, o)).1 := by
  intro l
  induction l with
  | nil => intro s o h; exact h
  | cons gi l ih =>
    intro s o h
    simp only [List.foldl_cons]
    cases hg : cfg.groups[gi]? with
    | none => simp only; exact ih s o h
    | some g =>
      simp only
      split
      · next hsome =>
        apply ih
        refine (stepG_inv hsafe h gi noUser (.init m t) ?_).1
        intro g' hg'
        rw [hg] at hg'; cases hg'
        refine ⟨ht, ?_⟩
        unfold GroupCfg.effsOf at hsome
        cases hf : g.inits.find? (fun x => x.1 = m) with
        | none => simp [hf] at hsome
        | some mi =>
          have hmem := List.mem_of_find?_eq_some hf
          have hi := List.find?_some hf
          simp only [decide_eq_true_eq] at hi
          exact ⟨mi.2, by rw [← hi]; exact hmem⟩
      · exact ih s o h

def Event.isMutate : Event → Bool
  | .mutate _ _ _ _ => true
  | _ => false

/-- no loader of the configuration stores a module-level mutable object by reference -/
def NoSharedCfg (cfg : Config) : Prop := ∀ g ∈ cfg.groups, noShared g = true

theorem ginv_step {cfg : Config} (hsafe : SafeCfg ts cfg = true) {s : State} (hinv : GInv ts cfg s)
    (e : Event) (hev : evOK ts cfg s e) (hsh : e.isMutate = true → NoSharedCfg cfg) :
    GInv ts cfg (step cfg s e).1 := by
  cases e with
  | read t chain p =>
    simp only [step]
    cases hgi : cfg.groupOf p with
    | none => exact hinv
    | some gi => exact (stepG_inv hsafe hinv gi _ (.read t chain p) (fun _ _ => trivial)).1
  | has t chain p =>
    simp only [step]
    cases hgi : cfg.groupOf p with
    | none => exact hinv
    | some gi => exact (stepG_inv hsafe hinv gi _ (.has t chain p) (fun _ _ => trivial)).1
  | init m t =>
    simp only [step, stepInit]
    exact stepInit_inv hsafe m t hev _ s .done hinv
  | importMod m =>
    simp only [step]
    split
    · next reads _ =>
      simp only
      have : ∀ (l : List (Cls × Nat)) (st : State), GInv ts cfg st →
          GInv ts cfg (l.foldl (fun st (cp : Cls × Nat) =>
            match cfg.groupOf cp.2 with
            | some gi => (stepG cfg st gi noUser (.read 0 (bareChain cp.1) cp.2)).1
            | none => st) st) := by
        intro l
        induction l with
        | nil => intro st h; exact h
        | cons cp l ih =>
          intro st h
          simp only [List.foldl_cons]
          apply ih
          split
          · next gi _ => exact (stepG_inv hsafe h gi noUser (.read 0 (bareChain cp.1) cp.2) (fun _ _ => trivial)).1
          · exact h
      exact this _ s hinv
    · exact hinv
  | assign t chain p v =>
    simp only [step]
    split
    · next gi node rest hgi =>
      have hst := stepG_inv hsafe hinv gi (orcOf s.log t (node :: rest) p) (.assign t (node :: rest) p)
        (fun _ _ => trivial)
      generalize stepG cfg s gi (orcOf s.log t (node :: rest) p) (.assign t (node :: rest) p) = r at hst
      obtain ⟨s1, o⟩ := r
      simp only at hst ⊢
      cases o with
      | done =>
        simp only
        refine ginv_of_gs_log hst.1 rfl ?_
        intro e he
        rcases List.mem_cons.mp he with rfl | he'
        · exact hev.2
        · exact hst.1.log e (List.mem_filter.mp he').1
      | _ => exact hst.1
    · exact hinv
  | mutate t chain p n =>
    simp only [step]
    cases hgi : cfg.groupOf p with
    | none => exact hinv
    | some gi =>
      simp only
      have hst := stepG_inv hsafe hinv gi (orcOf s.log t chain p) (.read t chain p) (fun _ _ => trivial)
      have hnd := hev.2.2 gi hgi
      generalize stepG cfg s gi (orcOf s.log t chain p) (.read t chain p) = r at hst hnd
      obtain ⟨s1, o⟩ := r
      simp only at hst hnd ⊢
      have hmark : ∀ (sc : Nat) a src, sc ≠ 0 →
          GInv ts cfg { s1 with log := addMark s1.log (.mark (some sc) a p src n) } := by
        intro sc a src hsc
        refine ginv_of_gs_log hst.1 rfl ?_
        intro e he
        unfold addMark at he
        split at he
        · exact hst.1.log e he
        · rcases List.mem_cons.mp he with rfl | he'
          · exact ⟨sc, rfl, hsc⟩
          · exact hst.1.log e he'
      cases hg : cfg.groups[gi]? with
      | none => simp only; exact hst.1
      | some g =>
        have hns := hsh rfl g (List.mem_of_getElem? hg)
        cases o with
        | val v =>
          cases v with
          | data i k m =>
            simp only [sharedEff_false hns, Bool.false_eq_true, ↓reduceIte]
            exact hmark t _ _ hev.2.1
          | user pos => simp only; exact hst.1
          | dflt i v t' m => exact absurd rfl (hnd i v t' m)
          | computed i k pos => simp only; exact hmark t _ _ hev.2.1
        | attrError => simp only; exact hst.1
        | _ => simp only; exact hst.1

theorem ginv_run {cfg : Config} (hsafe : SafeCfg ts cfg = true) :
    ∀ (h : List Event) (s : State), GInv ts cfg s → runOK ts cfg s h →
      (∀ e ∈ h, e.isMutate = true → NoSharedCfg cfg) → GInv ts cfg (run cfg s h)
  | [], _, hi, _, _ => hi
  | e :: es, s, hi, hr, hsh =>
    ginv_run hsafe es _ (ginv_step hsafe hi e hr.1 (hsh e (List.mem_cons_self ..))) hr.2
      (fun e' he' => hsh e' (List.mem_cons_of_mem _ he'))

end PtLazy

namespace PtLazy
variable {ts : List Nat}

/-! ## what the public table serves never depends on the history -/

theorem groupOf_some {cfg : Config} {p gi : Nat} (h : cfg.groupOf p = some gi) :
    ∃ g, cfg.groups[gi]? = some g ∧ p ∈ g.attrs := by
  unfold Config.groupOf at h
  obtain ⟨hlt, hp, _⟩ := List.findIdx?_eq_some_iff_getElem.mp h
  exact ⟨cfg.groups[gi], List.getElem?_eq_getElem hlt, List.contains_iff_mem.mp hp⟩

theorem userVal_public {log : List LEntry} (h : LogOK log) (node : Node) (p : Nat) :
    userVal log 0 node p = none := by
  unfold userVal
  apply List.findSome?_eq_none_iff.mpr
  intro e he
  have := h e he
  cases e with
  | user t a c r p' v =>
    simp only at this ⊢
    split
    · next hc => exact absurd hc.1 this
    · rfl
  | mark _ _ _ _ _ => rfl

theorem orcOf_public {log : List LEntry} (h : LogOK log) (chain : List Node) (p : Nat) :
    orcOf log 0 chain p = noUser := by
  funext pos
  unfold orcOf noUser
  cases chain[pos]? with
  | none => rfl
  | some node => simp [userVal_public h node p]

theorem marksOf_public {log : List LEntry} (h : LogOK log) (sc : Option Nat)
    (hsc : sc = none ∨ sc = some 0) (a p : Nat) (src : Nat × Nat) : marksOf log sc a p src = [] := by
  unfold marksOf
  have : List.filterMap (markOf sc a p src) log = [] := by
    apply List.filterMap_eq_nil_iff.mpr
    intro e he
    have := h e he
    cases e with
    | user _ _ _ _ _ _ => rfl
    | mark sc' a' p' s n =>
      simp only [markOf] at this ⊢
      obtain ⟨t, hsct, ht⟩ := this
      split
      · next hc =>
        rcases hsc with rfl | rfl
        · rw [hsct] at hc; exact absurd hc.1 (by simp)
        · rw [hsct] at hc; simp only [Option.some.injEq] at hc; exact absurd hc.1 ht
      · rfl
  rw [this, List.mergeSort_nil]

def Res.toOut' : Res Val → Out := Res.toOut

/-- on the public table, with only private-table entries in the log, what is served is a function
    of the (table-independent) value alone -/
theorem serve_public {g : GroupCfg} {log log' : List LEntry}
    (h : LogOK log) (h' : LogOK log') (chain : List Node) (p : Nat) {r r' : Res Val}
    (hr : r.strip = r'.strip) :
    serve g log 0 chain p r.toOut = serve g log' 0 chain p r'.toOut := by
  cases r with
  | ok v =>
    cases r' with
    | ok v' =>
      simp only [Res.strip, Res.ok.injEq] at hr
      cases v with
      | data i k m =>
        cases v' <;> simp only [Val.strip] at hr <;> try cases hr
        simp only [Res.toOut, serve]
        cases g.sharedEff i k
        · simp only [Bool.false_eq_true, ↓reduceIte]
          rw [marksOf_public h _ (.inr rfl), marksOf_public h' _ (.inr rfl)]
        · simp only [↓reduceIte]
          rw [marksOf_public h _ (.inl rfl), marksOf_public h' _ (.inl rfl)]
      | user pos =>
        cases v' <;> simp only [Val.strip] at hr <;> try cases hr
        simp only [Res.toOut, serve]
        cases chain[pos]? with
        | none => rfl
        | some node => simp [userVal_public h, userVal_public h']
      | dflt i v t m =>
        cases v' <;> simp only [Val.strip] at hr <;> try cases hr
        simp only [Res.toOut, serve]
        rw [marksOf_public h _ (.inl rfl), marksOf_public h' _ (.inl rfl)]
      | computed i k pos =>
        cases v' <;> simp only [Val.strip] at hr <;> try cases hr
        simp only [Res.toOut, serve]
        rw [marksOf_public h _ (.inr rfl), marksOf_public h' _ (.inr rfl)]
    | _ => simp [Res.strip] at hr
  | attrError => cases r' <;> simp [Res.strip] at hr <;> rfl
  | otherError => cases r' <;> simp [Res.strip] at hr <;> rfl
  | outOfFuel => cases r' <;> simp [Res.strip] at hr <;> rfl

end PtLazy

namespace PtLazy
variable {ts : List Nat}

theorem gstep_read_out {g : GroupCfg} (hget : g.getter = [.clear, .load, .get])
    (hcl : closed ts g (reach ts g) = true) {c : GS} (hc : c ∈ reach ts g) (t : Nat) (chain : List Node)
    (p : Nat) (orc : Orc) :
    (gstep g c orc (.read t chain p)).2 = (readVal g c t chain p orc).toOut := by
  simp only [gstep]
  rw [getAttr_readVal hget hcl hc]

/-- outcome of `hasattr` from the outcome of the read -/
def hasOut : Res Val → Out
  | .ok _ => .bool true
  | .attrError => .bool false
  | .otherError => .otherError
  | .outOfFuel => .outOfFuel

theorem gstep_has_out {g : GroupCfg} (hget : g.getter = [.clear, .load, .get])
    (hcl : closed ts g (reach ts g) = true) {c : GS} (hc : c ∈ reach ts g) (t : Nat) (chain : List Node)
    (p : Nat) (orc : Orc) :
    (gstep g c orc (.has t chain p)).2 = hasOut (readVal g c t chain p orc) := by
  have := getAttr_readVal hget hcl hc t chain p orc
  simp only [gstep]
  generalize getAttr g fuel0 c t chain 0 p orc = r at this
  obtain ⟨s1, r1⟩ := r
  simp only at this
  subst this
  cases readVal g c t chain p orc <;> rfl

/-- the outcome and the log part of a group step, unfolded -/
theorem stepG_some {cfg : Config} {s : State} {gi : Nat} {g : GroupCfg} {c : GS}
    (hg : cfg.groups[gi]? = some g) (hc : s.gs[gi]? = some c) (orc : Orc) (e : GEvent) :
    (stepG cfg s gi orc e).2 = (gstep g c orc e).2 ∧
    (stepG cfg s gi orc e).1.log = applyTrace g s.log (gstep g c orc e).1.trace := by
  simp [stepG, hg, hc]

/-- **served = canon**: in every reachable state a read of the public table – through any atom,
    by any route – serves what a fresh interpreter serves -/
theorem public_read_canon {cfg : Config} (hsafe : SafeCfg ts cfg = true) {s : State} (hinv : GInv ts cfg s)
    (chain : List Node) (hch : ChainOK chain) (p : Nat) :
    (step cfg s (.read 0 chain p)).2 = canon cfg (.read 0 chain p) := by
  unfold canon
  simp only [step]
  cases hgi : cfg.groupOf p with
  | none => rfl
  | some gi =>
    obtain ⟨g, hg, hp⟩ := groupOf_some hgi
    have hs := safeCfg_at hsafe hg
    have hlt : gi < s.gs.length := by
      rw [hinv.len]; exact (List.getElem?_eq_some_iff.mp hg).1
    have hc : s.gs[gi]? = some s.gs[gi] := List.getElem?_eq_getElem hlt
    have hcR := hinv.inR gi g _ hg hc
    have hinit := ginv_init hsafe
    have hlt0 : gi < cfg.init.gs.length := by
      rw [hinit.len]; exact (List.getElem?_eq_some_iff.mp hg).1
    have hc0 : cfg.init.gs[gi]? = some cfg.init.gs[gi] := List.getElem?_eq_getElem hlt0
    have hc0R := hinit.inR gi g _ hg hc0
    have hc0eq : cfg.init.gs[gi] = g.initGS := by
      have : cfg.init.gs[gi]? = some g.initGS := by simp [Config.init, List.getElem?_map, hg]
      rw [hc0] at this; exact Option.some.inj this
    simp only [hg]
    rw [orcOf_public hinv.log, orcOf_public hinit.log]
    obtain ⟨ho, hl⟩ := stepG_some hg hc noUser (.read 0 chain p)
    obtain ⟨ho0, hl0⟩ := stepG_some hg hc0 noUser (.read 0 chain p)
    rw [ho, ho0]
    rw [gstep_read_out hs.1 hs.2.2.1 hcR, gstep_read_out hs.1 hs.2.2.1 hc0R]
    apply serve_public
    · rw [hl]; exact hinv.log.subset (applyTrace_subset g _ _)
    · rw [hl0]; exact hinit.log.subset (applyTrace_subset g _ _)
    · rw [hc0eq]
      exact (publicSame_at hs.2.2.2 hcR hch hp).trans
        (publicSame_at hs.2.2.2 (closed_init hs.2.2.1) hch hp).symm

theorem hasOut_strip {r r' : Res Val} (h : r.strip = r'.strip) : hasOut r = hasOut r' := by
  cases r <;> cases r' <;> simp [Res.strip] at h <;> rfl

theorem serve_hasOut (g : GroupCfg) (log log' : List LEntry) (t : Nat) (chain : List Node) (p : Nat)
    (r : Res Val) : serve g log t chain p (hasOut r) = serve g log' t chain p (hasOut r) := by
  cases r <;> rfl

/-- the same for `hasattr` -/
theorem public_has_canon {cfg : Config} (hsafe : SafeCfg ts cfg = true) {s : State} (hinv : GInv ts cfg s)
    (chain : List Node) (hch : ChainOK chain) (p : Nat) :
    (step cfg s (.has 0 chain p)).2 = canon cfg (.has 0 chain p) := by
  unfold canon
  simp only [step]
  cases hgi : cfg.groupOf p with
  | none => rfl
  | some gi =>
    obtain ⟨g, hg, hp⟩ := groupOf_some hgi
    have hs := safeCfg_at hsafe hg
    have hlt : gi < s.gs.length := by
      rw [hinv.len]; exact (List.getElem?_eq_some_iff.mp hg).1
    have hc : s.gs[gi]? = some s.gs[gi] := List.getElem?_eq_getElem hlt
    have hcR := hinv.inR gi g _ hg hc
    have hinit := ginv_init hsafe
    have hlt0 : gi < cfg.init.gs.length := by
      rw [hinit.len]; exact (List.getElem?_eq_some_iff.mp hg).1
    have hc0 : cfg.init.gs[gi]? = some cfg.init.gs[gi] := List.getElem?_eq_getElem hlt0
    have hc0R := hinit.inR gi g _ hg hc0
    have hc0eq : cfg.init.gs[gi] = g.initGS := by
      have : cfg.init.gs[gi]? = some g.initGS := by simp [Config.init, List.getElem?_map, hg]
      rw [hc0] at this; exact Option.some.inj this
    simp only [hg]
    rw [orcOf_public hinv.log, orcOf_public hinit.log]
    obtain ⟨ho, _⟩ := stepG_some hg hc noUser (.has 0 chain p)
    obtain ⟨ho0, _⟩ := stepG_some hg hc0 noUser (.has 0 chain p)
    rw [ho, ho0]
    rw [gstep_has_out hs.1 hs.2.2.1 hcR, gstep_has_out hs.1 hs.2.2.1 hc0R]
    have := (publicSame_at hs.2.2.2 hcR hch hp).trans
        (publicSame_at hs.2.2.2 (closed_init hs.2.2.1) hch hp).symm
    rw [hc0eq, hasOut_strip this]
    exact serve_hasOut g _ _ 0 chain p _

end PtLazy

namespace PtLazy
variable {ts : List Nat}

/-! ## a freshly initialised private table serves what the public table serves -/

def privTables : List Nat := [1, 2]

/-- control state after the group's loader init has run on table t -/
def afterInit (g : GroupCfg) (c : GS) (t : Nat) : GS := (runInit g fuel0 c g.loader t).1.norm

/-- from every control state of R: run the loader's init on a private table; that table then
    serves, for every atom profile and attribute, what a fresh interpreter serves publicly -/
def privateSame (g : GroupCfg) (R : List GS) : Bool :=
  R.all fun c => privTables.all fun t => (chainsOf g).all fun ch => g.attrs.all fun p =>
    decide ((readVal g (afterInit g c t) t ch p noUser).strip = (readVal g g.initGS 0 ch p noUser).strip)

theorem privateSame_at {g : GroupCfg} {R : List GS} (h : privateSame g R = true) {c : GS} (hc : c ∈ R)
    {t : Nat} (ht : t ∈ privTables) {chain : List Node} (hch : ChainOK chain) {p : Nat} (hp : p ∈ g.attrs) :
    (readVal g (afterInit g c t) t chain p noUser).strip = (readVal g g.initGS 0 chain p noUser).strip := by
  unfold privateSame at h
  simp only [List.all_eq_true, decide_eq_true_eq] at h
  have := h c hc t ht _ (norm_mem_chainsOf g hch) p hp
  rw [readVal_norm, readVal_norm] at this
  exact this

/-- the log has no user value and no mutation mark of table t -/
def TableClean (t : Nat) (log : List LEntry) : Prop :=
  ∀ e ∈ log, match e with
    | .user t' _ _ _ _ _ => t' ≠ t
    | .mark scope _ _ _ _ => scope ≠ some t

theorem userVal_clean {log : List LEntry} {t : Nat} (h : TableClean t log) (node : Node) (p : Nat) :
    userVal log t node p = none := by
  unfold userVal
  apply List.findSome?_eq_none_iff.mpr
  intro e he
  have := h e he
  cases e with
  | user t' a c r p' v =>
    simp only at this ⊢
    split
    · next hc => exact absurd hc.1 this
    · rfl
  | mark _ _ _ _ _ => rfl

theorem orcOf_clean {log : List LEntry} {t : Nat} (h : TableClean t log) (chain : List Node) (p : Nat) :
    orcOf log t chain p = noUser := by
  funext pos
  unfold orcOf noUser
  cases chain[pos]? with
  | none => rfl
  | some node => simp [userVal_clean h node p]

theorem marksOf_clean {log : List LEntry} {t : Nat} (h : TableClean t log) (hl : LogOK log)
    (sc : Option Nat) (hsc : sc = none ∨ sc = some t) (a p : Nat) (src : Nat × Nat) :
    marksOf log sc a p src = [] := by
  unfold marksOf
  have : List.filterMap (markOf sc a p src) log = [] := by
    apply List.filterMap_eq_nil_iff.mpr
    intro e he
    have h1 := h e he
    have h2 := hl e he
    cases e with
    | user _ _ _ _ _ _ => rfl
    | mark sc' a' p' s n =>
      simp only [markOf] at h1 h2 ⊢
      obtain ⟨t0, hsct, _⟩ := h2
      split
      · next hc =>
        rcases hsc with rfl | rfl
        · rw [hsct] at hc; exact absurd hc.1 (by simp)
        · exact absurd hc.1 h1
      · rfl
  rw [this, List.mergeSort_nil]

/-- what a clean private table serves is a function of the value alone, and equals what the
    public table serves for the same value -/
theorem serve_clean {g : GroupCfg} {log log' : List LEntry} {t : Nat}
    (hc : TableClean t log) (h : LogOK log) (h' : LogOK log') (chain : List Node) (p : Nat)
    {r r' : Res Val} (hr : r.strip = r'.strip) :
    serve g log t chain p r.toOut = serve g log' 0 chain p r'.toOut := by
  cases r with
  | ok v =>
    cases r' with
    | ok v' =>
      simp only [Res.strip, Res.ok.injEq] at hr
      cases v with
      | data i k m =>
        cases v' <;> simp only [Val.strip] at hr <;> try cases hr
        simp only [Res.toOut, serve]
        cases g.sharedEff i k
        · simp only [Bool.false_eq_true, ↓reduceIte]
          rw [marksOf_clean hc h _ (.inr rfl), marksOf_public h' _ (.inr rfl)]
        · simp only [↓reduceIte]
          rw [marksOf_clean hc h _ (.inl rfl), marksOf_public h' _ (.inl rfl)]
      | user pos =>
        cases v' <;> simp only [Val.strip] at hr <;> try cases hr
        simp only [Res.toOut, serve]
        cases chain[pos]? with
        | none => rfl
        | some node => simp [userVal_clean hc, userVal_public h']
      | dflt i v t m =>
        cases v' <;> simp only [Val.strip] at hr <;> try cases hr
        simp only [Res.toOut, serve]
        rw [marksOf_clean hc h _ (.inl rfl), marksOf_public h' _ (.inl rfl)]
      | computed i k pos =>
        cases v' <;> simp only [Val.strip] at hr <;> try cases hr
        simp only [Res.toOut, serve]
        rw [marksOf_clean hc h _ (.inr rfl), marksOf_public h' _ (.inr rfl)]
    | _ => simp [Res.strip] at hr
  | attrError => cases r' <;> simp [Res.strip] at hr <;> rfl
  | otherError => cases r' <;> simp [Res.strip] at hr <;> rfl
  | outOfFuel => cases r' <;> simp [Res.strip] at hr <;> rfl

/-- **freshly initialised = public**: in a reachable state whose group control state is "the
    loader's init has just run on private table t", and whose log has nothing of t, a read on t
    serves what a fresh interpreter serves on the public table -/
theorem private_read_canon {cfg : Config} (hsafe : SafeCfg ts cfg = true)
    (hpriv : ∀ g ∈ cfg.groups, privateSame g (reach ts g) = true)
    {s : State} (hinv : GInv ts cfg s) {t : Nat} (ht : t ∈ privTables) (hclean : TableClean t s.log)
    (chain : List Node) (hch : ChainOK chain) (p : Nat)
    (hfresh : ∀ gi g, cfg.groupOf p = some gi → cfg.groups[gi]? = some g →
      ∃ c ∈ reach ts g, s.gs[gi]? = some (afterInit g c t)) :
    (step cfg s (.read t chain p)).2 = canon cfg (.read 0 chain p) := by
  unfold canon
  simp only [step]
  cases hgi : cfg.groupOf p with
  | none => rfl
  | some gi =>
    obtain ⟨g, hg, hp⟩ := groupOf_some hgi
    have hs := safeCfg_at hsafe hg
    obtain ⟨c, hcR, hc⟩ := hfresh gi g hgi hg
    have hc'R := hinv.inR gi g _ hg hc
    have hinit := ginv_init hsafe
    have hlt0 : gi < cfg.init.gs.length := by
      rw [hinit.len]; exact (List.getElem?_eq_some_iff.mp hg).1
    have hc0 : cfg.init.gs[gi]? = some cfg.init.gs[gi] := List.getElem?_eq_getElem hlt0
    have hc0R := hinit.inR gi g _ hg hc0
    have hc0eq : cfg.init.gs[gi] = g.initGS := by
      have : cfg.init.gs[gi]? = some g.initGS := by simp [Config.init, List.getElem?_map, hg]
      rw [hc0] at this; exact Option.some.inj this
    simp only [hg]
    rw [orcOf_clean hclean, orcOf_public hinit.log]
    obtain ⟨ho, hl⟩ := stepG_some hg hc noUser (.read t chain p)
    obtain ⟨ho0, hl0⟩ := stepG_some hg hc0 noUser (.read 0 chain p)
    rw [ho, ho0]
    rw [gstep_read_out hs.1 hs.2.2.1 hc'R, gstep_read_out hs.1 hs.2.2.1 hc0R]
    apply serve_clean
    · rw [hl]; exact fun e he => hclean e (applyTrace_subset g _ _ e he)
    · rw [hl]; exact hinv.log.subset (applyTrace_subset g _ _)
    · rw [hl0]; exact hinit.log.subset (applyTrace_subset g _ _)
    · rw [hc0eq]
      exact privateSame_at (hpriv g (List.mem_of_getElem? hg)) hcR ht hch hp

end PtLazy

namespace PtLazy
variable {ts : List Nat}

/-! ## explicit `init(m, t)`: what it does to one group's control state and to the log -/

/-- the loop body of `stepInit` -/
def initBody (cfg : Config) (m t : Nat) (acc : State × Out) (gi : Nat) : State × Out :=
  match cfg.groups[gi]? with
  | some g =>
    if (g.effsOf m).isSome then
      let (s1, o) := stepG cfg acc.1 gi noUser (.init m t)
      (s1, if acc.2 = .done then o else acc.2)
    else acc
  | none => acc

theorem stepInit_eq (cfg : Config) (s : State) (m t : Nat) :
    stepInit cfg s m t = (List.range cfg.groups.length).foldl (initBody cfg m t) (s, .done) := rfl

theorem stepG_gs {cfg : Config} {s : State} {gi : Nat} {g : GroupCfg} {c : GS}
    (hg : cfg.groups[gi]? = some g) (hc : s.gs[gi]? = some c) (orc : Orc) (e : GEvent) :
    (stepG cfg s gi orc e).1.gs = s.gs.set gi (gstep g c orc e).1.norm := by
  simp [stepG, hg, hc, GS.norm]

theorem stepG_gs_none {cfg : Config} {s : State} {gi : Nat}
    (h : cfg.groups[gi]? = none ∨ s.gs[gi]? = none) (orc : Orc) (e : GEvent) :
    (stepG cfg s gi orc e).1 = s := by
  unfold stepG
  rcases h with h | h
  · simp [h]
  · cases hg : cfg.groups[gi]? <;> simp [h]

theorem gstep_init_state (g : GroupCfg) (c : GS) (orc : Orc) (m t : Nat) :
    (gstep g c orc (.init m t)).1 = (runInit g fuel0 c m t).1 := by
  simp only [gstep]
  cases runInit g fuel0 c m t with
  | mk s1 r => cases r <;> rfl

/-- after `init(m, t)`, the control state of a group that lists m is the init run on its former
    state; the log has only lost entries -/
theorem stepInit_gs {cfg : Config} (m t gi : Nat) {g : GroupCfg} (hg : cfg.groups[gi]? = some g)
    (hm : (g.effsOf m).isSome = true) :
    ∀ (l : List Nat), l.Nodup → ∀ (s : State) (o : Out) (c : GS), s.gs[gi]? = some c →
      (l.foldl (initBody cfg m t) (s, o)).1.gs[gi]? =
        if gi ∈ l then some (runInit g fuel0 c m t).1.norm else some c := by
  intro l
  induction l with
  | nil => intro _ s o c hc; simpa using hc
  | cons gj l ih =>
    intro hnd s o c hc
    have hnd' := List.nodup_cons.mp hnd
    simp only [List.foldl_cons]
    by_cases hji : gj = gi
    · subst hji
      have hstep : (initBody cfg m t (s, o) gj).1.gs[gj]? = some (runInit g fuel0 c m t).1.norm := by
        simp only [initBody, hg, hm, ↓reduceIte]
        rw [stepG_gs hg hc, gstep_init_state]
        have hlt : gj < s.gs.length := (List.getElem?_eq_some_iff.mp hc).1
        simp [List.getElem?_set, hlt]
      have := ih hnd'.2 (initBody cfg m t (s, o) gj).1 (initBody cfg m t (s, o) gj).2 _ hstep
      rw [this, if_neg hnd'.1]
      simp
    · have hstep : (initBody cfg m t (s, o) gj).1.gs[gi]? = some c := by
        unfold initBody
        cases hgj : cfg.groups[gj]? with
        | none => exact hc
        | some g' =>
          simp only
          split
          · cases hcj : s.gs[gj]? with
            | none => simp only; rw [stepG_gs_none (.inr hcj)]; exact hc
            | some c' =>
              simp only
              rw [stepG_gs hgj hcj, List.getElem?_set, if_neg hji]
              exact hc
          · exact hc
      have := ih hnd'.2 (initBody cfg m t (s, o) gj).1 (initBody cfg m t (s, o) gj).2 c hstep
      rw [this]
      simp [Ne.symm hji]

theorem stepG_log_subset (cfg : Config) (s : State) (gi : Nat) (orc : Orc) (e : GEvent) :
    ∀ x ∈ (stepG cfg s gi orc e).1.log, x ∈ s.log := by
  unfold stepG
  cases hg : cfg.groups[gi]? with
  | none => simp
  | some g =>
    cases hc : s.gs[gi]? with
    | none => simp
    | some c => simp only; exact applyTrace_subset g s.log _

theorem stepInit_log (cfg : Config) (m t : Nat) :
    ∀ (l : List Nat) (s : State) (o : Out), ∀ x ∈ (l.foldl (initBody cfg m t) (s, o)).1.log, x ∈ s.log := by
  intro l
  induction l with
  | nil => intro s o x hx; exact hx
  | cons gj l ih =>
    intro s o x hx
    simp only [List.foldl_cons] at hx
    have h1 := ih _ _ x hx
    unfold initBody at h1
    cases hgj : cfg.groups[gj]? with
    | none => simpa [hgj] using h1
    | some g' =>
      simp only [hgj] at h1
      split at h1
      · exact stepG_log_subset cfg s gj noUser _ x h1
      · exact h1

end PtLazy

namespace PtLazy
variable {ts : List Nat}

/-- **freshly initialised = public**, as events: after any reachable state, run the loader's init
    of the attribute's group on a private table that carries no user values; a read on that
    table then serves what a fresh interpreter serves on the public table -/
theorem private_fresh_canon {cfg : Config} (hsafe : SafeCfg ts cfg = true)
    (hpriv : ∀ g ∈ cfg.groups, privateSame g (reach ts g) = true)
    {s : State} (hinv : GInv ts cfg s) {t : Nat} (ht : t ∈ privTables) (hclean : TableClean t s.log)
    (chain : List Node) (hch : ChainOK chain) (p gi : Nat) (g : GroupCfg)
    (hgi : cfg.groupOf p = some gi) (hg : cfg.groups[gi]? = some g)
    (hm : (g.effsOf g.loader).isSome = true) (ht3 : t ∈ ts) :
    (step cfg (step cfg s (.init g.loader t)).1 (.read t chain p)).2 = canon cfg (.read 0 chain p) := by
  have hinv' := ginv_step hsafe hinv (.init g.loader t) ht3 (fun h => by cases h)
  have hstate : (step cfg s (.init g.loader t)).1 = (stepInit cfg s g.loader t).1 := by simp [step]
  have hlt : gi < s.gs.length := by rw [hinv.len]; exact (List.getElem?_eq_some_iff.mp hg).1
  have hc : s.gs[gi]? = some s.gs[gi] := List.getElem?_eq_getElem hlt
  apply private_read_canon hsafe hpriv hinv' ht ?_ chain hch p ?_
  · rw [hstate, stepInit_eq]
    exact fun e he => hclean e (stepInit_log cfg g.loader t _ s .done e he)
  · intro gi' g' hgi' hg'
    rw [hgi] at hgi'; cases hgi'
    rw [hg] at hg'; cases hg'
    refine ⟨s.gs[gi], hinv.inR gi g _ hg hc, ?_⟩
    rw [hstate, stepInit_eq, stepInit_gs g.loader t gi hg hm _ List.nodup_range s .done _ hc]
    have : gi ∈ List.range cfg.groups.length :=
      List.mem_range.mpr (List.getElem?_eq_some_iff.mp hg).1
    simp [this, afterInit]

/-! ## in-place mutation is only ever observed through the table it was made on -/

theorem mem_marksOf {log : List LEntry} {sc : Option Nat} {a p : Nat} {src : Nat × Nat} {n : Nat}
    (h : n ∈ marksOf log sc a p src) : LEntry.mark sc a p src n ∈ log := by
  unfold marksOf at h
  have h1 := (List.mergeSort_perm _ _).mem_iff.mp h
  obtain ⟨e, he, hf⟩ := List.mem_filterMap.mp h1
  cases e with
  | user _ _ _ _ _ _ => simp [markOf] at hf
  | mark sc' a' p' s' n' =>
    simp only [markOf] at hf
    split at hf
    · next hc =>
      cases hf
      obtain ⟨rfl, rfl, rfl, rfl⟩ := hc
      exact he
    · cases hf

/-- marks carried by a value served on table t were made through table t -/
def marksLocal (t p : Nat) (log : List LEntry) : Served → Prop
  | .data i k marks => ∀ n ∈ marks, ∃ a, LEntry.mark (some t) a p (i, k) n ∈ log
  | .computed i k _ marks => ∀ n ∈ marks, ∃ a, LEntry.mark (some t) a p (i, k) n ∈ log
  | .dflt _ _ marks => marks = []
  | _ => True

theorem serve_marksLocal {g : GroupCfg} (hns : noShared g = true) {log : List LEntry} (hl : LogOK log)
    (t : Nat) (chain : List Node) (p : Nat) (o : Out) : marksLocal t p log (serve g log t chain p o) := by
  cases o with
  | val v =>
    cases v with
    | data i k m =>
      simp only [serve, sharedEff_false hns, Bool.false_eq_true, ↓reduceIte, marksLocal]
      intro n hn; exact ⟨_, mem_marksOf hn⟩
    | user pos => simp only [serve]; split <;> trivial
    | dflt i v t' m =>
      simp only [serve, marksLocal]
      cases hm : marksOf log none t' p (i, v) with
      | nil => rfl
      | cons n rest =>
        have := mem_marksOf (show n ∈ marksOf log none t' p (i, v) by rw [hm]; exact List.mem_cons_self ..)
        obtain ⟨t0, h0, _⟩ := hl _ this
        cases h0
    | computed i k pos =>
      simp only [serve, marksLocal]
      intro n hn; exact ⟨_, mem_marksOf hn⟩
  | _ => trivial

theorem read_marksLocal {cfg : Config} (hsafe : SafeCfg ts cfg = true) (hsh : NoSharedCfg cfg)
    {s : State} (hinv : GInv ts cfg s) (t : Nat) (chain : List Node) (p : Nat) :
    marksLocal t p (step cfg s (.read t chain p)).1.log (step cfg s (.read t chain p)).2 := by
  simp only [step]
  cases hgi : cfg.groupOf p with
  | none => trivial
  | some gi =>
    obtain ⟨g, hg, _⟩ := groupOf_some hgi
    simp only [hg]
    have h1 := stepG_inv hsafe hinv gi (orcOf s.log t chain p) (.read t chain p) (fun _ _ => trivial)
    exact serve_marksLocal (hsh g (List.mem_of_getElem? hg)) h1.1.log t chain p _

/-- the log after an (admissible) in-place mutation on table t: old entries, plus at most one mark
    owned by table t -/
theorem mutate_log {cfg : Config} (hsh : NoSharedCfg cfg) {s : State}
    (t : Nat) (chain : List Node) (p n : Nat) (hev : evOK ts cfg s (.mutate t chain p n)) :
    ∀ e ∈ (step cfg s (.mutate t chain p n)).1.log,
      e ∈ s.log ∨ ∃ a src, e = .mark (some t) a p src n := by
  simp only [step]
  cases hgi : cfg.groupOf p with
  | none => intro e he; exact .inl he
  | some gi =>
    simp only
    have hsub := stepG_log_subset cfg s gi (orcOf s.log t chain p) (.read t chain p)
    have hnd := hev.2.2 gi hgi
    generalize stepG cfg s gi (orcOf s.log t chain p) (.read t chain p) = r at hsub hnd
    obtain ⟨s1, o⟩ := r
    simp only at hsub hnd ⊢
    have hadd : ∀ a src, ∀ e ∈ addMark s1.log (.mark (some t) a p src n),
        e ∈ s.log ∨ ∃ a src, e = LEntry.mark (some t) a p src n := by
      intro a src e he
      unfold addMark at he
      split at he
      · exact .inl (hsub e he)
      · rcases List.mem_cons.mp he with rfl | he'
        · exact .inr ⟨a, src, rfl⟩
        · exact .inl (hsub e he')
    cases hg : cfg.groups[gi]? with
    | none => intro e he; exact .inl (hsub e he)
    | some g =>
      have hns := hsh g (List.mem_of_getElem? hg)
      cases o with
      | val v =>
        cases v with
        | data i k m =>
          simp only [sharedEff_false hns, Bool.false_eq_true, ↓reduceIte]
          exact hadd _ _
        | user pos => intro e he; exact .inl (hsub e he)
        | dflt i v t' m => exact absurd rfl (hnd i v t' m)
        | computed i k pos => exact hadd _ _
      | _ => intro e he; exact .inl (hsub e he)

end PtLazy

namespace PtLazy
variable {ts : List Nat}

theorem read_log_subset (cfg : Config) (s : State) (t : Nat) (chain : List Node) (p : Nat) :
    ∀ e ∈ (step cfg s (.read t chain p)).1.log, e ∈ s.log := by
  simp only [step]
  cases hgi : cfg.groupOf p with
  | none => intro e he; exact he
  | some gi => exact stepG_log_subset cfg s gi _ _

/-- marks of a served value -/
def Served.marks : Served → List Nat
  | .data _ _ m => m
  | .computed _ _ _ m => m
  | .dflt _ _ m => m
  | _ => []

/-- the full isolation condition: `SafeCfg` plus "a freshly initialised private table serves the
    public values" and "every registered loader is one of the group's inits" -/
def SafeIso (ts : List Nat) (cfg : Config) : Bool :=
  SafeCfg ts cfg && cfg.groups.all fun g =>
    privateSame g (reach ts g) && (g.effsOf g.loader).isSome && noShared g

theorem safeIso_at {cfg : Config} (h : SafeIso ts cfg = true) :
    SafeCfg ts cfg = true ∧ (∀ g ∈ cfg.groups, privateSame g (reach ts g) = true) ∧
    (∀ g ∈ cfg.groups, (g.effsOf g.loader).isSome = true) ∧ NoSharedCfg cfg := by
  unfold SafeIso at h
  simp only [Bool.and_eq_true, List.all_eq_true] at h
  exact ⟨h.1, fun g hg => (h.2 g hg).1.1, fun g hg => (h.2 g hg).1.2, fun g hg => (h.2 g hg).2⟩

/-- a fresh in-place mutation mark made through table t is never seen through another table -/
theorem mark_not_seen_elsewhere {cfg : Config} (hsafe : SafeCfg ts cfg = true) (hsh : NoSharedCfg cfg)
    {s : State} (hinv : GInv ts cfg s) (t : Nat) (chain : List Node) (p n : Nat)
    (hev : evOK ts cfg s (.mutate t chain p n))
    (hfresh : ∀ e ∈ s.log, ∀ sc a p' src, e ≠ LEntry.mark sc a p' src n)
    (t' : Nat) (ht' : t' ≠ t) (chain' : List Node) (p' : Nat) :
    n ∉ (step cfg (step cfg s (.mutate t chain p n)).1 (.read t' chain' p')).2.marks := by
  intro hn
  have hinv1 := ginv_step hsafe hinv _ hev (fun _ => hsh)
  have hloc := read_marksLocal hsafe hsh hinv1 t' chain' p'
  have hsub := read_log_subset cfg (step cfg s (.mutate t chain p n)).1 t' chain' p'
  have hml := mutate_log hsh t chain p n hev
  generalize (step cfg (step cfg s (.mutate t chain p n)).1 (.read t' chain' p')).2 = sv at hn hloc
  have hent : ∃ a src, LEntry.mark (some t') a p' src n ∈
      (step cfg (step cfg s (.mutate t chain p n)).1 (.read t' chain' p')).1.log := by
    cases sv with
    | data i k m => obtain ⟨a, ha⟩ := hloc n hn; exact ⟨a, _, ha⟩
    | computed i k pos m => obtain ⟨a, ha⟩ := hloc n hn; exact ⟨a, _, ha⟩
    | dflt i v m => simp only [marksLocal] at hloc; simp [Served.marks, hloc] at hn
    | _ => simp [Served.marks] at hn
  obtain ⟨a, src, hmem⟩ := hent
  rcases hml _ (hsub _ hmem) with hold | ⟨a', src', heq⟩
  · exact hfresh _ hold _ _ _ _ rfl
  · cases heq; exact ht' rfl

end PtLazy

namespace PtLazy
variable {ts : List Nat}

/-! ## executable versions of the hypotheses (for concrete examples) -/

def evOKb (ts : List Nat) (cfg : Config) (s : State) : Event → Bool
  | .read t _ _ => ts.contains t
  | .has t _ _ => ts.contains t
  | .init _ t => ts.contains t
  | .importMod _ => true
  | .assign t _ _ _ => ts.contains t && t != 0
  | .mutate t chain p _ => ts.contains t && t != 0 &&
      match cfg.groupOf p with
      | none => true
      | some gi =>
        match (stepG cfg s gi (orcOf s.log t chain p) (.read t chain p)).2 with
        | .val (.dflt _ _ _ _) => false
        | _ => true

theorem evOK_of_b {cfg : Config} {s : State} {e : Event} (h : evOKb ts cfg s e = true) : evOK ts cfg s e := by
  cases e with
  | read t c p => exact List.contains_iff_mem.mp h
  | has t c p => exact List.contains_iff_mem.mp h
  | init m t => exact List.contains_iff_mem.mp h
  | importMod m => trivial
  | assign t c p v =>
    simp only [evOKb, Bool.and_eq_true, bne_iff_ne] at h
    exact ⟨List.contains_iff_mem.mp h.1, h.2⟩
  | mutate t c p n =>
    simp only [evOKb, Bool.and_eq_true, bne_iff_ne] at h
    refine ⟨List.contains_iff_mem.mp h.1.1, h.1.2, ?_⟩
    intro gi hgi i v t' m hcontra
    have h2 := h.2
    rw [hgi] at h2
    simp only [hcontra] at h2
    cases h2

def runOKb (ts : List Nat) (cfg : Config) : State → List Event → Bool
  | _, [] => true
  | s, e :: es => evOKb ts cfg s e && runOKb ts cfg (step cfg s e).1 es

theorem runOK_of_b {cfg : Config} : ∀ {h : List Event} {s : State}, runOKb ts cfg s h = true → runOK ts cfg s h
  | [], _, _ => trivial
  | e :: es, s, h => by
    simp only [runOKb, Bool.and_eq_true] at h
    exact ⟨evOK_of_b h.1, runOK_of_b h.2⟩

def tableCleanB (t : Nat) (log : List LEntry) : Bool :=
  log.all fun e => match e with
    | .user t' _ _ _ _ _ => t' != t
    | .mark scope _ _ _ _ => scope != some t

theorem tableClean_of_b {t : Nat} {log : List LEntry} (h : tableCleanB t log = true) : TableClean t log := by
  intro e he
  have := List.all_eq_true.mp h e he
  cases e with
  | user t' _ _ _ _ _ => simpa using this
  | mark sc _ _ _ _ => simpa using this

end PtLazy

namespace PtLazy
variable {ts : List Nat}

/-! ## an initialised private table keeps serving the public values, whatever happens elsewhere -/

/-- the guard name of the group's loader init, if it has one -/
def loaderGuard (g : GroupCfg) : Option Nat :=
  match g.effsOf g.loader with
  | some (.guard n :: _) => some n
  | _ => none

/-- has the group's loader init run on table t?  (its guard is in `t.properties`; for an init
    without a guard: all its per-instance writes have run on t) -/
def inited (g : GroupCfg) (c : GS) (t : Nat) : Bool :=
  match loaderGuard g with
  | some n => c.props.contains (t, n)
  | none => (g.writesOf g.loader).all fun mk => c.effs.contains (t, mk.1, mk.2)

/-- in every control state of R in which the loader init has run on a private table, that table
    serves, for every atom profile and attribute, what a fresh interpreter serves publicly -/
def privateSame2 (g : GroupCfg) (R : List GS) : Bool :=
  R.all fun c => privTables.all fun t => !inited g c t ||
    ((chainsOf g).all fun ch => g.attrs.all fun p =>
      decide ((readVal g c t ch p noUser).strip = (readVal g g.initGS 0 ch p noUser).strip))

theorem privateSame2_at {g : GroupCfg} {R : List GS} (h : privateSame2 g R = true) {c : GS} (hc : c ∈ R)
    {t : Nat} (ht : t ∈ privTables) (hin : inited g c t = true) {chain : List Node} (hch : ChainOK chain)
    {p : Nat} (hp : p ∈ g.attrs) :
    (readVal g c t chain p noUser).strip = (readVal g g.initGS 0 chain p noUser).strip := by
  unfold privateSame2 at h
  simp only [List.all_eq_true, Bool.or_eq_true, Bool.not_eq_true', decide_eq_true_eq] at h
  rcases h c hc t ht with hno | hyes
  · rw [hin] at hno; cases hno
  · have := hyes _ (norm_mem_chainsOf g hch) p hp
    rw [readVal_norm, readVal_norm] at this
    exact this

/-- **initialised = public**: in any reachable state, a private table on which the attribute's
    group has been initialised and that carries no user values serves what a fresh interpreter
    serves on the public table -/
theorem private_inited_canon {cfg : Config} (hsafe : SafeCfg ts cfg = true)
    (hpriv : ∀ g ∈ cfg.groups, privateSame2 g (reach ts g) = true)
    {s : State} (hinv : GInv ts cfg s) {t : Nat} (ht : t ∈ privTables) (hclean : TableClean t s.log)
    (chain : List Node) (hch : ChainOK chain) (p : Nat)
    (hin : ∀ gi g c, cfg.groupOf p = some gi → cfg.groups[gi]? = some g → s.gs[gi]? = some c →
      inited g c t = true) :
    (step cfg s (.read t chain p)).2 = canon cfg (.read 0 chain p) := by
  unfold canon
  simp only [step]
  cases hgi : cfg.groupOf p with
  | none => rfl
  | some gi =>
    obtain ⟨g, hg, hp⟩ := groupOf_some hgi
    have hs := safeCfg_at hsafe hg
    have hlt : gi < s.gs.length := by
      rw [hinv.len]; exact (List.getElem?_eq_some_iff.mp hg).1
    have hc : s.gs[gi]? = some s.gs[gi] := List.getElem?_eq_getElem hlt
    have hcR := hinv.inR gi g _ hg hc
    have hinit := ginv_init hsafe
    have hlt0 : gi < cfg.init.gs.length := by
      rw [hinit.len]; exact (List.getElem?_eq_some_iff.mp hg).1
    have hc0 : cfg.init.gs[gi]? = some cfg.init.gs[gi] := List.getElem?_eq_getElem hlt0
    have hc0R := hinit.inR gi g _ hg hc0
    have hc0eq : cfg.init.gs[gi] = g.initGS := by
      have : cfg.init.gs[gi]? = some g.initGS := by simp [Config.init, List.getElem?_map, hg]
      rw [hc0] at this; exact Option.some.inj this
    simp only [hg]
    rw [orcOf_clean hclean, orcOf_public hinit.log]
    obtain ⟨ho, hl⟩ := stepG_some hg hc noUser (.read t chain p)
    obtain ⟨ho0, hl0⟩ := stepG_some hg hc0 noUser (.read 0 chain p)
    rw [ho, ho0]
    rw [gstep_read_out hs.1 hs.2.2.1 hcR, gstep_read_out hs.1 hs.2.2.1 hc0R]
    apply serve_clean
    · rw [hl]; exact fun e he => hclean e (applyTrace_subset g _ _ e he)
    · rw [hl]; exact hinv.log.subset (applyTrace_subset g _ _)
    · rw [hl0]; exact hinit.log.subset (applyTrace_subset g _ _)
    · rw [hc0eq]
      exact privateSame2_at (hpriv g (List.mem_of_getElem? hg)) hcR ht (hin gi g _ hgi hg hc) hch hp

/-- `SafeIso` plus the state-based form of "an initialised private table serves the public values" -/
def SafeIso2 (ts : List Nat) (cfg : Config) : Bool :=
  SafeIso ts cfg && cfg.groups.all fun g => privateSame2 g (reach ts g)

theorem safeIso2_at {cfg : Config} (h : SafeIso2 ts cfg = true) :
    SafeIso ts cfg = true ∧ ∀ g ∈ cfg.groups, privateSame2 g (reach ts g) = true := by
  unfold SafeIso2 at h
  simp only [Bool.and_eq_true, List.all_eq_true] at h
  exact h

end PtLazy

namespace PtLazy
variable {ts : List Nat}

/-! ## forcing a load is invisible on every table; user values enter only through the oracle -/

theorem findStop_congr_orc (g : GroupCfg) (s : GS) (t p : Nat) :
    ∀ (chain : List Node) (pos : Nat) (orc orc' : Orc),
      (∀ i, pos ≤ i → i < pos + chain.length → orc i = orc' i) →
      findStop g s t p orc chain pos = findStop g s t p orc' chain pos := by
  intro chain
  induction chain with
  | nil => intro pos orc orc' _; rfl
  | cons n rest ih =>
    intro pos orc orc' h
    unfold findStop
    have h0 : orc pos = orc' pos := h pos (Nat.le_refl _) (by simp)
    have hrest := ih (pos + 1) orc orc' (fun i h1 h2 => h i (by omega) (by simp only [List.length_cons]; omega))
    rw [h0, hrest]

theorem getSpec_congr_orc (g : GroupCfg) (s s1 : GS) (t : Nat) (chain : List Node) (p : Nat)
    (orc orc' : Orc) (h : ∀ i, i < chain.length → orc i = orc' i) :
    getSpec g s s1 t chain 0 p orc = getSpec g s s1 t chain 0 p orc' := by
  unfold getSpec
  rw [findStop_congr_orc g s t p chain 0 orc orc' (fun i _ hi => h i (by omega))]
  cases hfs : findStop g s t p orc' chain 0 with
  | val v => rfl
  | fail => rfl
  | pendingAt j =>
    simp only
    have hlen : ∀ i, j ≤ i → i < j + (List.drop (j - 0) chain).length → orc i = orc' i := by
      intro i h1 h2
      apply h
      simp only [Nat.sub_zero, List.length_drop] at h2
      omega
    rw [findStop_congr_orc g s1 t p (List.drop (j - 0) chain) j orc orc' hlen]
    cases findStop g s1 t p orc' (List.drop (j - 0) chain) j with
    | val v => rfl
    | pendingAt _ => rfl
    | fail =>
      simp only
      cases hd : List.drop (j - 0) chain with
      | nil => rfl
      | cons n rest =>
        simp only
        have hlen' : ∀ i, j + 1 ≤ i → i < j + 1 + rest.length → orc i = orc' i := by
          intro i h1 h2
          apply hlen i (by omega)
          rw [hd]; simp only [List.length_cons]; omega
        rw [findStop_congr_orc g s1 t p rest (j + 1) orc orc' hlen']

/-- user-value patterns on the (at most three) objects of a chain -/
def orcPat (b0 b1 b2 : Bool) : Orc := fun i => if i = 0 then b0 else if i = 1 then b1 else if i = 2 then b2 else false

def orcPats : List Orc :=
  [true, false].flatMap fun b0 => [true, false].flatMap fun b1 => [true, false].map fun b2 => orcPat b0 b1 b2

theorem orcPat_mem (b0 b1 b2 : Bool) : orcPat b0 b1 b2 ∈ orcPats := by
  unfold orcPats
  cases b0 <;> cases b1 <;> cases b2 <;> simp

theorem chainOK_length {chain : List Node} (h : ChainOK chain) : chain.length ≤ 3 := by
  have : (chain.map (·.cls)).length ≤ 3 := by
    rcases h with h | h | h | h <;> rw [h] <;> simp
  simpa using this

theorem readVal_orcPat (g : GroupCfg) (c : GS) (t : Nat) {chain : List Node} (hch : ChainOK chain)
    (p : Nat) (orc : Orc) :
    readVal g c t chain p orc = readVal g c t chain p (orcPat (orc 0) (orc 1) (orc 2)) := by
  unfold readVal
  rw [getSpec_congr_orc g c _ t chain p orc (orcPat (orc 0) (orc 1) (orc 2))]
  intro i hi
  have := chainOK_length hch
  unfold orcPat
  match i, hi with
  | 0, _ => rfl
  | 1, _ => rfl
  | 2, _ => rfl
  | (k + 3), hi => omega

/-- for every control state of R with something pending: on every table, for every atom profile,
    user-value pattern and attribute, a read serves the same before and after the forced load -/
def forceSame (ts : List Nat) (g : GroupCfg) (R : List GS) : Bool :=
  R.all fun c => c.noPending ||
    (ts.all fun t => (chainsOf g).all fun ch => orcPats.all fun orc => g.attrs.all fun p =>
      decide ((readVal g c t ch p orc).strip =
        (readVal g (forceAt g forceFuel c).1.norm t ch p orc).strip))

theorem forceSame_at {g : GroupCfg} {R : List GS} (h : forceSame ts g R = true) {c : GS} (hc : c ∈ R)
    (hp : c.noPending = false) {t : Nat} (ht : t ∈ ts) {chain : List Node} (hch : ChainOK chain)
    {p : Nat} (hpa : p ∈ g.attrs) (orc : Orc) :
    (readVal g c t chain p orc).strip = (readVal g (forceAt g forceFuel c).1.norm t chain p orc).strip := by
  unfold forceSame at h
  simp only [List.all_eq_true, Bool.or_eq_true, decide_eq_true_eq] at h
  rcases h c hc with hno | hyes
  · rw [hp] at hno; cases hno
  · have := hyes t ht _ (norm_mem_chainsOf g hch) _ (orcPat_mem (orc 0) (orc 1) (orc 2)) p hpa
    rw [readVal_norm, readVal_norm] at this
    have e1 := readVal_orcPat g c t hch p orc
    have e2 := readVal_orcPat g (forceAt g forceFuel c).1.norm t hch p orc
    rw [e1, e2]
    exact this

end PtLazy

namespace PtLazy
variable {ts : List Nat}

/-! ## an assignment on one table changes nothing that another table serves -/

/-- the table a log entry belongs to -/
def LEntry.owner : LEntry → Option Nat
  | .user t _ _ _ _ _ => some t
  | .mark sc _ _ _ _ => sc

/-- the entries of the log that belong to table t -/
def logOf (t : Nat) (log : List LEntry) : List LEntry := log.filter fun e => e.owner = some t

theorem userVal_logOf (log : List LEntry) (t : Nat) (node : Node) (p : Nat) :
    userVal log t node p = userVal (logOf t log) t node p := by
  unfold userVal logOf
  induction log with
  | nil => rfl
  | cons e rest ih =>
    simp only [List.filter_cons]
    cases e with
    | user t' a c r p' v =>
      by_cases ht : t' = t
      · subst ht
        simp only [LEntry.owner, decide_true, ↓reduceIte, List.findSome?_cons]
        split
        · rfl
        · exact ih
      · have : (decide ((LEntry.user t' a c r p' v).owner = some t)) = false := by
          simp [LEntry.owner, ht]
        simp only [this, Bool.false_eq_true, ↓reduceIte, List.findSome?_cons]
        have : ¬ (t' = t ∧ a = node.atom ∧ c = node.cls ∧ p' = p) := fun h => ht h.1
        simp only [this, ↓reduceIte]
        exact ih
    | mark sc a p' s n =>
      simp only [List.findSome?_cons]
      split
      · simp only [List.findSome?_cons]; exact ih
      · exact ih

theorem marksOf_logOf (log : List LEntry) (t a p : Nat) (src : Nat × Nat) :
    marksOf log (some t) a p src = marksOf (logOf t log) (some t) a p src := by
  unfold marksOf logOf
  congr 1
  induction log with
  | nil => rfl
  | cons e rest ih =>
    simp only [List.filter_cons, List.filterMap_cons]
    cases e with
    | user t' a' c r p' v =>
      simp only [markOf]
      split
      · simp only [List.filterMap_cons, markOf]; exact ih
      · exact ih
    | mark sc a' p' s n =>
      by_cases hsc : sc = some t
      · subst hsc
        have : (decide ((LEntry.mark (some t) a' p' s n).owner = some t)) = true := by
          simp [LEntry.owner]
        simp only [this, ↓reduceIte, List.filterMap_cons]
        rw [ih]
      · have : (decide ((LEntry.mark sc a' p' s n).owner = some t)) = false := by
          simp [LEntry.owner, hsc]
        simp only [this, Bool.false_eq_true, ↓reduceIte, markOf]
        have : ¬ (sc = some t ∧ a' = a ∧ p' = p ∧ s = src) := fun h => hsc h.1
        simp only [this, ↓reduceIte]
        exact ih

theorem orcOf_logOf (log : List LEntry) (t : Nat) (chain : List Node) (p : Nat) :
    orcOf log t chain p = orcOf (logOf t log) t chain p := by
  funext pos
  unfold orcOf
  cases chain[pos]? with
  | none => rfl
  | some node => simp only; rw [userVal_logOf]

/-- what is served on table t depends on the log only through the entries of t (given that the
    log has no global marks) -/
theorem serve_congr {g : GroupCfg} {log log' : List LEntry} (h : LogOK log) (h' : LogOK log')
    {t : Nat} (hlog : logOf t log = logOf t log') (chain : List Node) (p : Nat) {r r' : Res Val}
    (hr : r.strip = r'.strip) :
    serve g log t chain p r.toOut = serve g log' t chain p r'.toOut := by
  have hu : ∀ node, userVal log t node p = userVal log' t node p := by
    intro node; rw [userVal_logOf log, userVal_logOf log', hlog]
  have hm : ∀ a src, marksOf log (some t) a p src = marksOf log' (some t) a p src := by
    intro a src; rw [marksOf_logOf log, marksOf_logOf log', hlog]
  have hn : ∀ {l : List LEntry}, LogOK l → ∀ a src, marksOf l none a p src = [] := by
    intro l hl a src
    unfold marksOf
    have : List.filterMap (markOf none a p src) l = [] := by
      apply List.filterMap_eq_nil_iff.mpr
      intro e he
      have := hl e he
      cases e with
      | user _ _ _ _ _ _ => rfl
      | mark sc' a' p' s n =>
        simp only [markOf] at this ⊢
        obtain ⟨t0, hsct, _⟩ := this
        split
        · next hc => rw [hsct] at hc; exact absurd hc.1 (by simp)
        · rfl
    rw [this, List.mergeSort_nil]
  cases r with
  | ok v =>
    cases r' with
    | ok v' =>
      simp only [Res.strip, Res.ok.injEq] at hr
      cases v with
      | data i k m =>
        cases v' <;> simp only [Val.strip] at hr <;> try cases hr
        simp only [Res.toOut, serve]
        cases g.sharedEff i k
        · simp only [Bool.false_eq_true, ↓reduceIte]; rw [hm]
        · simp only [↓reduceIte]; rw [hn h, hn h']
      | user pos =>
        cases v' <;> simp only [Val.strip] at hr <;> try cases hr
        simp only [Res.toOut, serve]
        cases chain[pos]? with
        | none => rfl
        | some node => simp only; rw [hu]
      | dflt i v t0 m =>
        cases v' <;> simp only [Val.strip] at hr <;> try cases hr
        simp only [Res.toOut, serve]
        rw [hn h, hn h']
      | computed i k pos =>
        cases v' <;> simp only [Val.strip] at hr <;> try cases hr
        simp only [Res.toOut, serve]
        rw [hm]
    | _ => simp [Res.strip] at hr
  | attrError => cases r' <;> simp [Res.strip] at hr <;> rfl
  | otherError => cases r' <;> simp [Res.strip] at hr <;> rfl
  | outOfFuel => cases r' <;> simp [Res.strip] at hr <;> rfl

end PtLazy

namespace PtLazy
variable {ts : List Nat}

def TraceItem.table : TraceItem → Nat
  | .wrote t _ _ => t
  | .delAttr t _ => t

/-- the forced load only writes instance attributes of the public table -/
def forceTraceOK (g : GroupCfg) (R : List GS) : Bool :=
  R.all fun c => c.noPending || (forceAt g forceFuel c).1.trace.all fun it => it.table == 0

theorem applyTrace_public (g : GroupCfg) {log : List LEntry} (h : LogOK log) :
    ∀ (tr : List TraceItem), (∀ it ∈ tr, it.table = 0) → applyTrace g log tr = log := by
  intro tr
  induction tr with
  | nil => intro _; rfl
  | cons item older ih =>
    intro hall
    have hold := ih (fun it hit => hall it (List.mem_cons_of_mem _ hit))
    have h0 := hall item (List.mem_cons_self ..)
    unfold applyTrace
    simp only [hold]
    cases item with
    | wrote t i k =>
      simp only [TraceItem.table] at h0
      subst h0
      simp only
      split
      · apply List.filter_eq_self.mpr
        intro e he
        have := h e he
        cases e with
        | user t' _ c' rows p' _ =>
          simp only at this ⊢
          simp [this]
        | mark sc _ p' src _ =>
          simp only at this ⊢
          obtain ⟨t0, rfl, ht0⟩ := this
          simp [ht0]
      · rfl
    | delAttr t p =>
      simp only [TraceItem.table] at h0
      subst h0
      simp only
      apply List.filter_eq_self.mpr
      intro e he
      have := h e he
      cases e with
      | user t' _ _ _ p' _ =>
        simp only at this ⊢
        simp [this]
      | mark sc _ p' _ _ =>
        simp only at this ⊢
        obtain ⟨t0, rfl, ht0⟩ := this
        simp [ht0]

theorem forceTrace_at {g : GroupCfg} {R : List GS} (h : forceTraceOK g R = true) {c : GS} (hc : c ∈ R)
    (hp : c.noPending = false) : ∀ it ∈ (forceAt g forceFuel c).1.trace, it.table = 0 := by
  unfold forceTraceOK at h
  simp only [List.all_eq_true, Bool.or_eq_true, beq_iff_eq] at h
  rcases h c hc with hno | hyes
  · rw [hp] at hno; cases hno
  · exact hyes

/-- the trace of a read from a state of R mentions the public table only -/
theorem read_trace_public {g : GroupCfg} (hget : g.getter = [.clear, .load, .get])
    (hcl : closed ts g (reach ts g) = true) (htr : forceTraceOK g (reach ts g) = true)
    {c : GS} (hc : c ∈ reach ts g) (t : Nat) (chain : List Node) (p : Nat) (orc : Orc) :
    ∀ it ∈ (gstep g c orc (.read t chain p)).1.trace, it.table = 0 := by
  have htrace0 := (closed_at hcl hc).1
  simp only [gstep]
  cases hp : c.noPending with
  | true =>
    rw [fuel0_eq, getAttr_noPending g hp]; simp only; rw [htrace0]; intro it hit; cases hit
  | false =>
    obtain ⟨s1, hf, hnp, _⟩ := closed_force hcl hc hp
    have hft := forceTrace_at htr hc hp
    rw [hf] at hft
    rw [fuel0_eq, getAttr_spec g hget 55 hf hnp]
    unfold getSpec
    split
    · simp only; rw [htrace0]; intro it hit; cases hit
    · simp only; rw [htrace0]; intro it hit; cases hit
    · simp only
      split
      · exact hft
      · exact hft
      · split
        · split <;> exact hft
        · exact hft

end PtLazy

namespace PtLazy
variable {ts : List Nat}

/-- the conditions used for isolation between tables -/
def SafeIso3 (ts : List Nat) (cfg : Config) : Bool :=
  SafeIso2 ts cfg && cfg.groups.all fun g =>
    forceSame ts g (reach ts g) && forceTraceOK g (reach ts g)

theorem safeIso3_at {cfg : Config} (h : SafeIso3 ts cfg = true) :
    SafeIso2 ts cfg = true ∧ (∀ g ∈ cfg.groups, forceSame ts g (reach ts g) = true) ∧
    ∀ g ∈ cfg.groups, forceTraceOK g (reach ts g) = true := by
  unfold SafeIso3 at h
  simp only [Bool.and_eq_true, List.all_eq_true] at h
  exact ⟨h.1, fun g hg => (h.2 g hg).1, fun g hg => (h.2 g hg).2⟩

/-- two reachable states that differ, per group, at most by a forced load, and whose logs agree
    on table t, serve the same on t -/
theorem read_congr {cfg : Config} (hsafe : SafeCfg ts cfg = true)
    (hforce : ∀ g ∈ cfg.groups, forceSame ts g (reach ts g) = true)
    (htr : ∀ g ∈ cfg.groups, forceTraceOK g (reach ts g) = true)
    {s s' : State} (hinv : GInv ts cfg s) (hinv' : GInv ts cfg s')
    {t : Nat} (ht : t ∈ ts) (chain : List Node) (hch : ChainOK chain) (p : Nat)
    (hgs : ∀ gj : Nat, s'.gs[gj]? = s.gs[gj]? ∨
      ∃ (g : GroupCfg) (c : GS), cfg.groups[gj]? = some g ∧ s.gs[gj]? = some c ∧ c.noPending = false ∧
        s'.gs[gj]? = some (forceAt g forceFuel c).1.norm)
    (hlog : logOf t s'.log = logOf t s.log) :
    (step cfg s' (.read t chain p)).2 = (step cfg s (.read t chain p)).2 := by
  simp only [step]
  cases hgi : cfg.groupOf p with
  | none => rfl
  | some gi =>
    obtain ⟨g, hg, hp⟩ := groupOf_some hgi
    have hgm := List.mem_of_getElem? hg
    have hs := safeCfg_at hsafe hg
    have hlt : gi < s.gs.length := by rw [hinv.len]; exact (List.getElem?_eq_some_iff.mp hg).1
    have hc : s.gs[gi]? = some s.gs[gi] := List.getElem?_eq_getElem hlt
    have hcR := hinv.inR gi g _ hg hc
    have hlt' : gi < s'.gs.length := by rw [hinv'.len]; exact (List.getElem?_eq_some_iff.mp hg).1
    have hc' : s'.gs[gi]? = some s'.gs[gi] := List.getElem?_eq_getElem hlt'
    have hc'R := hinv'.inR gi g _ hg hc'
    simp only [hg]
    have horc : orcOf s'.log t chain p = orcOf s.log t chain p := by
      rw [orcOf_logOf s'.log, orcOf_logOf s.log, hlog]
    rw [horc]
    obtain ⟨ho, hl⟩ := stepG_some hg hc (orcOf s.log t chain p) (.read t chain p)
    obtain ⟨ho', hl'⟩ := stepG_some hg hc' (orcOf s.log t chain p) (.read t chain p)
    rw [ho, ho', gstep_read_out hs.1 hs.2.2.1 hcR, gstep_read_out hs.1 hs.2.2.1 hc'R]
    have hlogeq : (stepG cfg s gi (orcOf s.log t chain p) (.read t chain p)).1.log = s.log := by
      rw [hl]
      exact applyTrace_public g hinv.log _ (read_trace_public hs.1 hs.2.2.1 (htr g hgm) hcR t chain p _)
    have hlogeq' : (stepG cfg s' gi (orcOf s.log t chain p) (.read t chain p)).1.log = s'.log := by
      rw [hl']
      exact applyTrace_public g hinv'.log _ (read_trace_public hs.1 hs.2.2.1 (htr g hgm) hc'R t chain p _)
    rw [hlogeq, hlogeq']
    apply serve_congr hinv'.log hinv.log hlog
    rcases hgs gi with hsame | ⟨g', c, hg', hcs, hpend, hforced⟩
    · have : s'.gs[gi] = s.gs[gi] := by
        rw [hc, hc'] at hsame; exact Option.some.inj hsame
      rw [this]
    · rw [hg] at hg'; cases hg'
      have e1 : s.gs[gi] = c := by rw [hc] at hcs; exact Option.some.inj hcs
      have e2 : s'.gs[gi] = (forceAt g forceFuel c).1.norm := by
        rw [hc'] at hforced; exact Option.some.inj hforced
      rw [e1, e2]
      rw [e1] at hcR
      exact (forceSame_at (hforce g hgm) hcR hpend ht hch hp _).symm

end PtLazy

namespace PtLazy
variable {ts : List Nat}

theorem setAttr_state {g : GroupCfg} (hset : g.setter = [.clear, .load, .set])
    (hcl : closed ts g (reach ts g) = true) {c : GS} (hc : c ∈ reach ts g)
    (t : Nat) (chain : List Node) (p : Nat) (orc : Orc) :
    (setAttr g fuel0 c t chain 0 p orc .user).1 = c ∨
    (c.noPending = false ∧ (setAttr g fuel0 c t chain 0 p orc .user).1 = (forceAt g forceFuel c).1) := by
  cases hp : c.noPending with
  | true => left; rw [fuel0_eq, setAttr_noPending g hp]
  | false =>
    obtain ⟨s1, hf, hnp, _⟩ := closed_force hcl hc hp
    rw [fuel0_eq, setAttr_spec g hset 55 hf hnp]
    have hs1 : (forceAt g forceFuel c).1 = s1 := by rw [hf]
    unfold setSpec
    split
    · left; rfl
    · split
      · split
        · right; exact ⟨rfl, hs1.symm⟩
        · right; exact ⟨rfl, hs1.symm⟩
        · right; exact ⟨rfl, hs1.symm⟩
      · left; rfl
      · left; rfl

theorem gstep_assign_state (g : GroupCfg) (c : GS) (orc : Orc) (t : Nat) (chain : List Node) (p : Nat) :
    (gstep g c orc (.assign t chain p)).1 = (setAttr g fuel0 c t chain 0 p orc .user).1 := by
  simp only [gstep]
  cases setAttr g fuel0 c t chain 0 p orc .user with
  | mk s1 r => cases r <;> rfl

theorem logOf_cons_other {t t' : Nat} (h : t' ≠ t) (a : Nat) (c : Cls) (rows : List (Nat × Nat)) (p v : Nat)
    (l : List LEntry) : logOf t' (.user t a c rows p v :: l) = logOf t' l := by
  unfold logOf
  simp only [List.filter_cons, LEntry.owner]
  have : ¬ (some t = some t') := fun hh => h (Option.some.inj hh).symm
  simp [this]

theorem logOf_filter_user {t t' : Nat} (h : t' ≠ t) (f : LEntry → Bool)
    (hf : ∀ e, f e = false → e.owner = some t) (l : List LEntry) :
    logOf t' (l.filter f) = logOf t' l := by
  unfold logOf
  rw [List.filter_filter]
  apply List.filter_congr
  intro e _
  cases hfe : f e with
  | true => simp
  | false =>
    have := hf e hfe
    have hne : ¬ (e.owner = some t') := by
      rw [this]; exact fun hh => h (Option.some.inj hh).symm
    simp [hne]

/-- the state after an assignment, in terms of the group step -/
theorem assign_result {cfg : Config} (s : State) (t : Nat) (node : Node) (rest : List Node) (p v gi : Nat)
    (hgi : cfg.groupOf p = some gi) :
    (step cfg s (.assign t (node :: rest) p v)).1.gs =
      (stepG cfg s gi (orcOf s.log t (node :: rest) p) (.assign t (node :: rest) p)).1.gs ∧
    ∀ t', t' ≠ t → logOf t' (step cfg s (.assign t (node :: rest) p v)).1.log =
      logOf t' (stepG cfg s gi (orcOf s.log t (node :: rest) p) (.assign t (node :: rest) p)).1.log := by
  simp only [step, hgi]
  generalize stepG cfg s gi (orcOf s.log t (node :: rest) p) (.assign t (node :: rest) p) = st
  obtain ⟨s1, o⟩ := st
  cases o with
  | done =>
    refine ⟨rfl, fun t' hne => ?_⟩
    simp only
    rw [logOf_cons_other hne, logOf_filter_user hne]
    intro e he
    cases e with
    | user t0 a c r p0 v0 =>
      simp only [Bool.not_eq_eq_eq_not, Bool.not_false, Bool.and_eq_true, decide_eq_true_eq] at he
      simp [LEntry.owner, he.1.1.1]
    | mark _ _ _ _ _ => simp at he
  | val _ => exact ⟨rfl, fun _ _ => rfl⟩
  | attrError => exact ⟨rfl, fun _ _ => rfl⟩
  | otherError => exact ⟨rfl, fun _ _ => rfl⟩
  | bool _ => exact ⟨rfl, fun _ _ => rfl⟩
  | outOfFuel => exact ⟨rfl, fun _ _ => rfl⟩

/-- **isolation of assignments**: after `x.p = v` on an atom of table t, every other table – the
    public one or another private one – serves exactly what it served before -/
theorem assign_isolated {cfg : Config} (hsafe : SafeCfg ts cfg = true)
    (hforce : ∀ g ∈ cfg.groups, forceSame ts g (reach ts g) = true)
    (htr : ∀ g ∈ cfg.groups, forceTraceOK g (reach ts g) = true)
    {s : State} (hinv : GInv ts cfg s) (t : Nat) (chain : List Node) (p v : Nat)
    (hev : evOK ts cfg s (.assign t chain p v))
    {t' : Nat} (ht' : t' ∈ ts) (hne : t' ≠ t) (chain' : List Node) (hch : ChainOK chain') (p' : Nat) :
    (step cfg (step cfg s (.assign t chain p v)).1 (.read t' chain' p')).2
      = (step cfg s (.read t' chain' p')).2 := by
  have hinv1 := ginv_step hsafe hinv _ hev (fun h => by cases h)
  cases hgi : cfg.groupOf p with
  | none =>
    have : (step cfg s (.assign t chain p v)).1 = s := by simp [step, hgi]
    rw [this]
  | some gi =>
    cases chain with
    | nil =>
      have : (step cfg s (.assign t [] p v)).1 = s := by simp [step, hgi]
      rw [this]
    | cons node rest =>
      obtain ⟨hgs1, hlog1⟩ := assign_result (cfg := cfg) s t node rest p v gi hgi
      obtain ⟨g, hg, _⟩ := groupOf_some hgi
      have hs := safeCfg_at hsafe hg
      have hlt : gi < s.gs.length := by rw [hinv.len]; exact (List.getElem?_eq_some_iff.mp hg).1
      have hc : s.gs[gi]? = some s.gs[gi] := List.getElem?_eq_getElem hlt
      have hcR := hinv.inR gi g _ hg hc
      have hst := setAttr_state hs.2.1 hs.2.2.1 hcR t (node :: rest) p (orcOf s.log t (node :: rest) p)
      apply read_congr hsafe hforce htr hinv hinv1 ht' chain' hch p'
      · intro gj
        rw [hgs1, stepG_gs hg hc, gstep_assign_state]
        by_cases hj : gi = gj
        · subst hj
          simp only [List.getElem?_set, hlt, ↓reduceIte]
          rcases hst with hsame | ⟨hpend, hforced⟩
          · left; rw [hsame, closed_norm hs.2.2.1 hcR, hc]
          · right; exact ⟨g, _, hg, hc, hpend, by rw [hforced]⟩
        · left; simp [List.getElem?_set, hj]
      · rw [hlog1 t' hne, (stepG_some hg hc _ _).2, gstep_assign_state]
        congr 1
        apply applyTrace_public g hinv.log
        rcases hst with hsame | ⟨hpend, hforced⟩
        · rw [hsame, (closed_at hs.2.2.1 hcR).1]; intro it hit; cases hit
        · rw [hforced]; exact forceTrace_at (htr g (List.mem_of_getElem? hg)) hcR hpend

end PtLazy

namespace PtLazy
variable {ts : List Nat}

theorem logOf_addMark_other {t t' : Nat} (h : t' ≠ t) (l : List LEntry) (a p : Nat) (src : Nat × Nat) (n : Nat) :
    logOf t' (addMark l (.mark (some t) a p src n)) = logOf t' l := by
  unfold addMark
  split
  · rfl
  · unfold logOf
    simp only [List.filter_cons, LEntry.owner]
    have : ¬ (some t = some t') := fun hh => h (Option.some.inj hh).symm
    simp [this]

/-- the state after an admissible in-place mutation, in terms of the group step of its read -/
theorem mutate_result {cfg : Config} (hsh : NoSharedCfg cfg) (s : State) (t : Nat) (chain : List Node)
    (p n gi : Nat) (hgi : cfg.groupOf p = some gi)
    (hnd : ∀ i v t' m, (stepG cfg s gi (orcOf s.log t chain p) (.read t chain p)).2 ≠ .val (.dflt i v t' m)) :
    (step cfg s (.mutate t chain p n)).1.gs =
      (stepG cfg s gi (orcOf s.log t chain p) (.read t chain p)).1.gs ∧
    ∀ t', t' ≠ t → logOf t' (step cfg s (.mutate t chain p n)).1.log =
      logOf t' (stepG cfg s gi (orcOf s.log t chain p) (.read t chain p)).1.log := by
  simp only [step, hgi]
  generalize stepG cfg s gi (orcOf s.log t chain p) (.read t chain p) = st at hnd
  obtain ⟨s1, o⟩ := st
  simp only at hnd ⊢
  cases hg : cfg.groups[gi]? with
  | none => exact ⟨by first | rfl | trivial, fun _ _ => rfl⟩
  | some g =>
    have hns := hsh g (List.mem_of_getElem? hg)
    cases o with
    | val v =>
      cases v with
      | data i k m =>
        simp only [sharedEff_false hns, Bool.false_eq_true, ↓reduceIte]
        exact ⟨by first | rfl | trivial, fun t' hne => logOf_addMark_other hne _ _ _ _ _⟩
      | user pos => exact ⟨by first | rfl | trivial, fun _ _ => rfl⟩
      | dflt i v t' m => exact absurd rfl (hnd i v t' m)
      | computed i k pos => exact ⟨by first | rfl | trivial, fun t' hne => logOf_addMark_other hne _ _ _ _ _⟩
    | attrError => exact ⟨by first | rfl | trivial, fun _ _ => rfl⟩
    | otherError => exact ⟨by first | rfl | trivial, fun _ _ => rfl⟩
    | bool _ => exact ⟨by first | rfl | trivial, fun _ _ => rfl⟩
    | done => exact ⟨by first | rfl | trivial, fun _ _ => rfl⟩
    | outOfFuel => exact ⟨by first | rfl | trivial, fun _ _ => rfl⟩

theorem getAttr_state {g : GroupCfg} (hget : g.getter = [.clear, .load, .get])
    (hcl : closed ts g (reach ts g) = true) {c : GS} (hc : c ∈ reach ts g)
    (t : Nat) (chain : List Node) (p : Nat) (orc : Orc) :
    (getAttr g fuel0 c t chain 0 p orc).1 = c ∨
    (c.noPending = false ∧ (getAttr g fuel0 c t chain 0 p orc).1 = (forceAt g forceFuel c).1) := by
  cases hp : c.noPending with
  | true => left; rw [fuel0_eq, getAttr_noPending g hp]
  | false =>
    obtain ⟨s1, hf, hnp, _⟩ := closed_force hcl hc hp
    rw [fuel0_eq, getAttr_spec g hget 55 hf hnp]
    have hs1 : (forceAt g forceFuel c).1 = s1 := by rw [hf]
    unfold getSpec
    split
    · left; rfl
    · left; rfl
    · simp only
      split
      · right; exact ⟨by first | rfl | trivial, hs1.symm⟩
      · right; exact ⟨by first | rfl | trivial, hs1.symm⟩
      · split
        · split <;> (right; exact ⟨by first | rfl | trivial, hs1.symm⟩)
        · right; exact ⟨by first | rfl | trivial, hs1.symm⟩

/-- **isolation of in-place mutation**: after mutating what table t serves for an atom (not a
    class-level default), every other table serves exactly what it served before -/
theorem mutate_isolated {cfg : Config} (hsafe : SafeCfg ts cfg = true) (hsh : NoSharedCfg cfg)
    (hforce : ∀ g ∈ cfg.groups, forceSame ts g (reach ts g) = true)
    (htr : ∀ g ∈ cfg.groups, forceTraceOK g (reach ts g) = true)
    {s : State} (hinv : GInv ts cfg s) (t : Nat) (chain : List Node) (p n : Nat)
    (hev : evOK ts cfg s (.mutate t chain p n))
    {t' : Nat} (ht' : t' ∈ ts) (hne : t' ≠ t) (chain' : List Node) (hch : ChainOK chain') (p' : Nat) :
    (step cfg (step cfg s (.mutate t chain p n)).1 (.read t' chain' p')).2
      = (step cfg s (.read t' chain' p')).2 := by
  have hinv1 := ginv_step hsafe hinv _ hev (fun _ => hsh)
  cases hgi : cfg.groupOf p with
  | none =>
    have : (step cfg s (.mutate t chain p n)).1 = s := by simp [step, hgi]
    rw [this]
  | some gi =>
    obtain ⟨hgs1, hlog1⟩ := mutate_result hsh s t chain p n gi hgi (hev.2.2 gi hgi)
    obtain ⟨g, hg, _⟩ := groupOf_some hgi
    have hs := safeCfg_at hsafe hg
    have hlt : gi < s.gs.length := by rw [hinv.len]; exact (List.getElem?_eq_some_iff.mp hg).1
    have hc : s.gs[gi]? = some s.gs[gi] := List.getElem?_eq_getElem hlt
    have hcR := hinv.inR gi g _ hg hc
    have hst := getAttr_state hs.1 hs.2.2.1 hcR t chain p (orcOf s.log t chain p)
    have hgstep : (gstep g s.gs[gi] (orcOf s.log t chain p) (.read t chain p)).1
        = (getAttr g fuel0 s.gs[gi] t chain 0 p (orcOf s.log t chain p)).1 := by simp [gstep]
    apply read_congr hsafe hforce htr hinv hinv1 ht' chain' hch p'
    · intro gj
      rw [hgs1, stepG_gs hg hc, hgstep]
      by_cases hj : gi = gj
      · subst hj
        simp only [List.getElem?_set, hlt, ↓reduceIte]
        rcases hst with hsame | ⟨hpend, hforced⟩
        · left; rw [hsame, closed_norm hs.2.2.1 hcR, hc]
        · right; exact ⟨g, _, hg, hc, hpend, by rw [hforced]⟩
      · left; simp [List.getElem?_set, hj]
    · rw [hlog1 t' hne, (stepG_some hg hc _ _).2]
      congr 1
      exact applyTrace_public g hinv.log _
        (read_trace_public hs.1 hs.2.2.1 (htr g (List.mem_of_getElem? hg)) hcR t chain p _)

end PtLazy
