import PtVerif.Proofs.GrammarLex
import Mathlib.Tactic.Linarith
import Mathlib.Tactic.Ring
/-!
# Arithmetic of the `%g` model: decimal exponent, rounding to six digits, lowest decimal terms
-/
namespace PtModel.Print
open PtModel PtModel.Grammar

/-! ## size of a printed number -/

theorem natOf_cons (d : Char) (ds : List Char) :
    natOf (d :: ds) = (d.toNat - 48) * 10 ^ ds.length + natOf ds := by
  have := valOf_init ds (0 * 10 + (d.toNat - 48))
  simp only [natOf, List.foldl_cons] at *
  simp only [valOf] at this
  rw [this]; simp

theorem natOf_lt_pow (ds : List Char) (h : AllDig ds) : natOf ds < 10 ^ ds.length := by
  induction ds with
  | nil => simp [natOf]
  | cons d ds ih =>
    have hd := (isDig_iff d).1 h.head
    have := ih h.tail
    rw [natOf_cons, List.length_cons, Nat.pow_succ]
    have h9 : d.toNat - 48 ≤ 9 := by omega
    nlinarith [Nat.mul_le_mul_right (10 ^ ds.length) h9]

theorem natOf_ge_pow (d : Char) (ds : List Char) (hd : isDig d = true) (hnz : d.toNat ≠ 48) :
    10 ^ ds.length ≤ natOf (d :: ds) := by
  have hd' := (isDig_iff d).1 hd
  rw [natOf_cons]
  have h1 : 1 ≤ d.toNat - 48 := by omega
  nlinarith [Nat.mul_le_mul_right (10 ^ ds.length) h1]

theorem ndigits_spec (k : Nat) (hk : 0 < k) :
    0 < ndigits k ∧ 10 ^ (ndigits k - 1) ≤ k ∧ k < 10 ^ ndigits k := by
  obtain ⟨d, ds, hd, h1, h2, h3⟩ := natDigits_cons k hk
  have hv := natOf_natDigits k
  unfold ndigits
  rw [hd] at hv ⊢
  refine ⟨by simp, ?_, ?_⟩
  · have := natOf_ge_pow d ds h1 h2
    simp only [List.length_cons, Nat.add_sub_cancel]
    omega
  · have := natOf_lt_pow (d :: ds) (AllDig.cons h1 h3)
    omega

/-! ## the decimal exponent -/

theorem exp10_ge (n d : Nat) (hd : 0 < d) (h : d ≤ n) :
    ∃ k : Nat, exp10 n d = (k : Int) ∧ d * 10 ^ k ≤ n ∧ n < d * 10 ^ (k + 1) := by
  have hq : 0 < n / d := Nat.div_pos h hd
  obtain ⟨h0, h1, h2⟩ := ndigits_spec (n / d) hq
  refine ⟨ndigits (n / d) - 1, ?_, ?_, ?_⟩
  · unfold exp10; simp only [h, if_true]; omega
  · have := Nat.div_mul_le_self n d
    nlinarith [Nat.mul_le_mul_left d h1]
  · have h3 : n < d * (n / d + 1) := Nat.lt_mul_div_succ n hd
    have h4 : ndigits (n / d) - 1 + 1 = ndigits (n / d) := by omega
    rw [h4]
    have : n / d + 1 ≤ 10 ^ ndigits (n / d) := h2
    nlinarith [Nat.mul_le_mul_left d this]

theorem exp10_lt (n d : Nat) (hn : 0 < n) (h : n < d) :
    ∃ k : Nat, 0 < k ∧ exp10 n d = -(k : Int) ∧ d ≤ n * 10 ^ k ∧ n * 10 ^ (k - 1) < d := by
  have hdm := Nat.div_add_mod (d + n - 1) n
  have hml := Nat.mod_lt (d + n - 1) hn
  generalize hc : (d + n - 1) / n = c at hdm
  have hc2 : 2 ≤ c := by
    by_contra hlt
    have : c ≤ 1 := by omega
    have : n * c ≤ n := by nlinarith
    omega
  obtain ⟨h0, h1, h2⟩ := ndigits_spec (c - 1) (by omega)
  refine ⟨ndigits (c - 1), h0, ?_, ?_, ?_⟩
  · unfold exp10
    have : ¬ d ≤ n := by omega
    simp only [this, if_false, hc]
  · have h3 : c ≤ 10 ^ ndigits (c - 1) := by omega
    have : d ≤ n * c := by omega
    nlinarith [Nat.mul_le_mul_left n h3]
  · have h4 : n * (c - 1) < d := by
      have : n * (c - 1) = n * c - n := by rw [Nat.mul_sub, Nat.mul_one]
      omega
    nlinarith [Nat.mul_le_mul_left n h1]


/-! ## rounding -/

theorem rhe_bounds (N D : Nat) : N / D ≤ roundHalfEven N D ∧ roundHalfEven N D ≤ N / D + 1 := by
  unfold roundHalfEven
  simp only
  split
  · omega
  · split
    · omega
    · have := Nat.mod_lt (N / D) (by omega : 0 < 2)
      omega

/-- the rounded value is within half a unit: `|m·D − N| ≤ D/2` -/
theorem rhe_err (N D : Nat) (hD : 0 < D) :
    2 * (roundHalfEven N D * D) ≤ 2 * N + D ∧ 2 * N ≤ 2 * (roundHalfEven N D * D) + D := by
  have hdm := Nat.div_add_mod N D
  have hml := Nat.mod_lt N hD
  unfold roundHalfEven
  simp only
  generalize N / D = q at *
  generalize N % D = r at *
  split
  · constructor <;> nlinarith
  · split
    · constructor <;> nlinarith
    · have h2 : q % 2 ≤ 1 := by omega
      have : 2 * r = D := by omega
      have h3 := Nat.mul_le_mul_right D h2
      have h4 := Nat.zero_le (q % 2 * D)
      constructor <;> nlinarith

theorem rhe_exact (k D : Nat) (hD : 0 < D) : roundHalfEven (k * D) D = k := by
  unfold roundHalfEven
  simp [Nat.mul_div_cancel _ hD, hD]

theorem sig6_cases (n d : Nat) (hn : 0 < n) (hd : 0 < d) :
    ∃ (N D : Nat), 0 < D ∧ D * 10 ^ 5 ≤ N ∧ N < D * 10 ^ 6 ∧
      ((exp10 n d ≤ 5 ∧ N = n * 10 ^ (5 - exp10 n d).toNat ∧ D = d) ∨
       (5 < exp10 n d ∧ N = n ∧ D = d * 10 ^ (exp10 n d - 5).toNat)) ∧
      sig6 n d = if roundHalfEven N D = 10 ^ 6 then (10 ^ 5, exp10 n d + 1)
                 else (roundHalfEven N D, exp10 n d) := by
  by_cases h : d ≤ n
  · obtain ⟨k, hk, h1, h2⟩ := exp10_ge n d hd h
    by_cases hk5 : k ≤ 5
    · refine ⟨n * 10 ^ (5 - k), d, hd, ?_, ?_, Or.inl ⟨by omega, ?_, rfl⟩, ?_⟩
      · have : d * 10 ^ 5 = d * 10 ^ k * 10 ^ (5 - k) := by
          rw [Nat.mul_assoc, ← Nat.pow_add]; congr 2; omega
        rw [this]; exact Nat.mul_le_mul_right _ h1
      · have : d * 10 ^ 6 = d * 10 ^ (k + 1) * 10 ^ (5 - k) := by
          rw [Nat.mul_assoc, ← Nat.pow_add]; congr 2; omega
        rw [this]; exact Nat.mul_lt_mul_of_pos_right h2 (Nat.pow_pos (by omega))
      · rw [hk]; congr 2; omega
      · unfold sig6
        simp only
        rw [hk]
        have e1 : ((k : Int) ≤ 5) := by omega
        have e2 : (5 - (k : Int)).toNat = 5 - k := by omega
        simp only [e1, if_true, e2]
    · refine ⟨n, d * 10 ^ (k - 5), Nat.mul_pos hd (Nat.pow_pos (by omega)), ?_, ?_,
        Or.inr ⟨by omega, rfl, ?_⟩, ?_⟩
      · have : d * 10 ^ (k - 5) * 10 ^ 5 = d * 10 ^ k := by
          rw [Nat.mul_assoc, ← Nat.pow_add]; congr 2; omega
        rw [this]; exact h1
      · have : d * 10 ^ (k - 5) * 10 ^ 6 = d * 10 ^ (k + 1) := by
          rw [Nat.mul_assoc, ← Nat.pow_add]; congr 2; omega
        rw [this]; exact h2
      · rw [hk]; congr 2; omega
      · unfold sig6
        simp only
        rw [hk]
        have e1 : ¬ ((k : Int) ≤ 5) := by omega
        have e2 : ((k : Int) - 5).toNat = k - 5 := by omega
        simp only [e1, if_false, e2]
  · have hlt : n < d := by omega
    obtain ⟨k, hk0, hk, h1, h2⟩ := exp10_lt n d hn hlt
    refine ⟨n * 10 ^ (5 + k), d, hd, ?_, ?_, Or.inl ⟨by omega, ?_, rfl⟩, ?_⟩
    · have : n * 10 ^ (5 + k) = n * 10 ^ k * 10 ^ 5 := by
        rw [Nat.mul_assoc, ← Nat.pow_add]; congr 2; omega
      rw [this]; exact Nat.mul_le_mul_right _ h1
    · have : n * 10 ^ (5 + k) = n * 10 ^ (k - 1) * 10 ^ 6 := by
        rw [Nat.mul_assoc, ← Nat.pow_add]; congr 2; omega
      rw [this]; exact Nat.mul_lt_mul_of_pos_right h2 (Nat.pow_pos (by omega))
    · rw [hk]; congr 2; omega
    · unfold sig6
      simp only
      rw [hk]
      have e1 : (-(k : Int) ≤ 5) := by omega
      have e2 : (5 - -(k : Int)).toNat = 5 + k := by omega
      simp only [e1, if_true, e2]

/-- six significant digits: the mantissa has exactly six digits -/
theorem sig6_range (n d : Nat) (hn : 0 < n) (hd : 0 < d) :
    10 ^ 5 ≤ (sig6 n d).1 ∧ (sig6 n d).1 < 10 ^ 6 := by
  obtain ⟨N, D, hD, h1, h2, _, hs⟩ := sig6_cases n d hn hd
  rw [hs]
  have hb := rhe_bounds N D
  have hq1 : 10 ^ 5 ≤ N / D := by
    rw [Nat.le_div_iff_mul_le hD]; rw [Nat.mul_comm]; exact h1
  have hq2 : N / D < 10 ^ 6 := by
    rw [Nat.div_lt_iff_lt_mul hD]; rw [Nat.mul_comm]; exact h2
  split
  · simp
  · rename_i hne
    simp only
    omega


/-! ## lowest decimal terms -/

/-- `strip` keeps the value: `num / 10^dec = m / 10^k` -/
theorem strip_value (m k : Nat) :
    (strip m k).num * 10 ^ k = m * 10 ^ (strip m k).dec ∧ (strip m k).dec ≤ k := by
  induction k generalizing m with
  | zero => simp [strip]
  | succ k ih =>
    unfold strip
    split
    · rename_i h0
      obtain ⟨h1, h2⟩ := ih (m / 10)
      refine ⟨?_, by omega⟩
      have hm : m = 10 * (m / 10) := by omega
      generalize strip (m / 10) k = c at *
      rw [Nat.pow_succ, ← Nat.mul_assoc, h1]
      generalize m / 10 = m' at *
      subst hm
      ring
    · simp

theorem strip_pos (m k : Nat) (h : 0 < m) : 0 < (strip m k).num := by
  induction k generalizing m with
  | zero => simpa [strip]
  | succ k ih =>
    unfold strip
    split
    · exact ih _ (by omega)
    · simpa

/-- no trailing zero is left in the fraction -/
theorem strip_canonical (m k : Nat) : (strip m k).dec = 0 ∨ (strip m k).num % 10 ≠ 0 := by
  induction k generalizing m with
  | zero => simp [strip]
  | succ k ih =>
    unfold strip
    split
    · exact ih _
    · right; simpa

theorem cntOf_pos (m : Nat) (e : Int) (h : 0 < m) : 0 < (cntOf m e).num := by
  unfold cntOf
  split
  · exact Nat.mul_pos h (Nat.pow_pos (by omega))
  · exact strip_pos _ _ h

/-- a positive count rounds to a positive count -/
theorem round6_pos (q : Q) (hn : 0 < q.num) (hd : 0 < q.den) : 0 < (round6 q).num := by
  unfold round6
  have : ¬ q.num = 0 := by omega
  simp only [this, if_false]
  exact cntOf_pos _ _ (by have := (sig6_range q.num q.den hn hd).1; omega)

theorem ndigits_one : ndigits 1 = 1 := by decide

/-- the count 1 (any representation `n/n`) is printed precision 1 -/
theorem round6_one (n : Nat) (hn : 0 < n) : round6 ⟨n, n⟩ = Cnt.one := by
  unfold round6
  have : ¬ n = 0 := by omega
  simp only [this, if_false]
  have he : exp10 n n = 0 := by
    unfold exp10; simp [Nat.div_self hn, ndigits_one]
  have hr : roundHalfEven (n * 100000) n = 100000 := by
    rw [Nat.mul_comm]; exact rhe_exact _ _ hn
  have hs : sig6 n n = (10 ^ 5, 0) := by
    unfold sig6
    simp only [he]
    simp [hr]
  rw [hs]
  decide

end PtModel.Print
