import PtVerif.Model.Loaders
/-!
# `parse_uncertainty` reads the three notations as documented (core Lean only)

Round trips at the level of digit strings: for *every* digit strings `ip` (integer part),
`fp` (fraction digits) and `u` (uncertainty digits) the text `ip.fp(u)` is read as the value
`ip.fp` with uncertainty `u` in units of the last digit of the value; `[ip.fp]` as the nominal
value with uncertainty 0; `[lo,hi]` as the range.  No bound on the number of digits.
-/
set_option linter.unusedSectionVars false
namespace PtLoad

/-- all characters are ASCII digits -/
def Digits (s : Str) : Prop := ∀ c ∈ s, isDigit c = true

theorem isDigit_not_ws {c : Char} (h : isDigit c = true) : isWs c = false := by
  simp only [isDigit, Bool.and_eq_true, decide_eq_true_eq] at h
  simp only [isWs, Bool.or_eq_false_iff, beq_eq_false_iff_ne, ne_eq]
  have h1 : '0'.toNat ≤ c.toNat := h.1
  have h2 : c.toNat ≤ '9'.toNat := h.2
  have h48 : '0'.toNat = 48 := rfl
  have h57 : '9'.toNat = 57 := rfl
  refine ⟨⟨⟨⟨⟨?_, ?_⟩, ?_⟩, ?_⟩, ?_⟩, ?_⟩ <;> (intro e; subst e; simp at h1 h2 <;> omega)

/-- a string without blanks is its own strip -/
theorem strip_of_noWs (s : Str) (h : ∀ c ∈ s, isWs c = false) : strip s = s := by
  unfold strip
  have h1 : s.dropWhile isWs = s := by
    cases s with
    | nil => rfl
    | cons c cs => simp [List.dropWhile, h c (by simp)]
  rw [h1]
  have h2 : s.reverse.dropWhile isWs = s.reverse := by
    cases hr : s.reverse with
    | nil => rfl
    | cons c cs =>
      have : c ∈ s := by
        have : c ∈ s.reverse := by rw [hr]; simp
        simpa using this
      simp [List.dropWhile, h c this]
  rw [h2, List.reverse_reverse]

theorem spanDigits_append (ds rest : Str) (hd : Digits ds)
    (hr : ∀ c, rest.head? = some c → isDigit c = false) : spanDigits (ds ++ rest) = (ds, rest) := by
  unfold spanDigits
  have h1 : (ds ++ rest).takeWhile isDigit = ds := by
    rw [List.takeWhile_append_of_pos hd]
    cases rest with
    | nil => simp
    | cons c cs => simp [List.takeWhile, hr c rfl]
  have h2 : (ds ++ rest).dropWhile isDigit = rest := by
    rw [List.dropWhile_append_of_pos hd]
    cases rest with
    | nil => simp
    | cons c cs => simp [List.dropWhile, hr c rfl]
  rw [h1, h2]

theorem splitSign_of_digit_or_dot (c : Char) (cs : Str) (h : isDigit c = true ∨ c = '.') :
    splitSign (c :: cs) = (false, c :: cs) := by
  unfold splitSign
  have h1 : c ≠ '-' := by
    rintro rfl; rcases h with h | h
    · simp [isDigit] at h
    · exact absurd h (by decide)
  have h2 : c ≠ '+' := by
    rintro rfl; rcases h with h | h
    · simp [isDigit] at h
    · exact absurd h (by decide)
  split
  · rename_i heq; exact absurd (List.cons.inj heq).1 h1
  · rename_i heq; exact absurd (List.cons.inj heq).1 h2
  · rfl

theorem dot_not_digit : isDigit '.' = false := by decide
theorem dot_not_ws : isWs '.' = false := by decide

/-- `float("ip.fp")` for digit strings is exactly `ip fp / 10^|fp|` -/
theorem pyFloat_decimal (ip fp : Str) (hip : Digits ip) (hfp : Digits fp) (hne : ip ≠ [] ∨ fp ≠ []) :
    pyFloat (ip ++ '.' :: fp) = some ⟨(natOf (ip ++ fp) : Int), fp.length⟩ := by
  unfold pyFloat
  have hnw : ∀ c ∈ ip ++ '.' :: fp, isWs c = false := by
    intro c hc
    simp only [List.mem_append, List.mem_cons] at hc
    rcases hc with hc | rfl | hc
    · exact isDigit_not_ws (hip c hc)
    · exact dot_not_ws
    · exact isDigit_not_ws (hfp c hc)
  rw [strip_of_noWs _ hnw]
  have hs : splitSign (ip ++ '.' :: fp) = (false, ip ++ '.' :: fp) := by
    cases ip with
    | nil => exact splitSign_of_digit_or_dot '.' fp (Or.inr rfl)
    | cons c cs => exact splitSign_of_digit_or_dot c _ (Or.inl (hip c (by simp)))
  rw [hs]
  simp only []
  rw [spanDigits_append ip ('.' :: fp) hip (by intro c hc; simp at hc; subst hc; exact dot_not_digit)]
  simp only [fracPart]
  have hspan : spanDigits fp = (fp, []) := by
    have := spanDigits_append fp [] hfp (by intro c hc; simp at hc)
    simpa using this
  rw [hspan]
  simp only []
  have hemp : (ip.isEmpty && fp.isEmpty) = false := by
    rcases hne with h | h
    · cases ip with
      | nil => exact absurd rfl h
      | cons _ _ => rfl
    · cases fp with
      | nil => exact absurd rfl h
      | cons _ _ => simp
  rw [hemp]
  simp only [Bool.false_eq_true, if_false, parseExp, Option.map_some, mkDec]
  congr 1

/-- `float("ip")` for a non-empty digit string -/
theorem pyFloat_integer (ip : Str) (hip : Digits ip) (hne : ip ≠ []) :
    pyFloat ip = some ⟨(natOf ip : Int), 0⟩ := by
  obtain ⟨c, cs, rfl⟩ : ∃ c cs, ip = c :: cs := by
    cases ip with
    | nil => exact absurd rfl hne
    | cons c cs => exact ⟨c, cs, rfl⟩
  unfold pyFloat
  rw [strip_of_noWs _ (fun x hx => isDigit_not_ws (hip x hx)),
    splitSign_of_digit_or_dot c _ (Or.inl (hip c (by simp)))]
  simp only []
  have hspan : spanDigits (c :: cs) = (c :: cs, []) := by
    have := spanDigits_append (c :: cs) [] hip (by intro x hx; simp at hx)
    simpa using this
  rw [hspan]
  simp [fracPart, parseExp, mkDec]

/-! ## `split` on a separator that the first piece does not contain -/

theorem splitOn_ne_nil (sep : Char) (s : Str) : splitOn sep s ≠ [] := by
  induction s with
  | nil => simp [splitOn]
  | cons c cs ih =>
    unfold splitOn
    split
    · simp
    · split <;> simp

theorem splitOn_no_sep (sep : Char) (s : Str) (h : ∀ c ∈ s, c ≠ sep) : splitOn sep s = [s] := by
  induction s with
  | nil => rfl
  | cons c cs ih =>
    rw [splitOn, if_neg (h c (by simp)), ih (fun x hx => h x (by simp [hx]))]

theorem splitOn_append (sep : Char) (s rest : Str) (h : ∀ c ∈ s, c ≠ sep) :
    splitOn sep (s ++ sep :: rest) = s :: splitOn sep rest := by
  induction s with
  | nil => simp [splitOn]
  | cons c cs ih =>
    rw [List.cons_append, splitOn, if_neg (h c (by simp)), ih (fun x hx => h x (by simp [hx]))]

theorem digit_ne {c : Char} (h : isDigit c = true) (x : Char) (hx : isDigit x = false) : c ≠ x := by
  rintro rfl; rw [h] at hx; cases hx

theorem contains_dot_of_digits (s : Str) (h : Digits s) : s.contains '.' = false := by
  rw [Bool.eq_false_iff]
  intro hc
  rw [List.contains_iff_mem] at hc
  have := h '.' hc
  rw [dot_not_digit] at this; cases this

theorem natOf_zeros (n : Nat) (u : Str) : natOf ('0' :: (List.replicate n '0' ++ u)) = natOf u := by
  have key : ∀ (m : Nat) (acc : Nat), acc = 0 →
      (List.replicate m '0' ++ u).foldl (fun n c => n * 10 + (c.toNat - 48)) acc
        = u.foldl (fun n c => n * 10 + (c.toNat - 48)) 0 := by
    intro m
    induction m with
    | zero => intro acc h; subst h; rfl
    | succ m ih =>
      intro acc h; subst h
      rw [List.replicate_succ, List.cons_append, List.foldl_cons]
      exact ih _ (by decide)
  unfold natOf
  rw [List.foldl_cons]
  exact key n _ (by decide)

/-! ## the three notations -/

theorem parseUncertainty_bracket (rest : Str) :
    parseUncertainty ('[' :: rest) =
      (match splitOn ',' rest.dropLast with
       | lo :: hi :: _ =>
         match pyFloat lo, pyFloat hi with
         | some lo, some hi => some (.range lo hi)
         | _, _ => none
       | [v] => (pyFloat v).map .nominal
       | [] => none) := rfl

theorem parseUncertainty_other (c : Char) (cs : Str) (h : c ≠ '[') :
    parseUncertainty (c :: cs) =
      (match splitOn '(' (c :: cs) with
       | value :: p1 :: _ =>
         let unc := (splitOn ')' p1).headD []
         match pyFloat value, pyFloat (uncText value unc) with
         | some v, some u => some (.valUnc v u)
         | _, _ => none
       | _ => (pyFloat (c :: cs)).map .plain) := by
  unfold parseUncertainty
  split
  · rename_i heq; cases heq
  · rename_i heq; exact absurd (List.cons.inj heq).1 h
  · rfl

/-- **`value(unc)`**: `ip.fp(u)…` (anything may follow the closing parenthesis, e.g. `#`) is the
    value `ip.fp` with the uncertainty `u` counted in units of the last digit of the value
    (`23.0035(12)` is `23.0035 ± 0.0012`), whenever `u` has at most as many digits as `fp` -/
theorem parseUncertainty_valunc (ip fp u tail : Str) (hip : Digits ip) (hfp : Digits fp) (hu : Digits u)
    (hine : ip ≠ []) (hlen : u.length ≤ fp.length) :
    parseUncertainty (ip ++ '.' :: fp ++ '(' :: u ++ ')' :: tail)
      = some (.valUnc ⟨(natOf (ip ++ fp) : Int), fp.length⟩ ⟨(natOf u : Int), fp.length⟩) := by
  obtain ⟨c0, ip', rfl⟩ : ∃ c cs, ip = c :: cs := by
    cases ip with
    | nil => exact absurd rfl hine
    | cons c cs => exact ⟨c, cs, rfl⟩
  have hc0 : isDigit c0 = true := hip c0 (by simp)
  have hno : ∀ c ∈ (c0 :: ip') ++ '.' :: fp, c ≠ '(' := by
    intro c hc
    simp only [List.mem_append, List.mem_cons] at hc
    rcases hc with (rfl | hc) | rfl | hc
    · exact digit_ne hc0 _ (by decide)
    · exact digit_ne (hip c (by simp [hc])) _ (by decide)
    · decide
    · exact digit_ne (hfp c hc) _ (by decide)
  have hsplit : splitOn '(' ((c0 :: ip') ++ '.' :: fp ++ '(' :: u ++ ')' :: tail)
      = ((c0 :: ip') ++ '.' :: fp) :: splitOn '(' (u ++ ')' :: tail) := by
    have := splitOn_append '(' ((c0 :: ip') ++ '.' :: fp) (u ++ ')' :: tail) hno
    simpa [List.append_assoc] using this
  obtain ⟨p1, ps, hp⟩ : ∃ p1 ps, splitOn '(' (u ++ ')' :: tail) = p1 :: ps := by
    cases h : splitOn '(' (u ++ ')' :: tail) with
    | nil => exact absurd h (splitOn_ne_nil _ _)
    | cons a b => exact ⟨a, b, rfl⟩
  -- p1 begins with `u)`: the first `(`-piece of `u)tail`
  have hp1 : (splitOn ')' p1).headD [] = u := by
    -- `u` has no '(' so the first piece is `u ++ ')' :: t'` for some t'
    have hu2 : ∀ c ∈ u, c ≠ '(' := fun c hc => digit_ne (hu c hc) _ (by decide)
    have key : ∀ (u : Str), (∀ c ∈ u, c ≠ '(') → ∀ t, ∃ t', (splitOn '(' (u ++ ')' :: t)).head? = some (u ++ ')' :: t') := by
      intro u
      induction u with
      | nil =>
        intro _ t
        simp only [List.nil_append]
        rw [splitOn, if_neg (by decide)]
        cases h : splitOn '(' t with
        | nil => exact absurd h (splitOn_ne_nil _ _)
        | cons w ws => exact ⟨w, rfl⟩
      | cons c cs ih =>
        intro h t
        obtain ⟨t', ht'⟩ := ih (fun x hx => h x (by simp [hx])) t
        rw [List.cons_append, splitOn, if_neg (h c (by simp))]
        cases hs : splitOn '(' (cs ++ ')' :: t) with
        | nil => exact absurd hs (splitOn_ne_nil _ _)
        | cons w ws =>
          rw [hs] at ht'
          simp only [List.head?_cons, Option.some.injEq] at ht'
          subst ht'
          exact ⟨t', rfl⟩
    obtain ⟨t', ht'⟩ := key u hu2 tail
    rw [hp] at ht'
    simp only [List.head?_cons, Option.some.injEq] at ht'
    subst ht'
    have hu3 : ∀ c ∈ u, c ≠ ')' := fun c hc => digit_ne (hu c hc) _ (by decide)
    rw [splitOn_append ')' u t' hu3]
    rfl
  have hne1 : c0 ≠ '[' := digit_ne hc0 _ (by decide)
  simp only [List.cons_append] at hsplit ⊢
  rw [parseUncertainty_other c0 _ hne1, hsplit, hp]
  · simp only []
    rw [hp1]
    -- the value
    have hv := pyFloat_decimal (c0 :: ip') fp hip hfp (Or.inl (by simp))
    simp only [List.cons_append] at hv
    rw [hv]
    -- the uncertainty text
    have hud : u.contains '.' = false := contains_dot_of_digits u hu
    have hvd : (c0 :: (ip' ++ '.' :: fp)).contains '.' = true := by
      rw [List.contains_iff_mem]; simp
    have hfrac : ((splitOn '.' (c0 :: (ip' ++ '.' :: fp))).drop 1).headD [] = fp := by
      have h1 : ∀ c ∈ c0 :: ip', c ≠ '.' := fun c hc => digit_ne (hip c hc) _ dot_not_digit
      have := splitOn_append '.' (c0 :: ip') fp h1
      simp only [List.cons_append] at this
      rw [this, splitOn_no_sep '.' fp (fun c hc => digit_ne (hfp c hc) _ dot_not_digit)]
      rfl
    unfold uncText
    rw [hud, hvd, hfrac]
    simp only [Bool.not_false, Bool.and_self, if_true]
    -- "0." ++ zeros ++ u is a decimal with |fp| fraction digits
    have hz : Digits (List.replicate (fp.length - u.length) '0' ++ u) := by
      intro c hc
      simp only [List.mem_append, List.mem_replicate] at hc
      rcases hc with ⟨_, rfl⟩ | hc
      · decide
      · exact hu c hc
    have hf := pyFloat_decimal ['0'] (List.replicate (fp.length - u.length) '0' ++ u)
      (by intro c hc; simp at hc; subst hc; decide) hz (Or.inl (by simp))
    simp only [List.cons_append, List.nil_append] at hf
    rw [hf]
    simp only [Option.some.injEq, Unc.valUnc.injEq, true_and]
    rw [natOf_zeros]
    simp only [List.length_append, List.length_replicate]
    congr 1
    omega

/-- **`[nominal]`**: `[ip.fp]` is the value with uncertainty zero -/
theorem parseUncertainty_nominal (ip fp : Str) (hip : Digits ip) (hfp : Digits fp) (hne : ip ≠ [] ∨ fp ≠ []) :
    parseUncertainty ('[' :: ((ip ++ '.' :: fp) ++ [']']))
      = some (.nominal ⟨(natOf (ip ++ fp) : Int), fp.length⟩) := by
  rw [parseUncertainty_bracket, List.dropLast_concat]
  have hno : ∀ c ∈ ip ++ '.' :: fp, c ≠ ',' := by
    intro c hc
    simp only [List.mem_append, List.mem_cons] at hc
    rcases hc with hc | rfl | hc
    · exact digit_ne (hip c hc) _ (by decide)
    · decide
    · exact digit_ne (hfp c hc) _ (by decide)
  rw [splitOn_no_sep ',' _ hno]
  simp only [pyFloat_decimal ip fp hip hfp hne, Option.map_some]

/-- `[289]`: an integer nominal value -/
theorem parseUncertainty_nominal_int (ip : Str) (hip : Digits ip) (hne : ip ≠ []) :
    parseUncertainty ('[' :: (ip ++ [']'])) = some (.nominal ⟨(natOf ip : Int), 0⟩) := by
  rw [parseUncertainty_bracket, List.dropLast_concat,
    splitOn_no_sep ',' _ (fun c hc => digit_ne (hip c hc) _ (by decide))]
  simp only [pyFloat_integer ip hip hne, Option.map_some]

/-- **`[low,high]`**: both ends are read exactly (the value is then their mean and the
    uncertainty `(high−low)/√12`, `Unc.eval`) -/
theorem parseUncertainty_range (ip1 fp1 ip2 fp2 : Str) (h1 : Digits ip1) (h2 : Digits fp1)
    (h3 : Digits ip2) (h4 : Digits fp2) (hne1 : ip1 ≠ [] ∨ fp1 ≠ []) (hne2 : ip2 ≠ [] ∨ fp2 ≠ []) :
    parseUncertainty ('[' :: (((ip1 ++ '.' :: fp1) ++ ',' :: (ip2 ++ '.' :: fp2)) ++ [']']))
      = some (.range ⟨(natOf (ip1 ++ fp1) : Int), fp1.length⟩ ⟨(natOf (ip2 ++ fp2) : Int), fp2.length⟩) := by
  rw [parseUncertainty_bracket, List.dropLast_concat]
  have hno : ∀ (ip fp : Str), Digits ip → Digits fp → ∀ c ∈ ip ++ '.' :: fp, c ≠ ',' := by
    intro ip fp hi hf c hc
    simp only [List.mem_append, List.mem_cons] at hc
    rcases hc with hc | rfl | hc
    · exact digit_ne (hi c hc) _ (by decide)
    · decide
    · exact digit_ne (hf c hc) _ (by decide)
  rw [splitOn_append ',' _ _ (hno ip1 fp1 h1 h2), splitOn_no_sep ',' _ (hno ip2 fp2 h3 h4)]
  simp only [pyFloat_decimal ip1 fp1 h1 h2 hne1, pyFloat_decimal ip2 fp2 h3 h4 hne2]

/-- a bare value has uncertainty zero; the empty string is `(None, None)` -/
theorem parseUncertainty_plain (ip fp : Str) (hip : Digits ip) (hfp : Digits fp) (hine : ip ≠ []) :
    parseUncertainty (ip ++ '.' :: fp) = some (.plain ⟨(natOf (ip ++ fp) : Int), fp.length⟩) := by
  obtain ⟨c0, ip', rfl⟩ : ∃ c cs, ip = c :: cs := by
    cases ip with
    | nil => exact absurd rfl hine
    | cons c cs => exact ⟨c, cs, rfl⟩
  have hc0 : isDigit c0 = true := hip c0 (by simp)
  have hno : ∀ c ∈ (c0 :: ip') ++ '.' :: fp, c ≠ '(' := by
    intro c hc
    simp only [List.mem_append, List.mem_cons] at hc
    rcases hc with (rfl | hc) | rfl | hc
    · exact digit_ne hc0 _ (by decide)
    · exact digit_ne (hip c (by simp [hc])) _ (by decide)
    · decide
    · exact digit_ne (hfp c hc) _ (by decide)
  simp only [List.cons_append]
  rw [parseUncertainty_other c0 _ (digit_ne hc0 _ (by decide))]
  have := splitOn_no_sep '(' _ hno
  simp only [List.cons_append] at this
  rw [this]
  have hv := pyFloat_decimal (c0 :: ip') fp hip hfp (Or.inl (by simp))
  simp only [List.cons_append] at hv
  simp only [hv, Option.map_some]

theorem parseUncertainty_empty : parseUncertainty [] = some .missing := rfl

end PtLoad
