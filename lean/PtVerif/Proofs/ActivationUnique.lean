import PtVerif.Proofs.ActivationChains

/-! Uniqueness: the closed forms are *the* solutions of the chain ODE systems (C14). -/
namespace PtModel.Activation

/-- a scalar linear ODE `y' = g(t) - k·y` has at most one solution through a given point -/
theorem linear_ode_unique (k : ℝ) (g f1 f2 : ℝ → ℝ)
    (h1 : ∀ t, HasDerivAt f1 (g t - k * f1 t) t) (h2 : ∀ t, HasDerivAt f2 (g t - k * f2 t) t)
    (h0 : f1 0 = f2 0) : ∀ t, f1 t = f2 t := by
  -- e^{kt}·(f1 - f2) has zero derivative
  let w : ℝ → ℝ := fun t => Real.exp (k * t) * (f1 t - f2 t)
  have hexp : ∀ t, HasDerivAt (fun t => Real.exp (k * t)) (k * Real.exp (k * t)) t := by
    intro t
    have h0 : HasDerivAt (fun y : ℝ => k * y) k t := by simpa using (hasDerivAt_id' t).const_mul k
    have := h0.exp
    convert this using 1
    ring
  have hw : ∀ t, HasDerivAt w 0 t := by
    intro t
    have := (hexp t).mul ((h1 t).sub (h2 t))
    have e : k * Real.exp (k * t) * (f1 t - f2 t)
        + Real.exp (k * t) * (g t - k * f1 t - (g t - k * f2 t)) = 0 := by ring
    rw [← e]; exact this
  have hconst : ∀ x y, w x = w y :=
    is_const_of_deriv_eq_zero (fun t => (hw t).differentiableAt) (fun t => (hw t).deriv)
  intro t
  have hz : w t = w 0 := hconst t 0
  have hw0 : w 0 = 0 := by simp [w, h0]
  have : Real.exp (k * t) * (f1 t - f2 t) = 0 := by rw [← hw0, ← hz]
  rcases mul_eq_zero.mp this with h | h
  · exact absurd h (Real.exp_pos _).ne'
  · linarith

/-- **single capture**: any differentiable `(Nt, Np)` with `Nt' = -a Nt`, `Np' = a Nt - c Np`,
    `Nt(0) = N0`, `Np(0) = 0` is the closed form -/
theorem act_solution_unique (N0 a c : ℝ) (Nt Np : ℝ → ℝ)
    (hNt : ∀ t, HasDerivAt Nt (-a * Nt t) t) (hNp : ∀ t, HasDerivAt Np (a * Nt t - c * Np t) t)
    (h0t : Nt 0 = N0) (h0p : Np 0 = 0) :
    (∀ t, Nt t = actNt N0 a t) ∧ (∀ t, Np t = actNp N0 a c t) := by
  have ht : ∀ t, Nt t = actNt N0 a t := by
    apply linear_ode_unique a (fun _ => 0) Nt (actNt N0 a)
    · intro t; have := hNt t; convert this using 1; ring
    · intro t; have := actNt_deriv N0 a t; convert this using 1; ring
    · rw [h0t, actNt_zero]
  refine ⟨ht, ?_⟩
  apply linear_ode_unique c (fun t => a * actNt N0 a t) Np (actNp N0 a c)
  · intro t; have := hNp t; rw [ht t] at this; exact this
  · intro t; exact actNp_deriv N0 a c t
  · rw [h0p, actNp_zero]

/-- **`'b'`**: any differentiable `(P, D)` with `P' = R - lp P`, `D' = lp P - lam D`, `P(0) = D(0) = 0`
    is the closed form -/
theorem b_solution_unique (R lp lam : ℝ) (hlp : lp ≠ 0) (hlam : lam ≠ 0) (hne : lp - lam ≠ 0)
    (P D : ℝ → ℝ) (hP : ∀ t, HasDerivAt P (R - lp * P t) t) (hD : ∀ t, HasDerivAt D (lp * P t - lam * D t) t)
    (h0P : P 0 = 0) (h0D : D 0 = 0) :
    (∀ t, P t = bP R lp t) ∧ (∀ t, D t = bD R lp lam t) := by
  have hp : ∀ t, P t = bP R lp t := by
    apply linear_ode_unique lp (fun _ => R) P (bP R lp) hP (fun t => bP_deriv R lp t hlp)
    rw [h0P, bP_zero]
  refine ⟨hp, ?_⟩
  apply linear_ode_unique lam (fun t => lp * bP R lp t) D (bD R lp lam)
  · intro t; have := hD t; rw [hp t] at this; exact this
  · intro t; exact bD_deriv R lp lam t hlp hlam hne
  · rw [h0D, bD_zero R lp lam hne]

/-- **`'2n'`**: any differentiable `(x, N₂, N₃)` with `x' = -l2 x`, `N₂' = x - pa N₂`,
    `N₃' = cap N₂ - p2 N₃`, `x(0) = R`, `N₂(0) = N₃(0) = 0` is the closed form -/
theorem twoN_solution_unique (R cap l2 pa p2 : ℝ) (h12 : pa - l2 ≠ 0) (h13 : p2 - l2 ≠ 0) (h23 : p2 - pa ≠ 0)
    (x N2 N3 : ℝ → ℝ) (hx : ∀ t, HasDerivAt x (-l2 * x t) t) (hN2 : ∀ t, HasDerivAt N2 (x t - pa * N2 t) t)
    (hN3 : ∀ t, HasDerivAt N3 (cap * N2 t - p2 * N3 t) t) (h0x : x 0 = R) (h02 : N2 0 = 0) (h03 : N3 0 = 0) :
    (∀ t, x t = nX R l2 t) ∧ (∀ t, N2 t = nN2 R l2 pa t) ∧ (∀ t, N3 t = nN3 R cap l2 pa p2 t) := by
  have e1 : ∀ t, x t = nX R l2 t := by
    apply linear_ode_unique l2 (fun _ => 0) x (nX R l2)
    · intro t; have := hx t; convert this using 1; ring
    · intro t; have := nX_deriv R l2 t; convert this using 1; ring
    · rw [h0x, nX_zero]
  have e2 : ∀ t, N2 t = nN2 R l2 pa t := by
    apply linear_ode_unique pa (fun t => nX R l2 t) N2 (nN2 R l2 pa)
    · intro t; have := hN2 t; rw [e1 t] at this; exact this
    · intro t; exact nN2_deriv R l2 pa t h12
    · rw [h02, nN2_zero]
  refine ⟨e1, e2, ?_⟩
  apply linear_ode_unique p2 (fun t => cap * nN2 R l2 pa t) N3 (nN3 R cap l2 pa p2)
  · intro t; have := hN3 t; rw [e2 t] at this; exact this
  · intro t; exact nN3_deriv R cap l2 pa p2 t h12 h13 h23
  · rw [h03, nN3_zero R cap l2 pa p2 h12 h13 h23]

end PtModel.Activation
