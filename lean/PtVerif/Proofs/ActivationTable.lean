import PtVerif.Proofs.ActivationSample

/-! `Sample.activity` (the table for the requested rest times) is, column by column, the sum over the
`activity()` calls made for the sample's isotopes (C14) at `ℝ`. -/
namespace PtModel.Activation

/-- list stored under row `k` (`[]` if absent) -/
def lookT (t : List (Nat × List ℝ)) (k : Nat) : List ℝ :=
  match t with
  | [] => []
  | (k', x) :: rest => if k' = k then x else lookT rest k

/-- what one `activity()` result adds to column `j` of row `k` of the table -/
noncomputable def colSum (res : List (Nat × List ℝ)) (k j : Nat) : ℝ :=
  (res.map fun kv => if kv.1 = k then kv.2.tail.getD j 0 else 0).sum

theorem addLists_length (x y : List ℝ) : (addLists x y).length = min x.length y.length := by
  induction x generalizing y with
  | nil => simp [addLists]
  | cons a xs ih =>
    cases y with
    | nil => simp [addLists]
    | cons b ys => simp [addLists, ih]

theorem addLists_getD (x y : List ℝ) (j : Nat) (hx : j < x.length) (hy : j < y.length) :
    (addLists x y).getD j 0 = x.getD j 0 + y.getD j 0 := by
  induction x generalizing y j with
  | nil => simp at hx
  | cons a xs ih =>
    cases y with
    | nil => simp at hy
    | cons b ys =>
      cases j with
      | zero => simp [addLists]
      | succ j =>
        simp only [addLists, List.getD_cons_succ]
        exact ih ys j (by simpa using hx) (by simpa using hy)

theorem replicate_getD (n j : Nat) : (List.replicate n (0:ℝ)).getD j 0 = 0 := by
  by_cases h : j < n
  · simp [List.getD, h]
  · simp [List.getD, h]

/-- all stored rows have `n` columns -/
def Wide (n : Nat) (t : List (Nat × List ℝ)) : Prop := ∀ kv ∈ t, kv.2.length = n

theorem wide_bumpTable (n : Nat) (t : List (Nat × List ℝ)) (k : Nat) (v : List ℝ)
    (ht : Wide n t) (hv : v.length = n) : Wide n (bumpTable n t k v) := by
  induction t with
  | nil =>
    intro kv hkv
    simp only [bumpTable, List.mem_singleton] at hkv
    subst hkv
    simp [addLists_length, hv]
  | cons e rest ih =>
    obtain ⟨k0, x⟩ := e
    have hx : x.length = n := ht (k0, x) List.mem_cons_self
    have hrest : Wide n rest := fun kv hkv => ht kv (List.mem_cons_of_mem _ hkv)
    unfold bumpTable
    by_cases h0 : k0 = k
    · simp only [h0, if_true]
      intro kv hkv
      rcases List.mem_cons.mp hkv with rfl | hkv
      · simp [addLists_length, hx, hv]
      · exact hrest kv hkv
    · simp only [h0, if_false]
      intro kv hkv
      rcases List.mem_cons.mp hkv with rfl | hkv
      · exact hx
      · exact ih hrest kv hkv

theorem lookT_bump (n : Nat) (t : List (Nat × List ℝ)) (k : Nat) (v : List ℝ) (k' j : Nat)
    (ht : Wide n t) (hv : v.length = n) (hj : j < n) :
    (lookT (bumpTable n t k v) k').getD j 0
      = (lookT t k').getD j 0 + (if k = k' then v.getD j 0 else 0) := by
  induction t with
  | nil =>
    simp only [bumpTable, lookT]
    by_cases h : k = k'
    · simp only [h, if_true]
      rw [addLists_getD _ _ j (by simpa using hj) (by omega), replicate_getD]
      simp
    · simp [h]
  | cons e rest ih =>
    obtain ⟨k0, x⟩ := e
    have hx : x.length = n := ht (k0, x) List.mem_cons_self
    have hrest : Wide n rest := fun kv hkv => ht kv (List.mem_cons_of_mem _ hkv)
    unfold bumpTable
    by_cases h0 : k0 = k
    · subst h0
      simp only [if_true, lookT]
      by_cases h1 : k0 = k'
      · simp only [h1, if_true]
        exact addLists_getD _ _ j (by omega) (by omega)
      · simp [h1]
    · simp only [h0, if_false, lookT]
      by_cases h1 : k0 = k'
      · have : ¬ k = k' := fun h => h0 (h1.trans h.symm)
        simp [h1, this]
      · simp only [h1, if_false]
        exact ih hrest

/-- every value list of a result has `n + 1` entries (time 0 and the `n` requested rest times) -/
def Long (n : Nat) (res : List (Nat × List ℝ)) : Prop := ∀ kv ∈ res, kv.2.length = n + 1

theorem accumulate_table (n : Nat) (s : Tally ℝ) (res : List (Nat × List ℝ)) (k j : Nat)
    (hs : Wide n s.table) (hres : Long n res) (hj : j < n) :
    Wide n (accumulate n s res).table ∧
    (lookT (accumulate n s res).table k).getD j 0 = (lookT s.table k).getD j 0 + colSum res k j := by
  unfold accumulate
  induction res generalizing s with
  | nil => exact ⟨hs, by simp [colSum]⟩
  | cons kv more ih =>
    obtain ⟨k0, vs⟩ := kv
    have hvs : vs.tail.length = n := by
      have := hres (k0, vs) List.mem_cons_self
      simp only at this
      simp [this]
    have hmore : Long n more := fun e he => hres e (List.mem_cons_of_mem _ he)
    simp only [List.foldl_cons]
    have hw := wide_bumpTable n s.table k0 vs.tail hs hvs
    obtain ⟨h1, h2⟩ := ih { removal := bumpRemoval s.removal k0 (vs.headD 0),
                            table := bumpTable n s.table k0 vs.tail } hw hmore
    refine ⟨h1, ?_⟩
    rw [h2]
    simp only [lookT_bump n s.table k0 vs.tail k j hs hvs hj, colSum, List.map_cons, List.sum_cons]
    ring

theorem foldl_accumulate_table (n : Nat) (s : Tally ℝ) (results : List (List (Nat × List ℝ))) (k j : Nat)
    (hs : Wide n s.table) (hres : ∀ res ∈ results, Long n res) (hj : j < n) :
    (lookT (results.foldl (accumulate n) s).table k).getD j 0
      = (lookT s.table k).getD j 0 + (results.map fun res => colSum res k j).sum := by
  induction results generalizing s with
  | nil => simp
  | cons res more ih =>
    simp only [List.foldl_cons, List.map_cons, List.sum_cons]
    obtain ⟨hw, h1⟩ := accumulate_table n s res k j hs (hres res List.mem_cons_self) hj
    rw [ih _ hw (fun r hr => hres r (List.mem_cons_of_mem _ hr)), h1]
    ring

theorem activity_long (c : Consts ℝ) (rows : List (Nat × Row ℝ)) (mass : ℝ) (env : Env ℝ) (T : ℝ)
    (rests : List ℝ) (out : List (Nat × List ℝ))
    (h : activity c rows mass env T (0 :: rests) = .ok out) : Long rests.length out := by
  intro kv hkv
  obtain ⟨r, act, _, _, hval⟩ := activity_values c rows mass env T (0 :: rests) out h kv hkv
  rw [hval]
  simp [restDecay]

/-- **`Sample.activity`, column by column, is the sum over the `activity()` calls made for the
    sample's isotopes** (column `j` = the `j`-th requested rest time) -/
theorem calcActivation_table (c : Consts ℝ) (rowsOf : Nat → Nat → List (Nat × Row ℝ)) (mass : ℝ)
    (env : Env ℝ) (T : ℝ) (rests : List ℝ) (parts : List (Part ℝ)) (tally : Tally ℝ)
    (h : calcActivation c rowsOf mass env T rests parts = .ok tally) :
    ∃ results, List.Forall₂
        (fun job res => activity c (rowsOf job.1 job.2.1) job.2.2 env T (0 :: rests) = .ok res)
        (isoJobs mass parts) results ∧
      ∀ k j, j < rests.length →
        (lookT tally.table k).getD j 0 = (results.map fun res => colSum res k j).sum := by
  unfold calcActivation at h
  split at h
  · cases h
  · rename_i results hres
    cases h
    have hall := runJobs_ok _ _ _ _ _ _ _ hres
    refine ⟨results, hall, fun k j hj => ?_⟩
    have hlong : ∀ res ∈ results, Long rests.length res := by
      have gen : ∀ (jobs : List (Nat × Nat × ℝ)) (results : List (List (Nat × List ℝ))),
          List.Forall₂ (fun job res => activity c (rowsOf job.1 job.2.1) job.2.2 env T (0 :: rests) = .ok res)
            jobs results → ∀ res ∈ results, Long rests.length res := by
        intro jobs results hf
        induction hf with
        | nil => intro res hmem; simp at hmem
        | cons hhead _ ih =>
          intro res hmem
          rcases List.mem_cons.mp hmem with rfl | hmem
          · exact activity_long c _ _ env T rests _ hhead
          · exact ih res hmem
      exact gen _ _ hall
    rw [foldl_accumulate_table rests.length {} results k j (by intro kv hkv; simp at hkv) hlong hj]
    simp [lookT]

end PtModel.Activation
