import PtVerif.Proofs.Activation
import Mathlib.Analysis.Calculus.Deriv.MeanValue

/-! The `'b'` and `'2n'` chains, and monotonicity in the exposure (C14) at `ℝ`. -/
namespace PtModel.Activation

/-- a function with a non-negative derivative on `[0, ∞)` is monotone there -/
theorem monotoneOn_of_hasDerivAt_nonneg {F F' : ℝ → ℝ} (hF : ∀ t, HasDerivAt F (F' t) t)
    (h : ∀ t, 0 ≤ t → 0 ≤ F' t) : MonotoneOn F (Set.Ici 0) := by
  apply monotoneOn_of_deriv_nonneg (convex_Ici 0)
  · exact fun t _ => (hF t).continuousAt.continuousWithinAt
  · exact fun t _ => (hF t).differentiableAt.differentiableWithinAt
  · intro t ht
    rw [interior_Ici] at ht
    rw [(hF t).deriv]
    exact h t (le_of_lt ht)

theorem hasDerivAt_one_sub_exp (k t : ℝ) :
    HasDerivAt (fun t => 1 - Real.exp (-(k * t))) (k * Real.exp (-(k * t))) t := by
  have h := (hasDerivAt_const t (1:ℝ)).sub (hasDerivAt_exp_neg_mul k t)
  have e : (0:ℝ) - -k * Real.exp (-(k * t)) = k * Real.exp (-(k * t)) := by ring
  rw [← e]; exact h

/-! ## `'b'`: production by decay of an activated parent -/

/-- parent atoms: made at the constant rate `R`, decaying with `lp`: `P' = R - lp·P`, `P(0) = 0` -/
noncomputable def bP (R lp t : ℝ) : ℝ := R / lp * (1 - Real.exp (-(lp * t)))
/-- daughter atoms: `D' = lp·P - lam·D`, `D(0) = 0` -/
noncomputable def bD (R lp lam t : ℝ) : ℝ :=
  R / lam * (1 + (lam * Real.exp (-(lp * t)) - lp * Real.exp (-(lam * t))) / (lp - lam))

theorem bP_deriv (R lp t : ℝ) (hlp : lp ≠ 0) : HasDerivAt (bP R lp) (R - lp * bP R lp t) t := by
  have h := (hasDerivAt_one_sub_exp lp t).const_mul (R / lp)
  have e : R / lp * (lp * Real.exp (-(lp * t))) = R - lp * bP R lp t := by
    unfold bP; field_simp; ring
  rw [← e]; exact h

theorem bD_deriv (R lp lam t : ℝ) (hlp : lp ≠ 0) (hlam : lam ≠ 0) (hne : lp - lam ≠ 0) :
    HasDerivAt (bD R lp lam) (lp * bP R lp t - lam * bD R lp lam t) t := by
  have h1 := ((hasDerivAt_exp_neg_mul lp t).const_mul lam).sub ((hasDerivAt_exp_neg_mul lam t).const_mul lp)
  have h2 := ((hasDerivAt_const t (1:ℝ)).add (h1.div_const (lp - lam))).const_mul (R / lam)
  have e : R / lam * (0 + (lam * (-lp * Real.exp (-(lp * t))) - lp * (-lam * Real.exp (-(lam * t)))) / (lp - lam))
      = lp * bP R lp t - lam * bD R lp lam t := by
    unfold bP bD; field_simp; ring
  rw [← e]; exact h2

theorem bP_zero (R lp : ℝ) : bP R lp 0 = 0 := by simp [bP]
theorem bD_zero (R lp lam : ℝ) (hne : lp - lam ≠ 0) : bD R lp lam 0 = 0 := by
  unfold bD
  simp only [mul_zero, neg_zero, Real.exp_zero, mul_one]
  have h : (lam - lp) / (lp - lam) = -1 := by rw [div_eq_iff hne]; ring
  rw [h]; ring

/-- the expm1 form of the code is `λ·D(T)` -/
theorem bCore_eq (R lam lp T : ℝ) (hlam : lam ≠ 0) (hne : lp - lam ≠ 0) :
    bCore R lam lp T = lam * bD R lp lam T := by
  unfold bCore bD
  simp only [actnum_expm1]
  have e1 : -lp * T = -(lp * T) := by ring
  have e2 : -lam * T = -(lam * T) := by ring
  rw [e1, e2]
  field_simp
  ring

/-- derivative of the daughter's activity with respect to the exposure -/
theorem bActivity_deriv (R lp lam t : ℝ) (hne : lp - lam ≠ 0) :
    HasDerivAt (fun t => R * (1 + (lam * Real.exp (-(lp * t)) - lp * Real.exp (-(lam * t))) / (lp - lam)))
      (R * lp * lam * ((Real.exp (-(lam * t)) - Real.exp (-(lp * t))) / (lp - lam))) t := by
  have h1 := ((hasDerivAt_exp_neg_mul lp t).const_mul lam).sub ((hasDerivAt_exp_neg_mul lam t).const_mul lp)
  have h2 := ((hasDerivAt_const t (1:ℝ)).add (h1.div_const (lp - lam))).const_mul R
  have e : R * (0 + (lam * (-lp * Real.exp (-(lp * t))) - lp * (-lam * Real.exp (-(lam * t)))) / (lp - lam))
      = R * lp * lam * ((Real.exp (-(lam * t)) - Real.exp (-(lp * t))) / (lp - lam)) := by
    field_simp
    ring
  rw [← e]; exact h2

theorem bActivity_eq (R lp lam t : ℝ) (hlam : lam ≠ 0) :
    lam * bD R lp lam t
      = R * (1 + (lam * Real.exp (-(lp * t)) - lp * Real.exp (-(lam * t))) / (lp - lam)) := by
  unfold bD; field_simp

/-- the daughter's activity never decreases with the exposure … -/
theorem bActivity_monotone (R lp lam : ℝ) (hR : 0 ≤ R) (hlp : 0 < lp) (hlam : 0 < lam)
    (hne : lp - lam ≠ 0) : MonotoneOn (fun t => lam * bD R lp lam t) (Set.Ici 0) := by
  have hf : (fun t => lam * bD R lp lam t)
      = fun t => R * (1 + (lam * Real.exp (-(lp * t)) - lp * Real.exp (-(lam * t))) / (lp - lam)) := by
    funext t; exact bActivity_eq R lp lam t (ne_of_gt hlam)
  rw [hf]
  apply monotoneOn_of_hasDerivAt_nonneg (fun t => bActivity_deriv R lp lam t hne)
  intro t ht
  have := exp_diff_div_nonneg lam lp t ht hne
  positivity

/-- … and is never negative -/
theorem bActivity_nonneg (R lp lam T : ℝ) (hR : 0 ≤ R) (hlp : 0 < lp) (hlam : 0 < lam)
    (hne : lp - lam ≠ 0) (hT : 0 ≤ T) : 0 ≤ lam * bD R lp lam T := by
  have h := bActivity_monotone R lp lam hR hlp hlam hne (Set.mem_Ici.mpr (le_refl 0)) (Set.mem_Ici.mpr hT) hT
  simpa [bD_zero R lp lam hne] using h


/-! ## `'2n'`: two successive captures -/

/-- production rate of the parent, `x = l2·N₁`: `x' = -l2·x`, `x(0) = R` -/
noncomputable def nX (R l2 t : ℝ) : ℝ := R * Real.exp (-(l2 * t))
/-- parent atoms: `N₂' = x - pa·N₂`, `N₂(0) = 0` (`pa` = capture + decay of the parent) -/
noncomputable def nN2 (R l2 pa t : ℝ) : ℝ := R / (pa - l2) * (Real.exp (-(l2 * t)) - Real.exp (-(pa * t)))
/-- product atoms: `N₃' = cap·N₂ - p2·N₃`, `N₃(0) = 0` (only the captures `cap` of the parent feed it) -/
noncomputable def nN3 (R cap l2 pa p2 t : ℝ) : ℝ :=
  R * cap * (Real.exp (-(l2 * t)) / ((pa - l2) * (p2 - l2))
    + Real.exp (-(pa * t)) / ((l2 - pa) * (p2 - pa))
    + Real.exp (-(p2 * t)) / ((l2 - p2) * (pa - p2)))

theorem nX_deriv (R l2 t : ℝ) : HasDerivAt (nX R l2) (-l2 * nX R l2 t) t := by
  have h := (hasDerivAt_exp_neg_mul l2 t).const_mul R
  have e : R * (-l2 * Real.exp (-(l2 * t))) = -l2 * nX R l2 t := by unfold nX; ring
  rw [← e]; exact h

theorem nN2_deriv (R l2 pa t : ℝ) (h12 : pa - l2 ≠ 0) :
    HasDerivAt (nN2 R l2 pa) (nX R l2 t - pa * nN2 R l2 pa t) t := by
  have h := ((hasDerivAt_exp_neg_mul l2 t).sub (hasDerivAt_exp_neg_mul pa t)).const_mul (R / (pa - l2))
  have e : R / (pa - l2) * (-l2 * Real.exp (-(l2 * t)) - -pa * Real.exp (-(pa * t)))
      = nX R l2 t - pa * nN2 R l2 pa t := by
    unfold nX nN2; field_simp; ring
  rw [← e]; exact h

theorem nN3_deriv (R cap l2 pa p2 t : ℝ) (h12 : pa - l2 ≠ 0) (h13 : p2 - l2 ≠ 0) (h23 : p2 - pa ≠ 0) :
    HasDerivAt (nN3 R cap l2 pa p2) (cap * nN2 R l2 pa t - p2 * nN3 R cap l2 pa p2 t) t := by
  have h21 : l2 - pa ≠ 0 := by intro h; apply h12; linarith
  have h31 : l2 - p2 ≠ 0 := by intro h; apply h13; linarith
  have h32 : pa - p2 ≠ 0 := by intro h; apply h23; linarith
  have h := ((((hasDerivAt_exp_neg_mul l2 t).div_const ((pa - l2) * (p2 - l2))).add
    ((hasDerivAt_exp_neg_mul pa t).div_const ((l2 - pa) * (p2 - pa)))).add
    ((hasDerivAt_exp_neg_mul p2 t).div_const ((l2 - p2) * (pa - p2)))).const_mul (R * cap)
  have e : R * cap * (-l2 * Real.exp (-(l2 * t)) / ((pa - l2) * (p2 - l2))
        + -pa * Real.exp (-(pa * t)) / ((l2 - pa) * (p2 - pa))
        + -p2 * Real.exp (-(p2 * t)) / ((l2 - p2) * (pa - p2)))
      = cap * nN2 R l2 pa t - p2 * nN3 R cap l2 pa p2 t := by
    unfold nN2 nN3; field_simp; ring
  rw [← e]; exact h

theorem nX_zero (R l2 : ℝ) : nX R l2 0 = R := by simp [nX]
theorem nN2_zero (R l2 pa : ℝ) : nN2 R l2 pa 0 = 0 := by simp [nN2]
theorem nN3_zero (R cap l2 pa p2 : ℝ) (h12 : pa - l2 ≠ 0) (h13 : p2 - l2 ≠ 0) (h23 : p2 - pa ≠ 0) :
    nN3 R cap l2 pa p2 0 = 0 := by
  have h21 : l2 - pa ≠ 0 := by intro h; apply h12; linarith
  have h31 : l2 - p2 ≠ 0 := by intro h; apply h13; linarith
  have h32 : pa - p2 ≠ 0 := by intro h; apply h23; linarith
  unfold nN3
  simp only [mul_zero, neg_zero, Real.exp_zero]
  have : 1 / ((pa - l2) * (p2 - l2)) + 1 / ((l2 - pa) * (p2 - pa)) + 1 / ((l2 - p2) * (pa - p2)) = 0 := by
    field_simp; ring
  rw [this]; ring

/-- the three-exponential sum of the code is `λ·N₃(T)` -/
theorem twoNCore_eq (root lam plam l2 pa T : ℝ) :
    twoNCore root lam plam l2 pa T = lam * nN3 root (pa - plam) l2 pa lam T := by
  unfold twoNCore nN3 twoNDen1 twoNDen2 twoNDen3
  simp only [transc_exp]
  have e1 : -l2 * T = -(l2 * T) := by ring
  have e2 : -pa * T = -(pa * T) := by ring
  have e3 : -lam * T = -(lam * T) := by ring
  rw [e1, e2, e3]; ring

/-- `e^{l2·t}·N₃(t)`: the product corrected for the depletion of the target -/
noncomputable def nM3 (R cap l2 pa p2 t : ℝ) : ℝ :=
  R * cap * (1 / ((pa - l2) * (p2 - l2))
    + Real.exp (-((pa - l2) * t)) / ((l2 - pa) * (p2 - pa))
    + Real.exp (-((p2 - l2) * t)) / ((l2 - p2) * (pa - p2)))

theorem nN3_eq_exp_mul_nM3 (R cap l2 pa p2 t : ℝ) :
    nN3 R cap l2 pa p2 t = Real.exp (-(l2 * t)) * nM3 R cap l2 pa p2 t := by
  have ea : Real.exp (-(pa * t)) = Real.exp (-(l2 * t)) * Real.exp (-((pa - l2) * t)) := by
    rw [← Real.exp_add]; congr 1; ring
  have eb : Real.exp (-(p2 * t)) = Real.exp (-(l2 * t)) * Real.exp (-((p2 - l2) * t)) := by
    rw [← Real.exp_add]; congr 1; ring
  unfold nN3 nM3
  rw [ea, eb]; ring

theorem nM3_deriv (R cap l2 pa p2 t : ℝ) (h12 : pa - l2 ≠ 0) (h13 : p2 - l2 ≠ 0) (h23 : p2 - pa ≠ 0) :
    HasDerivAt (nM3 R cap l2 pa p2)
      (R * cap * ((Real.exp (-((pa - l2) * t)) - Real.exp (-((p2 - l2) * t))) / ((p2 - l2) - (pa - l2)))) t := by
  have h21 : l2 - pa ≠ 0 := by intro h; apply h12; linarith
  have h31 : l2 - p2 ≠ 0 := by intro h; apply h13; linarith
  have h32 : pa - p2 ≠ 0 := by intro h; apply h23; linarith
  have hd : (p2 - l2) - (pa - l2) ≠ 0 := by intro h; apply h23; linarith
  have h := (((hasDerivAt_const t (1 / ((pa - l2) * (p2 - l2)))).add
    ((hasDerivAt_exp_neg_mul (pa - l2) t).div_const ((l2 - pa) * (p2 - pa)))).add
    ((hasDerivAt_exp_neg_mul (p2 - l2) t).div_const ((l2 - p2) * (pa - p2)))).const_mul (R * cap)
  have e : R * cap * (0 + -(pa - l2) * Real.exp (-((pa - l2) * t)) / ((l2 - pa) * (p2 - pa))
        + -(p2 - l2) * Real.exp (-((p2 - l2) * t)) / ((l2 - p2) * (pa - p2)))
      = R * cap * ((Real.exp (-((pa - l2) * t)) - Real.exp (-((p2 - l2) * t))) / ((p2 - l2) - (pa - l2))) := by
    field_simp; ring
  rw [← e]; exact h

theorem nM3_zero (R cap l2 pa p2 : ℝ) (h12 : pa - l2 ≠ 0) (h13 : p2 - l2 ≠ 0) (h23 : p2 - pa ≠ 0) :
    nM3 R cap l2 pa p2 0 = 0 := by
  have h := nN3_eq_exp_mul_nM3 R cap l2 pa p2 0
  rw [nN3_zero R cap l2 pa p2 h12 h13 h23] at h
  simpa using h.symm

theorem nM3_monotone (R cap l2 pa p2 : ℝ) (hRc : 0 ≤ R * cap)
    (h12 : pa - l2 ≠ 0) (h13 : p2 - l2 ≠ 0) (h23 : p2 - pa ≠ 0) :
    MonotoneOn (nM3 R cap l2 pa p2) (Set.Ici 0) := by
  apply monotoneOn_of_hasDerivAt_nonneg (fun t => nM3_deriv R cap l2 pa p2 t h12 h13 h23)
  intro t ht
  have hd : (p2 - l2) - (pa - l2) ≠ 0 := by intro h; apply h23; linarith
  exact mul_nonneg hRc (exp_diff_div_nonneg (pa - l2) (p2 - l2) t ht hd)

theorem nM3_nonneg (R cap l2 pa p2 T : ℝ) (hRc : 0 ≤ R * cap)
    (h12 : pa - l2 ≠ 0) (h13 : p2 - l2 ≠ 0) (h23 : p2 - pa ≠ 0) (hT : 0 ≤ T) :
    0 ≤ nM3 R cap l2 pa p2 T := by
  have h := nM3_monotone R cap l2 pa p2 hRc h12 h13 h23 (Set.mem_Ici.mpr (le_refl 0)) (Set.mem_Ici.mpr hT) hT
  rwa [nM3_zero R cap l2 pa p2 h12 h13 h23] at h

/-- the product of the two-capture chain is never negative … -/
theorem nN3_nonneg (R cap l2 pa p2 T : ℝ) (hRc : 0 ≤ R * cap)
    (h12 : pa - l2 ≠ 0) (h13 : p2 - l2 ≠ 0) (h23 : p2 - pa ≠ 0) (hT : 0 ≤ T) :
    0 ≤ nN3 R cap l2 pa p2 T := by
  rw [nN3_eq_exp_mul_nM3]
  exact mul_nonneg (Real.exp_pos _).le (nM3_nonneg R cap l2 pa p2 T hRc h12 h13 h23 hT)

/-- … and does not decrease with the exposure by more than the depletion of the target -/
theorem nN3_monotone_mod_depletion (R cap l2 pa p2 T1 T2 : ℝ) (hRc : 0 ≤ R * cap)
    (h12 : pa - l2 ≠ 0) (h13 : p2 - l2 ≠ 0) (h23 : p2 - pa ≠ 0) (h1 : 0 ≤ T1) (h2 : T1 ≤ T2) :
    nN3 R cap l2 pa p2 T1 * Real.exp (-(l2 * (T2 - T1))) ≤ nN3 R cap l2 pa p2 T2 := by
  have hm := nM3_monotone R cap l2 pa p2 hRc h12 h13 h23 (Set.mem_Ici.mpr h1)
    (Set.mem_Ici.mpr (le_trans h1 h2)) h2
  rw [nN3_eq_exp_mul_nM3, nN3_eq_exp_mul_nM3]
  have e : Real.exp (-(l2 * T1)) * nM3 R cap l2 pa p2 T1 * Real.exp (-(l2 * (T2 - T1)))
      = Real.exp (-(l2 * T2)) * nM3 R cap l2 pa p2 T1 := by
    have : Real.exp (-(l2 * T1)) * Real.exp (-(l2 * (T2 - T1))) = Real.exp (-(l2 * T2)) := by
      rw [← Real.exp_add]; congr 1; ring
    rw [← this]; ring
  rw [e]
  exact mul_le_mul_of_nonneg_left hm (Real.exp_pos _).le

/-! ## single capture: monotone modulo depletion -/

theorem actNp_monotone_mod_depletion (N0 a c T1 T2 : ℝ) (hN : 0 ≤ a * N0) (h2 : T1 ≤ T2) :
    actNp N0 a c T1 * Real.exp (-(a * (T2 - T1))) ≤ actNp N0 a c T2 := by
  have ea : Real.exp (-(a * T1)) * Real.exp (-(a * (T2 - T1))) = Real.exp (-(a * T2)) := by
    rw [← Real.exp_add]; congr 1; ring
  unfold actNp
  split
  · have : a * N0 * T1 * Real.exp (-(a * T1)) * Real.exp (-(a * (T2 - T1)))
        = a * N0 * T1 * Real.exp (-(a * T2)) := by rw [← ea]; ring
    rw [this]
    have hpos := (Real.exp_pos (-(a * T2))).le
    have : a * N0 * T1 ≤ a * N0 * T2 := mul_le_mul_of_nonneg_left h2 hN
    exact mul_le_mul_of_nonneg_right this hpos
  · rename_i hca
    have hne : c - a ≠ 0 := sub_ne_zero.mpr hca
    have ec : Real.exp (-(c * T1)) * Real.exp (-(c * (T2 - T1))) = Real.exp (-(c * T2)) := by
      rw [← Real.exp_add]; congr 1; ring
    have key : a * N0 / (c - a) * (Real.exp (-(a * T2)) - Real.exp (-(c * T2)))
        - a * N0 / (c - a) * (Real.exp (-(a * T1)) - Real.exp (-(c * T1))) * Real.exp (-(a * (T2 - T1)))
        = a * N0 * Real.exp (-(c * T1)) *
          ((Real.exp (-(a * (T2 - T1))) - Real.exp (-(c * (T2 - T1)))) / (c - a)) := by
      rw [← ea, ← ec]; field_simp; ring
    have hnn : 0 ≤ a * N0 * Real.exp (-(c * T1)) *
          ((Real.exp (-(a * (T2 - T1))) - Real.exp (-(c * (T2 - T1)))) / (c - a)) :=
      mul_nonneg (mul_nonneg hN (Real.exp_pos _).le)
        (exp_diff_div_nonneg a c (T2 - T1) (by linarith) hne)
    linarith


/-! ## the `'b'` and `'2n'` branches of `activityRow` -/

theorem not_omitted {r : Row ℝ} {env : Env ℝ} (hin : ¬ (r.fast = true ∧ env.fastRatio = 0)) :
    (r.fast && env.fastRatio == 0) = false := by
  cases hf : r.fast <;> simp_all

/-- `'b'` rows: the activity is `λ·D(T)` of the parent/daughter chain fed at the constant rate `root` -/
theorem activityRow_b (c : Consts ℝ) (r : Row ℝ) (mass : ℝ) (env : Env ℝ) (T : ℝ)
    (hr : r.reaction = .b) (hin : ¬ (r.fast = true ∧ env.fastRatio = 0)) (hth : r.thalf ≠ 0)
    (hthp : r.thalfParent ≠ 0) (hlam : rateLam c r ≠ 0) (hne : ratePlam c r - rateLam c r ≠ 0) :
    activityRow c r mass env T =
      .ok (some (rateLam c r * bD (rateA env r * atoms0 c r mass) (ratePlam c r) (rateLam c r) T)) := by
  unfold activityRow
  simp only [not_omitted hin, Bool.false_eq_true, if_false, hr]
  have hth' : (r.thalf == 0) = false := by simpa using hth
  have hthp' : (r.thalfParent == 0) = false := by simpa using hthp
  have hne' : (c.ln2 / r.thalfParent - c.ln2 / r.thalf == 0) = false := by
    simpa [ratePlam, rateLam] using hne
  simp only [hth', hthp', hne', Bool.false_eq_true, if_false]
  rw [root_eq]
  have := bCore_eq (rateA env r * atoms0 c r mass) (rateLam c r) (ratePlam c r) T hlam hne
  unfold rateLam ratePlam at this
  rw [this]
  rfl

/-- first-capture rate as the `'2n'` branch writes it (`flux*initialXS*1e-24*3600`) -/
theorem l2_eq (env : Env ℝ) (r : Row ℝ) :
    fluxOf env r * initialXS env r * 1e-24 * 3.6e3 = rateA env r := by unfold rateA; ring
/-- total loss rate of the parent as the `'2n'` branch writes it -/
theorem pa_eq (c : Consts ℝ) (env : Env ℝ) (r : Row ℝ) :
    env.fluence * 1e-24 * 3.6e3 * effectiveXS env r + c.ln2 / r.thalfParent = rateB env r + ratePlam c r := by
  unfold rateB ratePlam; ring

/-- `'2n'` rows: the activity is `λ·N₃(T)` of the two-capture chain, provided the three rates
    (target burn-up, loss of the parent, decay of the product) are pairwise different -/
theorem activityRow_2n (c : Consts ℝ) (r : Row ℝ) (mass : ℝ) (env : Env ℝ) (T : ℝ)
    (hr : r.reaction = .twoN) (hin : ¬ (r.fast = true ∧ env.fastRatio = 0)) (hth : r.thalf ≠ 0)
    (hthp : r.thalfParent ≠ 0)
    (h12 : (rateB env r + ratePlam c r) - rateA env r ≠ 0) (h13 : rateLam c r - rateA env r ≠ 0)
    (h23 : rateLam c r - (rateB env r + ratePlam c r) ≠ 0) :
    activityRow c r mass env T =
      .ok (some (rateLam c r * nN3 (rateA env r * atoms0 c r mass) (rateB env r) (rateA env r)
        (rateB env r + ratePlam c r) (rateLam c r) T)) := by
  have h21 : rateA env r - (rateB env r + ratePlam c r) ≠ 0 := by intro h; apply h12; linarith
  have h31 : rateA env r - rateLam c r ≠ 0 := by intro h; apply h13; linarith
  have h32 : (rateB env r + ratePlam c r) - rateLam c r ≠ 0 := by intro h; apply h23; linarith
  unfold activityRow
  simp only [not_omitted hin, Bool.false_eq_true, if_false, hr]
  have hth' : (r.thalf == 0) = false := by simpa using hth
  have hthp' : (r.thalfParent == 0) = false := by simpa using hthp
  simp only [hth', hthp', Bool.false_eq_true, if_false, l2_eq, pa_eq]
  have d1 : (twoNDen1 (rateA env r) (rateB env r + ratePlam c r) (c.ln2 / r.thalf) == 0) = false := by
    simp only [beq_eq_false_iff_ne, ne_eq, twoNDen1]
    exact mul_ne_zero h12 h13
  have d2 : (twoNDen2 (rateA env r) (rateB env r + ratePlam c r) (c.ln2 / r.thalf) == 0) = false := by
    simp only [beq_eq_false_iff_ne, ne_eq, twoNDen2]
    exact mul_ne_zero h21 h23
  have d3 : (twoNDen3 (rateA env r) (rateB env r + ratePlam c r) (c.ln2 / r.thalf) == 0) = false := by
    simp only [beq_eq_false_iff_ne, ne_eq, twoNDen3]
    exact mul_ne_zero h31 h32
  simp only [d1, d2, d3, Bool.false_eq_true, if_false]
  rw [root_eq, twoNCore_eq]
  have : rateB env r + ratePlam c r - c.ln2 / r.thalfParent = rateB env r := by unfold ratePlam; ring
  rw [this]
  rfl

end PtModel.Activation
