import PtVerif.Num
import Mathlib.Analysis.SpecialFunctions.Trigonometric.Basic
import Mathlib.Analysis.SpecialFunctions.Log.Basic
import Mathlib.Analysis.SpecialFunctions.Sqrt

/-! The `ℝ` interpretation of the non-algebraic operations (proof files only). -/
noncomputable instance : Transc ℝ :=
  ⟨Real.exp, Real.log, Real.sqrt, Real.cos, Real.pi, fun x => |x|⟩

@[simp] theorem Transc.exp_real (x : ℝ) : Transc.exp x = Real.exp x := rfl
@[simp] theorem Transc.log_real (x : ℝ) : Transc.log x = Real.log x := rfl
@[simp] theorem Transc.sqrt_real (x : ℝ) : Transc.sqrt x = Real.sqrt x := rfl
@[simp] theorem Transc.cos_real (x : ℝ) : Transc.cos x = Real.cos x := rfl
@[simp] theorem Transc.pi_real : (Transc.pi : ℝ) = Real.pi := rfl
@[simp] theorem Transc.abs_real (x : ℝ) : Transc.abs x = |x| := rfl
