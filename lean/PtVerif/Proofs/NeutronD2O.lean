import PtVerif.Proofs.NeutronInvariance
import PtVerif.Model.NeutronD2O
/-!
# C16: the solute SLD is that of the compound with substituted labile hydrogen

`Formula.replace` on the atom dict (`setKey`, `delKey`), its effect on every count-weighted sum,
the density bookkeeping (cell volume is kept), and linearity of the real and imaginary SLD in the
substituted fraction.
-/
namespace PtProofs.Neutron
open PtModel PtModel.Neutron

/-! ## C16: D2O contrast -/

theorem mixValues_zero (a b : Sld3 ℝ) : mixValues a b 0 = b := by
  unfold mixValues; ext <;> simp

theorem mixValues_one (a b : Sld3 ℝ) : mixValues a b 1 = a := by
  unfold mixValues; ext <;> simp

/-- at volume fraction 0 the solution is the H2O/D2O solvent mixture -/
theorem vf0_is_solvent (t : Tbl ℝ) (c : Compound ℝ) (w d : ℝ) :
    d2oSld t c w 0 d = (d2oSlds t c w).map fun s => mixValues s.2.1 s.1 d := by
  unfold d2oSld
  cases d2oSlds t c w with
  | none => rfl
  | some s => obtain ⟨h2o, d2o, hs, ds⟩ := s; simp [mixValues_zero]

/-- at volume fraction 1 the solution is the solute: the D- and H-substituted compounds mixed
    by the D2O fraction -/
theorem vf1_is_solute (t : Tbl ℝ) (c : Compound ℝ) (w d : ℝ) :
    d2oSld t c w 1 d = (d2oSlds t c w).map fun s => mixValues s.2.2.2 s.2.2.1 d := by
  unfold d2oSld
  cases d2oSlds t c w with
  | none => rfl
  | some s => obtain ⟨h2o, d2o, hs, ds⟩ := s; simp [mixValues_one]

/-- in between the three SLDs mix linearly in the volume fraction -/
theorem linear_in_volume_fraction (t : Tbl ℝ) (c : Compound ℝ) (w vf d : ℝ) (s1 s0 : Sld3 ℝ)
    (h1 : d2oSld t c w 1 d = some s1) (h0 : d2oSld t c w 0 d = some s0) :
    d2oSld t c w vf d = some (mixValues s1 s0 vf) := by
  rw [vf1_is_solute] at h1; rw [vf0_is_solvent] at h0
  unfold d2oSld
  cases hs : d2oSlds t c w with
  | none => rw [hs] at h1; cases h1
  | some s =>
    obtain ⟨h2o, d2o, hsld, dsld⟩ := s
    rw [hs] at h1 h0
    simp only [Option.map_some, Option.some.injEq] at h1 h0 ⊢
    rw [← h1, ← h0]

/-- the denominator of the match point: `SLD(D) − SLD(H) + SLD(H2O) − SLD(D2O)` (real parts) -/
noncomputable def matchDenominator (s : Sld3 ℝ × Sld3 ℝ × Sld3 ℝ × Sld3 ℝ) : ℝ :=
  s.2.2.2.1 - s.2.2.1.1 + s.1.1 - s.2.1.1

/-- **match point**: at the reported D2O fraction the real SLD of the solution is the same for
    every volume fraction, namely the reported SLD -/
theorem match_point_independent_of_vf (t : Tbl ℝ) (c : Compound ℝ) (w : ℝ)
    (s : Sld3 ℝ × Sld3 ℝ × Sld3 ℝ × Sld3 ℝ) (hs : d2oSlds t c w = some s)
    (hden : matchDenominator s ≠ 0) (f sld : ℝ) (hm : d2oMatch t c w = some (f, sld)) (vf : ℝ) :
    (d2oSld t c w vf f).map (·.1) = some sld := by
  obtain ⟨h2o, d2o, hsld, dsld⟩ := s
  unfold d2oMatch at hm; unfold d2oSld
  rw [hs] at hm ⊢
  simp only [Option.map_some, Option.some.injEq, Prod.mk.injEq] at hm ⊢
  obtain ⟨hf, hsl⟩ := hm
  rw [hf] at hsl
  rw [← hsl]
  simp only [mixValues]
  simp only [matchDenominator] at hden
  have hf' : f * (dsld.1 - hsld.1 + h2o.1 - d2o.1) = h2o.1 - hsld.1 := by
    rw [← hf]; field_simp
  have : dsld.1 * f + hsld.1 * (1 - f) = d2o.1 * f + h2o.1 * (1 - f) := by linarith
  rw [← this]; ring

/-- … and it is the only such fraction: if the real SLD at D2O fraction `d` is the same at volume
    fractions 0 and 1, then `d` is the reported match point -/
theorem match_point_unique (t : Tbl ℝ) (c : Compound ℝ) (w : ℝ)
    (s : Sld3 ℝ × Sld3 ℝ × Sld3 ℝ × Sld3 ℝ) (hs : d2oSlds t c w = some s)
    (hden : matchDenominator s ≠ 0) (f sld : ℝ) (hm : d2oMatch t c w = some (f, sld)) (d : ℝ)
    (heq : (d2oSld t c w 0 d).map (·.1) = (d2oSld t c w 1 d).map (·.1)) : d = f := by
  obtain ⟨h2o, d2o, hsld, dsld⟩ := s
  unfold d2oMatch at hm; unfold d2oSld at heq
  rw [hs] at hm heq
  simp only [Option.map_some, Option.some.injEq, Prod.mk.injEq, mixValues] at hm heq
  obtain ⟨hf, _⟩ := hm
  simp only [matchDenominator] at hden
  rw [← hf, eq_div_iff hden]
  linarith

/-! ### fasta.Molecule reports the same numbers -/

/-- the two modules use the same solvent literals -/
theorem fasta_water_eq_nsf_water :
    (PtGen.fasta_H2O_natural_density : ℝ) = PtGen.nsf_H2O_natural_density ∧
    (PtGen.fasta_D2O_natural_density : ℝ) = PtGen.nsf_D2O_natural_density := by
  unfold PtGen.fasta_H2O_natural_density PtGen.nsf_H2O_natural_density
    PtGen.fasta_D2O_natural_density PtGen.nsf_D2O_natural_density
  constructor <;> norm_num

theorem fastaWaterSld_eq (t : Tbl ℝ) (h : Atom) (nd : ℝ) :
    fastaWaterSld t h nd = (compoundSld t (water t h nd) PtGen.ABSORPTION_WAVELENGTH).map (·.1) := rfl

/-- `Molecule.sld`, `.Dsld` are the real SLDs of the H- and D-substituted forms and
    `.D2Omatch` is `100 ×` the match fraction of `D2O_match` (default wavelength) -/
theorem fasta_match_is_percentage (t : Tbl ℝ) (m : Compound ℝ) (mol : Molecule ℝ)
    (hmol : molecule t m = some mol) :
    ∃ s f sld, d2oSlds t m PtGen.ABSORPTION_WAVELENGTH = some s ∧
      d2oMatch t m PtGen.ABSORPTION_WAVELENGTH = some (f, sld) ∧
      mol.sld = s.2.2.1.1 ∧ mol.dsld = s.2.2.2.1 ∧ mol.d2oMatch = 100 * f := by
  obtain ⟨e1, e2⟩ := fasta_water_eq_nsf_water
  unfold molecule at hmol
  simp only [fastaWaterSld_eq, e1, e2] at hmol
  unfold d2oMatch d2oSlds
  cases h1 : compoundSld t (water t atomH PtGen.nsf_H2O_natural_density) PtGen.ABSORPTION_WAVELENGTH with
  | none => simp [h1] at hmol
  | some a =>
    cases h2 : compoundSld t (water t atomD PtGen.nsf_D2O_natural_density) PtGen.ABSORPTION_WAVELENGTH with
    | none => simp [h1, h2] at hmol
    | some b =>
      cases h3 : compoundSld t (replace t.atomMass m atomH1 atomH 1) PtGen.ABSORPTION_WAVELENGTH with
      | none => simp [h1, h2, h3] at hmol
      | some hsl =>
        cases h4 : compoundSld t (replace t.atomMass m atomH1 atomD 1) PtGen.ABSORPTION_WAVELENGTH with
        | none => simp [h1, h2, h3, h4] at hmol
        | some dsl =>
          simp only [h1, h2, h3, h4, Option.map_some, Option.some.injEq] at hmol
          refine ⟨(a, b, hsl, dsl), _, _, rfl, rfl, ?_, ?_, ?_⟩
          · rw [← hmol]
          · rw [← hmol]
          · rw [← hmol]; simp only [lit]; push_cast; ring

/-- `Molecule.D2Osld(vf, d)` is the real part of `D2O_sld(labile formula, vf, d)` -/
theorem fasta_D2Osld_eq (t : Tbl ℝ) (m : Compound ℝ) (vf d : ℝ) :
    moleculeD2Osld t m vf d = (d2oSld t m PtGen.ABSORPTION_WAVELENGTH vf d).map (·.1) := by
  obtain ⟨e1, e2⟩ := fasta_water_eq_nsf_water
  unfold moleculeD2Osld molecule d2oSld d2oSlds
  simp only [fastaWaterSld_eq, e1, e2]
  cases h1 : compoundSld t (water t atomH PtGen.nsf_H2O_natural_density) PtGen.ABSORPTION_WAVELENGTH with
  | none => simp
  | some a =>
    cases h2 : compoundSld t (water t atomD PtGen.nsf_D2O_natural_density) PtGen.ABSORPTION_WAVELENGTH with
    | none => simp
    | some b =>
      cases h3 : compoundSld t (replace t.atomMass m atomH1 atomH 1) PtGen.ABSORPTION_WAVELENGTH with
      | none => simp
      | some hsl =>
        cases h4 : compoundSld t (replace t.atomMass m atomH1 atomD 1) PtGen.ABSORPTION_WAVELENGTH with
        | none => simp
        | some dsl =>
          simp only [Option.map_some, Option.some.injEq, mixValues]
          ring


/-! ## dict operations -/

theorem hasKey_iff (l : List (Atom × ℝ)) (a : Atom) :
    hasKey l a = true ↔ a ∈ l.map Prod.fst := by
  unfold hasKey
  simp only [List.any_eq_true, beq_iff_eq, List.mem_map]

theorem keys_setKey (l : List (Atom × ℝ)) (a : Atom) (x : ℝ) :
    (setKey l a x).map Prod.fst
      = if a ∈ l.map Prod.fst then l.map Prod.fst else l.map Prod.fst ++ [a] := by
  induction l with
  | nil => simp [setKey]
  | cons e r ih =>
    obtain ⟨k, y⟩ := e
    unfold setKey
    by_cases h : k = a
    · subst h; simp
    · have h' : ¬ a = k := fun e => h e.symm
      simp only [h, if_false, List.map_cons, ih, List.mem_cons, h', false_or]
      split <;> simp

theorem mem_keys_setKey (l : List (Atom × ℝ)) (a : Atom) (x : ℝ) (b : Atom) :
    b ∈ (setKey l a x).map Prod.fst ↔ b ∈ l.map Prod.fst ∨ b = a := by
  rw [keys_setKey]
  split
  · rename_i h
    constructor
    · intro h'; exact Or.inl h'
    · rintro (h' | h'); exact h'; subst h'; exact h
  · simp

theorem keysNodup_setKey {l : List (Atom × ℝ)} (h : KeysNodup l) (a : Atom) (x : ℝ) :
    KeysNodup (setKey l a x) := by
  unfold KeysNodup at *
  rw [keys_setKey]
  split
  · exact h
  · rename_i hn
    rw [List.nodup_append]
    exact ⟨h, by simp, by intro c hc b hb; simp at hb; subst hb; intro e; subst e; exact hn hc⟩

theorem lookupD_setKey (l : List (Atom × ℝ)) (a : Atom) (x : ℝ) (b : Atom) :
    lookupD (setKey l a x) b = if a = b then x else lookupD l b := by
  induction l with
  | nil =>
    by_cases h : a = b <;> simp [setKey, lookupD, h]
  | cons e r ih =>
    obtain ⟨k, y⟩ := e
    unfold setKey
    by_cases hk : k = a
    · subst hk
      by_cases hb : k = b
      · simp [lookupD, hb]
      · simp [lookupD, hb]
    · simp only [hk, if_false, lookupD]
      by_cases hb : k = b
      · subst hb
        have : ¬ a = k := fun e => hk e.symm
        simp [this]
      · simp only [hb, if_false]; exact ih

theorem wsum_setKey (f : Atom → ℝ) (l : List (Atom × ℝ)) (a : Atom) (x : ℝ) :
    wsum f (setKey l a x) = wsum f l - f a * lookupD l a + f a * x := by
  induction l with
  | nil => simp [setKey, wsum, lookupD]
  | cons e r ih =>
    obtain ⟨k, y⟩ := e
    unfold setKey
    by_cases hk : k = a
    · subst hk; simp [wsum, lookupD]; ring
    · simp only [hk, if_false, lookupD]
      simp only [wsum, List.map_cons, List.sum_cons] at ih ⊢
      rw [ih]; ring

theorem keys_delKey (l : List (Atom × ℝ)) (a : Atom) :
    (delKey l a).map Prod.fst = (l.map Prod.fst).filter (fun k => !(k == a)) := by
  unfold delKey
  induction l with
  | nil => rfl
  | cons e r ih =>
    obtain ⟨k, y⟩ := e
    by_cases hk : k = a
    · subst hk; simp [List.filter_cons, ih]
    · simp [List.filter_cons, hk, ih]

theorem keysNodup_delKey {l : List (Atom × ℝ)} (h : KeysNodup l) (a : Atom) :
    KeysNodup (delKey l a) := by
  unfold KeysNodup at *
  rw [keys_delKey]
  exact h.filter _

theorem mem_keys_delKey (l : List (Atom × ℝ)) (a b : Atom) :
    b ∈ (delKey l a).map Prod.fst ↔ b ∈ l.map Prod.fst ∧ b ≠ a := by
  rw [keys_delKey]; simp

theorem wsum_delKey (f : Atom → ℝ) {l : List (Atom × ℝ)} (h : KeysNodup l) (a : Atom) :
    wsum f (delKey l a) = wsum f l - f a * lookupD l a := by
  induction l with
  | nil => simp [delKey, wsum, lookupD]
  | cons e r ih =>
    obtain ⟨k, y⟩ := e
    have hk' : KeysNodup r := by
      unfold KeysNodup at h ⊢; simp only [List.map_cons, List.nodup_cons] at h; exact h.2
    by_cases hk : k = a
    · subst hk
      have hnot : k ∉ r.map Prod.fst := by
        unfold KeysNodup at h; simp only [List.map_cons, List.nodup_cons] at h; exact h.1
      have hdel : delKey ((k, y) :: r) k = delKey r k := by simp [delKey, List.filter_cons]
      rw [hdel, ih hk', lookupD_of_not_mem hnot]
      simp [wsum, lookupD]
    · have hdel : delKey ((k, y) :: r) a = (k, y) :: delKey r a := by
        simp [delKey, List.filter_cons, hk]
      rw [hdel]
      simp only [lookupD, hk, if_false]
      simp only [wsum, List.map_cons, List.sum_cons] at ih ⊢
      rw [ih hk']; ring

theorem lookupD_delKey {l : List (Atom × ℝ)} (a b : Atom) :
    lookupD (delKey l a) b = if b = a then 0 else lookupD l b := by
  induction l with
  | nil => simp [delKey, lookupD]
  | cons e r ih =>
    obtain ⟨k, y⟩ := e
    by_cases hk : k = a
    · subst hk
      have hdel : delKey ((k, y) :: r) k = delKey r k := by simp [delKey, List.filter_cons]
      rw [hdel, ih]
      by_cases hb : b = k
      · simp [hb]
      · have : ¬ k = b := fun e => hb e.symm
        simp [hb, lookupD, this]
    · have hdel : delKey ((k, y) :: r) a = (k, y) :: delKey r a := by
        simp [delKey, List.filter_cons, hk]
      rw [hdel]
      simp only [lookupD]
      by_cases hb : k = b
      · subst hb; simp [hk]
      · simp only [hb, if_false]; exact ih

/-! ## `replace` -/

section Replace
variable (am : Atom → ℝ)

/-- every count-weighted sum changes by `n_source · portion · (f target − f source)` -/
theorem replace_wsum (f : Atom → ℝ) (c : Compound ℝ) (s tg : Atom) (p : ℝ)
    (hk : KeysNodup c.atoms) (hne : s ≠ tg) :
    wsum f (replace am c s tg p).atoms
      = wsum f c.atoms + lookupD c.atoms s * p * (f tg - f s) := by
  unfold replace
  by_cases hs : hasKey c.atoms s = true
  · simp only [hs, if_true]
    have hne' : ¬ tg = s := fun e => hne e.symm
    by_cases hp : p = 1
    · subst hp
      simp only [beq_self_eq_true, if_true]
      rw [wsum_delKey f (keysNodup_setKey hk _ _), wsum_setKey, lookupD_setKey]
      simp only [hne', if_false]; ring
    · have hp' : (p == 1) = false := by simpa using hp
      simp only [hp', Bool.false_eq_true, if_false]
      rw [wsum_setKey, wsum_setKey, lookupD_setKey]
      simp only [hne', if_false]; ring
  · simp only [hs, Bool.false_eq_true, if_false]
    have : lookupD c.atoms s = 0 := lookupD_of_not_mem (fun h => hs ((hasKey_iff _ _).mpr h))
    rw [this]; ring

theorem replace_keysNodup (c : Compound ℝ) (s tg : Atom) (p : ℝ) (hk : KeysNodup c.atoms) :
    KeysNodup (replace am c s tg p).atoms := by
  unfold replace
  by_cases hs : hasKey c.atoms s = true
  · simp only [hs, if_true]
    by_cases hp : (p == 1) = true
    · simp only [hp, if_true]; exact keysNodup_delKey (keysNodup_setKey hk _ _) _
    · simp only [hp, Bool.false_eq_true, if_false]; exact keysNodup_setKey (keysNodup_setKey hk _ _) _ _
  · simp only [hs, Bool.false_eq_true, if_false]; exact hk

/-- the count of the source after the replacement -/
theorem replace_lookup_source (c : Compound ℝ) (s tg : Atom) (p : ℝ) (hne : s ≠ tg) :
    lookupD (replace am c s tg p).atoms s = lookupD c.atoms s * (1 - p) := by
  unfold replace
  have hne' : ¬ tg = s := fun e => hne e.symm
  by_cases hs : hasKey c.atoms s = true
  · simp only [hs, if_true]
    by_cases hp : p = 1
    · subst hp
      simp only [beq_self_eq_true, if_true, lookupD_delKey, if_true]; ring
    · have hp' : (p == 1) = false := by simpa using hp
      simp only [hp', Bool.false_eq_true, if_false, lookupD_setKey, if_true, hne', if_false]
  · simp only [hs, Bool.false_eq_true, if_false]
    have : lookupD c.atoms s = 0 := lookupD_of_not_mem (fun h => hs ((hasKey_iff _ _).mpr h))
    rw [this]; ring

/-- the count of the target after the replacement -/
theorem replace_lookup_target (c : Compound ℝ) (s tg : Atom) (p : ℝ) (hne : s ≠ tg) :
    lookupD (replace am c s tg p).atoms tg = lookupD c.atoms tg + lookupD c.atoms s * p := by
  unfold replace
  have hne' : ¬ tg = s := fun e => hne e.symm
  by_cases hs : hasKey c.atoms s = true
  · simp only [hs, if_true]
    by_cases hp : p = 1
    · subst hp
      simp only [beq_self_eq_true, if_true, lookupD_delKey, hne', if_false, lookupD_setKey, if_true]
    · have hp' : (p == 1) = false := by simpa using hp
      simp only [hp', Bool.false_eq_true, if_false, lookupD_setKey, hne, if_false, if_true]
  · simp only [hs, Bool.false_eq_true, if_false]
    have : lookupD c.atoms s = 0 := lookupD_of_not_mem (fun h => hs ((hasKey_iff _ _).mpr h))
    rw [this]; ring

/-- the count of every other atom is unchanged -/
theorem replace_lookup_other (c : Compound ℝ) (s tg : Atom) (p : ℝ) (b : Atom)
    (hbs : b ≠ s) (hbt : b ≠ tg) :
    lookupD (replace am c s tg p).atoms b = lookupD c.atoms b := by
  unfold replace
  have h1 : ¬ tg = b := fun e => hbt e.symm
  have h2 : ¬ s = b := fun e => hbs e.symm
  by_cases hs : hasKey c.atoms s = true
  · simp only [hs, if_true]
    by_cases hp : (p == 1) = true
    · simp only [hp, if_true, lookupD_delKey, hbs, if_false, lookupD_setKey, h1]
    · simp only [hp, Bool.false_eq_true, if_false, lookupD_setKey, h1, h2]
  · simp only [hs, Bool.false_eq_true, if_false]

/-- density bookkeeping: `ρ' = ρ · M'/M` (so the cell volume `M/ρ` is kept) -/
theorem replace_density (c : Compound ℝ) (s tg : Atom) (p : ℝ)
    (hk : KeysNodup c.atoms) (hne : s ≠ tg) (hM : wsum am c.atoms ≠ 0) :
    (replace am c s tg p).density
      = c.density * wsum am (replace am c s tg p).atoms / wsum am c.atoms := by
  rw [replace_wsum am am c s tg p hk hne]
  unfold replace
  by_cases hs : hasKey c.atoms s = true
  · simp only [hs, if_true, massOf_eq_wsum]
    congr 1; ring
  · simp only [hs, Bool.false_eq_true, if_false]
    have : lookupD c.atoms s = 0 := lookupD_of_not_mem (fun h => hs ((hasKey_iff _ _).mpr h))
    rw [this]; field_simp; ring

end Replace

theorem replace_mem_keys (am : Atom → ℝ) (c : Compound ℝ) (s tg : Atom) (p : ℝ) (b : Atom)
    (h : b ∈ (replace am c s tg p).atoms.map Prod.fst) : b ∈ c.atoms.map Prod.fst ∨ b = tg := by
  unfold replace at h
  by_cases hs : hasKey c.atoms s = true
  · simp only [hs, if_true] at h
    by_cases hp : (p == 1) = true
    · simp only [hp, if_true] at h
      have := ((mem_keys_delKey _ _ _).mp h).1
      exact (mem_keys_setKey _ _ _ _).mp this
    · simp only [hp, Bool.false_eq_true, if_false] at h
      rcases (mem_keys_setKey _ _ _ _).mp h with h' | h'
      · exact (mem_keys_setKey _ _ _ _).mp h'
      · subst h'; exact Or.inl ((hasKey_iff _ _).mp hs)
  · simp only [hs, Bool.false_eq_true, if_false] at h; exact Or.inl h

theorem replace_allData (t : Tbl ℝ) (am : Atom → ℝ) (c : Compound ℝ) (s tg : Atom) (p : ℝ)
    (hd : AllData t c.atoms) (htg : (t.neutron tg).isSome = true) :
    AllData t (replace am c s tg p).atoms := by
  intro e he
  rcases replace_mem_keys am c s tg p e.1 (List.mem_map_of_mem he) with h | h
  · obtain ⟨e', he', hk⟩ := List.mem_map.mp h
    rw [← hk]; exact hd e' he'
  · rw [h]; exact htg

/-! ## SLD of a compound in terms of its weighted sums -/

/-- real and imaginary part of an SLD triple -/
def reIm (s : Sld3 ℝ) : ℝ × ℝ := (s.1, s.2.1)

theorem neutronSld_reim (t : Tbl ℝ) (atoms : List (Atom × ℝ)) (ρ w : ℝ) (hd : AllData t atoms)
    (hv : wsum t.atomMass atoms * ρ ≠ 0) (hn : wsum (fun _ => 1) atoms ≠ 0) :
    (neutronSld t atoms ρ w).map reIm = some
      (10 * wsum (fun a => (pa t w a).1.1) atoms / cellVolume (wsum t.atomMass atoms) ρ,
       |10 * wsum (fun a => (pa t w a).1.2) atoms / cellVolume (wsum t.atomMass atoms) ρ|) := by
  unfold neutronSld
  rw [neutronScattering_allData t atoms ρ w hd, accSums_zero_eq_wsum t w atoms]
  simp only [finish, beq_iff_eq, hv, if_false, Outcome.sld, calculateScattering, Cx.divS, lit,
    abs_def, Option.map_some, reIm, Option.some.injEq, Prod.mk.injEq]
  refine ⟨?_, ?_⟩
  · push_cast; field_simp
  · congr 1; push_cast; field_simp

theorem neutronSld_isSome (t : Tbl ℝ) (atoms : List (Atom × ℝ)) (ρ w : ℝ) (hd : AllData t atoms) :
    ∃ s, neutronSld t atoms ρ w = some s := by
  unfold neutronSld
  rw [neutronScattering_allData t atoms ρ w hd]
  unfold finish
  split
  · exact ⟨_, rfl⟩
  · exact ⟨_, rfl⟩

theorem cellVolume_replace (M M' ρ : ℝ) (hM : M ≠ 0) (hM' : M' ≠ 0) :
    cellVolume M' (ρ * M' / M) = cellVolume M ρ := by
  unfold cellVolume
  by_cases hρ : ρ = 0
  · subst hρ; simp
  · field_simp

/-! ## the solute theorem -/

/-- the inputs the property quantifies over: a compound given as an atom dict with positive
    counts and known positive density, over a table in which every atom has positive mass and
    non-negative absorption, and H, D, O have neutron data -/
structure SolutePhysical (t : Tbl ℝ) (c : Compound ℝ) (w : ℝ) : Prop where
  keys : KeysNodup c.atoms
  data : AllData t c.atoms
  dataH : (t.neutron atomH).isSome = true
  dataD : (t.neutron atomD).isSome = true
  dataO : (t.neutron atomO).isSome = true
  nonempty : c.atoms ≠ []
  counts : ∀ e ∈ c.atoms, 0 < e.2
  masses : ∀ a, 0 < t.atomMass a
  density : 0 < c.density
  im : ∀ a, (pa t w a).1.2 ≤ 0

theorem lookupD_nonneg {l : List (Atom × ℝ)} (h : ∀ e ∈ l, 0 < e.2) (a : Atom) : 0 ≤ lookupD l a := by
  induction l with
  | nil => simp [lookupD]
  | cons e r ih =>
    obtain ⟨b, y⟩ := e
    simp only [lookupD]
    split
    · exact (h (b, y) (by simp)).le
    · exact ih (fun e he => h e (by simp [he]))

theorem wsum_nonneg_of {l : List (Atom × ℝ)} (f : Atom → ℝ) (hf : ∀ a, 0 ≤ f a)
    (h : ∀ e ∈ l, 0 ≤ e.2) : 0 ≤ wsum f l := by
  unfold wsum
  exact map_sum_nonneg _ _ (fun e he => mul_nonneg (hf e.1) (h e he))

theorem wsum_pos_of {l : List (Atom × ℝ)} (f : Atom → ℝ) (hf : ∀ a, 0 < f a) (hne : l ≠ [])
    (h : ∀ e ∈ l, 0 < e.2) : 0 < wsum f l := by
  unfold wsum
  exact map_sum_pos _ _ hne (fun e he => mul_pos (hf e.1) (h e he))

theorem mem_delKey {l : List (Atom × ℝ)} {a : Atom} {e : Atom × ℝ} (h : e ∈ delKey l a) : e ∈ l := by
  unfold delKey at h; exact (List.mem_filter.mp h).1

/-- the sum after replacing all of `s` by `tg`, split into the untouched rest and the replaced
    atoms -/
theorem replaced_split (f : Atom → ℝ) {l : List (Atom × ℝ)} (hk : KeysNodup l) (s : Atom) (x : ℝ) :
    wsum f l + lookupD l s * (x - f s) = wsum f (delKey l s) + lookupD l s * x := by
  rw [wsum_delKey f hk]; ring

theorem replaced_pos (f : Atom → ℝ) (hf : ∀ a, 0 < f a) {l : List (Atom × ℝ)} (hk : KeysNodup l)
    (hne : l ≠ []) (hc : ∀ e ∈ l, 0 < e.2) (s : Atom) (x : ℝ) (hx : 0 < x) :
    0 < wsum f l + lookupD l s * (x - f s) := by
  rw [replaced_split f hk]
  have h1 : 0 ≤ wsum f (delKey l s) :=
    wsum_nonneg_of f (fun a => (hf a).le) (fun e he => (hc e (mem_delKey he)).le)
  have h2 := lookupD_nonneg hc s
  by_cases hs : s ∈ l.map Prod.fst
  · obtain ⟨e, he, hes⟩ := List.mem_map.mp hs
    have : lookupD l s = e.2 := by
      apply lookupD_of_mem hk; rw [← hes]; exact he
    have hpos : 0 < lookupD l s := by rw [this]; exact hc e he
    have := mul_pos hpos hx
    linarith
  · have h0 : lookupD l s = 0 := lookupD_of_not_mem hs
    have hw := wsum_pos_of f hf hne hc
    rw [← replaced_split f hk, h0]; linarith

theorem replaced_nonpos (f : Atom → ℝ) (hf : ∀ a, f a ≤ 0) {l : List (Atom × ℝ)} (hk : KeysNodup l)
    (hc : ∀ e ∈ l, 0 < e.2) (s : Atom) (x : ℝ) (hx : x ≤ 0) :
    wsum f l + lookupD l s * (x - f s) ≤ 0 := by
  rw [replaced_split f hk]
  have h1 : wsum f (delKey l s) ≤ 0 := by
    unfold wsum
    exact map_sum_nonpos _ _ (fun e he =>
      mul_nonpos_of_nonpos_of_nonneg (hf e.1) (hc e (mem_delKey he)).le)
  have h2 := lookupD_nonneg hc s
  have := mul_nonpos_of_nonneg_of_nonpos h2 hx
  linarith

theorem atomH1_ne_H : atomH1 ≠ atomH := by decide
theorem atomH1_ne_D : atomH1 ≠ atomD := by decide

/-- every count-weighted sum of the substituted compound is the `d : (1−d)` mixture of the sums of
    the fully D- and fully H-substituted compounds -/
theorem substituted_wsum (am f : Atom → ℝ) (c : Compound ℝ) (d : ℝ) (hk : KeysNodup c.atoms) :
    wsum f (substituted am c d).atoms
      = d * wsum f (replace am c atomH1 atomD 1).atoms
        + (1 - d) * wsum f (replace am c atomH1 atomH 1).atoms := by
  unfold substituted
  rw [replace_wsum am f _ atomH1 atomH 1 (replace_keysNodup am c _ _ _ hk) atomH1_ne_H,
    replace_lookup_source am c atomH1 atomD d atomH1_ne_D,
    replace_wsum am f c atomH1 atomD d hk atomH1_ne_D,
    replace_wsum am f c atomH1 atomD 1 hk atomH1_ne_D,
    replace_wsum am f c atomH1 atomH 1 hk atomH1_ne_H]
  ring

/-- the labile hydrogens are gone, D has gained `d·n`, H has gained `(1−d)·n`, the rest is
    unchanged -/
theorem substituted_counts (am : Atom → ℝ) (c : Compound ℝ) (d : ℝ) :
    lookupD (substituted am c d).atoms atomH1 = 0 ∧
    lookupD (substituted am c d).atoms atomD = lookupD c.atoms atomD + d * lookupD c.atoms atomH1 ∧
    lookupD (substituted am c d).atoms atomH
      = lookupD c.atoms atomH + (1 - d) * lookupD c.atoms atomH1 ∧
    ∀ b, b ≠ atomH1 → b ≠ atomD → b ≠ atomH →
      lookupD (substituted am c d).atoms b = lookupD c.atoms b := by
  unfold substituted
  refine ⟨?_, ?_, ?_, ?_⟩
  · rw [replace_lookup_source am _ atomH1 atomH 1 atomH1_ne_H]; ring
  · rw [replace_lookup_other am _ atomH1 atomH 1 atomD (by decide) (by decide),
      replace_lookup_target am c atomH1 atomD d atomH1_ne_D]; ring
  · rw [replace_lookup_target am _ atomH1 atomH 1 atomH1_ne_H,
      replace_lookup_other am c atomH1 atomD d atomH (by decide) (by decide),
      replace_lookup_source am c atomH1 atomD d atomH1_ne_D]; ring
  · intro b h1 h2 h3
    rw [replace_lookup_other am _ atomH1 atomH 1 b h1 h3,
      replace_lookup_other am c atomH1 atomD d b h1 h2]

theorem substituted_density (am : Atom → ℝ) (c : Compound ℝ) (d : ℝ) (hk : KeysNodup c.atoms)
    (hM : wsum am c.atoms ≠ 0) (hM1 : wsum am (replace am c atomH1 atomD d).atoms ≠ 0) :
    (substituted am c d).density
      = c.density * wsum am (substituted am c d).atoms / wsum am c.atoms := by
  unfold substituted
  rw [replace_density am _ atomH1 atomH 1 (replace_keysNodup am c _ _ _ hk) atomH1_ne_H hM1,
    replace_density am c atomH1 atomD d hk atomH1_ne_D hM]
  field_simp

/-- substitution keeps the cell volume -/
theorem substituted_keeps_cell_volume (am : Atom → ℝ) (c : Compound ℝ) (d : ℝ)
    (hk : KeysNodup c.atoms) (hM : wsum am c.atoms ≠ 0)
    (hM1 : wsum am (replace am c atomH1 atomD d).atoms ≠ 0)
    (hMS : wsum am (substituted am c d).atoms ≠ 0) :
    cellVolume (wsum am (substituted am c d).atoms) (substituted am c d).density
      = cellVolume (wsum am c.atoms) c.density := by
  rw [substituted_density am c d hk hM hM1]
  exact cellVolume_replace _ _ _ hM hMS

theorem water_allData (t : Tbl ℝ) (h : Atom) (nd : ℝ) (hh : (t.neutron h).isSome = true)
    (hO : (t.neutron atomO).isSome = true) : AllData t (water t h nd).atoms := by
  intro e he
  simp only [water, List.mem_cons, List.not_mem_nil, or_false] at he
  rcases he with rfl | rfl
  · exact hh
  · exact hO

/-- **C16, solute**: for a physical compound and `0 ≤ d ≤ 1`, the real and imaginary SLD that
    `D2O_sld` reports at volume fraction 1 are those of the compound in which a fraction `d` of the
    labile hydrogens H[1] is replaced by D and the rest by natural H (`substituted`), which has
    the cell volume of the original (`substituted_keeps_cell_volume`) -/
theorem solute_sld_is_substituted_compound (t : Tbl ℝ) (c : Compound ℝ) (w d : ℝ)
    (h : SolutePhysical t c w) (hd0 : 0 ≤ d) (hd1 : d ≤ 1) :
    ∃ x, d2oSld t c w 1 d = some x ∧
      (compoundSld t (substituted t.atomMass c d) w).map reIm = some (reIm x) := by
  set am := t.atomMass with ham
  have hk := h.keys
  have hmass := h.masses
  set n1 := lookupD c.atoms atomH1 with hn1
  -- masses of the four compounds
  have hMpos : 0 < wsum am c.atoms := wsum_pos_of am hmass h.nonempty h.counts
  have hM := hMpos.ne'
  have hMH : wsum am (replace am c atomH1 atomH 1).atoms = wsum am c.atoms + n1 * (am atomH - am atomH1) := by
    rw [replace_wsum am am c atomH1 atomH 1 hk atomH1_ne_H]; ring
  have hMD : wsum am (replace am c atomH1 atomD 1).atoms = wsum am c.atoms + n1 * (am atomD - am atomH1) := by
    rw [replace_wsum am am c atomH1 atomD 1 hk atomH1_ne_D]; ring
  have hMHpos : 0 < wsum am (replace am c atomH1 atomH 1).atoms := by
    rw [hMH]; exact replaced_pos am hmass hk h.nonempty h.counts atomH1 _ (hmass atomH)
  have hMDpos : 0 < wsum am (replace am c atomH1 atomD 1).atoms := by
    rw [hMD]; exact replaced_pos am hmass hk h.nonempty h.counts atomH1 _ (hmass atomD)
  have hM1 : wsum am (replace am c atomH1 atomD d).atoms
      = (1 - d) * wsum am c.atoms + d * wsum am (replace am c atomH1 atomD 1).atoms := by
    rw [replace_wsum am am c atomH1 atomD d hk atomH1_ne_D, hMD]; ring
  have hM1pos : 0 < wsum am (replace am c atomH1 atomD d).atoms := by
    rw [hM1]
    rcases hd0.lt_or_eq with hd | hd
    · have := mul_pos hd hMDpos
      have := mul_nonneg (sub_nonneg.mpr hd1) hMpos.le
      linarith
    · rw [← hd]; simpa using hMpos
  have hMS : wsum am (substituted am c d).atoms
      = d * wsum am (replace am c atomH1 atomD 1).atoms
        + (1 - d) * wsum am (replace am c atomH1 atomH 1).atoms := substituted_wsum am am c d hk
  have hMSpos : 0 < wsum am (substituted am c d).atoms := by
    rw [hMS]
    rcases hd0.lt_or_eq with hd | hd
    · have := mul_pos hd hMDpos
      have := mul_nonneg (sub_nonneg.mpr hd1) hMHpos.le
      linarith
    · rw [← hd]; simpa using hMHpos
  -- atom counts (unchanged by substitution)
  have hcnt : ∀ (s tg : Atom) (p : ℝ), s ≠ tg → ∀ c' : Compound ℝ, KeysNodup c'.atoms →
      wsum (fun _ => (1:ℝ)) (replace am c' s tg p).atoms = wsum (fun _ => (1:ℝ)) c'.atoms := by
    intro s tg p hne c' hk'
    rw [replace_wsum am (fun _ => (1:ℝ)) c' s tg p hk' hne]; ring
  have hn : 0 < wsum (fun _ => (1:ℝ)) c.atoms :=
    wsum_pos_of _ (fun _ => one_pos) h.nonempty h.counts
  have hnH := hcnt atomH1 atomH 1 atomH1_ne_H c hk
  have hnD := hcnt atomH1 atomD 1 atomH1_ne_D c hk
  have hnS : wsum (fun _ => (1:ℝ)) (substituted am c d).atoms = wsum (fun _ => (1:ℝ)) c.atoms := by
    unfold substituted
    rw [hcnt atomH1 atomH 1 atomH1_ne_H _ (replace_keysNodup am c _ _ _ hk),
      hcnt atomH1 atomD d atomH1_ne_D c hk]
  -- densities and the common cell volume
  have hρ := h.density
  have hdH := replace_density am c atomH1 atomH 1 hk atomH1_ne_H hM
  have hdD := replace_density am c atomH1 atomD 1 hk atomH1_ne_D hM
  have hdS := substituted_density am c d hk hM hM1pos.ne'
  have hVH : cellVolume (wsum am (replace am c atomH1 atomH 1).atoms) (replace am c atomH1 atomH 1).density
      = cellVolume (wsum am c.atoms) c.density := by
    rw [hdH]; exact cellVolume_replace _ _ _ hM hMHpos.ne'
  have hVD : cellVolume (wsum am (replace am c atomH1 atomD 1).atoms) (replace am c atomH1 atomD 1).density
      = cellVolume (wsum am c.atoms) c.density := by
    rw [hdD]; exact cellVolume_replace _ _ _ hM hMDpos.ne'
  have hVS := substituted_keeps_cell_volume am c d hk hM hM1pos.ne' hMSpos.ne'
  have hVpos : 0 < cellVolume (wsum am c.atoms) c.density := by
    unfold cellVolume; have := avogadro_pos; simp only [lit]; positivity
  -- data
  have hdataH := replace_allData t am c atomH1 atomH 1 h.data h.dataH
  have hdataD := replace_allData t am c atomH1 atomD 1 h.data h.dataD
  have hdataS : AllData t (substituted am c d).atoms := by
    unfold substituted
    exact replace_allData t am _ atomH1 atomH 1 (replace_allData t am c atomH1 atomD d h.data h.dataD) h.dataH
  -- the three SLDs
  have hvH : wsum am (replace am c atomH1 atomH 1).atoms * (replace am c atomH1 atomH 1).density ≠ 0 := by
    rw [hdH]; have := hMHpos; positivity
  have hvD : wsum am (replace am c atomH1 atomD 1).atoms * (replace am c atomH1 atomD 1).density ≠ 0 := by
    rw [hdD]; have := hMDpos; positivity
  have hvS : wsum am (substituted am c d).atoms * (substituted am c d).density ≠ 0 := by
    rw [hdS]; have := hMSpos; positivity
  have eH := neutronSld_reim t _ _ w hdataH hvH (by rw [hnH]; exact hn.ne')
  have eD := neutronSld_reim t _ _ w hdataD hvD (by rw [hnD]; exact hn.ne')
  have eS := neutronSld_reim t _ _ w hdataS hvS (by rw [hnS]; exact hn.ne')
  rw [hVH] at eH; rw [hVD] at eD; rw [hVS] at eS
  -- water
  obtain ⟨sw1, hw1⟩ := neutronSld_isSome t _ (water t atomH PtGen.nsf_H2O_natural_density).density w
    (water_allData t atomH _ h.dataH h.dataO)
  obtain ⟨sw2, hw2⟩ := neutronSld_isSome t _ (water t atomD PtGen.nsf_D2O_natural_density).density w
    (water_allData t atomD _ h.dataD h.dataO)
  obtain ⟨sH, hsH⟩ := neutronSld_isSome t _ (replace am c atomH1 atomH 1).density w hdataH
  obtain ⟨sD, hsD⟩ := neutronSld_isSome t _ (replace am c atomH1 atomD 1).density w hdataD
  rw [hsH] at eH; rw [hsD] at eD
  simp only [Option.map_some, Option.some.injEq, reIm, Prod.mk.injEq] at eH eD
  have hslds : d2oSlds t c w = some (sw1, sw2, sH, sD) := by
    unfold d2oSlds compoundSld
    rw [hw1, hw2, hsH, hsD]
  refine ⟨mixValues sD sH d, ?_, ?_⟩
  · rw [vf1_is_solute, hslds]; rfl
  · unfold compoundSld
    rw [eS]
    simp only [reIm, mixValues, Option.some.injEq, Prod.mk.injEq]
    have hB (f : Atom → ℝ) := substituted_wsum am f c d hk
    constructor
    · rw [hB, eH.1, eD.1]; field_simp
    · rw [hB, eH.2, eD.2]
      have hneg : ∀ tg, (pa t w tg).1.2 ≤ 0 → wsum (fun a => (pa t w a).1.2) (replace am c atomH1 tg 1).atoms ≤ 0
          ∨ atomH1 = tg := by
        intro tg htg
        by_cases he : atomH1 = tg
        · exact Or.inr he
        · left
          rw [replace_wsum am _ c atomH1 tg 1 hk he]
          have := replaced_nonpos (fun a => (pa t w a).1.2) h.im hk h.counts atomH1 _ htg
          linarith
      have hBD : wsum (fun a => (pa t w a).1.2) (replace am c atomH1 atomD 1).atoms ≤ 0 := by
        rcases hneg atomD (h.im atomD) with h' | h'
        · exact h'
        · exact absurd h' atomH1_ne_D
      have hBH : wsum (fun a => (pa t w a).1.2) (replace am c atomH1 atomH 1).atoms ≤ 0 := by
        rcases hneg atomH (h.im atomH) with h' | h'
        · exact h'
        · exact absurd h' atomH1_ne_H
      have h1 : 10 * wsum (fun a => (pa t w a).1.2) (replace am c atomH1 atomD 1).atoms
          / cellVolume (wsum am c.atoms) c.density ≤ 0 :=
        div_nonpos_of_nonpos_of_nonneg (by linarith) hVpos.le
      have h2 : 10 * wsum (fun a => (pa t w a).1.2) (replace am c atomH1 atomH 1).atoms
          / cellVolume (wsum am c.atoms) c.density ≤ 0 :=
        div_nonpos_of_nonpos_of_nonneg (by linarith) hVpos.le
      have h3 : 10 * (d * wsum (fun a => (pa t w a).1.2) (replace am c atomH1 atomD 1).atoms
          + (1 - d) * wsum (fun a => (pa t w a).1.2) (replace am c atomH1 atomH 1).atoms)
          / cellVolume (wsum am c.atoms) c.density ≤ 0 := by
        apply div_nonpos_of_nonpos_of_nonneg _ hVpos.le
        have := mul_nonpos_of_nonneg_of_nonpos hd0 hBD
        have := mul_nonpos_of_nonneg_of_nonpos (sub_nonneg.mpr hd1) hBH
        linarith
      rw [abs_of_nonpos h1, abs_of_nonpos h2, abs_of_nonpos h3]
      field_simp; ring

end PtProofs.Neutron
