import PtVerif.Proofs.Neutron
/-!
# C04: conversions between energy, wavelength and velocity; the documented anchor

Statements about `Generated/NeutronConsts` (`ENERGY_FACTOR`, `VELOCITY_FACTOR` as the defining
expressions of nsf.py) and `Generated/Constants`.  Only C04 imports this file.
-/
namespace PtProofs.Neutron
open PtModel PtModel.Neutron

/-! ## C04: conversions between energy, wavelength and velocity -/

theorem velocityFactor_pos : (0 : ℝ) < PtGen.VELOCITY_FACTOR := by
  unfold PtGen.VELOCITY_FACTOR PtGen.plancks_constant PtGen.electron_volt PtGen.neutron_mass
    PtGen.atomic_mass_constant
  positivity

/-- `E · λ(E)² = ENERGY_FACTOR` -/
theorem E_mul_lambda_sq (e : ℝ) (he : 0 < e) :
    e * (neutronWavelength e * neutronWavelength e) = PtGen.ENERGY_FACTOR := by
  unfold neutronWavelength
  rw [sqrt_def, Real.mul_self_sqrt (div_nonneg energyFactor_pos.le he.le)]
  field_simp

/-- `E(λ) · λ² = ENERGY_FACTOR` -/
theorem energy_mul_lambda_sq (w : ℝ) (hw : w ≠ 0) :
    neutronEnergy w * (w * w) = PtGen.ENERGY_FACTOR := by
  unfold neutronEnergy; field_simp

/-- `v · λ(v) = VELOCITY_FACTOR` -/
theorem v_mul_lambda (v : ℝ) (hv : v ≠ 0) :
    v * neutronWavelengthFromVelocity v = PtGen.VELOCITY_FACTOR := by
  unfold neutronWavelengthFromVelocity; field_simp

/-- energy → wavelength → energy is the identity -/
theorem energy_wavelength_roundtrip (e : ℝ) (he : 0 < e) :
    neutronEnergy (neutronWavelength e) = e := by
  unfold neutronEnergy
  have h := E_mul_lambda_sq e he
  have hw := (neutronWavelength_pos e he).ne'
  rw [← h]; field_simp

/-- wavelength → energy → wavelength is the identity -/
theorem wavelength_energy_roundtrip (w : ℝ) (hw : 0 < w) :
    neutronWavelength (neutronEnergy w) = w := by
  unfold neutronWavelength neutronEnergy
  have hEF := energyFactor_pos
  have : PtGen.ENERGY_FACTOR / (PtGen.ENERGY_FACTOR / (w * w)) = w * w := by field_simp
  rw [this, sqrt_def, Real.sqrt_mul_self hw.le]

/-! ### the documented anchor 1.798 Å = 2200 m/s = 25.3 meV, from the generated constants -/

theorem anchor_wavelength_of_energy : |neutronWavelength (25.3 : ℝ) - 1.798| < 5e-4 := by
  rw [abs_lt]
  unfold neutronWavelength
  rw [sqrt_def]
  constructor
  · have : (1.7975 : ℝ) < Real.sqrt (PtGen.ENERGY_FACTOR / 25.3) := by
      rw [Real.lt_sqrt (by norm_num)]
      unfold PtGen.ENERGY_FACTOR PtGen.plancks_constant PtGen.electron_volt PtGen.neutron_mass
        PtGen.atomic_mass_constant
      norm_num
    linarith
  · have : Real.sqrt (PtGen.ENERGY_FACTOR / 25.3) < (1.7985 : ℝ) := by
      rw [Real.sqrt_lt' (by norm_num)]
      unfold PtGen.ENERGY_FACTOR PtGen.plancks_constant PtGen.electron_volt PtGen.neutron_mass
        PtGen.atomic_mass_constant
      norm_num
    linarith

theorem anchor_wavelength_of_velocity : |neutronWavelengthFromVelocity (2200 : ℝ) - 1.798| < 5e-4 := by
  rw [abs_lt]
  unfold neutronWavelengthFromVelocity PtGen.VELOCITY_FACTOR PtGen.plancks_constant
    PtGen.electron_volt PtGen.neutron_mass PtGen.atomic_mass_constant
  constructor <;> norm_num

theorem anchor_energy_of_wavelength : |neutronEnergy (1.798 : ℝ) - 25.3| < 1e-2 := by
  rw [abs_lt]
  unfold neutronEnergy PtGen.ENERGY_FACTOR PtGen.plancks_constant PtGen.electron_volt
    PtGen.neutron_mass PtGen.atomic_mass_constant
  constructor <;> norm_num

/-- the absorption cross sections are tabulated at the anchor wavelength -/
theorem anchor_absorption_wavelength : (PtGen.ABSORPTION_WAVELENGTH : ℝ) = 1.798 := by
  unfold PtGen.ABSORPTION_WAVELENGTH; norm_num

end PtProofs.Neutron
