import PtVerif.Model.GrammarSpec
import PtVerif.Proofs.GrammarLex
/-!
# Tokens of a derivation, read by the parser (forward direction)

General forms of the token lemmas of `GrammarLex` (any digit string `[1-9][0-9]*`, blanks
inside tags, blanks before a symbol), and one `element` of a derivation.
-/
namespace PtModel.Grammar
open PtModel PtModel.Print

/-! ## Bool predicates of the specification as propositions -/

theorem allDig_of_all {ds : List Char} (h : ds.all isDig = true) : AllDig ds := by
  intro c hc; exact (List.all_eq_true.1 h) c hc

theorem allWs_iff {b : List Char} : allWs b = true ↔ AllWs b := by
  unfold allWs AllWs; exact List.all_eq_true

theorem okWhole_cons {ds : List Char} (h : okWhole ds = true) :
    ∃ d r, ds = d :: r ∧ isDig d = true ∧ d.toNat ≠ 48 ∧ AllDig r := by
  cases ds with
  | nil => simp [okWhole] at h
  | cons d r =>
    simp only [okWhole, Bool.and_eq_true, bne_iff_ne, ne_eq] at h
    exact ⟨d, r, rfl, h.1.1, h.1.2, allDig_of_all h.2⟩

theorem okWhole_natDigits (n : Nat) (hn : 0 < n) : okWhole (natDigits n) = true := by
  obtain ⟨d, ds, hd, h1, h2, h3⟩ := natDigits_cons n hn
  rw [hd]
  simp only [okWhole, Bool.and_eq_true, bne_iff_ne, ne_eq]
  exact ⟨⟨h1, h2⟩, List.all_eq_true.2 h3⟩

/-! ## numbers -/

theorem reWhole_ok (ds : List Char) (h : okWhole ds = true) (rest : List Char) (hr : NoDigHead rest) :
    reWhole (ds ++ rest) = some (ds, rest) := by
  obtain ⟨d, r, rfl, h1, h2, h3⟩ := okWhole_cons h
  simp [reWhole, h1, h2, digits_append r rest h3 hr]

theorem reWhole_none_of_head (s : List Char) (h : ∀ c, s.head? = some c → isDig c = false ∨ c.toNat = 48) :
    reWhole s = none := by
  cases s with
  | nil => rfl
  | cons c cs =>
    rcases h c rfl with h | h
    · simp [reWhole, h]
    · simp [reWhole, h]

theorem pNumber_wholeTok (ds : List Char) (h : okWhole ds = true) (rest : List Char) (hr : NoNumHead rest) :
    pNumber (ds ++ rest) = some (.ok (⟨natOf ds, 0⟩, rest)) := by
  have hw := reWhole_ok ds h rest hr.noDig
  obtain ⟨d, r, rfl, h1, h2, h3⟩ := okWhole_cons h
  have hd46 : d.toNat ≠ 46 := by rw [isDig_iff] at h1; omega
  have hne0 : d ≠ '0' := ne_of_toNat_ne h2
  have hnedot : d ≠ '.' := ne_of_toNat_ne hd46
  have hfr : reFract (d :: r ++ rest) = none := by
    unfold reFract
    rw [hw]
    cases rest with
    | nil => simp [hne0, hnedot]
    | cons c cs =>
      have hc : c ≠ '.' := ne_of_toNat_ne (hr c rfl).2
      simp [hne0, hnedot, hc]
  unfold pNumber
  rw [hfr, hw]

/-- `i.f` with `i` = ``, `0` or `[1-9][0-9]*` -/
theorem pNumber_fractTok (i f : List Char) (hi : i = [] ∨ i = ['0'] ∨ okWhole i = true) (hf : AllDig f)
    (hne : ¬ (i = [] ∧ f = [])) (rest : List Char) (hr : NoDigHead rest) :
    pNumber (i ++ '.' :: f ++ rest) = some (.ok (⟨natOf (i ++ f), f.length⟩, rest)) := by
  have hdig := digits_append f rest hf hr
  have hfr : reFract (i ++ '.' :: f ++ rest) = some (i, f, rest) := by
    rcases hi with rfl | rfl | hi
    · simp [reFract, reWhole, isDig, hdig]
    · simp [reFract, hdig]
    · have hdot : NoDigHead ('.' :: f ++ rest) := by
        intro c hc; simp at hc; subst hc; decide
      have hw := reWhole_ok i hi ('.' :: f ++ rest) hdot
      obtain ⟨d, r, rfl, h1, h2, h3⟩ := okWhole_cons hi
      have hne0 : d ≠ '0' := ne_of_toNat_ne h2
      unfold reFract
      simp only [List.append_assoc, List.cons_append] at hw ⊢
      rw [hw]
      simp [hne0, hdig]
  unfold pNumber
  rw [hfr]
  have : (i.isEmpty && f.isEmpty) = false := by
    cases i with
    | nil => cases f with
      | nil => exact absurd ⟨rfl, rfl⟩ hne
      | cons _ _ => rfl
    | cons _ _ => rfl
  simp [this]

/-- the text after a token: not a digit, `.`, a lower-case letter, `[` or `{` -/
def AfterTok (X : List Char) : Prop :=
  ∀ c, X.head? = some c →
    isDig c = false ∧ c.toNat ≠ 46 ∧ isLo c = false ∧ c.toNat ≠ 91 ∧ c.toNat ≠ 123

theorem AfterTok.noNum {X : List Char} (h : AfterTok X) : NoNumHead X :=
  fun c hc => ⟨(h c hc).1, (h c hc).2.1⟩
theorem AfterTok.noLo {X : List Char} (h : AfterTok X) : NoLoHead X := fun c hc => (h c hc).2.2.1
theorem AfterTok.nil : AfterTok [] := by intro c h; simp at h

theorem afterTok_of_code {c : Char} (cs : List Char)
    (h : (c.toNat < 46 ∨ c.toNat = 47 ∨ (57 < c.toNat ∧ c.toNat < 91) ∨ (91 < c.toNat ∧ c.toNat < 97))) :
    AfterTok (c :: cs) := by
  intro d hd; simp at hd; subst hd
  rw [isDig_false_iff, isLo_false_iff]; omega

theorem afterTok_ws {c : Char} (cs : List Char) (h : isWs c = true) : AfterTok (c :: cs) := by
  apply afterTok_of_code; rw [isWs_iff] at h; omega

theorem afterTok_up {c : Char} (cs : List Char) (h : isUp c = true) : AfterTok (c :: cs) := by
  apply afterTok_of_code; rw [isUp_iff] at h; omega

theorem cntTok_ok_cases {t : CntTok} (h : t.ok = true) :
    t = .none ∨ (∃ ds, t = .whole ds ∧ okWhole ds = true) ∨
    (∃ i f, t = .fract i f ∧ (i = [] ∨ i = ['0'] ∨ okWhole i = true) ∧ AllDig f ∧ ¬ (i = [] ∧ f = [])) := by
  cases t with
  | none => left; rfl
  | whole ds => right; left; exact ⟨ds, rfl, h⟩
  | fract i f =>
    right; right
    simp only [CntTok.ok, Bool.and_eq_true, Bool.or_eq_true, Bool.not_eq_true', Bool.and_eq_false_iff,
      List.isEmpty_iff, beq_iff_eq] at h
    refine ⟨i, f, rfl, ?_, allDig_of_all h.1.2, ?_⟩
    · rcases h.1.1 with (h | h) | h
      · exact Or.inl h
      · exact Or.inr (Or.inl h)
      · exact Or.inr (Or.inr h)
    · intro ⟨h1, h2⟩
      rcases h.2 with h | h
      · simp [h1] at h
      · simp [h2] at h

theorem cntTok_head {t : CntTok} (h : t.ok = true) (hn : t.isNone = false) :
    ∃ c cs, t.text = c :: cs ∧ (isDig c = true ∨ c.toNat = 46) := by
  rcases cntTok_ok_cases h with rfl | ⟨ds, rfl, hd⟩ | ⟨i, f, rfl, hi, _, _⟩
  · simp [CntTok.isNone] at hn
  · obtain ⟨d, r, rfl, h1, _, _⟩ := okWhole_cons hd
    exact ⟨d, r, rfl, Or.inl h1⟩
  · rcases hi with rfl | rfl | hi
    · exact ⟨'.', f, rfl, Or.inr rfl⟩
    · exact ⟨'0', '.' :: f, rfl, Or.inl (by decide)⟩
    · obtain ⟨d, r, rfl, h1, _, _⟩ := okWhole_cons hi
      exact ⟨d, r ++ '.' :: f, rfl, Or.inl h1⟩

/-- a count token of a derivation is read back as its value -/
theorem pCount_tok (t : CntTok) (h : t.ok = true) (rest : List Char) (hr : NoNumHead rest) :
    pCount (t.text ++ rest) = .ok (t.val, rest) := by
  rcases cntTok_ok_cases h with rfl | ⟨ds, rfl, hd⟩ | ⟨i, f, rfl, hi, hf, hne⟩
  · simpa [CntTok.text, CntTok.val] using pCount_default rest hr
  · have hp := pNumber_wholeTok ds hd rest hr
    obtain ⟨d, r, rfl, h1, _, _⟩ := okWhole_cons hd
    simp only [CntTok.text, CntTok.val, List.cons_append] at hp ⊢
    simp only [pCount, isWs_false_of_isDig h1, hp]
    simp
  · have hp := pNumber_fractTok i f hi hf hne rest hr.noDig
    obtain ⟨c, cs, hc, hcd⟩ := cntTok_head h rfl
    simp only [CntTok.text, CntTok.val] at hp hc ⊢
    have hw : isWs c = false := by
      rcases hcd with h | h
      · exact isWs_false_of_isDig h
      · rw [isWs_false_iff]; omega
    simp only [List.append_assoc, List.cons_append] at hp
    rw [show i ++ '.' :: f ++ rest = i ++ '.' :: (f ++ rest) by simp] at *
    rw [show i ++ '.' :: (f ++ rest) = (i ++ '.' :: f) ++ rest by simp] at hp ⊢
    rw [hc] at hp ⊢
    simp only [List.cons_append] at hp ⊢
    simp only [pCount, hw, hp]
    simp

/-! ## tags -/

theorem pIsotope_tok (t : IsoTok) (h : t.ok = true) (rest : List Char) :
    pIsotope (t.text ++ rest) = (natOf t.ds, rest) := by
  simp only [IsoTok.ok, Bool.and_eq_true] at h
  have h1 := allWs_iff.1 h.1.1
  have h2 := allWs_iff.1 h.2
  obtain ⟨d, r, hds, hd1, _, _⟩ := okWhole_cons h.1.2
  have hs1 : skipWs (t.b1 ++ (t.ds ++ (t.b2 ++ ']' :: rest))) = t.ds ++ (t.b2 ++ ']' :: rest) := by
    apply skipWs_allWs_noWs _ _ h1
    rw [hds]; exact noWsHead_cons _ (isWs_false_of_isDig hd1)
  have hnd : NoDigHead (t.b2 ++ ']' :: rest) := by
    intro c hc
    cases hb : t.b2 with
    | nil => rw [hb] at hc; simp at hc; subst hc; decide
    | cons w ws =>
      rw [hb] at hc; simp at hc; subst hc
      have := h2 w (by rw [hb]; simp)
      rw [isWs_iff] at this; rw [isDig_false_iff]; omega
  have hw := reWhole_ok t.ds h.1.2 _ hnd
  have hs2 : skipWs (t.b2 ++ ']' :: rest) = ']' :: rest :=
    skipWs_allWs_noWs _ _ h2 (noWsHead_cons _ (by decide))
  simp only [IsoTok.text, List.cons_append, List.append_assoc, List.nil_append, pIsotope, hs1, hw, hs2]

theorem pIon_tok (t : IonTok) (h : t.ok = true) (rest : List Char) :
    pIon (t.text ++ rest) = (t.charge, rest) := by
  unfold IonTok.charge
  simp only [IonTok.ok, Bool.and_eq_true, Bool.or_eq_true, List.isEmpty_iff] at h
  have h1 := allWs_iff.1 h.1.1
  have h2 := allWs_iff.1 h.2
  have hs2 : skipWs (t.b2 ++ '}' :: rest) = '}' :: rest :=
    skipWs_allWs_noWs _ _ h2 (noWsHead_cons _ (by decide))
  have hsgd : isDig (if t.neg then '-' else '+') = false := by cases t.neg <;> decide
  have hsgw : isWs (if t.neg then '-' else '+') = false := by cases t.neg <;> decide
  have hsign : NoDigHead ((if t.neg then '-' else '+') :: (t.b2 ++ '}' :: rest)) := by
    intro c hc; simp at hc; subst hc; exact hsgd
  rcases h.1.2 with hm | hm
  · have hs1 : skipWs (t.b1 ++ (t.mag ++ (if t.neg then '-' else '+') :: (t.b2 ++ '}' :: rest))) =
        (if t.neg then '-' else '+') :: (t.b2 ++ '}' :: rest) := by
      rw [hm, List.nil_append]
      exact skipWs_allWs_noWs _ _ h1 (noWsHead_cons _ hsgw)
    have hw : reWhole ((if t.neg then '-' else '+') :: (t.b2 ++ '}' :: rest)) = none := by
      simp [reWhole, hsgd]
    simp only [IonTok.text, List.cons_append, List.append_assoc, List.nil_append, pIon, ionMag, hs1, hw]
    cases t.neg <;> simp [hs2, hm]
  · obtain ⟨d, r, hds, hd1, _, _⟩ := okWhole_cons hm
    have hne : t.mag ≠ [] := by rw [hds]; simp
    have hs1 : skipWs (t.b1 ++ (t.mag ++ (if t.neg then '-' else '+') :: (t.b2 ++ '}' :: rest))) =
        t.mag ++ (if t.neg then '-' else '+') :: (t.b2 ++ '}' :: rest) := by
      apply skipWs_allWs_noWs _ _ h1
      rw [hds]; exact noWsHead_cons _ (isWs_false_of_isDig hd1)
    have hw := reWhole_ok t.mag hm _ hsign
    simp only [IonTok.text, List.cons_append, List.append_assoc, List.nil_append, pIon, ionMag, hs1, hw]
    cases t.neg <;> simp [hs2, hne]

/-! ## one element of a derivation -/

theorem convertElement_spec (ent : Entry) (i : Nat) (q : Int) :
    convertElement ent i q =
      if (i = 0 ∨ (ent.alias = 0 ∧ i ∈ ent.isos)) ∧ (q = 0 ∨ q ∈ ent.ions)
      then .ok ⟨ent.z, if i = 0 then ent.alias else i, q⟩ else .error .abort := by
  unfold convertElement
  by_cases hi : i = 0
  · subst hi
    by_cases hq : q = 0 ∨ q ∈ ent.ions
    · have : ¬ (q ≠ 0 ∧ q ∉ ent.ions) := by rcases hq with h | h <;> simp [h]
      simp [this, hq]
    · have : (q ≠ 0 ∧ q ∉ ent.ions) := by
        constructor
        · intro h; exact hq (Or.inl h)
        · intro h; exact hq (Or.inr h)
      simp [this, hq]
  · by_cases hal : ent.alias = 0
    · by_cases hm : i ∈ ent.isos
      · by_cases hq : q = 0 ∨ q ∈ ent.ions
        · have : ¬ (q ≠ 0 ∧ q ∉ ent.ions) := by rcases hq with h | h <;> simp [h]
          simp [hi, hal, hm, this, hq]
        · have : (q ≠ 0 ∧ q ∉ ent.ions) := by
            constructor
            · intro h; exact hq (Or.inl h)
            · intro h; exact hq (Or.inr h)
          simp [hi, hal, hm, this, hq]
      · simp [hi, hal, hm]
    · simp [hi, hal]

theorem optText_head_iso (o : Option IsoTok) : ∀ c, (optText IsoTok.text o).head? = some c → c.toNat = 91 := by
  intro c hc
  cases o with
  | none => simp [optText] at hc
  | some t => simp [optText, IsoTok.text] at hc; subst hc; rfl

theorem optText_head_ion (o : Option IonTok) : ∀ c, (optText IonTok.text o).head? = some c → c.toNat = 123 := by
  intro c hc
  cases o with
  | none => simp [optText] at hc
  | some t => simp [optText, IonTok.text] at hc; subst hc; rfl

theorem head_append_cases' {P : Char → Prop} (a b : List Char)
    (ha : ∀ c, a.head? = some c → P c) (hb : ∀ c, b.head? = some c → P c) :
    ∀ c, (a ++ b).head? = some c → P c := by
  intro c hc
  cases a with
  | nil => exact hb c (by simpa using hc)
  | cons x xs => exact ha c (by simpa using hc)

theorem cntTok_text_head {t : CntTok} (h : t.ok = true) :
    ∀ c, t.text.head? = some c → (isDig c = true ∨ c.toNat = 46) := by
  intro c hc
  cases hn : t.isNone with
  | true => cases t <;> simp [CntTok.isNone, CntTok.text] at hn hc
  | false =>
    obtain ⟨d, ds, hd, hdd⟩ := cntTok_head h hn
    rw [hd] at hc; simp at hc; subst hc; exact hdd

/-- the expected reading of one element: its count and atom, or the parse action's exception -/
def elemExpect (T : Table) (e : Elem) (X : List Char) : Res (Cnt × Atom) :=
  match e.atom T with
  | some x => .ok ((e.cnt.val, x), X)
  | none => .error .abort

/-- **one element** of a derivation, with any blanks before it, followed by `X` -/
theorem pElement_elem (T : Table) (e : Elem) (he : e.ok = true) (b X : List Char) (hb : AllWs b)
    (hX : AfterTok X) : pElement T (b ++ (e.text ++ X)) = elemExpect T e X := by
  simp only [Elem.ok, Bool.and_eq_true] at he
  obtain ⟨⟨⟨⟨hpre, hsym⟩, hiso⟩, hion⟩, hcnt⟩ := he
  have hpre' := allWs_iff.1 hpre
  -- the text after the symbol
  let R3 := e.cnt.text ++ X
  let R2 := optText IonTok.text e.ion ++ R3
  let R1 := optText IsoTok.text e.iso ++ R2
  have hR3 : ∀ c, R3.head? = some c → isLo c = false ∧ c.toNat ≠ 91 ∧ c.toNat ≠ 123 := by
    apply head_append_cases'
    · intro c hc
      rcases cntTok_text_head hcnt c hc with h | h
      · rw [isDig_iff] at h; rw [isLo_false_iff]; omega
      · rw [isLo_false_iff]; omega
    · intro c hc; exact ⟨(hX c hc).2.2.1, (hX c hc).2.2.2.1, (hX c hc).2.2.2.2⟩
  have hR2 : ∀ c, R2.head? = some c → isLo c = false ∧ c.toNat ≠ 91 := by
    apply head_append_cases'
    · intro c hc
      have := optText_head_ion e.ion c hc
      rw [isLo_false_iff]; omega
    · intro c hc; exact ⟨(hR3 c hc).1, (hR3 c hc).2.1⟩
  have hR1 : NoLoHead R1 := by
    apply head_append_cases' (P := fun c => isLo c = false)
    · intro c hc
      have := optText_head_iso e.iso c hc
      rw [isLo_false_iff]; omega
    · intro c hc; exact (hR2 c hc).1
  have htext : b ++ (e.text ++ X) = (b ++ e.pre) ++ (e.sym ++ R1) := by
    simp [Elem.text, R1, R2, R3, List.append_assoc]
  have hbp : AllWs (b ++ e.pre) := by
    intro c hc; simp at hc; rcases hc with hc | hc
    · exact hb c hc
    · exact hpre' c hc
  rw [htext]
  unfold elemExpect Elem.atom
  -- the symbol
  cases hl : T.lookup e.sym with
  | none =>
    simp only
    unfold pElement pSymbol
    match hs : e.sym, hsym with
    | [u], hsym =>
      simp only [symOK] at hsym
      rw [hs] at hl
      simp only [List.cons_append, List.nil_append]
      rw [skipWs_allWs_noWs _ _ hbp (noWsHead_cons _ (isWs_false_of_isUp hsym))]
      cases hR : R1 with
      | nil => simp [hsym, hl]
      | cons c cs => simp [hsym, hR1 c (by rw [hR]; rfl), hl]
    | [u, l], hsym =>
      simp only [symOK, Bool.and_eq_true] at hsym
      rw [hs] at hl
      simp only [List.cons_append, List.nil_append]
      rw [skipWs_allWs_noWs _ _ hbp (noWsHead_cons _ (isWs_false_of_isUp hsym.1))]
      simp [hsym.1, hsym.2, hl]
  | some ent =>
    have hS : pSymbol T ((b ++ e.pre) ++ (e.sym ++ R1)) = .ok (ent, R1) := by
      have hl' : T.lookup (⟨e.sym, ent.z, ent.alias, ent.isos, ent.ions⟩ : Entry).sym = some ent := hl
      -- `pSymbol_sym` is stated for an entry found under its own symbol; redo it for `ent`
      unfold pSymbol
      match hs : e.sym, hsym with
      | [u], hsym =>
        simp only [symOK] at hsym
        rw [hs] at hl
        simp only [List.cons_append, List.nil_append]
        rw [skipWs_allWs_noWs _ _ hbp (noWsHead_cons _ (isWs_false_of_isUp hsym))]
        cases hR : R1 with
        | nil => simp [hsym, hl]
        | cons c cs => simp [hsym, hR1 c (by rw [hR]; rfl), hl]
      | [u, l], hsym =>
        simp only [symOK, Bool.and_eq_true] at hsym
        rw [hs] at hl
        simp only [List.cons_append, List.nil_append]
        rw [skipWs_allWs_noWs _ _ hbp (noWsHead_cons _ (isWs_false_of_isUp hsym.1))]
        simp [hsym.1, hsym.2, hl]
    -- isotope, ion, count
    have hI : pIsotope R1 = (e.isoNum, R2) := by
      cases hi : e.iso with
      | none =>
        have : R1 = R2 := by simp [R1, hi, optText]
        rw [this]
        simp only [Elem.isoNum, isoNumOpt, hi]
        exact pIsotope_none R2 (fun c hc => (hR2 c hc).2)
      | some t =>
        have : R1 = t.text ++ R2 := by simp [R1, hi, optText]
        rw [this]
        simp only [Elem.isoNum, isoNumOpt, hi]
        rw [hi] at hiso
        exact pIsotope_tok t hiso R2
    have hQ : pIon R2 = (e.charge, R3) := by
      cases hi : e.ion with
      | none =>
        have : R2 = R3 := by simp [R2, hi, optText]
        rw [this]
        simp only [Elem.charge, chargeOpt, hi]
        exact pIon_none R3 (fun c hc => (hR3 c hc).2.2)
      | some t =>
        have : R2 = t.text ++ R3 := by simp [R2, hi, optText]
        rw [this]
        simp only [Elem.charge, chargeOpt, hi]
        rw [hi] at hion
        exact pIon_tok t hion R3
    have hC : pCount R3 = .ok (e.cnt.val, X) := pCount_tok e.cnt hcnt X hX.noNum
    unfold pElement
    rw [hS]
    simp only
    rw [hI]
    simp only
    rw [hQ]
    simp only
    rw [hC]
    simp only
    rw [convertElement_spec]
    by_cases hcond : (e.isoNum = 0 ∨ ent.alias = 0 ∧ e.isoNum ∈ ent.isos) ∧ (e.charge = 0 ∨ e.charge ∈ ent.ions) <;>
      simp [hcond]

end PtModel.Grammar
