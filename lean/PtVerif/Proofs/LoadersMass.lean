import PtVerif.Proofs.Loaders
/-!
# What `mass.init` serves (core Lean only)

The generic loader theorems of C06: for *every* table triple, each nuclide is served the row
with its key (the last one, if a key is repeated), the atomic weight is the override or the
last isotope row's, abundances are the normalised entries of the element's section of the
composition table, and unlisted isotopes have abundance 0.
-/
set_option linter.unusedSectionVars false
namespace PtLoad

section
variable {α : Type} [Add α] [Sub α] [Mul α] [Div α] [OfNat α 0] [NatCast α] [IntCast α] [Transc α]
  [BEq α]

/-! ## the state after `loadRows` -/

theorem loadRows_isoMass (nm nmu : α) (t : MassTables) :
    (loadRows nm nmu t).isoMass
      = ((0, 1), some (nm, nmu)) :: ((t.iso.map fun r => (isoKey r, (r.m.eval : VU α))).reverse ++ []) := by
  unfold loadRows
  simp only [pass3_eq]
  rw [(flushAll_other _ _).2.1, pass2_isoMass]
  simp [neutronStep, pass1_isoMass, MassState.fresh]

theorem loadRows_elMass (nm nmu : α) (t : MassTables) :
    (loadRows nm nmu t).elMass
      = ((overrides t.el).map fun p => (p.1, (p.2.eval : VU α))).reverse
        ++ ((0, some (nm, nmu)) :: ((t.iso.map fun r => (r.z, (r.avg.eval : VU α))).reverse ++ [])) := by
  unfold loadRows
  simp only [pass3_eq]
  rw [(flushAll_other _ _).1, pass2_elMass]
  simp [neutronStep, pass1_elMass, MassState.fresh]

theorem loadRows_isotopes (nm nmu : α) (t : MassTables) :
    (loadRows nm nmu t).isotopes = (0, 1) :: ((t.iso.map isoKey).reverse ++ [(1, 3), (1, 2)]) := by
  unfold loadRows
  simp only [pass3_eq]
  rw [(flushAll_other _ _).2.2, pass2_isotopes]
  simp [neutronStep, pass1_isotopes, MassState.fresh]

theorem loadRows_isoAb (nm nmu : α) (t : MassTables) :
    (loadRows nm nmu t).isoAb
      = ((sections (α := α) t.ab).map fun s => flushEntries s.1 s.2).reverse.flatten
        ++ (((0, 1), (((100 : Nat) : α), (0 : α)))
            :: ((t.iso.map fun r => (isoKey r, ((0 : α), (0 : α)))).reverse ++ [])) := by
  unfold loadRows
  simp only [pass3_eq]
  rw [flushAll_isoAb, pass2_isoAb]
  simp [neutronStep, pass1_isoAb, MassState.fresh]

/-! ## isotope masses -/

/-- every isotope is served the mass and uncertainty of the row with its key – the last such
    row; with distinct keys: *its* row -/
theorem iso_mass_last_row (nm nmu : α) (t : MassTables) (pre post : List IsoRow) (r : IsoRow)
    (ht : t.iso = pre ++ r :: post) (hlast : ∀ x ∈ post, isoKey x ≠ isoKey r)
    (hn : isoKey r ≠ (0, 1)) :
    (loadRows nm nmu t).isoMassOf r.z r.a = some (r.m.eval : VU α) := by
  unfold MassState.isoMassOf
  rw [loadRows_isoMass, aget_cons_ne (by simpa [isoKey] using hn), ht]
  have := aget_reverse_map_last isoKey (fun r => (r.m.eval : VU α)) pre post r hlast []
  simp only [isoKey] at this ⊢
  rw [this]

theorem iso_mass_is_row (nm nmu : α) (t : MassTables) (hnd : (t.iso.map isoKey).Nodup)
    (r : IsoRow) (hr : r ∈ t.iso) (hn : isoKey r ≠ (0, 1)) :
    (loadRows nm nmu t).isoMassOf r.z r.a = some (r.m.eval : VU α) := by
  unfold MassState.isoMassOf
  rw [loadRows_isoMass, aget_cons_ne (by simpa [isoKey] using hn)]
  have := aget_reverse_map_of_mem isoKey (fun r => (r.m.eval : VU α)) t.iso hnd r hr []
  simp only [isoKey] at this ⊢
  rw [this]

/-- the neutron's isotope has the neutron mass of constants.py -/
theorem neutron_iso_mass (nm nmu : α) (t : MassTables) :
    (loadRows nm nmu t).isoMassOf 0 1 = some (some (nm, nmu)) := by
  unfold MassState.isoMassOf
  rw [loadRows_isoMass]
  simp

/-- the isotopes of the table after loading are those of the rows, the neutron, D and T -/
theorem has_isotope_iff (nm nmu : α) (t : MassTables) (z a : Nat) :
    (loadRows nm nmu t).hasIsotope z a = true
      ↔ (∃ r ∈ t.iso, r.z = z ∧ r.a = a) ∨ (z, a) = (0, 1) ∨ (z, a) = (1, 2) ∨ (z, a) = (1, 3) := by
  unfold MassState.hasIsotope
  rw [loadRows_isotopes]
  simp only [List.contains_eq_mem, List.mem_cons, List.mem_append, List.mem_reverse, List.mem_map,
    decide_eq_true_eq, isoKey, List.not_mem_nil, or_false]
  constructor
  · rintro (h | ⟨r, hr, e⟩ | h | h)
    · right; left; exact h
    · left; exact ⟨r, hr, by simpa using congrArg Prod.fst e, by simpa using congrArg Prod.snd e⟩
    · right; right; right; exact h
    · right; right; left; exact h
  · rintro (⟨r, hr, e1, e2⟩ | h | h | h)
    · right; left; exact ⟨r, hr, by rw [e1, e2]⟩
    · left; exact h
    · right; right; right; exact h
    · right; right; left; exact h

/-! ## atomic weights -/

/-- an element with an entry other than `-` in `element_mass` is served that entry -/
theorem el_mass_override (nm nmu : α) (t : MassTables) (hnd : ((overrides t.el).map Prod.fst).Nodup)
    (z : Nat) (u : Unc) (h : (z, u) ∈ overrides t.el) :
    (loadRows nm nmu t).elMassOf z = some (u.eval : VU α) := by
  unfold MassState.elMassOf
  rw [loadRows_elMass]
  exact aget_reverse_map_of_mem Prod.fst (fun p => (p.2.eval : VU α)) (overrides t.el) hnd (z, u) h _

/-- an element without an override is served the element-mass column of its last isotope row -/
theorem el_mass_last_row (nm nmu : α) (t : MassTables) (pre post : List IsoRow) (r : IsoRow)
    (ht : t.iso = pre ++ r :: post) (hlast : ∀ x ∈ post, x.z ≠ r.z) (hz : r.z ≠ 0)
    (hno : ∀ p ∈ overrides t.el, p.1 ≠ r.z) :
    (loadRows nm nmu t).elMassOf r.z = some (r.avg.eval : VU α) := by
  unfold MassState.elMassOf
  rw [loadRows_elMass]
  rw [aget_reverse_map_of_not_mem Prod.fst (fun p => (p.2.eval : VU α)) _ r.z hno]
  rw [aget_cons_ne hz, ht]
  exact aget_reverse_map_last (fun r : IsoRow => r.z) (fun r => (r.avg.eval : VU α)) pre post r hlast []

/-- the neutron (element 0) has the neutron mass unless `element_mass` overrides it -/
theorem el_mass_neutron (nm nmu : α) (t : MassTables) (hno : ∀ p ∈ overrides t.el, p.1 ≠ 0) :
    (loadRows nm nmu t).elMassOf 0 = some (some (nm, nmu)) := by
  unfold MassState.elMassOf
  rw [loadRows_elMass]
  rw [aget_reverse_map_of_not_mem Prod.fst (fun p => (p.2.eval : VU α)) _ 0 hno]
  simp

/-- an element that no table mentions has no mass attribute (it is not given a neighbour's) -/
theorem el_mass_absent (nm nmu : α) (t : MassTables) (z : Nat) (hz : z ≠ 0)
    (hno : ∀ p ∈ overrides t.el, p.1 ≠ z) (hrows : ∀ r ∈ t.iso, r.z ≠ z) :
    (loadRows nm nmu t).elMassOf z = none := by
  unfold MassState.elMassOf
  rw [loadRows_elMass]
  rw [aget_reverse_map_of_not_mem Prod.fst (fun p => (p.2.eval : VU α)) _ z hno]
  rw [aget_cons_ne hz]
  rw [aget_reverse_map_of_not_mem (fun r : IsoRow => r.z) (fun r => (r.avg.eval : VU α)) _ z hrows]
  rfl

/-! ## abundances -/

/-- grouping of the composition table by header, values kept as readings -/
def sectionsUGo (z : Nat) (value : List (Nat × Unc)) : List AbLine → List (Nat × List (Nat × Unc))
  | [] => [(z, value)]
  | .header z' :: ls => (z, value) :: sectionsUGo z' [] ls
  | .entry a u :: ls => sectionsUGo z (dictSet a u value) ls

/-- the composition table as sections `(Z, [(A, reading)])`, in table order; lines before the
    first header form a section of element 0 -/
def sectionsU (ls : List AbLine) : List (Nat × List (Nat × Unc)) := sectionsUGo 0 [] ls

def evalEntry (p : Nat × Unc) : Nat × (α × α) := (p.1, ((p.2.eval (α := α)).getD (0, 0)))

theorem dictSet_map {κ β γ : Type} [DecidableEq κ] (f : β → γ) (k : κ) (v : β) (l : List (κ × β)) :
    dictSet k (f v) (l.map fun p => (p.1, f p.2)) = (dictSet k v l).map fun p => (p.1, f p.2) := by
  induction l with
  | nil => rfl
  | cons x l ih =>
    obtain ⟨k', v'⟩ := x
    simp only [List.map_cons, dictSet]
    split
    · simp
    · simp [ih]

theorem sectionsGo_eq (z : Nat) (value : List (Nat × Unc)) (ls : List AbLine) :
    sectionsGo (α := α) z (value.map evalEntry) ls
      = (sectionsUGo z value ls).map fun s => (s.1, s.2.map (evalEntry (α := α))) := by
  induction ls generalizing z value with
  | nil => rfl
  | cons l ls ih =>
    cases l with
    | header z' =>
      simp only [sectionsGo, sectionsUGo, List.map_cons]
      have := ih z' []
      simp only [List.map_nil] at this
      rw [this]
    | entry a u =>
      simp only [sectionsGo, sectionsUGo]
      have h := dictSet_map (fun u : Unc => ((u.eval (α := α)).getD (0, 0))) a u value
      unfold evalEntry
      rw [h]
      exact ih z (dictSet a u value)

theorem sections_eq (ls : List AbLine) :
    sections (α := α) ls = (sectionsU ls).map fun s => (s.1, s.2.map (evalEntry (α := α))) := by
  have := sectionsGo_eq (α := α) 0 [] ls
  simpa [sections, sectionsU] using this

theorem sectionsUGo_nodup (z : Nat) (value : List (Nat × Unc)) (ls : List AbLine)
    (h : (value.map Prod.fst).Nodup) :
    ∀ s ∈ sectionsUGo z value ls, (s.2.map Prod.fst).Nodup := by
  induction ls generalizing z value with
  | nil => intro s hs; simp [sectionsUGo] at hs; subst hs; exact h
  | cons l ls ih =>
    cases l with
    | header z' =>
      intro s hs
      simp only [sectionsUGo, List.mem_cons] at hs
      rcases hs with rfl | hs
      · exact h
      · exact ih z' [] (by simp) s hs
    | entry a u =>
      intro s hs
      simp only [sectionsUGo] at hs
      exact ih z (dictSet a u value) (dictSet_nodup a u value h) s hs

/-- within a section every isotope is listed once (Python dict) -/
theorem sectionsU_nodup (ls : List AbLine) : ∀ s ∈ sectionsU ls, (s.2.map Prod.fst).Nodup :=
  sectionsUGo_nodup 0 [] ls (by simp)

/-- the sum the abundances of a section are divided by -/
def sectionTotal (entries : List (Nat × Unc)) : α := abTotal (entries.map (evalEntry (α := α)))

/-- **abundance normalisation**: an isotope listed in the (last) section of its element is
    served `100·v/Σv` and `100·u/Σv`, where `v`, `u` are the value and uncertainty of its entry
    and the sum runs over the section. -/
theorem abundance_normalised (nm nmu : α) (t : MassTables)
    (pre post : List (Nat × List (Nat × Unc))) (z : Nat) (entries : List (Nat × Unc))
    (hs : sectionsU t.ab = pre ++ (z, entries) :: post) (hlast : ∀ s ∈ post, s.1 ≠ z) (hz : z ≠ 0)
    (a : Nat) (u : Unc) (hu : (a, u) ∈ entries) :
    (loadRows nm nmu t).isoAbOf z a
      = some (((100 : Nat) : α) * ((u.eval (α := α)).getD (0, 0)).1 / sectionTotal (α := α) entries,
              ((100 : Nat) : α) * ((u.eval (α := α)).getD (0, 0)).2 / sectionTotal (α := α) entries) := by
  unfold MassState.isoAbOf
  rw [loadRows_isoAb, sections_eq, hs]
  simp only [List.map_append, List.map_cons, List.reverse_append, List.reverse_cons, List.flatten_append,
    List.append_assoc, List.flatten_cons, List.flatten_nil, List.map_map]
  -- sections after this one belong to other elements
  rw [aget_append_of_forall_ne]
  · -- this section
    have hnd : (entries.map Prod.fst).Nodup :=
      sectionsU_nodup t.ab (z, entries) (by rw [hs]; simp)
    unfold flushEntries
    simp only [hz, if_false, List.nil_append, List.map_map]
    have hkey : ((entries.map (evalEntry (α := α))).map fun p : Nat × (α × α) => ((z, p.1) : Nat × Nat)).Nodup := by
      simp only [List.map_map]
      have : ((fun p : Nat × (α × α) => ((z, p.1) : Nat × Nat)) ∘ evalEntry (α := α))
          = (fun a : Nat => (z, a)) ∘ Prod.fst := by funext p; rfl
      rw [this, ← List.map_map]
      exact List.Pairwise.map (fun a : Nat => (z, a)) (fun a b h e => h (by simpa using e)) hnd
    have hm : evalEntry (α := α) (a, u) ∈ entries.map (evalEntry (α := α)) := List.mem_map_of_mem hu
    have := aget_reverse_map_of_mem (fun p : Nat × (α × α) => ((z, p.1) : Nat × Nat))
      (fun p => (((100 : Nat) : α) * p.2.1 / abTotal (entries.map (evalEntry (α := α))),
                 ((100 : Nat) : α) * p.2.2 / abTotal (entries.map (evalEntry (α := α)))))
      (entries.map (evalEntry (α := α))) hkey _ hm
    simp only [evalEntry] at this
    simp only [evalEntry, sectionTotal, List.map_map, Function.comp_def] at this ⊢
    rw [this]
  · intro p hp
    simp only [List.mem_flatten, List.mem_reverse, List.mem_map, Function.comp_apply] at hp
    obtain ⟨l, ⟨s, hs', rfl⟩, hpl⟩ := hp
    have hne := hlast s hs'
    unfold flushEntries at hpl
    split at hpl
    · cases hpl
    · simp only [List.mem_reverse, List.mem_map] at hpl
      obtain ⟨q, _, rfl⟩ := hpl
      intro e
      exact hne (by simpa using congrArg Prod.fst e)

/-- **isotopes absent from the composition table have abundance 0** (and uncertainty 0) -/
theorem abundance_zero_if_unlisted (nm nmu : α) (t : MassTables) (z a : Nat)
    (hrow : ∃ r ∈ t.iso, r.z = z ∧ r.a = a) (hn : (z, a) ≠ (0, 1))
    (hun : ∀ s ∈ sectionsU t.ab, s.1 = z → s.1 = 0 ∨ ∀ p ∈ s.2, p.1 ≠ a) :
    (loadRows nm nmu t).isoAbOf z a = some ((0 : α), (0 : α)) := by
  unfold MassState.isoAbOf
  rw [loadRows_isoAb, sections_eq]
  rw [aget_append_of_forall_ne]
  · rw [aget_cons_ne hn]
    obtain ⟨r, hr, e1, e2⟩ := hrow
    -- every binding of this list has value (0,0); a binding for the key exists
    have key : ∀ (l : List ((Nat × Nat) × (α × α))), (∀ p ∈ l, p.2 = ((0 : α), (0 : α))) →
        (∃ p ∈ l, p.1 = (z, a)) → aget (z, a) l = some ((0 : α), (0 : α)) := by
      intro l
      induction l with
      | nil => intro _ h; obtain ⟨p, hp, _⟩ := h; cases hp
      | cons x l ih =>
        intro hv hex
        obtain ⟨k, v⟩ := x
        rw [aget_cons]
        split
        · have := hv (k, v) (by simp); simp at this; rw [this]
        · rename_i hne
          apply ih (fun p hp => hv p (by simp [hp]))
          obtain ⟨p, hp, e⟩ := hex
          rcases List.mem_cons.mp hp with rfl | hp'
          · exact absurd e.symm hne
          · exact ⟨p, hp', e⟩
    apply key
    · intro p hp
      simp only [List.append_nil, List.mem_reverse, List.mem_map] at hp
      obtain ⟨x, _, rfl⟩ := hp
      rfl
    · refine ⟨((z, a), ((0 : α), (0 : α))), ?_, rfl⟩
      simp only [List.append_nil, List.mem_reverse, List.mem_map]
      exact ⟨r, hr, by simp [isoKey, e1, e2]⟩
  · intro p hp
    simp only [List.mem_flatten, List.mem_reverse, List.mem_map] at hp
    obtain ⟨l, ⟨s', ⟨s, hs, rfl⟩, rfl⟩, hpl⟩ := hp
    unfold flushEntries at hpl
    simp only at hpl
    split at hpl
    · cases hpl
    · rename_i hz0
      simp only [List.mem_reverse, List.mem_map] at hpl
      obtain ⟨q', ⟨q, hq, rfl⟩, rfl⟩ := hpl
      intro e
      simp only [evalEntry, Prod.mk.injEq] at e
      rcases hun s hs e.1 with h0 | hne
      · exact hz0 h0
      · exact hne q hq e.2

end

end PtLoad

/-! ## certificates used for the generated tables -/
namespace PtLoad

/-- strictly increasing naturals -/
def incr : List Nat → Bool
  | [] => true
  | [_] => true
  | a :: b :: l => decide (a < b) && incr (b :: l)

theorem incr_head_lt (a : Nat) (l : List Nat) (h : incr (a :: l) = true) : ∀ b ∈ l, a < b := by
  induction l generalizing a with
  | nil => intro b hb; cases hb
  | cons x l ih =>
    simp only [incr, Bool.and_eq_true, decide_eq_true_eq] at h
    intro b hb
    rcases List.mem_cons.mp hb with rfl | hb'
    · exact h.1
    · exact Nat.lt_trans h.1 (ih x h.2 b hb')

theorem incr_tail (a : Nat) (l : List Nat) (h : incr (a :: l) = true) : incr l = true := by
  cases l with
  | nil => rfl
  | cons x l => simp only [incr, Bool.and_eq_true] at h; exact h.2

theorem nodup_of_incr (l : List Nat) (h : incr l = true) : l.Nodup := by
  induction l with
  | nil => exact List.nodup_nil
  | cons a l ih =>
    rw [List.nodup_cons]
    refine ⟨fun hm => ?_, ih (incr_tail a l h)⟩
    exact Nat.lt_irrefl a (incr_head_lt a l h a hm)

/-- in a list whose keys are distinct, a member splits the list with no later entry of its key -/
theorem split_of_mem_nodup {β : Type} (key : β → Nat) (l : List β) (hnd : (l.map key).Nodup)
    (s : β) (hs : s ∈ l) : ∃ pre post, l = pre ++ s :: post ∧ ∀ x ∈ post, key x ≠ key s := by
  obtain ⟨pre, post, rfl⟩ := List.append_of_mem hs
  refine ⟨pre, post, rfl, ?_⟩
  intro x hx e
  simp only [List.map_append, List.map_cons] at hnd
  have := (List.nodup_append.mp hnd).2.1
  rw [List.nodup_cons] at this
  exact this.1 (List.mem_map.mpr ⟨x, hx, e⟩)

/-! ### rows grouped by element (kernel-friendly lookups: the tables are sorted by Z) -/

/-- runs of adjacent rows with the same Z -/
def groupByZ : List IsoRow → List (Nat × List IsoRow)
  | [] => []
  | r :: rs =>
    match groupByZ rs with
    | (z, g) :: gs => if r.z = z then (z, r :: g) :: gs else (r.z, [r]) :: (z, g) :: gs
    | [] => [(r.z, [r])]

/-- every member of a group is a row of the table with the group's Z -/
theorem mem_of_mem_groupByZ (rows : List IsoRow) :
    ∀ g ∈ groupByZ rows, ∀ r ∈ g.2, r ∈ rows ∧ r.z = g.1 := by
  induction rows with
  | nil => intro g hg; cases hg
  | cons x rs ih =>
    intro g hg r hr
    unfold groupByZ at hg
    split at hg
    · rename_i z g' gs heq
      split at hg
      · rename_i hz
        rcases List.mem_cons.mp hg with rfl | hg'
        · rcases List.mem_cons.mp hr with rfl | hr'
          · exact ⟨by simp, hz⟩
          · have := ih (z, g') (by rw [heq]; simp) r hr'
            exact ⟨List.mem_cons_of_mem _ this.1, this.2⟩
        · have := ih g (by rw [heq]; exact List.mem_cons_of_mem _ hg') r hr
          exact ⟨List.mem_cons_of_mem _ this.1, this.2⟩
      · rcases List.mem_cons.mp hg with rfl | hg'
        · simp only [List.mem_singleton] at hr
          subst hr
          exact ⟨by simp, rfl⟩
        · have := ih g (by rw [heq]; exact hg') r hr
          exact ⟨List.mem_cons_of_mem _ this.1, this.2⟩
    · simp only [List.mem_singleton] at hg
      subst hg
      simp only [List.mem_singleton] at hr
      subst hr
      exact ⟨by simp, rfl⟩

/-- every row is in the group of its Z -/
theorem mem_groupByZ_of_mem (rows : List IsoRow) :
    ∀ r ∈ rows, ∃ g ∈ groupByZ rows, g.1 = r.z ∧ r ∈ g.2 := by
  induction rows with
  | nil => intro r hr; cases hr
  | cons x rs ih =>
    intro r hr
    unfold groupByZ
    split
    · rename_i z g' gs heq
      split
      · rename_i hz
        rcases List.mem_cons.mp hr with rfl | hr'
        · exact ⟨(z, r :: g'), by simp, hz.symm, by simp⟩
        · obtain ⟨g, hg, e1, e2⟩ := ih r hr'
          rw [heq] at hg
          rcases List.mem_cons.mp hg with rfl | hg'
          · exact ⟨(z, x :: g'), by simp, e1, List.mem_cons_of_mem _ e2⟩
          · exact ⟨g, List.mem_cons_of_mem _ hg', e1, e2⟩
      · rcases List.mem_cons.mp hr with rfl | hr'
        · exact ⟨(r.z, [r]), by simp, rfl, by simp⟩
        · obtain ⟨g, hg, e1, e2⟩ := ih r hr'
          rw [heq] at hg
          exact ⟨g, List.mem_cons_of_mem _ hg, e1, e2⟩
    · rename_i heq
      rcases List.mem_cons.mp hr with rfl | hr'
      · exact ⟨(r.z, [r]), by simp, rfl, by simp⟩
      · obtain ⟨g, hg, _, _⟩ := ih r hr'
        rw [heq] at hg
        cases hg

/-- the row with key `(z, a)`, looked up through the groups -/
def rowOf (groups : List (Nat × List IsoRow)) (z a : Nat) : Option IsoRow :=
  match groups.find? (fun g => g.1 == z) with
  | some g => g.2.find? (fun r => r.a == a)
  | none => none

theorem rowOf_mem (rows : List IsoRow) (z a : Nat) (r : IsoRow)
    (h : rowOf (groupByZ rows) z a = some r) : r ∈ rows ∧ r.z = z ∧ r.a = a := by
  unfold rowOf at h
  split at h
  · rename_i g hg
    have hg1 := List.find?_some hg
    have hgm := List.mem_of_find?_eq_some hg
    have hr1 := List.find?_some h
    have hrm := List.mem_of_find?_eq_some h
    have := mem_of_mem_groupByZ rows g hgm r hrm
    simp only [beq_iff_eq] at hg1 hr1
    exact ⟨this.1, by rw [this.2, hg1], hr1⟩
  · cases h

/-! ### exact-rational reading of the mass tables (for the atomic-weight consistency fact) -/

/-- the isotope-mass value of `(z, a)` in exact rationals -/
def rowMassRat (groups : List (Nat × List IsoRow)) (z a : Nat) : Option Rat :=
  match rowOf groups z a with
  | some r => r.m.val (α := Rat)
  | none => none

/-- `Σ vᵢ·mᵢ / Σ vᵢ` over one section of the composition table -/
def weightedMass (groups : List (Nat × List IsoRow)) (z : Nat) (entries : List (Nat × Unc)) : Option Rat :=
  let tot : Rat := entries.foldl (fun s p => s + ((p.2.val (α := Rat)).getD 0)) 0
  let num : Option Rat := entries.foldl (fun s p =>
    match s, p.2.val (α := Rat), rowMassRat groups z p.1 with
    | some s, some v, some m => some (s + v * m)
    | _, _, _ => none) (some 0)
  match num with
  | some n => if tot = 0 then none else some (n / tot)
  | none => none

/-- standard atomic weight and its stated uncertainty: the `value(unc)` entry of `element_mass` -/
def atomicWeight (el : List ElRow) (z : Nat) : Option (Rat × Rat) :=
  match el.find? (fun r => r.z == z) with
  | some ⟨_, some (.valUnc v u)⟩ => some (v.toRat, u.toRat)
  | _ => none

/-- for every element listed in the composition table: `|A_r − Σ aᵢ mᵢ/Σ aᵢ| ≤ u(A_r)` -/
def weightConsistent (t : MassTables) : Bool :=
  let groups := groupByZ t.iso
  (sectionsU t.ab).all fun s =>
    s.1 == 0 || match atomicWeight t.el s.1, weightedMass groups s.1 s.2 with
      | some (a, u), some w => decide (a - w ≤ u) && decide (w - a ≤ u)
      | _, _ => false

/-- every row of a group carries the symbol of `table[Z]` -/
def groupSymbolsOk (symOf : Nat → Option Nat) (groups : List (Nat × List IsoRow)) : Bool :=
  groups.all fun g => match symOf g.1 with
    | some s => g.2.all (fun r => r.sym == s)
    | none => false

theorem pass1Ok_of_groups (symOf : Nat → Option Nat) (rows : List IsoRow)
    (h : groupSymbolsOk symOf (groupByZ rows) = true) : pass1Ok symOf rows = true := by
  unfold pass1Ok
  rw [List.all_eq_true]
  intro r hr
  obtain ⟨g, hg, e1, e2⟩ := mem_groupByZ_of_mem rows r hr
  have := List.all_eq_true.mp h g hg
  split at this
  · rename_i s hs
    have := List.all_eq_true.mp this r e2
    simp only [beq_iff_eq] at this
    rw [← e1, hs, this]
    simp
  · cases this

/-- every isotope of every section has a row (looked up through the groups) -/
def sectionsHaveRows (groups : List (Nat × List IsoRow)) (secs : List (Nat × List (Nat × Unc))) : Bool :=
  secs.all fun s => s.2.all fun p => (rowOf groups s.1 p.1).isSome

theorem sectionsHaveRows_sound (rows : List IsoRow) (secs : List (Nat × List (Nat × Unc)))
    (h : sectionsHaveRows (groupByZ rows) secs = true) :
    ∀ s ∈ secs, ∀ p ∈ s.2, (s.1, p.1) ∈ rows.map isoKey := by
  intro s hs p hp
  have := List.all_eq_true.mp (List.all_eq_true.mp h s hs) p hp
  obtain ⟨r, hr⟩ := Option.isSome_iff_exists.mp this
  obtain ⟨h1, h2, h3⟩ := rowOf_mem rows s.1 p.1 r hr
  exact List.mem_map.mpr ⟨r, h1, by simp [isoKey, h2, h3]⟩

end PtLoad

/-! ## density.init -/
namespace PtLoad

section density
variable {α : Type} [Div α] [NatCast α] [IntCast α]

def densStep (zOf : Nat → Option Nat) (l : List (Nat × Option α)) (r : DensityRow) : List (Nat × Option α) :=
  match zOf r.sym with
  | some z => (z, r.value.map Dec.toNum) :: l
  | none => l

def densKV (zOf : Nat → Option Nat) (r : DensityRow) : Option (Nat × Option α) :=
  (zOf r.sym).map fun z => (z, r.value.map Dec.toNum)

theorem Density.loadRows_eq (zOf : Nat → Option Nat) (rows : List DensityRow) :
    Density.loadRows (α := α) zOf rows = rows.foldl (densStep zOf) [] := rfl

theorem density_fold (zOf : Nat → Option Nat) (rows : List DensityRow) (init : List (Nat × Option α)) :
    rows.foldl (densStep zOf) init = (rows.filterMap (densKV (α := α) zOf)).reverse ++ init := by
  induction rows generalizing init with
  | nil => rfl
  | cons r rows ih =>
    rw [List.foldl_cons, ih]
    unfold densKV densStep
    cases h : zOf r.sym <;> simp [h, List.filterMap_cons]

/-- an element is served the entry of `element_densities` under its symbol (`None` stays `None`) -/
theorem density_is_entry (zOf : Nat → Option Nat) (pre post : List DensityRow) (r : DensityRow) (z : Nat)
    (hz : zOf r.sym = some z) (hlast : ∀ x ∈ post, zOf x.sym ≠ some z) :
    elDensity (Density.loadRows (α := α) zOf (pre ++ r :: post)) z = some (r.value.map Dec.toNum) := by
  unfold elDensity
  rw [Density.loadRows_eq, density_fold, List.filterMap_append, List.filterMap_cons]
  simp only [densKV, hz, Option.map_some, List.reverse_append, List.reverse_cons, List.append_assoc,
    List.singleton_append, List.append_nil]
  rw [aget_append_of_forall_ne]
  · simp
  · intro p hp
    simp only [List.mem_reverse, List.mem_filterMap] at hp
    obtain ⟨x, hx, hkv⟩ := hp
    unfold densKV at hkv
    cases hzx : zOf x.sym with
    | none => rw [hzx] at hkv; simp at hkv
    | some z' =>
      rw [hzx] at hkv
      simp only [Option.map_some, Option.some.injEq] at hkv
      subst hkv
      intro e
      exact hlast x hx (by rw [hzx]; exact congrArg some e)

/-- an element without an entry has no `_density` attribute -/
theorem density_absent (zOf : Nat → Option Nat) (rows : List DensityRow) (z : Nat)
    (h : ∀ x ∈ rows, zOf x.sym ≠ some z) : elDensity (Density.loadRows (α := α) zOf rows) z = none := by
  unfold elDensity
  rw [Density.loadRows_eq, density_fold, aget_append_of_forall_ne]
  · rfl
  · intro p hp
    simp only [List.mem_reverse, List.mem_filterMap] at hp
    obtain ⟨x, hx, hkv⟩ := hp
    unfold densKV at hkv
    cases hzx : zOf x.sym with
    | none => rw [hzx] at hkv; simp at hkv
    | some z' =>
      rw [hzx] at hkv
      simp only [Option.map_some, Option.some.injEq] at hkv
      subst hkv
      intro e
      exact h x hx (by rw [hzx]; exact congrArg some e)

end density

end PtLoad

/-! ## the atomic weight of an element without an override -/
namespace PtLoad

/-- every element that has rows has a last row -/
theorem exists_last_of_z (rows : List IsoRow) (z : Nat) (h : ∃ y ∈ rows, y.z = z) :
    ∃ pre r' post, rows = pre ++ r' :: post ∧ r'.z = z ∧ ∀ x ∈ post, x.z ≠ z := by
  induction rows with
  | nil => obtain ⟨y, hy, _⟩ := h; cases hy
  | cons x rows ih =>
    by_cases hlater : ∃ y ∈ rows, y.z = z
    · obtain ⟨pre, r', post, h1, h2, h3⟩ := ih hlater
      exact ⟨x :: pre, r', post, by rw [h1]; rfl, h2, h3⟩
    · obtain ⟨y, hy, hyz⟩ := h
      have hx : x.z = z := by
        rcases List.mem_cons.mp hy with rfl | h'
        · exact hyz
        · exact absurd ⟨y, h', hyz⟩ hlater
      exact ⟨[], x, rows, rfl, hx, fun v hv e => hlater ⟨v, hv, e⟩⟩

end PtLoad
