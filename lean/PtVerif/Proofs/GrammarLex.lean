import PtVerif.Model.Print
/-!
# Token-level lemmas of the grammar model: characters, digit strings, the count / isotope / ion /
symbol tokens read back from their printed form

Core Lean only (`simp`, `omega`, `decide`).
-/
namespace PtModel.Grammar
open PtModel PtModel.Print

/-! ## characters -/

theorem digitChar_toNat_fin : ∀ d : Fin 10, (Nat.digitChar d.val).toNat = 48 + d.val := by decide

theorem digitChar_toNat (d : Nat) (h : d < 10) : (Nat.digitChar d).toNat = 48 + d :=
  digitChar_toNat_fin ⟨d, h⟩

theorem isDig_iff (c : Char) : isDig c = true ↔ 48 ≤ c.toNat ∧ c.toNat ≤ 57 := by
  simp [isDig]

theorem isDig_false_iff (c : Char) : isDig c = false ↔ c.toNat < 48 ∨ 57 < c.toNat := by
  simp [isDig]; omega

theorem isUp_iff (c : Char) : isUp c = true ↔ 65 ≤ c.toNat ∧ c.toNat ≤ 90 := by
  simp [isUp]

theorem isLo_iff (c : Char) : isLo c = true ↔ 97 ≤ c.toNat ∧ c.toNat ≤ 122 := by
  simp [isLo]

theorem isLo_false_iff (c : Char) : isLo c = false ↔ c.toNat < 97 ∨ 122 < c.toNat := by
  simp [isLo]; omega

theorem isWs_iff (c : Char) : isWs c = true ↔ c.toNat = 32 ∨ c.toNat = 9 ∨ c.toNat = 10 ∨ c.toNat = 13 := by
  simp [isWs, or_assoc]

theorem isWs_false_iff (c : Char) :
    isWs c = false ↔ c.toNat ≠ 32 ∧ c.toNat ≠ 9 ∧ c.toNat ≠ 10 ∧ c.toNat ≠ 13 := by
  simp [isWs, and_assoc]

theorem isDig_digitChar (d : Nat) (h : d < 10) : isDig (Nat.digitChar d) = true := by
  rw [isDig_iff, digitChar_toNat d h]; omega

/-- a character with a given code is not a literal with another code -/
theorem ne_of_toNat_ne {c d : Char} (h : c.toNat ≠ d.toNat) : c ≠ d := fun e => h (by rw [e])

/-! ## blanks -/

theorem skipWs_cons_of_not_ws (c : Char) (cs : List Char) (h : isWs c = false) :
    skipWs (c :: cs) = c :: cs := by
  simp [skipWs, h]

/-- the head of the text is not a blank -/
def NoWsHead (r : List Char) : Prop := ∀ c, r.head? = some c → isWs c = false

theorem skipWs_of_noWsHead (r : List Char) (h : NoWsHead r) : skipWs r = r := by
  cases r with
  | nil => rfl
  | cons c cs => exact skipWs_cons_of_not_ws c cs (h c rfl)

theorem skipWs_noWsHead (r : List Char) : NoWsHead (skipWs r) := by
  induction r with
  | nil => intro c h; simp [skipWs] at h
  | cons d ds ih =>
    unfold skipWs
    by_cases hd : isWs d = true
    · simp only [hd, if_true]; exact ih
    · simp only [hd]
      intro c h
      simp at h; subst h
      simpa using hd

theorem skipWs_idem (r : List Char) : skipWs (skipWs r) = skipWs r :=
  skipWs_of_noWsHead _ (skipWs_noWsHead r)

/-! ## digit strings -/

def AllDig (ds : List Char) : Prop := ∀ c ∈ ds, isDig c = true
def NoDigHead (r : List Char) : Prop := ∀ c, r.head? = some c → isDig c = false

theorem AllDig.nil : AllDig [] := by intro c h; simp at h
theorem AllDig.cons {c : Char} {cs : List Char} (hc : isDig c = true) (h : AllDig cs) : AllDig (c :: cs) := by
  intro d hd; simp at hd; rcases hd with rfl | hd
  · exact hc
  · exact h d hd
theorem AllDig.append {a b : List Char} (ha : AllDig a) (hb : AllDig b) : AllDig (a ++ b) := by
  intro d hd; simp at hd; rcases hd with hd | hd
  · exact ha d hd
  · exact hb d hd
theorem AllDig.tail {c : Char} {cs : List Char} (h : AllDig (c :: cs)) : AllDig cs :=
  fun d hd => h d (by simp [hd])
theorem AllDig.head {c : Char} {cs : List Char} (h : AllDig (c :: cs)) : isDig c = true :=
  h c (by simp)

theorem digits_append (ds rest : List Char) (hds : AllDig ds) (hr : NoDigHead rest) :
    digits (ds ++ rest) = (ds, rest) := by
  induction ds with
  | nil =>
    cases rest with
    | nil => simp [digits]
    | cons c cs => simp [digits, hr c rfl]
  | cons d ds ih =>
    have := ih hds.tail
    simp [digits, hds.head, this]

theorem digits_allDig (s : List Char) : AllDig (digits s).1 := by
  induction s with
  | nil => simp [digits, AllDig]
  | cons c cs ih =>
    unfold digits
    by_cases h : isDig c = true
    · simp only [h, if_true]; exact AllDig.cons h ih
    · simp only [h]; exact AllDig.nil

theorem digits_split (s : List Char) : (digits s).1 ++ (digits s).2 = s := by
  induction s with
  | nil => simp [digits]
  | cons c cs ih =>
    unfold digits
    by_cases h : isDig c = true
    · simp only [h, if_true, List.cons_append, ih]
    · simp [h]

theorem digits_noDigHead (s : List Char) : NoDigHead (digits s).2 := by
  induction s with
  | nil => intro c h; simp [digits] at h
  | cons c cs ih =>
    unfold digits
    by_cases h : isDig c = true
    · simp only [h, if_true]; exact ih
    · simp only [h]
      intro d hd; simp at hd; subst hd; simpa using h

/-- value of a digit list continued from an accumulator -/
def valOf (cs : List Char) (init : Nat) : Nat := cs.foldl (fun n c => n * 10 + (c.toNat - 48)) init

theorem natOf_eq (cs : List Char) : natOf cs = valOf cs 0 := rfl

theorem valOf_append (a b : List Char) (i : Nat) : valOf (a ++ b) i = valOf b (valOf a i) := by
  simp [valOf, List.foldl_append]

theorem valOf_init (cs : List Char) (i : Nat) : valOf cs i = i * 10 ^ cs.length + valOf cs 0 := by
  induction cs generalizing i with
  | nil => simp [valOf]
  | cons c cs ih =>
    have h1 := ih (i * 10 + (c.toNat - 48))
    have h2 := ih (0 * 10 + (c.toNat - 48))
    simp only [valOf, List.foldl_cons, List.length_cons] at *
    rw [h1, h2, Nat.pow_succ]
    simp only [Nat.zero_mul, Nat.zero_add, Nat.add_mul, Nat.mul_assoc, Nat.mul_comm 10]
    omega

theorem natOf_append (a b : List Char) : natOf (a ++ b) = natOf a * 10 ^ b.length + natOf b := by
  rw [natOf_eq, valOf_append, valOf_init, natOf_eq, natOf_eq]

theorem natOf_singleton_digit (d : Nat) (h : d < 10) : natOf [Nat.digitChar d] = d := by
  simp [natOf, digitChar_toNat d h]

/-! ### `natDigits` -/

theorem digitsAux_spec (fuel n : Nat) (acc : List Char) (hf : n < fuel) :
    ∃ ds, digitsAux fuel n acc = ds ++ acc ∧ AllDig ds ∧ ds ≠ [] ∧
      (0 < n → ∀ c, ds.head? = some c → c.toNat ≠ 48) ∧ (∀ i, valOf ds i = i * 10 ^ ds.length + n) := by
  induction fuel generalizing n acc with
  | zero => omega
  | succ fuel ih =>
    unfold digitsAux
    split
    · rename_i h0
      have hn : n < 10 := by omega
      have hm : n % 10 = n := Nat.mod_eq_of_lt hn
      refine ⟨[Nat.digitChar (n % 10)], by simp, ?_, by simp, ?_, ?_⟩
      · exact AllDig.cons (isDig_digitChar _ (Nat.mod_lt _ (by omega))) AllDig.nil
      · intro hpos c hc
        simp at hc; subst hc
        rw [hm, digitChar_toNat n hn]; omega
      · intro i
        simp [valOf, digitChar_toNat _ (Nat.mod_lt n (by omega : 0 < 10))]
        omega
    · rename_i h0
      have hlt : n / 10 < fuel := by omega
      obtain ⟨ds, h1, h2, h3, h4, h5⟩ := ih (n / 10) (Nat.digitChar (n % 10) :: acc) hlt
      refine ⟨ds ++ [Nat.digitChar (n % 10)], by simp [h1], ?_, by simp, ?_, ?_⟩
      · exact h2.append (AllDig.cons (isDig_digitChar _ (Nat.mod_lt _ (by omega))) AllDig.nil)
      · intro _ c hc
        have hpos : 0 < n / 10 := Nat.pos_of_ne_zero h0
        cases ds with
        | nil => exact absurd rfl h3
        | cons d ds' =>
          simp at hc; subst hc
          exact h4 hpos d (by simp)
      · intro i
        rw [valOf_append, h5]
        simp [valOf, digitChar_toNat _ (Nat.mod_lt n (by omega : 0 < 10)), Nat.pow_succ]
        have := Nat.div_add_mod n 10
        rw [Nat.add_mul, Nat.mul_assoc]
        omega

theorem natDigits_spec (n : Nat) :
    AllDig (natDigits n) ∧ natDigits n ≠ [] ∧
    (0 < n → ∀ c, (natDigits n).head? = some c → c.toNat ≠ 48) ∧ natOf (natDigits n) = n := by
  obtain ⟨ds, h1, h2, h3, h4, h5⟩ := digitsAux_spec (n + 1) n [] (by omega)
  simp at h1
  unfold natDigits
  rw [h1]
  exact ⟨h2, h3, h4, by rw [natOf_eq, h5]; simp⟩

theorem natDigits_allDig (n : Nat) : AllDig (natDigits n) := (natDigits_spec n).1
theorem natDigits_ne_nil (n : Nat) : natDigits n ≠ [] := (natDigits_spec n).2.1
theorem natOf_natDigits (n : Nat) : natOf (natDigits n) = n := (natDigits_spec n).2.2.2

/-- the printed number starts with a non-zero digit -/
theorem natDigits_cons (n : Nat) (hn : 0 < n) :
    ∃ d ds, natDigits n = d :: ds ∧ isDig d = true ∧ d.toNat ≠ 48 ∧ AllDig ds := by
  obtain ⟨h1, h2, h3, _⟩ := natDigits_spec n
  cases hd : natDigits n with
  | nil => exact absurd hd h2
  | cons d ds =>
    rw [hd] at h1 h3
    exact ⟨d, ds, rfl, h1.head, h3 hn d (by simp), h1.tail⟩

/-- zero prints as `0` -/
theorem natDigits_zero : natDigits 0 = ['0'] := by decide

/-- the head of any printed number is a digit -/
theorem natDigits_head_dig (n : Nat) : ∃ d ds, natDigits n = d :: ds ∧ isDig d = true ∧ AllDig ds := by
  cases hd : natDigits n with
  | nil => exact absurd hd (natDigits_ne_nil n)
  | cons d ds =>
    have := natDigits_allDig n
    rw [hd] at this
    exact ⟨d, ds, rfl, this.head, this.tail⟩

/-! ### `padDigits` -/

theorem padDigits_allDig (k v : Nat) : AllDig (padDigits k v) := by
  induction k generalizing v with
  | zero => exact AllDig.nil
  | succ k ih =>
    unfold padDigits
    exact (ih _).append (AllDig.cons (isDig_digitChar _ (Nat.mod_lt _ (by omega))) AllDig.nil)

theorem padDigits_length (k v : Nat) : (padDigits k v).length = k := by
  induction k generalizing v with
  | zero => rfl
  | succ k ih => simp [padDigits, ih]

theorem natOf_padDigits (k v : Nat) : natOf (padDigits k v) = v % 10 ^ k := by
  induction k generalizing v with
  | zero => simp [padDigits, natOf, Nat.mod_one]
  | succ k ih =>
    unfold padDigits
    rw [natOf_append, ih, natOf_singleton_digit _ (Nat.mod_lt _ (by omega))]
    simp only [List.length_singleton, Nat.pow_succ]
    have h1 : v % (10 ^ k * 10) = v % 10 + 10 * (v / 10 % 10 ^ k) := by
      rw [Nat.mul_comm (10 ^ k) 10, Nat.mod_mul]
    omega

/-! ## `[1-9][0-9]*` and the count token -/

theorem reWhole_natDigits (n : Nat) (hn : 0 < n) (rest : List Char) (hr : NoDigHead rest) :
    reWhole (natDigits n ++ rest) = some (natDigits n, rest) := by
  obtain ⟨d, ds, hd, h1, h2, h3⟩ := natDigits_cons n hn
  rw [hd]
  simp [reWhole, h1, h2, digits_append ds rest h3 hr]

/-- the text following a count: neither a digit nor `.` -/
def NoNumHead (r : List Char) : Prop := ∀ c, r.head? = some c → isDig c = false ∧ c.toNat ≠ 46

theorem NoNumHead.noDig {r : List Char} (h : NoNumHead r) : NoDigHead r := fun c hc => (h c hc).1

theorem reFract_none_of_whole (n : Nat) (hn : 0 < n) (rest : List Char) (hr : NoNumHead rest) :
    reFract (natDigits n ++ rest) = none := by
  obtain ⟨d, ds, hd, h1, h2, h3⟩ := natDigits_cons n hn
  have hw := reWhole_natDigits n hn rest hr.noDig
  have hd46 : d.toNat ≠ 46 := by rw [isDig_iff] at h1; omega
  unfold reFract
  rw [hw, hd]
  have hne0 : d ≠ '0' := ne_of_toNat_ne h2
  have hnedot : d ≠ '.' := ne_of_toNat_ne hd46
  cases rest with
  | nil => simp [hne0, hnedot]
  | cons c cs =>
    have hc : c ≠ '.' := ne_of_toNat_ne (hr c rfl).2
    simp [hne0, hnedot, hc]

/-- a whole number read back -/
theorem pNumber_whole (n : Nat) (hn : 0 < n) (rest : List Char) (hr : NoNumHead rest) :
    pNumber (natDigits n ++ rest) = some (.ok (⟨n, 0⟩, rest)) := by
  unfold pNumber
  rw [reFract_none_of_whole n hn rest hr, reWhole_natDigits n hn rest hr.noDig]
  simp [natOf_natDigits]

/-- `I.FFF` read back (`I` may be zero, at least one fraction digit) -/
theorem pNumber_fract (i : Nat) (fs rest : List Char) (hfs : AllDig fs) (hr : NoDigHead rest) :
    pNumber (natDigits i ++ '.' :: fs ++ rest) =
      some (.ok (⟨i * 10 ^ fs.length + natOf fs, fs.length⟩, rest)) := by
  have hdig := digits_append fs rest hfs hr
  unfold pNumber
  by_cases hi : i = 0
  · subst hi
    simp [natDigits_zero, reFract, hdig]
    simp [natOf]
  · have hn : 0 < i := Nat.pos_of_ne_zero hi
    obtain ⟨d, ds, hd, h1, h2, h3⟩ := natDigits_cons i hn
    have hdot : NoDigHead ('.' :: fs ++ rest) := by
      intro c hc; simp at hc; subst hc; decide
    have hw := reWhole_natDigits i hn ('.' :: fs ++ rest) hdot
    have hne0 : d ≠ '0' := ne_of_toNat_ne h2
    have hfr : reFract (natDigits i ++ '.' :: fs ++ rest) = some (natDigits i, fs, rest) := by
      unfold reFract
      simp only [List.append_assoc, List.cons_append] at hw ⊢
      rw [hw, hd]
      simp [hne0, hdig]
    rw [hfr]
    have : (natDigits i).isEmpty = false := by rw [hd]; rfl
    simp [this, natOf_append, natOf_natDigits]


theorem isWs_false_of_isDig {c : Char} (h : isDig c = true) : isWs c = false := by
  rw [isDig_iff] at h; rw [isWs_false_iff]; omega

/-- the printed count, read back by `count = Optional(~White() + (fract|whole), default=1)` -/
theorem pCount_showCnt (c : Cnt) (hc : c.dec = 0 → 0 < c.num) (rest : List Char) (hr : NoNumHead rest) :
    pCount (showCnt c ++ rest) = .ok (c, rest) := by
  unfold showCnt
  by_cases hd : c.dec = 0
  · simp only [hd, if_true]
    obtain ⟨d, ds, hds, h1, _, _⟩ := natDigits_cons c.num (hc hd)
    have hp := pNumber_whole c.num (hc hd) rest hr
    rw [hds] at hp ⊢
    simp only [List.cons_append] at hp ⊢
    simp only [pCount, isWs_false_of_isDig h1, hp]
    cases c; simp_all
  · simp only [hd, if_false]
    obtain ⟨d, ds, hds, h1, _⟩ := natDigits_head_dig (c.num / 10 ^ c.dec)
    have hp := pNumber_fract (c.num / 10 ^ c.dec) (padDigits c.dec (c.num % 10 ^ c.dec)) rest
      (padDigits_allDig _ _) hr.noDig
    rw [natOf_padDigits, padDigits_length, Nat.mod_mod, Nat.div_add_mod'] at hp
    rw [hds] at hp ⊢
    simp only [List.cons_append, List.append_assoc] at hp ⊢
    simp only [pCount, isWs_false_of_isDig h1, hp]
    cases c; simp

/-- no count here: the default 1, nothing consumed -/
theorem pCount_default (rest : List Char) (hr : NoNumHead rest) : pCount rest = .ok (Cnt.one, rest) := by
  cases rest with
  | nil => rfl
  | cons c cs =>
    have h := hr c rfl
    by_cases hw : isWs c = true
    · simp [pCount, hw]
    · have h0 : c ≠ '0' := by
        apply ne_of_toNat_ne; have := h.1; rw [isDig_false_iff] at this
        show c.toNat ≠ 48; omega
      have hdot : c ≠ '.' := ne_of_toNat_ne h.2
      have hre : reWhole (c :: cs) = none := by simp [reWhole, h.1]
      have : pNumber (c :: cs) = none := by
        unfold pNumber reFract
        rw [hre]
        simp [h0, hdot]
      simp [pCount, hw, this]

/-! ## blanks inside tags -/

def AllWs (b : List Char) : Prop := ∀ c ∈ b, isWs c = true

theorem AllWs.nil : AllWs [] := by intro c h; simp at h

theorem skipWs_append_allWs (b r : List Char) (hb : AllWs b) : skipWs (b ++ r) = skipWs r := by
  induction b with
  | nil => rfl
  | cons c cs ih =>
    have hc : isWs c = true := hb c (by simp)
    simp only [List.cons_append, skipWs, hc, if_true]
    exact ih (fun d hd => hb d (by simp [hd]))

theorem skipWs_allWs_noWs (b r : List Char) (hb : AllWs b) (hr : NoWsHead r) : skipWs (b ++ r) = r := by
  rw [skipWs_append_allWs b r hb, skipWs_of_noWsHead r hr]

theorem noWsHead_cons {c : Char} (cs : List Char) (h : isWs c = false) : NoWsHead (c :: cs) := by
  intro d hd; simp at hd; subst hd; exact h

/-! ## isotope and ion tags -/

/-- `[ 18 ]` read back (blanks allowed inside the brackets) -/
theorem pIsotope_tag (a : Nat) (ha : 0 < a) (b1 b2 rest : List Char) (h1 : AllWs b1) (h2 : AllWs b2) :
    pIsotope ('[' :: (b1 ++ natDigits a ++ b2 ++ ']' :: rest)) = (a, rest) := by
  obtain ⟨d, ds, hds, hd1, _, _⟩ := natDigits_cons a ha
  have hs1 : skipWs (b1 ++ natDigits a ++ b2 ++ ']' :: rest) = natDigits a ++ (b2 ++ ']' :: rest) := by
    rw [List.append_assoc, List.append_assoc]
    apply skipWs_allWs_noWs _ _ h1
    rw [hds]; exact noWsHead_cons _ (isWs_false_of_isDig hd1)
  have hnd : NoDigHead (b2 ++ ']' :: rest) := by
    intro c hc
    cases b2 with
    | nil => simp at hc; subst hc; decide
    | cons w ws =>
      simp at hc; subst hc
      have := h2 w (by simp)
      rw [isWs_iff] at this; rw [isDig_false_iff]; omega
  have hw := reWhole_natDigits a ha _ hnd
  have hs2 : skipWs (b2 ++ ']' :: rest) = ']' :: rest :=
    skipWs_allWs_noWs _ _ h2 (noWsHead_cons _ (by decide))
  simp only [pIsotope, hs1, hw, hs2, natOf_natDigits]

theorem pIsotope_none (rest : List Char) (h : ∀ c, rest.head? = some c → c.toNat ≠ 91) :
    pIsotope rest = (0, rest) := by
  cases rest with
  | nil => rfl
  | cons c cs =>
    have : c ≠ '[' := ne_of_toNat_ne (h c rfl)
    simp [pIsotope, this]

/-- the optional magnitude of an ion tag as written -/
def magText : Option Nat → List Char
  | some k => natDigits k
  | none => []

/-- `{ 2+ }` read back; `m = none` is the bare sign -/
theorem pIon_tag (m : Option Nat) (hm : ∀ k, m = some k → 0 < k) (sg : Char) (hsg : sg = '+' ∨ sg = '-')
    (b1 b2 rest : List Char) (h1 : AllWs b1) (h2 : AllWs b2) :
    pIon ('{' :: (b1 ++ (magText m ++ sg :: (b2 ++ '}' :: rest)))) =
      ((if sg = '+' then ((m.getD 1 : Nat) : Int) else -((m.getD 1 : Nat) : Int)), rest) := by
  have hs2 : skipWs (b2 ++ '}' :: rest) = '}' :: rest :=
    skipWs_allWs_noWs _ _ h2 (noWsHead_cons _ (by decide))
  have hsgd : isDig sg = false := by rcases hsg with rfl | rfl <;> decide
  have hsgw : isWs sg = false := by rcases hsg with rfl | rfl <;> decide
  have hsign : NoDigHead (sg :: (b2 ++ '}' :: rest)) := by
    intro c hc; simp at hc; subst hc; exact hsgd
  cases m with
  | none =>
    have hs1 : skipWs (b1 ++ (magText none ++ sg :: (b2 ++ '}' :: rest))) = sg :: (b2 ++ '}' :: rest) := by
      simp only [magText, List.nil_append]
      exact skipWs_allWs_noWs _ _ h1 (noWsHead_cons _ hsgw)
    have hw : reWhole (sg :: (b2 ++ '}' :: rest)) = none := by simp [reWhole, hsgd]
    simp only [pIon, ionMag, hs1, hw]
    rcases hsg with rfl | rfl <;> simp [hs2]
  | some k =>
    have hk := hm k rfl
    obtain ⟨d, ds, hds, hd1, _, _⟩ := natDigits_cons k hk
    have hs1 : skipWs (b1 ++ (magText (some k) ++ sg :: (b2 ++ '}' :: rest))) =
        natDigits k ++ sg :: (b2 ++ '}' :: rest) := by
      simp only [magText]
      apply skipWs_allWs_noWs _ _ h1
      rw [hds]; exact noWsHead_cons _ (isWs_false_of_isDig hd1)
    have hw := reWhole_natDigits k hk _ hsign
    simp only [pIon, ionMag, hs1, hw]
    rcases hsg with rfl | rfl <;> simp [hs2, natOf_natDigits]

theorem pIon_none (rest : List Char) (h : ∀ c, rest.head? = some c → c.toNat ≠ 123) :
    pIon rest = (0, rest) := by
  cases rest with
  | nil => rfl
  | cons c cs =>
    have : c ≠ '{' := ne_of_toNat_ne (h c rfl)
    simp [pIon, this]

/-! ## symbols -/

/-- the text after a symbol does not extend it -/
def NoLoHead (r : List Char) : Prop := ∀ c, r.head? = some c → isLo c = false

theorem isWs_false_of_isUp {c : Char} (h : isUp c = true) : isWs c = false := by
  rw [isUp_iff] at h; rw [isWs_false_iff]; omega

theorem pSymbol_sym (T : Table) (e : Entry) (hl : T.lookup e.sym = some e) (hs : symOK e.sym = true)
    (b rest : List Char) (hb : AllWs b) (hr : NoLoHead rest) :
    pSymbol T (b ++ (e.sym ++ rest)) = .ok (e, rest) := by
  unfold pSymbol
  match hsym : e.sym, hs with
  | [u], hs =>
    simp only [symOK] at hs
    simp only [List.cons_append, List.nil_append]
    rw [skipWs_allWs_noWs b _ hb (noWsHead_cons _ (isWs_false_of_isUp hs))]
    rw [hsym] at hl
    cases rest with
    | nil => simp [hs, hl]
    | cons c cs => simp [hs, hr c rfl, hl]
  | [u, l], hs =>
    simp only [symOK, Bool.and_eq_true] at hs
    simp only [List.cons_append, List.nil_append]
    rw [skipWs_allWs_noWs b _ hb (noWsHead_cons _ (isWs_false_of_isUp hs.1))]
    rw [hsym] at hl
    simp [hs.1, hs.2, hl]

end PtModel.Grammar
