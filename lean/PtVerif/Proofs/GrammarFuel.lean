import PtVerif.Proofs.GrammarLex
/-!
# The fuel of the grammar model is no restriction

Every successful sub-parser returns a suffix that is not longer than its input (strictly shorter
for an element, a group, a composite); hence with fuel `≥ 2·length + 2` one more unit of fuel
never changes any result – success, failure or abort.  `parse` runs with `fuelFor s = 2·length + 4`.
-/
namespace PtModel.Grammar
open PtModel

/-! ## consumed input -/

theorem skipWs_length_le (s : List Char) : (skipWs s).length ≤ s.length := by
  induction s with
  | nil => simp [skipWs]
  | cons c cs ih =>
    unfold skipWs
    split
    · simp; omega
    · simp

theorem digits_length_le (s : List Char) : (digits s).2.length ≤ s.length := by
  have h := congrArg List.length (digits_split s)
  simp at h; omega

theorem reWhole_length {s d r : List Char} (h : reWhole s = some (d, r)) : r.length < s.length := by
  cases s with
  | nil => simp [reWhole] at h
  | cons c cs =>
    simp only [reWhole] at h
    split at h
    · simp at h
      have := digits_length_le cs
      rw [← h.2]; simp; omega
    · simp at h

theorem reFract_length {s i f r : List Char} (h : reFract s = some (i, f, r)) : r.length < s.length := by
  unfold reFract at h
  split at h
  · simp at h
    obtain ⟨_, _, rfl⟩ := h
    simp only [List.length_cons]
    have := digits_length_le ‹List Char›
    omega
  · split at h
    · rename_i i0 r0 hw
      simp at h
      obtain ⟨_, _, rfl⟩ := h
      have h1 := reWhole_length hw
      have := digits_length_le r0
      simp at h1; omega
    · split at h
      · simp at h
        obtain ⟨_, _, rfl⟩ := h
        simp only [List.length_cons]
        have := digits_length_le ‹List Char›
        omega
      · simp at h

theorem pNumber_length {s : List Char} {c : Cnt} {r : List Char} (h : pNumber s = some (.ok (c, r))) :
    r.length < s.length := by
  unfold pNumber at h
  split at h
  · rename_i i f r0 hf
    split at h
    · simp at h
    · simp at h
      have := reFract_length hf
      rw [← h.2]; exact this
  · split at h
    · rename_i i r0 hw
      simp at h
      have := reWhole_length hw
      rw [← h.2]; exact this
    · simp at h

theorem pCount_length {s : List Char} {c : Cnt} {r : List Char} (h : pCount s = .ok (c, r)) :
    r.length ≤ s.length := by
  unfold pCount at h
  split at h
  · simp at h; rw [← h.2]; simp
  · split at h
    · simp at h; rw [← h.2]; simp
    · split at h
      · rename_i x hx
        simp at h; subst h
        exact Nat.le_of_lt (pNumber_length hx)
      · simp at h
      · simp at h; rw [← h.2]; simp

theorem pSymbol_length {T : Table} {s : List Char} {e : Entry} {r : List Char}
    (h : pSymbol T s = .ok (e, r)) : r.length < s.length := by
  unfold pSymbol at h
  have hs := skipWs_length_le s
  split at h
  · simp at h
  · rename_i c cs hsk
    rw [hsk] at hs
    split at h
    · split at h
      · rename_i d ds
        split at h
        · split at h
          · simp at h; obtain ⟨_, rfl⟩ := h; simp at hs; omega
          · simp at h
        · split at h
          · simp at h; obtain ⟨_, rfl⟩ := h; simp at hs ⊢; omega
          · simp at h
      · split at h
        · simp at h; obtain ⟨_, rfl⟩ := h; simp at hs ⊢; omega
        · simp at h
    · simp at h

theorem pIsotope_length (s : List Char) : (pIsotope s).2.length ≤ s.length := by
  unfold pIsotope
  split
  · rename_i r
    split
    · rename_i d r' hw
      have h1 := reWhole_length hw
      have h2 := skipWs_length_le r
      split
      · rename_i r'' hsk
        have h3 := skipWs_length_le r'
        rw [hsk] at h3
        simp at h3 ⊢; omega
      · simp
    · simp
  · simp

theorem ionMag_length (s : List Char) : (ionMag s).2.length ≤ s.length := by
  unfold ionMag
  split
  · rename_i d r' hw
    have := reWhole_length hw
    simp; omega
  · simp

theorem pIon_length (s : List Char) : (pIon s).2.length ≤ s.length := by
  unfold pIon
  split
  · rename_i r
    have h0 := skipWs_length_le r
    have hl := ionMag_length (skipWs r)
    split
    · rename_i sg r3 h3
      rw [h3] at hl
      have h4 := skipWs_length_le r3
      split
      · split
        · rename_i r4 h5
          rw [h5] at h4; simp at h4 hl ⊢; omega
        · simp
      · split
        · split
          · rename_i r4 h5
            rw [h5] at h4; simp at h4 hl ⊢; omega
          · simp
        · simp
    · simp
  · simp

theorem pElement_length {T : Table} {s : List Char} {x : Cnt × Atom} {r : List Char}
    (h : pElement T s = .ok (x, r)) : r.length < s.length := by
  unfold pElement at h
  split at h
  · simp at h
  · rename_i e r1 hs
    have h1 := pSymbol_length hs
    split at h
    · simp at h
    · rename_i c r4 hc
      have h2 := pCount_length hc
      have h3 := pIon_length (pIsotope r1).2
      have h4 := pIsotope_length r1
      split at h
      · simp at h
      · simp at h; rw [← h.2]; omega

theorem pElements_length {T : Table} : ∀ (n : Nat) {s : List Char} {fs : Items Cnt} {r : List Char},
    pElements T n s = .ok (fs, r) → r.length ≤ s.length
  | 0, s, fs, r, h => by simp [pElements] at h; rw [← h.2]; simp
  | n + 1, s, fs, r, h => by
    unfold pElements at h
    split at h
    · rename_i c a r1 he
      have h1 := pElement_length he
      split at h
      · rename_i fs' r' hr
        have h2 := pElements_length n hr
        simp at h; rw [← h.2]; omega
      · simp at h
    · simp at h; rw [← h.2]; simp
    · simp at h

theorem pLit_length {ch : Char} {s r : List Char} (h : pLit ch s = some r) : r.length < s.length := by
  unfold pLit at h
  have hs := skipWs_length_le s
  split at h
  · rename_i c r0 hsk
    rw [hsk] at hs
    split at h
    · simp at h; rw [← h]; simp at hs; omega
    · simp at h
  · simp at h

theorem skipSep_length_le (s : List Char) : (skipSep s).length ≤ s.length := by
  unfold skipSep
  have hs := skipWs_length_le s
  split
  · rename_i r hsk
    rw [hsk] at hs
    have := skipWs_length_le r
    simp at hs; omega
  · exact hs

/-- an implicit group consumes at least its first element -/
theorem pImplicit_length {T : Table} {n : Nat} {s : List Char} {fs : Items Cnt} {r : List Char}
    (h : pImplicit T n s = .ok (fs, r)) : r.length < s.length := by
  unfold pImplicit at h
  split at h
  · simp at h
  · rename_i c r1 hc
    have h1 := pCount_length hc
    split at h
    · simp at h
    · rename_i fs' r' he
      split at h
      · simp at h
      · rename_i hnil
        simp at h
        obtain ⟨_, rfl⟩ := h
        -- at least one element was read
        cases n with
        | zero => simp [pElements] at he; rw [← he.1] at hnil; simp [isNil] at hnil
        | succ n =>
          unfold pElements at he
          split at he
          · rename_i c0 a0 r2 hel
            have h2 := pElement_length hel
            split at he
            · rename_i fs2 r3 hr
              have h3 := pElements_length n hr
              simp at he; obtain ⟨_, rfl⟩ := he; omega
            · simp at he
          · simp at he; rw [← he.1] at hnil; simp [isNil] at hnil
          · simp at he

theorem group_lengths (T : Table) : ∀ (n : Nat),
    (∀ {s : List Char} {fs : Items Cnt} {r : List Char}, pGroup T n s = .ok (fs, r) → r.length < s.length) ∧
    (∀ {s : List Char} {fs : Items Cnt} {r : List Char}, pComposite T n s = .ok (fs, r) → r.length < s.length) ∧
    (∀ {s : List Char} {fs : Items Cnt} {r : List Char}, pMore T n s = .ok (fs, r) → r.length ≤ s.length)
  | 0 => by
    refine ⟨?_, ?_, ?_⟩
    · intro s fs r h; simp [pGroup] at h
    · intro s fs r h; simp [pComposite] at h
    · intro s fs r h; simp [pMore] at h; rw [← h.2]; simp
  | n + 1 => by
    obtain ⟨ihG, ihC, ihM⟩ := group_lengths T n
    refine ⟨?_, ?_, ?_⟩
    · intro s fs r h
      unfold pGroup at h
      split at h
      · rename_i x hx
        simp at h; subst h
        exact pImplicit_length hx
      · simp at h
      · split at h
        · simp at h
        · rename_i r1 hl
          have h1 := pLit_length hl
          have h1' := skipWs_length_le r1
          split at h
          · simp at h
          · rename_i fs' r2 hc
            have h2 := ihC hc
            split at h
            · simp at h
            · rename_i r3 hl2
              have h3 := pLit_length hl2
              have h3' := skipWs_length_le r3
              split at h
              · simp at h
              · rename_i c r4 hcnt
                have h4 := pCount_length hcnt
                simp at h; rw [← h.2]; omega
    · intro s fs r h
      unfold pComposite at h
      split at h
      · simp at h
      · rename_i g r1 hg
        have h1 := ihG hg
        split at h
        · simp at h
        · rename_i gs r2 hm
          have h2 := ihM hm
          simp at h; rw [← h.2]; omega
    · intro s fs r h
      unfold pMore at h
      split at h
      · rename_i g r1 hg
        have h1 := ihG hg
        have h0 := skipSep_length_le s
        split at h
        · simp at h
        · rename_i gs r2 hm
          have h2 := ihM hm
          simp at h; rw [← h.2]; omega
      · simp at h; rw [← h.2]; simp
      · simp at h

/-! ## stability -/

theorem pElements_stable (T : Table) : ∀ (n : Nat) (s : List Char), s.length ≤ n →
    pElements T n s = pElements T (n + 1) s
  | 0, s, h => by
    have : s = [] := by cases s <;> simp_all
    subst this
    simp [pElements, pElement, pSymbol, skipWs]
  | n + 1, s, h => by
    rw [pElements, pElements]
    split
    · rename_i c a r he
      have h1 := pElement_length he
      rw [pElements_stable T n r (by omega)]
    · rfl
    · rfl

theorem pImplicit_stable (T : Table) (n : Nat) (s : List Char) (h : s.length ≤ n) :
    pImplicit T n s = pImplicit T (n + 1) s := by
  unfold pImplicit
  split
  · rfl
  · rename_i c r hc
    have := pCount_length hc
    rw [pElements_stable T n r (by omega)]

theorem group_stable (T : Table) : ∀ (n : Nat),
    (∀ s : List Char, 2 * s.length + 1 ≤ n → pGroup T n s = pGroup T (n + 1) s) ∧
    (∀ s : List Char, 2 * s.length + 2 ≤ n → pComposite T n s = pComposite T (n + 1) s) ∧
    (∀ s : List Char, 2 * s.length + 2 ≤ n → pMore T n s = pMore T (n + 1) s)
  | 0 => by
    refine ⟨?_, ?_, ?_⟩
    · intro s h; omega
    · intro s h; omega
    · intro s h; omega
  | n + 1 => by
    obtain ⟨ihG, ihC, ihM⟩ := group_stable T n
    obtain ⟨lenG, lenC, lenM⟩ := group_lengths T n
    refine ⟨?_, ?_, ?_⟩
    · intro s h
      rw [pGroup, pGroup]
      rw [pImplicit_stable T n s (by omega)]
      split
      · rfl
      · rfl
      · split
        · rfl
        · rename_i r1 hl
          have h1 := pLit_length hl
          have h1' := skipWs_length_le r1
          rw [ihC (skipWs r1) (by omega)]
    · intro s h
      rw [pComposite, pComposite]
      rw [ihG s (by omega)]
      split
      · rfl
      · rename_i g r1 hg
        rw [← ihG s (by omega)] at hg
        have h1 := lenG hg
        rw [ihM r1 (by omega)]
    · intro s h
      rw [pMore, pMore]
      have h0 := skipSep_length_le s
      rw [ihG (skipSep s) (by omega)]
      split
      · rename_i g r1 hg
        rw [← ihG (skipSep s) (by omega)] at hg
        have h1 := lenG hg
        rw [ihM r1 (by omega)]
      · rfl
      · rfl

/-- more fuel than `fuelFor s` changes nothing -/
theorem pComposite_fuel (T : Table) (s : List Char) (n : Nat) (h : fuelFor s ≤ n) :
    pComposite T n s = pComposite T (fuelFor s) s := by
  induction n with
  | zero => unfold fuelFor at h; omega
  | succ n ih =>
    by_cases hn : fuelFor s ≤ n
    · rw [← ih hn]
      exact ((group_stable T n).2.1 s (by unfold fuelFor at hn; omega)).symm
    · have : n + 1 = fuelFor s := by omega
      rw [this]

end PtModel.Grammar
