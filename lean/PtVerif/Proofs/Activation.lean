import PtVerif.Model.Activation
import PtVerif.Generated.ActivationDat
import Mathlib.Analysis.SpecialFunctions.ExpDeriv
import Mathlib.Analysis.SpecialFunctions.Pow.Real
import Mathlib.Analysis.SpecialFunctions.Trigonometric.Basic
import Mathlib.Tactic.Ring
import Mathlib.Tactic.FieldSimp
import Mathlib.Tactic.Linarith
import Mathlib.Tactic.Positivity
import Mathlib.Tactic.NormNum

/-! Proofs for the activation model (C14, C15) at `ℝ`. -/
namespace PtModel.Activation

noncomputable instance instTranscReal : Transc ℝ :=
  ⟨Real.exp, Real.log, Real.sqrt, Real.cos, Real.pi, fun x => |x|⟩

noncomputable instance instActNumReal : ActNum ℝ := ⟨fun x => Real.exp x - 1, fun _ => false⟩

@[simp] theorem transc_exp (x : ℝ) : Transc.exp x = Real.exp x := rfl
@[simp] theorem transc_log (x : ℝ) : Transc.log x = Real.log x := rfl
@[simp] theorem transc_abs (x : ℝ) : Transc.abs x = |x| := rfl
@[simp] theorem actnum_expm1 (x : ℝ) : ActNum.expm1 x = Real.exp x - 1 := rfl
@[simp] theorem actnum_noOverflow (x : ℝ) : ActNum.expOverflows x = false := rfl

/-! ## calculus helpers -/

theorem hasDerivAt_exp_neg_mul (k t : ℝ) :
    HasDerivAt (fun t => Real.exp (-(k * t))) (-k * Real.exp (-(k * t))) t := by
  have h0 : HasDerivAt (fun y : ℝ => k * y) k t := by
    simpa using (hasDerivAt_id' t).const_mul k
  have h1 : HasDerivAt (fun t : ℝ => -(k * t)) (-k) t := h0.neg
  have h := h1.exp
  convert h using 1
  ring

/-! ## single capture with burn-up -/

/-- target atoms (in the activity units of `root`): `N_t' = -a N_t`, `N_t(0) = N0` -/
noncomputable def actNt (N0 a t : ℝ) : ℝ := N0 * Real.exp (-(a * t))
/-- product atoms: `N_p' = a N_t - c N_p`, `N_p(0) = 0` (`c = λ + b`); the second form is the
    solution when the product is lost exactly as fast as the target burns -/
noncomputable def actNp (N0 a c t : ℝ) : ℝ :=
  if c = a then a * N0 * t * Real.exp (-(a * t))
  else a * N0 / (c - a) * (Real.exp (-(a * t)) - Real.exp (-(c * t)))

theorem actNt_deriv (N0 a t : ℝ) : HasDerivAt (actNt N0 a) (-a * actNt N0 a t) t := by
  have h := (hasDerivAt_exp_neg_mul a t).const_mul N0
  have e : N0 * (-a * Real.exp (-(a * t))) = -a * actNt N0 a t := by unfold actNt; ring
  rw [← e]; exact h

theorem actNp_deriv (N0 a c t : ℝ) :
    HasDerivAt (actNp N0 a c) (a * actNt N0 a t - c * actNp N0 a c t) t := by
  by_cases hca : c = a
  · subst hca
    have hf : actNp N0 c c = fun t => (c * N0) * (t * Real.exp (-(c * t))) := by
      funext t; simp [actNp]; ring
    rw [hf]
    have h := ((hasDerivAt_id' t).mul (hasDerivAt_exp_neg_mul c t)).const_mul (c * N0)
    have e : c * N0 * (1 * Real.exp (-(c * t)) + t * (-c * Real.exp (-(c * t))))
        = c * actNt N0 c t - c * (c * N0 * (t * Real.exp (-(c * t)))) := by
      unfold actNt; ring
    rw [← e]; exact h
  · have hne : c - a ≠ 0 := sub_ne_zero.mpr hca
    have hf : actNp N0 a c = fun t => a * N0 / (c - a) * (Real.exp (-(a * t)) - Real.exp (-(c * t))) := by
      funext t; simp [actNp, hca]
    rw [hf]
    have h := ((hasDerivAt_exp_neg_mul a t).sub (hasDerivAt_exp_neg_mul c t)).const_mul (a * N0 / (c - a))
    have e : a * N0 / (c - a) * (-a * Real.exp (-(a * t)) - -c * Real.exp (-(c * t)))
        = a * actNt N0 a t - c * (a * N0 / (c - a) * (Real.exp (-(a * t)) - Real.exp (-(c * t)))) := by
      unfold actNt
      field_simp
      ring
    rw [← e]; exact h

theorem actNt_zero (N0 a : ℝ) : actNt N0 a 0 = N0 := by simp [actNt]
theorem actNp_zero (N0 a c : ℝ) : actNp N0 a c 0 = 0 := by
  unfold actNp; split <;> simp

/-- at `ℝ` the three arms of the repaired correction are `λ·T·(e^{-U} - e^{-V})/(V - U)`, and the
    limit `λ·T·e^{-U}` at `V = U` -/
theorem actCorrection_eq (lam T U V : ℝ) :
    actCorrection lam T U V =
      if V - U = 0 then lam * T * Real.exp (-U)
      else lam * T * (Real.exp (-U) - Real.exp (-V)) / (V - U) := by
  unfold actCorrection
  have h1 : Real.exp (-U) * Real.exp (-(V - U)) = Real.exp (-V) := by
    rw [← Real.exp_add]; congr 1; ring
  have h2 : Real.exp (-V) * Real.exp (V - U) = Real.exp (-U) := by
    rw [← Real.exp_add]; congr 1; ring
  simp only [transc_exp, actnum_expm1]
  by_cases hpos : 0 < V - U
  · rw [if_pos hpos, if_neg (ne_of_gt hpos)]
    have hx : V - U ≠ 0 := ne_of_gt hpos
    have : lam * T * Real.exp (-U) * (Real.exp (-(V - U)) - 1)
        = -(lam * T * (Real.exp (-U) - Real.exp (-V))) := by
      calc lam * T * Real.exp (-U) * (Real.exp (-(V - U)) - 1)
          = lam * T * (Real.exp (-U) * Real.exp (-(V - U))) - lam * T * Real.exp (-U) := by ring
        _ = -(lam * T * (Real.exp (-U) - Real.exp (-V))) := by rw [h1]; ring
    rw [this]
    field_simp
  · rw [if_neg hpos]
    by_cases hneg : V - U < 0
    · rw [if_pos hneg, if_neg (ne_of_lt hneg)]
      have : lam * T * Real.exp (-V) * (Real.exp (V - U) - 1)
          = lam * T * (Real.exp (-U) - Real.exp (-V)) := by
        calc lam * T * Real.exp (-V) * (Real.exp (V - U) - 1)
            = lam * T * (Real.exp (-V) * Real.exp (V - U)) - lam * T * Real.exp (-V) := by ring
          _ = lam * T * (Real.exp (-U) - Real.exp (-V)) := by rw [h2]; ring
      rw [this]
    · have : V - U = 0 := le_antisymm (not_lt.mp hpos) (not_lt.mp hneg)
      rw [if_neg hneg, if_pos this]

/-- burn-up rate of the target (1/h): `flux*initialXS*3600*1e-24` -/
noncomputable def rateA (env : Env ℝ) (r : Row ℝ) : ℝ := fluxOf env r * initialXS env r * 3.6e3 * 1e-24
/-- burn-up rate of the product / capture rate of the parent (1/h): `fluence*effectiveXS*3600*1e-24` -/
noncomputable def rateB (env : Env ℝ) (r : Row ℝ) : ℝ := env.fluence * effectiveXS env r * 3.6e3 * 1e-24
/-- decay constant of the product -/
noncomputable def rateLam (c : Consts ℝ) (r : Row ℝ) : ℝ := c.ln2 / r.thalf
/-- decay constant of the parent (`'b'`, `'2n'`) -/
noncomputable def ratePlam (c : Consts ℝ) (r : Row ℝ) : ℝ := c.ln2 / r.thalfParent
/-- number of target atoms in the units of `root` (µCi·h): `mass/A·1.6278e19/3600` -/
noncomputable def atoms0 (c : Consts ℝ) (r : Row ℝ) (mass : ℝ) : ℝ := mass / (r.a : ℝ) * c.uCi / 3.6e3

theorem root_eq (c : Consts ℝ) (r : Row ℝ) (mass : ℝ) (env : Env ℝ) :
    rootOf c (fluxOf env r) (initialXS env r) mass r.a = rateA env r * atoms0 c r mass := by
  unfold rootOf rateA atoms0
  have : (3.6e3 : ℝ) ≠ 0 := by norm_num
  field_simp

/-- `root · correction = λ · N_p(T)` of the single-capture chain – for every input -/
theorem act_value (c : Consts ℝ) (r : Row ℝ) (mass : ℝ) (env : Env ℝ) (T : ℝ) :
    rootOf c (fluxOf env r) (initialXS env r) mass r.a *
        actCorrection (rateLam c r) T (actU (fluxOf env r) (initialXS env r) T)
          (actV (rateLam c r) env.fluence (effectiveXS env r) T)
      = rateLam c r * actNp (atoms0 c r mass) (rateA env r) (rateLam c r + rateB env r) T := by
  rw [actCorrection_eq, root_eq]
  have hU : actU (fluxOf env r) (initialXS env r) T = rateA env r * T := by unfold actU rateA; ring
  have hV : actV (rateLam c r) env.fluence (effectiveXS env r) T = (rateLam c r + rateB env r) * T := by
    unfold actV rateB; ring
  rw [hU, hV]
  generalize rateLam c r + rateB env r = cc
  generalize rateA env r = a
  generalize rateLam c r = lam
  generalize atoms0 c r mass = N0
  have hx : cc * T - a * T = (cc - a) * T := by ring
  unfold actNp
  by_cases hca : cc = a
  · subst hca
    simp
    ring
  · have hne : cc - a ≠ 0 := sub_ne_zero.mpr hca
    rw [if_neg hca]
    by_cases hT : T = 0
    · subst hT; simp
    · have hxne : cc * T - a * T ≠ 0 := by rw [hx]; exact mul_ne_zero hne hT
      rw [if_neg hxne, hx]
      field_simp

/-- the single-capture branch of `activityRow`, spelled out -/
theorem activityRow_act (c : Consts ℝ) (r : Row ℝ) (mass : ℝ) (env : Env ℝ) (T : ℝ)
    (hr : r.reaction = .act) (hin : ¬ (r.fast = true ∧ env.fastRatio = 0)) (hth : r.thalf ≠ 0) :
    activityRow c r mass env T =
      if rateLam c r * actNp (atoms0 c r mass) (rateA env r) (rateLam c r + rateB env r) T < 0
      then .error .runtime
      else .ok (some (rateLam c r * actNp (atoms0 c r mass) (rateA env r) (rateLam c r + rateB env r) T)) := by
  have hval := act_value c r mass env T
  have hfast : (r.fast && env.fastRatio == 0) = false := by
    cases hf : r.fast <;> simp_all
  unfold activityRow
  simp only [hfast, Bool.false_eq_true, if_false, hr]
  have hth' : (r.thalf == 0) = false := by simpa using hth
  simp only [hth', Bool.false_eq_true, if_false]
  unfold rateLam at hval
  rw [hval]
  rfl

/-- `(e^{-aT} - e^{-cT})/(c - a) ≥ 0` for `T ≥ 0`, whichever of `a`, `c` is larger -/
theorem exp_diff_div_nonneg (a c T : ℝ) (hT : 0 ≤ T) (hca : c - a ≠ 0) :
    0 ≤ (Real.exp (-(a * T)) - Real.exp (-(c * T))) / (c - a) := by
  rcases lt_or_gt_of_ne hca with h | h
  · have h1 : Real.exp (-(a * T)) ≤ Real.exp (-(c * T)) := by
      apply Real.exp_le_exp.mpr; nlinarith
    exact div_nonneg_of_nonpos (sub_nonpos.mpr h1) h.le
  · have h1 : Real.exp (-(c * T)) ≤ Real.exp (-(a * T)) := by
      apply Real.exp_le_exp.mpr; nlinarith
    exact div_nonneg (sub_nonneg.mpr h1) h.le

theorem actNp_nonneg (N0 a c T : ℝ) (hN : 0 ≤ a * N0) (hT : 0 ≤ T) : 0 ≤ actNp N0 a c T := by
  unfold actNp
  split
  · have := Real.exp_pos (-(a * T)); positivity
  · rename_i hca
    have hne : c - a ≠ 0 := sub_ne_zero.mpr hca
    have h := exp_diff_div_nonneg a c T hT hne
    have e : a * N0 / (c - a) * (Real.exp (-(a * T)) - Real.exp (-(c * T)))
        = a * N0 * ((Real.exp (-(a * T)) - Real.exp (-(c * T))) / (c - a)) := by field_simp
    rw [e]; exact mul_nonneg hN h

/-- the inputs the property quantifies over ("physical inputs") -/
structure Physical (c : Consts ℝ) (r : Row ℝ) (mass : ℝ) (env : Env ℝ) (T : ℝ) : Prop where
  ln2 : 0 < c.ln2
  uCi : 0 < c.uCi
  massNumber : 0 < r.a
  thalf : 0 < r.thalf
  xs : 0 ≤ r.thermalXS
  res : 0 ≤ r.resonance
  xsP : 0 ≤ r.thermalXSParent
  resP : 0 ≤ r.resonanceParent
  fluence : 0 ≤ env.fluence
  cd : 0 ≤ env.cdRatio
  fast : 0 ≤ env.fastRatio
  mass : 0 ≤ mass
  exposure : 0 ≤ T

theorem epithermal_nonneg (cd : ℝ) : 0 ≤ epithermal cd := by
  unfold epithermal
  split
  · rename_i h; have : (0:ℝ) < cd := lt_of_lt_of_le one_pos h; positivity
  · exact le_refl _

section
variable {c : Consts ℝ} {r : Row ℝ} {mass : ℝ} {env : Env ℝ} {T : ℝ}

theorem Physical.initialXS_nonneg (h : Physical c r mass env T) : 0 ≤ initialXS env r := by
  unfold initialXS; have := epithermal_nonneg env.cdRatio; have := h.xs; have := h.res; positivity
theorem Physical.effectiveXS_nonneg (h : Physical c r mass env T) : 0 ≤ effectiveXS env r := by
  unfold effectiveXS; have := epithermal_nonneg env.cdRatio; have := h.xsP; have := h.resP; positivity
theorem Physical.flux_nonneg (h : Physical c r mass env T) : 0 ≤ fluxOf env r := by
  unfold fluxOf; have := h.fluence; have := h.fast
  split
  · positivity
  · assumption
theorem Physical.rateA_nonneg (h : Physical c r mass env T) : 0 ≤ rateA env r := by
  unfold rateA; have := h.flux_nonneg; have := h.initialXS_nonneg; positivity
theorem Physical.rateB_nonneg (h : Physical c r mass env T) : 0 ≤ rateB env r := by
  unfold rateB; have := h.fluence; have := h.effectiveXS_nonneg; positivity
theorem Physical.rateLam_pos (h : Physical c r mass env T) : 0 < rateLam c r := by
  unfold rateLam; exact div_pos h.ln2 h.thalf
theorem Physical.atoms0_nonneg (h : Physical c r mass env T) : 0 ≤ atoms0 c r mass := by
  unfold atoms0
  have := h.mass; have := h.uCi
  have : (0:ℝ) < (r.a : ℝ) := by exact_mod_cast h.massNumber
  positivity

/-- single capture: the activity is the chain solution and the error path is not taken -/
theorem activityRow_act_ok (h : Physical c r mass env T) (hr : r.reaction = .act)
    (hin : ¬ (r.fast = true ∧ env.fastRatio = 0)) :
    activityRow c r mass env T =
      .ok (some (rateLam c r * actNp (atoms0 c r mass) (rateA env r) (rateLam c r + rateB env r) T))
    ∧ 0 ≤ rateLam c r * actNp (atoms0 c r mass) (rateA env r) (rateLam c r + rateB env r) T := by
  have hnn : 0 ≤ rateLam c r * actNp (atoms0 c r mass) (rateA env r) (rateLam c r + rateB env r) T :=
    mul_nonneg h.rateLam_pos.le
      (actNp_nonneg _ _ _ _ (mul_nonneg h.rateA_nonneg h.atoms0_nonneg) h.exposure)
  refine ⟨?_, hnn⟩
  rw [activityRow_act c r mass env T hr hin (ne_of_gt h.thalf), if_neg (not_lt.mpr hnn)]
end

end PtModel.Activation
