import PtVerif.Proofs.GrammarTok
import PtVerif.Proofs.GrammarFuel
/-!
# Every canonical derivation of the documented grammar parses to what it denotes (C01)

`parse T D.text = D.result T` for every table `T` and every canonical derivation `D`
(any nesting depth, blanks, separators, leading counts, density tag): the structure the
derivation denotes if every element is defined in `T`, and the parse action's exception (never a
formula) if one is not.  Structural induction over groups / composites; each loop of the grammar
is described for all sufficiently large fuel, and `pComposite_fuel` turns that into the fuel
`parse` runs with.
-/
namespace PtModel.Grammar
open PtModel

/-- the items of a derivation and the rest of the text – or the exception of a parse action -/
def expect (o : Option (Items Cnt)) (rest : List Char) : Res (Items Cnt) :=
  match o with
  | some fs => .ok (fs, rest)
  | none => .error .abort

theorem append_nil_items : ∀ (s : Items Cnt), s.append .nil = s
  | .nil => rfl
  | .cons c f r => by simp [Items.append, append_nil_items r]

/-! ## element runs -/

/-- the element loop stops here: after blanks there is no upper-case letter -/
def ElemStop (X : List Char) : Prop := ∀ c, (skipWs X).head? = some c → isUp c = false

theorem pSymbol_fail_stop (T : Table) (X : List Char) (h : ElemStop X) : pSymbol T X = .error .fail := by
  unfold pSymbol
  cases hs : skipWs X with
  | nil => rfl
  | cons c cs => simp [h c (by rw [hs]; rfl)]

theorem pElement_fail_stop (T : Table) (X : List Char) (h : ElemStop X) : pElement T X = .error .fail := by
  unfold pElement; rw [pSymbol_fail_stop T X h]

theorem pElements_nil_stop (T : Table) (n : Nat) (X : List Char) (h : ElemStop X) :
    pElements T n X = .ok (.nil, X) := by
  cases n with
  | zero => rfl
  | succ n => simp [pElements, pElement_fail_stop T X h]

theorem elem_text_afterTok (e : Elem) (he : e.ok = true) (Y : List Char) : AfterTok (e.text ++ Y) := by
  simp only [Elem.ok, Bool.and_eq_true] at he
  obtain ⟨⟨⟨⟨hpre, hsym⟩, _⟩, _⟩, _⟩ := he
  unfold Elem.text
  cases hp : e.pre with
  | cons w ws =>
    have := allWs_iff.1 hpre w (by rw [hp]; simp)
    simpa using afterTok_ws _ this
  | nil =>
    match hs : e.sym, hsym with
    | [u], hsym => simp only [symOK] at hsym; simpa using afterTok_up _ hsym
    | [u, l], hsym =>
      simp only [symOK, Bool.and_eq_true] at hsym; simpa using afterTok_up _ hsym.1

theorem elemsText_afterTok (els : List Elem) (h : elemsOk els = true) (X : List Char) (hX : AfterTok X) :
    AfterTok (elemsText els ++ X) := by
  cases els with
  | nil => simpa [elemsText] using hX
  | cons e r =>
    simp only [elemsOk, Bool.and_eq_true] at h
    simpa [elemsText, List.append_assoc] using elem_text_afterTok e h.1 (elemsText r ++ X)

theorem pElements_elems (T : Table) : ∀ (els : List Elem), elemsOk els = true → ∀ (X : List Char),
    AfterTok X → ElemStop X → ∀ n, els.length ≤ n →
    pElements T n (elemsText els ++ X) = expect (elemsItems T els) X
  | [], _, X, _, hs, n, _ => by simpa [elemsText, elemsItems, expect] using pElements_nil_stop T n X hs
  | e :: r, h, X, hX, hs, n, hn => by
    simp only [elemsOk, Bool.and_eq_true] at h
    obtain ⟨n', rfl⟩ : ∃ n', n = n' + 1 := ⟨n - 1, by simp at hn; omega⟩
    have he := pElement_elem T e h.1 [] (elemsText r ++ X) AllWs.nil (elemsText_afterTok r h.2 X hX)
    have ih := pElements_elems T r h.2 X hX hs n' (by simp at hn; omega)
    simp only [List.nil_append] at he
    rw [pElements]
    simp only [elemsText, List.append_assoc]
    rw [he]
    unfold elemExpect
    simp only [elemsItems]
    cases ha : e.atom T with
    | none => simp [expect]
    | some x =>
      simp only
      rw [ih]
      cases hr : elemsItems T r with
      | none => simp [expect]
      | some fs => simp [expect]

/-- the same with blanks before the first element -/
theorem pElements_elems_pre (T : Table) (e : Elem) (r : List Elem) (h : elemsOk (e :: r) = true)
    (b : List Char) (hb : AllWs b) (X : List Char) (hX : AfterTok X) (hs : ElemStop X) (n : Nat)
    (hn : r.length + 1 ≤ n) :
    pElements T n (b ++ (elemsText (e :: r) ++ X)) = expect (elemsItems T (e :: r)) X := by
  simp only [elemsOk, Bool.and_eq_true] at h
  obtain ⟨n', rfl⟩ : ∃ n', n = n' + 1 := ⟨n - 1, by omega⟩
  have he := pElement_elem T e h.1 b (elemsText r ++ X) hb (elemsText_afterTok r h.2 X hX)
  have ih := pElements_elems T r h.2 X hX hs n' (by omega)
  rw [pElements]
  simp only [elemsText, List.append_assoc]
  rw [he]
  unfold elemExpect
  simp only [elemsItems]
  cases ha : e.atom T with
  | none => simp [expect]
  | some x =>
    simp only
    rw [ih]
    cases hr : elemsItems T r with
    | none => simp [expect]
    | some fs => simp [expect]

theorem elemsItems_cons_notNil (T : Table) (e : Elem) (r : List Elem) (fs : Items Cnt)
    (h : elemsItems T (e :: r) = some fs) : isNil fs = false := by
  simp only [elemsItems] at h
  split at h
  · simp at h; rw [← h]; rfl
  · simp at h

/-! ## how a canonical group begins -/

theorem group_text_head (g : Group) (hc : g.canon = true) :
    ∃ c cs, g.text = c :: cs ∧
      ((g.leadNone = true ∧ (isUp c = true ∨ c.toNat = 40)) ∨
       (g.leadNone = false ∧ (isDig c = true ∨ c.toNat = 46))) := by
  cases g with
  | implicit lead els =>
    cases els with
    | nil => simp [Group.canon] at hc
    | cons e r =>
      simp only [Group.canon, Bool.and_eq_true, Bool.or_eq_true, Bool.not_eq_true', elemsOk,
        List.isEmpty_iff] at hc
      obtain ⟨⟨hl, he, _⟩, hpre⟩ := hc
      cases hn : lead.isNone with
      | true =>
        have hln : lead = .none := by cases lead <;> simp_all [CntTok.isNone]
        have hp : e.pre = [] := by
          rcases hpre with h | h
          · simp [hn] at h
          · exact h
        simp only [Elem.ok, Bool.and_eq_true] at he
        obtain ⟨⟨⟨⟨_, hsym⟩, _⟩, _⟩, _⟩ := he
        match hs : e.sym, hsym with
        | [u], hsym =>
          simp only [symOK] at hsym
          exact ⟨u, _, by simp [Group.text, hln, CntTok.text, elemsText, Elem.text, hp, hs]; rfl,
            Or.inl ⟨by simp [Group.leadNone, hn], Or.inl hsym⟩⟩
        | [u, l], hsym =>
          simp only [symOK, Bool.and_eq_true] at hsym
          exact ⟨u, _, by simp [Group.text, hln, CntTok.text, elemsText, Elem.text, hp, hs]; rfl,
            Or.inl ⟨by simp [Group.leadNone, hn], Or.inl hsym.1⟩⟩
      | false =>
        obtain ⟨c, cs, hc', hcd⟩ := cntTok_head hl hn
        exact ⟨c, cs ++ elemsText (e :: r), by simp [Group.text, hc'],
          Or.inr ⟨by simp [Group.leadNone, hn], hcd⟩⟩
  | explicit b0 b1 inner b2 b3 cnt =>
    simp only [Group.canon, Bool.and_eq_true, List.isEmpty_iff] at hc
    have hb0 : b0 = [] := hc.1.1.1.1.1.1
    exact ⟨'(', _, by simp [Group.text, hb0]; rfl, Or.inl ⟨rfl, Or.inr rfl⟩⟩

theorem group_text_noWs (g : Group) (hc : g.canon = true) (W : List Char) : NoWsHead (g.text ++ W) := by
  obtain ⟨c, cs, h, hh⟩ := group_text_head g hc
  rw [h]
  apply noWsHead_cons
  rcases hh with ⟨_, h | h⟩ | ⟨_, h | h⟩
  · exact isWs_false_of_isUp h
  · rw [isWs_false_iff]; omega
  · exact isWs_false_of_isDig h
  · rw [isWs_false_iff]; omega

theorem comp_text_first (d : Comp) : ∃ W, d.text = d.first.text ++ W := by
  cases d with
  | one g => exact ⟨[], by simp [Comp.text, Comp.first]⟩
  | more g s r => exact ⟨s.text ++ r.text, by simp [Comp.text, Comp.first]⟩

theorem comp_first_canon (d : Comp) (h : d.canon = true) : d.first.canon = true := by
  cases d with
  | one g => simpa [Comp.canon, Comp.first] using h
  | more g s r => simp only [Comp.canon, Bool.and_eq_true] at h; exact h.1.1.1

/-! ## what follows a group, a composite -/

structure GroupFollow (g : Group) (X : List Char) : Prop where
  after : AfterTok X
  stop : g.isImplicit = true → ElemStop X
  bare : g.bare = true → NoWsHead X

/-- the composite loop stops here: after blanks comes `)`, `@` or the end -/
def EndStop (X : List Char) : Prop := ∀ c, (skipWs X).head? = some c → c.toNat = 41 ∨ c.toNat = 64

structure CompFollow (d : Comp) (X : List Char) : Prop where
  after : AfterTok X
  stop : EndStop X
  bare : d.lastBare = true → NoWsHead X

theorem EndStop.elemStop {X : List Char} (h : EndStop X) : ElemStop X := by
  intro c hc
  have := h c hc
  cases hu : isUp c with
  | false => rfl
  | true => rw [isUp_iff] at hu; omega

theorem follow_of_link (g : Group) (s : Sep) (nxt : Group) (hl : link g s nxt = true) (hs : s.ok = true)
    (hn : nxt.canon = true) (W : List Char) : GroupFollow g (s.text ++ (nxt.text ++ W)) := by
  simp only [link, Bool.and_eq_true, Bool.or_eq_true, Bool.not_eq_true'] at hl
  obtain ⟨⟨⟨l1, l2⟩, l3⟩, l4⟩ := hl
  simp only [Sep.ok, Bool.and_eq_true, Bool.or_eq_true, List.isEmpty_iff] at hs
  obtain ⟨⟨hb1, hb2⟩, hb3⟩ := hs
  have hb1' := allWs_iff.1 hb1
  obtain ⟨c, cs, hnt, hnh⟩ := group_text_head nxt hn
  have hnw := group_text_noWs nxt hn W
  cases hp : s.plus with
  | true =>
    -- b1 '+' b2 …
    have htext : s.text ++ (nxt.text ++ W) = s.b1 ++ ('+' :: (s.b2 ++ (nxt.text ++ W))) := by
      simp [Sep.text, hp]
    rw [htext]
    refine ⟨?_, ?_, ?_⟩
    · cases h1 : s.b1 with
      | nil => simpa using afterTok_of_code _ (Or.inl (by decide))
      | cons w ws => simpa using afterTok_ws _ (hb1' w (by rw [h1]; simp))
    · intro _ ch hch
      rw [skipWs_allWs_noWs _ _ hb1' (noWsHead_cons _ (by decide))] at hch
      simp at hch; subst hch; decide
    · intro hbare
      have : s.b1 = [] := by
        rcases l3 with h | h
        · rw [hbare] at h; simp at h
        · simpa using h
      rw [this]; exact noWsHead_cons _ (by decide)
  | false =>
    have hb2e : s.b2 = [] := by
      rcases hb3 with h | h
      · rw [hp] at h; simp at h
      · exact h
    have htext : s.text ++ (nxt.text ++ W) = s.b1 ++ (nxt.text ++ W) := by
      simp [Sep.text, hp, hb2e]
    rw [htext]
    cases h1 : s.b1 with
    | cons w ws =>
      have hne : s.isEmpty = false := by simp [Sep.isEmpty, h1]
      rw [← h1]
      refine ⟨?_, ?_, ?_⟩
      · rw [h1]; simpa using afterTok_ws _ (hb1' w (by rw [h1]; simp))
      · intro himp ch hch
        rw [skipWs_allWs_noWs _ _ hb1' hnw, hnt] at hch
        obtain rfl : c = ch := by simpa using hch
        -- an implicit group after blanks only: the next group is explicit or opens with a count
        have : nxt.isImplicit = false ∨ nxt.leadNone = false := by
          rcases l4 with ((h | h) | h) | h
          · rw [hp] at h; simp at h
          · rw [himp] at h; simp at h
          · exact Or.inl h
          · exact Or.inr h
        rcases hnh with ⟨hln, hu | hu⟩ | ⟨_, hd | hd⟩
        · rcases this with h | h
          · -- explicit: the head is `(`
            cases nxt with
            | implicit _ _ => simp [Group.isImplicit] at h
            | explicit b0 b1 inner b2 b3 cnt =>
              simp only [Group.canon, Bool.and_eq_true, List.isEmpty_iff] at hn
              have hb0 : b0 = [] := hn.1.1.1.1.1.1
              simp [Group.text, hb0] at hnt
              rw [← hnt.1]; decide
          · rw [hln] at h; simp at h
        · cases hu' : isUp c with
          | false => rfl
          | true => rw [isUp_iff] at hu'; omega
        · cases hu' : isUp c with
          | false => rfl
          | true => rw [isUp_iff] at hu'; rw [isDig_iff] at hd; omega
        · cases hu' : isUp c with
          | false => rfl
          | true => rw [isUp_iff] at hu'; omega
      · intro hbare
        rcases l2 with (h | h) | h
        · rw [hp] at h; simp at h
        · rw [hbare] at h; simp at h
        · rw [hne] at h; simp at h
    | nil =>
      have hemp : s.isEmpty = true := by simp [Sep.isEmpty, h1, hp, hb2e]
      have hln : nxt.leadNone = true := by
        rcases l1 with h | h
        · rw [hemp] at h; simp at h
        · exact h
      simp only [List.nil_append]
      rw [hnt]
      have hhead : isUp c = true ∨ c.toNat = 40 := by
        rcases hnh with ⟨_, h⟩ | ⟨h, _⟩
        · exact h
        · rw [hln] at h; simp at h
      refine ⟨?_, ?_, ?_⟩
      · rcases hhead with h | h
        · exact afterTok_up _ h
        · exact afterTok_of_code _ (Or.inl (by omega))
      · intro himp ch hch
        have hcw : isWs c = false := by
          rcases hhead with h | h
          · exact isWs_false_of_isUp h
          · rw [isWs_false_iff]; omega
        rw [List.cons_append, skipWs_cons_of_not_ws _ _ hcw] at hch
        obtain rfl : c = ch := by simpa using hch
        -- the next group must be explicit
        have : nxt.isImplicit = false := by
          rcases l4 with ((h | h) | h) | h
          · rw [hp] at h; simp at h
          · rw [himp] at h; simp at h
          · exact h
          · rw [hln] at h; simp at h
        cases nxt with
        | implicit _ _ => simp [Group.isImplicit] at this
        | explicit b0 b1 inner b2 b3 cnt =>
          simp only [Group.canon, Bool.and_eq_true, List.isEmpty_iff] at hn
          have hb0 : b0 = [] := hn.1.1.1.1.1.1
          simp [Group.text, hb0] at hnt
          rw [← hnt.1]; decide
      · intro _
        apply noWsHead_cons
        rcases hhead with h | h
        · exact isWs_false_of_isUp h
        · rw [isWs_false_iff]; omega

/-! ## the loops at the end of a composite -/

theorem pGroup_endStop (T : Table) (n : Nat) (X : List Char) (hw : NoWsHead X)
    (h : ∀ c, X.head? = some c → c.toNat = 41 ∨ c.toNat = 64) : pGroup T n X = .error .fail := by
  cases n with
  | zero => rfl
  | succ n =>
    have hstop : ElemStop X := by
      intro c hc
      rw [skipWs_of_noWsHead X hw] at hc
      have := h c hc
      cases hu : isUp c with
      | false => rfl
      | true => rw [isUp_iff] at hu; omega
    have hnn : NoNumHead X := by
      intro c hc; have := h c hc; rw [isDig_false_iff]; omega
    rw [pGroup, pImplicit, pCount_default X hnn]
    simp only
    rw [pElements_nil_stop T n X hstop]
    simp only [isNil, if_true]
    have : pLit '(' X = none := by
      unfold pLit
      rw [skipWs_of_noWsHead X hw]
      cases X with
      | nil => rfl
      | cons c cs =>
        have : c ≠ '(' := ne_of_toNat_ne (by have := h c rfl; show c.toNat ≠ 40; omega)
        simp [this]
    rw [this]

theorem skipSep_endStop (X : List Char) (h : EndStop X) : skipSep X = skipWs X := by
  unfold skipSep
  cases hs : skipWs X with
  | nil => rfl
  | cons c cs =>
    have : c ≠ '+' := ne_of_toNat_ne (by have := h c (by rw [hs]; rfl); show c.toNat ≠ 43; omega)
    simp [this]

theorem pMore_endStop (T : Table) (n : Nat) (X : List Char) (h : EndStop X) :
    pMore T n X = .ok (.nil, X) := by
  cases n with
  | zero => rfl
  | succ n =>
    rw [pMore, skipSep_endStop X h, pGroup_endStop T n (skipWs X) (skipWs_noWsHead X) h]

/-! ## separators -/

theorem skipSep_sep (s : Sep) (hs : s.ok = true) (Z : List Char) (hz : NoWsHead Z)
    (hp : ∀ c, Z.head? = some c → c.toNat ≠ 43) : skipSep (s.text ++ Z) = Z := by
  simp only [Sep.ok, Bool.and_eq_true, Bool.or_eq_true, List.isEmpty_iff] at hs
  obtain ⟨⟨hb1, hb2⟩, hb3⟩ := hs
  have hb1' := allWs_iff.1 hb1
  have hb2' := allWs_iff.1 hb2
  unfold skipSep Sep.text
  cases hpl : s.plus with
  | true =>
    simp only [if_true, List.append_assoc, List.cons_append]
    rw [skipWs_allWs_noWs _ _ hb1' (noWsHead_cons _ (by decide))]
    simp only
    exact skipWs_allWs_noWs _ _ hb2' hz
  | false =>
    have hb2e : s.b2 = [] := by
      rcases hb3 with h | h
      · rw [hpl] at h; simp at h
      · exact h
    simp only [hb2e, List.append_nil, Bool.false_eq_true, if_false]
    rw [skipWs_allWs_noWs _ _ hb1' hz]
    cases Z with
    | nil => rfl
    | cons c cs =>
      have : c ≠ '+' := ne_of_toNat_ne (hp c rfl)
      simp [this]

theorem group_text_notPlus (g : Group) (hc : g.canon = true) (W : List Char) :
    ∀ c, (g.text ++ W).head? = some c → c.toNat ≠ 43 := by
  obtain ⟨c, cs, h, hh⟩ := group_text_head g hc
  intro ch hch
  rw [h] at hch; simp at hch; subst hch
  rcases hh with ⟨_, h | h⟩ | ⟨_, h | h⟩
  · rw [isUp_iff] at h; omega
  · omega
  · rw [isDig_iff] at h; omega
  · omega

/-! ## groups and composites -/

theorem pLit_blanks (ch : Char) (hch : isWs ch = false) (b R : List Char) (hb : AllWs b) :
    pLit ch (b ++ ch :: R) = some R := by
  unfold pLit
  rw [skipWs_allWs_noWs _ _ hb (noWsHead_cons _ hch)]
  simp

theorem noNumHead_of_ws_or (b Z : List Char) (hb : AllWs b) (hz : NoNumHead Z) : NoNumHead (b ++ Z) := by
  intro c hc
  cases b with
  | nil => exact hz c (by simpa using hc)
  | cons w ws =>
    simp at hc; subst hc
    have := hb w (by simp)
    rw [isWs_iff] at this
    rw [isDig_false_iff]; omega

theorem elemStop_paren (b R : List Char) (hb : AllWs b) : ElemStop (b ++ '(' :: R) := by
  intro c hc
  rw [skipWs_allWs_noWs _ _ hb (noWsHead_cons _ (by decide))] at hc
  simp at hc; subst hc; decide

mutual
theorem group_parse (T : Table) : (g : Group) → g.canon = true → ∀ (b : List Char), AllWs b →
    (b ≠ [] → g.leadNone = true) → ∀ (X : List Char), GroupFollow g X →
    ∃ N, ∀ n, N ≤ n → pGroup T n (b ++ (g.text ++ X)) = expect (g.items T) X
  | .implicit lead [], hc, _, _, _, _, _ => by simp [Group.canon] at hc
  | .implicit lead (e :: r), hc, b, hb, hbl, X, hX => by
    simp only [Group.canon, Bool.and_eq_true, Bool.or_eq_true, Bool.not_eq_true', List.isEmpty_iff] at hc
    obtain ⟨⟨hl, hels⟩, hpre⟩ := hc
    refine ⟨r.length + 2, fun n hn => ?_⟩
    obtain ⟨n', rfl⟩ : ∃ n', n = n' + 1 := ⟨n - 1, by omega⟩
    have hstop := hX.stop rfl
    have hafter := elemsText_afterTok (e :: r) hels X hX.after
    -- the leading count
    have hcount : pCount (b ++ (lead.text ++ (elemsText (e :: r) ++ X))) =
        .ok (lead.val, (if lead.isNone then b else []) ++ (elemsText (e :: r) ++ X)) := by
      cases hn' : lead.isNone with
      | true =>
        have hln : lead = .none := by cases lead <;> simp_all [CntTok.isNone]
        subst hln
        simp only [CntTok.text, CntTok.val, List.nil_append, if_true]
        exact pCount_default _ (noNumHead_of_ws_or b _ hb hafter.noNum)
      | false =>
        have hbn : b = [] := by
          cases b with
          | nil => rfl
          | cons w ws =>
            have := hbl (by simp)
            simp [Group.leadNone, hn'] at this
        subst hbn
        simp only [List.nil_append, Bool.false_eq_true, if_false]
        exact pCount_tok lead hl _ hafter.noNum
    have hels' := pElements_elems_pre T e r hels (if lead.isNone then b else []) (by split; exact hb; exact AllWs.nil)
      X hX.after hstop n' (by omega)
    rw [pGroup, pImplicit]
    simp only [Group.text, List.append_assoc]
    rw [hcount]
    simp only
    rw [hels']
    simp only [Group.items]
    cases hi : elemsItems T (e :: r) with
    | none => simp [expect]
    | some fs => simp [expect, elemsItems_cons_notNil T e r fs hi]
  | .explicit b0 b1 inner b2 b3 cnt, hc, b, hb, _, X, hX => by
    simp only [Group.canon, Bool.and_eq_true, Bool.or_eq_true, Bool.not_eq_true', List.isEmpty_iff] at hc
    obtain ⟨⟨⟨⟨⟨⟨hb0, hb1⟩, hb2⟩, hb3⟩, hcnt⟩, hin⟩, hlb⟩ := hc
    subst hb0
    have hb1' := allWs_iff.1 hb1
    have hb2' := allWs_iff.1 hb2
    have hb3' := allWs_iff.1 hb3
    -- the text after the inner composite
    let Y := b2 ++ (')' :: (b3 ++ (cnt.text ++ X)))
    have hYfollow : CompFollow inner Y := by
      refine ⟨?_, ?_, ?_⟩
      · cases h2 : b2 with
        | nil => simpa [Y, h2] using afterTok_of_code _ (Or.inl (by decide))
        | cons w ws => simpa [Y, h2] using afterTok_ws _ (hb2' w (by rw [h2]; simp))
      · intro c hc
        simp only [Y] at hc
        rw [skipWs_allWs_noWs _ _ hb2' (noWsHead_cons _ (by decide))] at hc
        simp at hc; subst hc; left; rfl
      · intro hbare
        have : b2 = [] := by
          rcases hlb with h | h
          · rw [hbare] at h; simp at h
          · exact h
        simp only [Y, this, List.nil_append]
        exact noWsHead_cons _ (by decide)
    obtain ⟨N, hN⟩ := comp_parse T inner hin [] AllWs.nil (by simp) Y hYfollow
    refine ⟨N + 1, fun n hn => ?_⟩
    obtain ⟨n', rfl⟩ : ∃ n', n = n' + 1 := ⟨n - 1, by omega⟩
    have hC := hN n' (by omega)
    simp only [List.nil_append] at hC
    -- the whole text
    have htext : b ++ ((Group.explicit [] b1 inner b2 b3 cnt).text ++ X) =
        b ++ ('(' :: (b1 ++ (inner.text ++ Y))) := by
      simp [Group.text, Y, List.append_assoc]
    rw [htext]
    have himp : pImplicit T n' (b ++ ('(' :: (b1 ++ (inner.text ++ Y)))) = .error .fail := by
      unfold pImplicit
      rw [pCount_default _ (noNumHead_of_ws_or b _ hb (by intro c hc; simp at hc; subst hc; decide))]
      simp only
      rw [pElements_nil_stop T n' _ (elemStop_paren b _ hb)]
      simp [isNil]
    obtain ⟨W, hW⟩ := comp_text_first inner
    have hinw : NoWsHead (inner.text ++ Y) := by
      rw [hW, List.append_assoc]
      exact group_text_noWs inner.first (comp_first_canon inner hin) _
    rw [pGroup, himp]
    simp only
    rw [pLit_blanks '(' (by decide) b _ hb]
    simp only
    rw [skipWs_allWs_noWs _ _ hb1' hinw, hC]
    simp only [Group.items]
    cases hi : inner.items T with
    | none => simp [expect]
    | some fs =>
      simp only [expect]
      have hl2 : pLit ')' Y = some (b3 ++ (cnt.text ++ X)) := pLit_blanks ')' (by decide) b2 _ hb2'
      rw [hl2]
      simp only
      -- the count after the parenthesis
      have hcount : pCount (skipWs (b3 ++ (cnt.text ++ X))) = .ok (cnt.val, X) := by
        cases hn' : cnt.isNone with
        | true =>
          have hln : cnt = .none := by cases cnt <;> simp_all [CntTok.isNone]
          subst hln
          simp only [CntTok.text, CntTok.val, List.nil_append]
          rw [skipWs_allWs_noWs _ _ hb3' (hX.bare (by simp [Group.bare, CntTok.isNone]))]
          exact pCount_default X hX.after.noNum
        | false =>
          obtain ⟨c, cs, hct, hcd⟩ := cntTok_head hcnt hn'
          have hcw : isWs c = false := by
            rcases hcd with h | h
            · exact isWs_false_of_isDig h
            · rw [isWs_false_iff]; omega
          rw [skipWs_allWs_noWs _ _ hb3' (by rw [hct]; exact noWsHead_cons _ hcw)]
          exact pCount_tok cnt hcnt X hX.after.noNum
      rw [hcount]
theorem more_parse (T : Table) : (d : Comp) → d.canon = true → ∀ (s : Sep), s.ok = true →
    ∀ (X : List Char), CompFollow d X →
    ∃ N, ∀ n, N ≤ n → pMore T n (s.text ++ (d.text ++ X)) = expect (d.items T) X
  | .one g, hc, s, hs, X, hX => by
    simp only [Comp.canon] at hc
    have hgf : GroupFollow g X := ⟨hX.after, fun _ => hX.stop.elemStop, fun h => hX.bare (by simpa [Comp.lastBare] using h)⟩
    obtain ⟨N, hN⟩ := group_parse T g hc [] AllWs.nil (by simp) X hgf
    refine ⟨N + 1, fun n hn => ?_⟩
    obtain ⟨n', rfl⟩ : ∃ n', n = n' + 1 := ⟨n - 1, by omega⟩
    have hG := hN n' (by omega)
    simp only [List.nil_append] at hG
    rw [pMore]
    simp only [Comp.text]
    rw [skipSep_sep s hs _ (group_text_noWs g hc X) (group_text_notPlus g hc X), hG]
    simp only [Comp.items]
    cases hi : g.items T with
    | none => simp [expect]
    | some fs => simp [expect, pMore_endStop T n' X hX.stop, append_nil_items]
  | .more g s2 rest, hc, s, hs, X, hX => by
    simp only [Comp.canon, Bool.and_eq_true] at hc
    obtain ⟨⟨⟨hg, hs2⟩, hl⟩, hr⟩ := hc
    obtain ⟨W, hW⟩ := comp_text_first rest
    have hgf : GroupFollow g (s2.text ++ (rest.text ++ X)) := by
      rw [hW, List.append_assoc]
      exact follow_of_link g s2 rest.first hl hs2 (comp_first_canon rest hr) (W ++ X)
    obtain ⟨N1, hN1⟩ := group_parse T g hg [] AllWs.nil (by simp) _ hgf
    obtain ⟨N2, hN2⟩ := more_parse T rest hr s2 hs2 X ⟨hX.after, hX.stop, fun h => hX.bare (by simpa [Comp.lastBare] using h)⟩
    refine ⟨N1 + N2 + 1, fun n hn => ?_⟩
    obtain ⟨n', rfl⟩ : ∃ n', n = n' + 1 := ⟨n - 1, by omega⟩
    have hG := hN1 n' (by omega)
    have hM := hN2 n' (by omega)
    simp only [List.nil_append] at hG
    rw [pMore]
    simp only [Comp.text, List.append_assoc]
    rw [skipSep_sep s hs _ (group_text_noWs g hg _) (group_text_notPlus g hg _), hG]
    simp only [Comp.items]
    cases hi : g.items T with
    | none => simp [expect]
    | some fs =>
      simp only [expect]
      rw [hM]
      cases hj : rest.items T with
      | none => simp [expect]
      | some gs => simp [expect]
theorem comp_parse (T : Table) : (d : Comp) → d.canon = true → ∀ (b : List Char), AllWs b →
    (b ≠ [] → d.first.leadNone = true) → ∀ (X : List Char), CompFollow d X →
    ∃ N, ∀ n, N ≤ n → pComposite T n (b ++ (d.text ++ X)) = expect (d.items T) X
  | .one g, hc, b, hb, hbl, X, hX => by
    simp only [Comp.canon] at hc
    have hgf : GroupFollow g X := ⟨hX.after, fun _ => hX.stop.elemStop, fun h => hX.bare (by simpa [Comp.lastBare] using h)⟩
    obtain ⟨N, hN⟩ := group_parse T g hc b hb (by simpa [Comp.first] using hbl) X hgf
    refine ⟨N + 1, fun n hn => ?_⟩
    obtain ⟨n', rfl⟩ : ∃ n', n = n' + 1 := ⟨n - 1, by omega⟩
    have hG := hN n' (by omega)
    rw [pComposite]
    simp only [Comp.text]
    rw [hG]
    simp only [Comp.items]
    cases hi : g.items T with
    | none => simp [expect]
    | some fs => simp [expect, pMore_endStop T n' X hX.stop, append_nil_items]
  | .more g s2 rest, hc, b, hb, hbl, X, hX => by
    simp only [Comp.canon, Bool.and_eq_true] at hc
    obtain ⟨⟨⟨hg, hs2⟩, hl⟩, hr⟩ := hc
    obtain ⟨W, hW⟩ := comp_text_first rest
    have hgf : GroupFollow g (s2.text ++ (rest.text ++ X)) := by
      rw [hW, List.append_assoc]
      exact follow_of_link g s2 rest.first hl hs2 (comp_first_canon rest hr) (W ++ X)
    obtain ⟨N1, hN1⟩ := group_parse T g hg b hb (by simpa [Comp.first] using hbl) _ hgf
    obtain ⟨N2, hN2⟩ := more_parse T rest hr s2 hs2 X ⟨hX.after, hX.stop, fun h => hX.bare (by simpa [Comp.lastBare] using h)⟩
    refine ⟨N1 + N2 + 1, fun n hn => ?_⟩
    obtain ⟨n', rfl⟩ : ∃ n', n = n' + 1 := ⟨n - 1, by omega⟩
    have hG := hN1 n' (by omega)
    have hM := hN2 n' (by omega)
    rw [pComposite]
    simp only [Comp.text, List.append_assoc]
    rw [hG]
    simp only [Comp.items]
    cases hi : g.items T with
    | none => simp [expect]
    | some fs =>
      simp only [expect]
      rw [hM]
      cases hj : rest.items T with
      | none => simp [expect]
      | some gs => simp [expect]
end

/-! ## the density tag and the whole string -/

theorem pNumber_tok (t : CntTok) (h : t.ok = true) (hn : t.isNone = false) (rest : List Char)
    (hr : NoNumHead rest) : pNumber (t.text ++ rest) = some (.ok (t.val, rest)) := by
  rcases cntTok_ok_cases h with rfl | ⟨ds, rfl, hd⟩ | ⟨i, f, rfl, hi, hf, hne⟩
  · simp [CntTok.isNone] at hn
  · exact pNumber_wholeTok ds hd rest hr
  · have := pNumber_fractTok i f hi hf hne rest hr.noDig
    simpa [CntTok.text, CntTok.val, List.append_assoc] using this

theorem allWs_skipWs_nil (b : List Char) (hb : AllWs b) : skipWs b = [] := by
  have := skipWs_append_allWs b [] hb
  simpa [skipWs] using this

theorem pDensity_none (trail : List Char) (ht : AllWs trail) : pDensity trail = .ok (none, trail) := by
  unfold pDensity
  rw [allWs_skipWs_nil trail ht]

theorem pDensity_tok (d : DensTok) (hd : d.ok = true) (trail : List Char) (ht : AllWs trail) :
    pDensity (d.text ++ trail) = .ok (some d.val, trail) := by
  simp only [DensTok.ok, Bool.and_eq_true, Bool.not_eq_true'] at hd
  obtain ⟨⟨⟨hb0, hb1⟩, hc⟩, hn⟩ := hd
  have hb0' := allWs_iff.1 hb0
  have hb1' := allWs_iff.1 hb1
  obtain ⟨c, cs, hct, hcd⟩ := cntTok_head hc hn
  have hcw : isWs c = false := by
    rcases hcd with h | h
    · exact isWs_false_of_isDig h
    · rw [isWs_false_iff]; omega
  -- the text after the count
  let R := d.tagText ++ trail
  have hRnum : NoNumHead R := by
    intro ch hch
    simp only [R, DensTok.tagText] at hch
    cases htag : d.tag with
    | none =>
      rw [htag] at hch
      cases trail with
      | nil => simp at hch
      | cons w ws =>
        simp at hch; subst hch
        have := ht w (by simp)
        rw [isWs_iff] at this; rw [isDig_false_iff]; omega
    | some tg =>
      rw [htag] at hch
      cases h1 : d.b1 with
      | cons w ws =>
        cases tg <;> (simp [h1] at hch; subst hch
                      have := hb1' w (by rw [h1]; simp)
                      rw [isWs_iff] at this; rw [isDig_false_iff]; omega)
      | nil =>
        cases tg <;> (simp [h1] at hch; subst hch; decide)
  have htext : d.text ++ trail = d.b0 ++ ('@' :: (d.cnt.text ++ R)) := by
    simp only [DensTok.text, R, List.append_assoc, List.cons_append]
  have hnum := pNumber_tok d.cnt hc hn R hRnum
  rw [htext]
  unfold pDensity
  rw [skipWs_allWs_noWs _ _ hb0' (noWsHead_cons _ (by decide))]
  simp only
  rw [hct] at hnum ⊢
  simp only [List.cons_append] at hnum ⊢
  simp only [hcw, Bool.false_eq_true, if_false, hnum]
  simp only [R, DensTok.val, DensTok.tagText]
  cases htag : d.tag with
  | none =>
    simp only [List.nil_append]
    rw [allWs_skipWs_nil trail ht]
  | some tg =>
    cases tg with
    | true =>
      simp only [List.append_assoc, List.singleton_append]
      rw [skipWs_allWs_noWs _ _ hb1' (noWsHead_cons _ (by decide))]
      simp
    | false =>
      simp only [List.append_assoc, List.singleton_append]
      rw [skipWs_allWs_noWs _ _ hb1' (noWsHead_cons _ (by decide))]
      simp

theorem parse_blank (T : Table) (b : List Char) (hb : AllWs b) : parse T b = .ok (.nil, none) := by
  have hs := allWs_skipWs_nil b hb
  have hnn : NoNumHead b := by simpa using noNumHead_of_ws_or b [] hb (by intro c h; simp at h)
  have hstop : ElemStop b := by intro c hc; rw [hs] at hc; simp at hc
  have hf : pComposite T (fuelFor b) b = .error .fail := by
    unfold fuelFor
    rw [show 2 * b.length + 4 = (2 * b.length + 2) + 1 + 1 by omega, pComposite, pGroup, pImplicit,
      pCount_default b hnn]
    simp only
    rw [pElements_nil_stop T _ b hstop]
    simp [isNil, pLit, hs]
  unfold parse
  rw [hf]
  simp [hs]

/-- **every canonical derivation parses to what it denotes** – the structure and density tag if
    the table defines every element, the exception of the parse action (never a formula) if not -/
theorem parse_yield (T : Table) (D : Compound) (hc : D.canon = true) :
    parse T D.text = match D.result T with
      | some r => .ok r
      | none => .error .abort := by
  cases D with
  | empty b =>
    simp only [Compound.canon] at hc
    simpa [Compound.text, Compound.result] using parse_blank T b (allWs_iff.1 hc)
  | full lead comp dens trail =>
    simp only [Compound.canon, Bool.and_eq_true, Bool.or_eq_true, List.isEmpty_iff] at hc
    obtain ⟨⟨⟨⟨hlead, htrail⟩, hcomp⟩, hfirst⟩, hdens⟩ := hc
    have hlead' := allWs_iff.1 hlead
    have htrail' := allWs_iff.1 htrail
    let X := optText DensTok.text dens ++ trail
    have hX : CompFollow comp X := by
      cases hd : dens with
      | none =>
        rw [hd] at hdens
        simp only [Bool.or_eq_true, Bool.not_eq_true', List.isEmpty_iff] at hdens
        refine ⟨?_, ?_, ?_⟩
        · cases trail with
          | nil => simpa [X, hd, optText] using AfterTok.nil
          | cons w ws => simpa [X, hd, optText] using afterTok_ws _ (htrail' w (by simp))
        · intro c hc
          simp only [X, hd, optText, List.nil_append] at hc
          rw [allWs_skipWs_nil trail htrail'] at hc; simp at hc
        · intro hb
          have : trail = [] := by
            rcases hdens with h | h
            · rw [hb] at h; simp at h
            · exact h
          simp only [X, hd, optText, this, List.nil_append]
          intro c hc; simp at hc
      | some d =>
        rw [hd] at hdens
        simp only [Bool.and_eq_true, Bool.or_eq_true, Bool.not_eq_true', List.isEmpty_iff, DensTok.ok] at hdens
        have hb0' := allWs_iff.1 hdens.1.1.1.1
        have htext : X = d.b0 ++ ('@' :: (d.cnt.text ++ (d.tagText ++ trail))) := by
          simp only [X, hd, optText, DensTok.text, List.append_assoc, List.cons_append]
        rw [htext]
        refine ⟨?_, ?_, ?_⟩
        · cases h0 : d.b0 with
          | nil => simpa using afterTok_of_code _ (Or.inr (Or.inr (Or.inl (by decide))))
          | cons w ws => simpa using afterTok_ws _ (hb0' w (by rw [h0]; simp))
        · intro c hc
          rw [skipWs_allWs_noWs _ _ hb0' (noWsHead_cons _ (by decide))] at hc
          simp at hc; subst hc; right; rfl
        · intro hb
          have : d.b0 = [] := by
            rcases hdens.2 with h | h
            · rw [hb] at h; simp at h
            · exact h
          rw [this]; exact noWsHead_cons _ (by decide)
    obtain ⟨N, hN⟩ := comp_parse T comp hcomp lead hlead' (by
      intro hne
      rcases hfirst with h | h
      · exact absurd h hne
      · exact h) X hX
    have htext : (Compound.full lead comp dens trail).text = lead ++ (comp.text ++ X) := by
      simp [Compound.text, X]
    rw [htext]
    have hC := hN (max N (fuelFor (lead ++ (comp.text ++ X)))) (by omega)
    rw [pComposite_fuel T _ _ (by omega)] at hC
    unfold parse
    rw [hC]
    simp only [Compound.result]
    cases hi : comp.items T with
    | none => simp [expect]
    | some fs =>
      simp only [expect]
      cases hd : dens with
      | none =>
        simp only [X, hd, optText, List.nil_append, Option.map_none]
        rw [pDensity_none trail htrail']
        simp [allWs_skipWs_nil trail htrail']
      | some d =>
        rw [hd] at hdens
        simp only [Bool.and_eq_true] at hdens
        simp only [X, hd, optText, Option.map_some]
        rw [pDensity_tok d hdens.1 trail htrail']
        simp [allWs_skipWs_nil trail htrail']

end PtModel.Grammar
