import PtVerif.Proofs.GrammarSound
/-!
# A string with unbalanced brackets is never accepted (C01, corollary of `parse_sound`)

In the yield of every derivation each kind of bracket – `( )`, `[ ]`, `{ }` – occurs as often
opening as closing; every accepted string is such a yield.
-/
namespace PtModel.Grammar
open PtModel

/-- one of the six bracket characters -/
def isBr (x : Char) : Bool :=
  x.toNat = 40 || x.toNat = 41 || x.toNat = 91 || x.toNat = 93 || x.toNat = 123 || x.toNat = 125

def NoBr (a : List Char) : Prop := ∀ x ∈ a, isBr x = false

/-- opening minus closing occurrences -/
def diff (o c : Char) (s : List Char) : Int := (s.count o : Int) - (s.count c : Int)

theorem diff_nil (o c : Char) : diff o c [] = 0 := by simp [diff]

theorem diff_append (o c : Char) (a b : List Char) : diff o c (a ++ b) = diff o c a + diff o c b := by
  simp only [diff, List.count_append, Int.natCast_add]; omega

theorem diff_cons (o c x : Char) (a : List Char) :
    diff o c (x :: a) = (if x = o then 1 else 0) - (if x = c then 1 else 0) + diff o c a := by
  simp only [diff, List.count_cons, beq_iff_eq, Int.natCast_add]
  split <;> split <;> simp <;> omega

theorem count_noBr (ch : Char) (h : isBr ch = true) (a : List Char) (ha : NoBr a) : a.count ch = 0 := by
  rw [List.count_eq_zero]
  intro hm
  have := ha ch hm
  rw [h] at this; simp at this

theorem diff_noBr (o c : Char) (ho : isBr o = true) (hc : isBr c = true) (a : List Char) (ha : NoBr a) :
    diff o c a = 0 := by
  simp [diff, count_noBr o ho a ha, count_noBr c hc a ha]

/-- the three kinds of bracket -/
def Pair (o c : Char) : Prop := (o = '(' ∧ c = ')') ∨ (o = '[' ∧ c = ']') ∨ (o = '{' ∧ c = '}')

theorem Pair.br {o c : Char} (h : Pair o c) : isBr o = true ∧ isBr c = true := by
  rcases h with ⟨rfl, rfl⟩ | ⟨rfl, rfl⟩ | ⟨rfl, rfl⟩ <;> exact ⟨by decide, by decide⟩

theorem isBr_false_of_code {x : Char}
    (h : x.toNat ≠ 40 ∧ x.toNat ≠ 41 ∧ x.toNat ≠ 91 ∧ x.toNat ≠ 93 ∧ x.toNat ≠ 123 ∧ x.toNat ≠ 125) :
    isBr x = false := by
  simp [isBr, h.1, h.2.1, h.2.2.1, h.2.2.2.1, h.2.2.2.2.1, h.2.2.2.2.2]

theorem NoBr.nil : NoBr [] := by intro x h; simp at h
theorem NoBr.append {a b : List Char} (ha : NoBr a) (hb : NoBr b) : NoBr (a ++ b) := by
  intro x hx; simp at hx; rcases hx with h | h
  · exact ha x h
  · exact hb x h
theorem NoBr.cons {x : Char} {a : List Char} (hx : isBr x = false) (ha : NoBr a) : NoBr (x :: a) := by
  intro y hy; simp at hy; rcases hy with rfl | h
  · exact hx
  · exact ha y h

theorem noBr_of_allWs {b : List Char} (h : AllWs b) : NoBr b := by
  intro x hx
  have := h x hx
  rw [isWs_iff] at this
  exact isBr_false_of_code (by omega)

theorem noBr_of_allDig {b : List Char} (h : AllDig b) : NoBr b := by
  intro x hx
  have := h x hx
  rw [isDig_iff] at this
  exact isBr_false_of_code (by omega)

theorem noBr_of_okWhole {b : List Char} (h : okWhole b = true) : NoBr b := by
  obtain ⟨d, r, rfl, h1, _, h3⟩ := okWhole_cons h
  exact noBr_of_allDig (AllDig.cons h1 h3)

theorem noBr_of_symOK {b : List Char} (h : symOK b = true) : NoBr b := by
  match b, h with
  | [u], h =>
    simp only [symOK] at h
    rw [isUp_iff] at h
    exact NoBr.cons (isBr_false_of_code (by omega)) NoBr.nil
  | [u, l], h =>
    simp only [symOK, Bool.and_eq_true] at h
    have h1 := (isUp_iff u).1 h.1
    have h2 := (isLo_iff l).1 h.2
    exact NoBr.cons (isBr_false_of_code (by omega)) (NoBr.cons (isBr_false_of_code (by omega)) NoBr.nil)

theorem noBr_cntTok {t : CntTok} (h : t.ok = true) : NoBr t.text := by
  rcases cntTok_ok_cases h with rfl | ⟨ds, rfl, hd⟩ | ⟨i, f, rfl, hi, hf, _⟩
  · exact NoBr.nil
  · exact noBr_of_okWhole hd
  · simp only [CntTok.text]
    apply NoBr.append
    · rcases hi with rfl | rfl | hi
      · exact NoBr.nil
      · exact NoBr.cons (by decide) NoBr.nil
      · exact noBr_of_okWhole hi
    · exact NoBr.cons (by decide) (noBr_of_allDig hf)

/-! ## tokens with brackets -/

theorem diff_iso (o c : Char) (hp : Pair o c) (t : IsoTok) (h : t.ok = true) : diff o c t.text = 0 := by
  simp only [IsoTok.ok, Bool.and_eq_true] at h
  have hmid : NoBr (t.b1 ++ (t.ds ++ t.b2)) :=
    (noBr_of_allWs (allWs_iff.1 h.1.1)).append ((noBr_of_okWhole h.1.2).append (noBr_of_allWs (allWs_iff.1 h.2)))
  have e : t.text = '[' :: ((t.b1 ++ (t.ds ++ t.b2)) ++ [']']) := by simp [IsoTok.text]
  rw [e, diff_cons, diff_append, diff_noBr o c hp.br.1 hp.br.2 _ hmid, diff_cons, diff_nil]
  rcases hp with ⟨rfl, rfl⟩ | ⟨rfl, rfl⟩ | ⟨rfl, rfl⟩ <;> decide

theorem diff_ion (o c : Char) (hp : Pair o c) (t : IonTok) (h : t.ok = true) : diff o c t.text = 0 := by
  simp only [IonTok.ok, Bool.and_eq_true, Bool.or_eq_true, List.isEmpty_iff] at h
  have hmag : NoBr t.mag := by
    rcases h.1.2 with h' | h'
    · rw [h']; exact NoBr.nil
    · exact noBr_of_okWhole h'
  have hsg : isBr (if t.neg then '-' else '+') = false := by cases t.neg <;> decide
  have hmid : NoBr (t.b1 ++ (t.mag ++ ((if t.neg then '-' else '+') :: t.b2))) :=
    (noBr_of_allWs (allWs_iff.1 h.1.1)).append (hmag.append (NoBr.cons hsg (noBr_of_allWs (allWs_iff.1 h.2))))
  have e : t.text = '{' :: ((t.b1 ++ (t.mag ++ ((if t.neg then '-' else '+') :: t.b2))) ++ ['}']) := by
    simp [IonTok.text]
  rw [e, diff_cons, diff_append, diff_noBr o c hp.br.1 hp.br.2 _ hmid, diff_cons, diff_nil]
  rcases hp with ⟨rfl, rfl⟩ | ⟨rfl, rfl⟩ | ⟨rfl, rfl⟩ <;> decide

theorem diff_elem (o c : Char) (hp : Pair o c) (e : Elem) (h : e.ok = true) : diff o c e.text = 0 := by
  simp only [Elem.ok, Bool.and_eq_true] at h
  obtain ⟨⟨⟨⟨hpre, hsym⟩, hiso⟩, hion⟩, hcnt⟩ := h
  have h1 := diff_noBr o c hp.br.1 hp.br.2 _ (noBr_of_allWs (allWs_iff.1 hpre))
  have h2 := diff_noBr o c hp.br.1 hp.br.2 _ (noBr_of_symOK hsym)
  have h5 := diff_noBr o c hp.br.1 hp.br.2 _ (noBr_cntTok hcnt)
  have h3 : diff o c (optText IsoTok.text e.iso) = 0 := by
    cases hi : e.iso with
    | none => simp [optText, diff_nil]
    | some t => rw [hi] at hiso; simpa [optText] using diff_iso o c hp t hiso
  have h4 : diff o c (optText IonTok.text e.ion) = 0 := by
    cases hi : e.ion with
    | none => simp [optText, diff_nil]
    | some t => rw [hi] at hion; simpa [optText] using diff_ion o c hp t hion
  simp only [Elem.text, diff_append, h1, h2, h3, h4, h5]
  rfl

theorem diff_elems (o c : Char) (hp : Pair o c) : ∀ (els : List Elem), elemsOk els = true →
    diff o c (elemsText els) = 0
  | [], _ => diff_nil o c
  | e :: r, h => by
    simp only [elemsOk, Bool.and_eq_true] at h
    simp only [elemsText, diff_append, diff_elem o c hp e h.1, diff_elems o c hp r h.2]
    rfl

mutual
theorem diff_group (o c : Char) (hp : Pair o c) : (g : Group) → g.wf = true → diff o c g.text = 0
  | .implicit lead els, h => by
    simp only [Group.wf, Bool.and_eq_true] at h
    simp only [Group.text, diff_append, diff_noBr o c hp.br.1 hp.br.2 _ (noBr_cntTok h.1.1),
      diff_elems o c hp els h.1.2]
    rfl
  | .explicit b0 b1 inner b2 b3 cnt, h => by
    simp only [Group.wf, Bool.and_eq_true] at h
    obtain ⟨⟨⟨⟨⟨h0, h1⟩, h2⟩, h3⟩, hcnt⟩, hin⟩ := h
    have d0 := diff_noBr o c hp.br.1 hp.br.2 _ (noBr_of_allWs (allWs_iff.1 h0))
    have d1 := diff_noBr o c hp.br.1 hp.br.2 _ (noBr_of_allWs (allWs_iff.1 h1))
    have d2 := diff_noBr o c hp.br.1 hp.br.2 _ (noBr_of_allWs (allWs_iff.1 h2))
    have d3 := diff_noBr o c hp.br.1 hp.br.2 _ (noBr_of_allWs (allWs_iff.1 h3))
    have d4 := diff_noBr o c hp.br.1 hp.br.2 _ (noBr_cntTok hcnt)
    have di := diff_comp o c hp inner hin
    simp only [Group.text, diff_append, diff_cons, d0, d1, d2, d3, d4, di]
    rcases hp with ⟨rfl, rfl⟩ | ⟨rfl, rfl⟩ | ⟨rfl, rfl⟩ <;> decide
theorem diff_comp (o c : Char) (hp : Pair o c) : (d : Comp) → d.wf = true → diff o c d.text = 0
  | .one g, h => by
    simp only [Comp.wf] at h
    simpa [Comp.text] using diff_group o c hp g h
  | .more g sep rest, h => by
    simp only [Comp.wf, Bool.and_eq_true] at h
    obtain ⟨⟨⟨hg, hb1⟩, hb2⟩, hr⟩ := h
    have d1 := diff_noBr o c hp.br.1 hp.br.2 _ (noBr_of_allWs (allWs_iff.1 hb1))
    have d2 := diff_noBr o c hp.br.1 hp.br.2 _ (noBr_of_allWs (allWs_iff.1 hb2))
    have hsep : diff o c sep.text = 0 := by
      unfold Sep.text
      split
      · rw [diff_append, diff_cons, d1, d2]
        rcases hp with ⟨rfl, rfl⟩ | ⟨rfl, rfl⟩ | ⟨rfl, rfl⟩ <;> decide
      · rw [diff_append, d1, d2]; rfl
    simp only [Comp.text, diff_append, diff_group o c hp g hg, hsep, diff_comp o c hp rest hr]
    rfl
end

theorem diff_dens (o c : Char) (hp : Pair o c) (d : DensTok) (h : d.ok = true) : diff o c d.text = 0 := by
  simp only [DensTok.ok, Bool.and_eq_true] at h
  obtain ⟨⟨⟨h0, h1⟩, hc⟩, _⟩ := h
  have d0 := diff_noBr o c hp.br.1 hp.br.2 _ (noBr_of_allWs (allWs_iff.1 h0))
  have d1 := diff_noBr o c hp.br.1 hp.br.2 _ (noBr_of_allWs (allWs_iff.1 h1))
  have dc := diff_noBr o c hp.br.1 hp.br.2 _ (noBr_cntTok hc)
  have dt : diff o c d.tagText = 0 := by
    unfold DensTok.tagText
    split
    · rw [diff_append, d1, diff_cons, diff_nil]
      rcases hp with ⟨rfl, rfl⟩ | ⟨rfl, rfl⟩ | ⟨rfl, rfl⟩ <;> decide
    · rw [diff_append, d1, diff_cons, diff_nil]
      rcases hp with ⟨rfl, rfl⟩ | ⟨rfl, rfl⟩ | ⟨rfl, rfl⟩ <;> decide
    · exact diff_nil o c
  simp only [DensTok.text, diff_append, diff_cons, d0, dc, dt]
  rcases hp with ⟨rfl, rfl⟩ | ⟨rfl, rfl⟩ | ⟨rfl, rfl⟩ <;> decide

theorem diff_compound (o c : Char) (hp : Pair o c) (D : Compound) (h : D.wf = true) : diff o c D.text = 0 := by
  cases D with
  | empty b =>
    simp only [Compound.wf] at h
    exact diff_noBr o c hp.br.1 hp.br.2 _ (noBr_of_allWs (allWs_iff.1 h))
  | full lead comp dens trail =>
    simp only [Compound.wf, Bool.and_eq_true, List.isEmpty_iff] at h
    obtain ⟨⟨⟨hl, ht⟩, hc⟩, hd⟩ := h
    subst hl
    have dt := diff_noBr o c hp.br.1 hp.br.2 _ (noBr_of_allWs (allWs_iff.1 ht))
    have dd : diff o c (optText DensTok.text dens) = 0 := by
      cases hdn : dens with
      | none => simp [optText, diff_nil]
      | some d => rw [hdn] at hd; simpa [optText] using diff_dens o c hp d hd
    simp only [Compound.text, diff_append, diff_comp o c hp comp hc, dd, dt, diff_nil]
    rfl

/-- **a string in which a kind of bracket does not open as often as it closes is rejected** -/
theorem accepted_balanced (T : Table) (s : List Char) (fs : Items Cnt) (d : Option Dens)
    (h : parse T s = .ok (fs, d)) (o c : Char) (hp : Pair o c) : s.count o = s.count c := by
  obtain ⟨D, hw, ht, _⟩ := parse_sound T s fs d h
  have := diff_compound o c hp D hw
  rw [ht] at this
  unfold diff at this
  omega

end PtModel.Grammar
