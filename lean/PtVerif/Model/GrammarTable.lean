import PtVerif.Model.Grammar
import PtVerif.Generated.ElementBase
import PtVerif.Generated.IsotopeList
/-!
# The symbol table the grammar sees (`PeriodicTable.__init__`, `mass.init`)

`table.symbol(s)` is `getattr(table, s)` restricted to elements and isotopes:
`PeriodicTable.__init__` does `setattr(self, symbol, element)` for every row of `element_base`
and then `self.D = self.H.add_isotope(2)`, `self.T = self.H.add_isotope(3)`; `mass.init` adds the
isotopes of the `isotope_mass` table (and the neutron's isotope 1).
-/
namespace PtModel.Grammar

/-- the one- or two-letter symbol with code `256·c₁ + c₂` -/
def symChars (code : Nat) : List Char :=
  if code % 256 = 0 then [Char.ofNat (code / 256)] else [Char.ofNat (code / 256), Char.ofNat (code % 256)]

/-- isotopes `mass.init` adds to element `z` -/
def isosOf (iso : List (Nat × Nat × List Nat)) (z : Nat) : List Nat :=
  match iso.find? (fun r => r.1 = z) with
  | some r => r.2.2
  | none => []

/-- `PeriodicTable(...)` followed by `mass.init(table)` -/
def mkTable (eb : List (Nat × String × String × Nat × List Int)) (iso : List (Nat × Nat × List Nat)) : Table :=
  let hIsos := [2, 3] ++ isosOf iso 1
  let hIons := match eb.find? (fun r => r.1 = 1) with
    | some r => r.2.2.2.2
    | none => []
  eb.map (fun r =>
    { sym := symChars r.2.2.2.1, z := r.1, alias := 0,
      isos := if r.1 = 1 then hIsos else if r.1 = 0 then isosOf iso 0 ++ [1] else isosOf iso r.1,
      ions := r.2.2.2.2 })
  ++ [{ sym := ['D'], z := 1, alias := 2, isos := hIsos, ions := hIons },
      { sym := ['T'], z := 1, alias := 3, isos := hIsos, ions := hIons }]

/-- the public table as the translator reads it from core.py and mass.py -/
def genTable : Table := mkTable PtGen.elementBase PtGen.isotopeList

end PtModel.Grammar
