import PtVerif.Model.Loaders
/-!
# Ancillary table loaders (C20)

`covalent_radius.init` (Cordero rows, skipped `-` rows), `crystal_structure.init` (list index =
Z), `xsf.init_spectral_lines`, `magnetic_ff.init` (CFML Fortran text: continuation lines,
`state[1].isdigit()` symbol/charge split, carry-over `jn`), `cromermann._update_cmformulas`
(DABAX file: `#S` / `#L` state machine, column order a1..a5 c b1..b5), the symbol resolution of
`fxrayatstol`, and the form-factor formulas `formfactor_0/n`, Cromer-Mann `atstol`.

Each loader is text → rows (`parse…`) then rows → association list (a fold consing one binding per
row, latest first); `none` = the real code raises.
-/
namespace PtLoad

/-! ## covalent_radius.init (covalent_radius.py 68-96) -/

/-- a Cordero line: an alternate spin state (`-`, skipped) or `Z sym r [dr n]` -/
inductive CovRow where
  | skip
  | row (z : Nat) (r dr : Dec)
deriving Repr, DecidableEq, Inhabited

def parseCovLine (line : Str) : Option CovRow :=
  let fields := words line
  let fields := if fields.length = 3 then fields ++ [['0'], ['0']] else fields
  match fields with
  | f0 :: _ :: f2 :: f3 :: _ =>
    if f0 = ['-'] then some .skip
    else match pyNat f0, pyFloat f2, pyFloat f3 with
      | some z, some r, some dr => some (.row z r dr)
      | _, _, _ => none
  | f0 :: _ => if f0 = ['-'] then some .skip else none     -- fields[2]: IndexError
  | [] => none                                              -- fields[0]: IndexError

section cov
variable {α : Type} [Mul α] [Div α] [NatCast α] [IntCast α]

/-- `(covalent_radius, covalent_radius_uncertainty)` per Z; `dr` is in units of 0.01 Å -/
def covStep (l : List (Nat × (α × Option α))) : CovRow → List (Nat × (α × Option α))
  | .skip => l
  | .row z r dr => (z, ((r.toNum : α), some (dr.toNum * (Dec.mk 1 2).toNum))) :: l

/-- the neutron gets 0.20 (no uncertainty) before the table is read -/
def Cov.loadRows (rows : List CovRow) : List (Nat × (α × Option α)) :=
  rows.foldl covStep [(0, ((Dec.mk 20 2).toNum, none))]
end cov

def Cov.rowsOk (symOf : Nat → Option Nat) (rows : List CovRow) : Bool :=
  (symOf 0).isSome && rows.all fun r => match r with
    | .skip => true
    | .row z _ _ => (symOf z).isSome

/-! ## crystal_structure.init (crystal_structure.py 150-158): list index = Z -/

/-- `{'symmetry': name, key: number, …}` -/
structure Crystal where
  symmetry : String
  params : List (String × Dec)
deriving Repr, DecidableEq, Inhabited

/-- `for Z, struct in enumerate(crystal_structures): table[Z].crystal_structure = struct` -/
def Crystal.loadGo : Nat → List (Option Crystal) → List (Nat × Option Crystal) → List (Nat × Option Crystal)
  | _, [], acc => acc
  | i, s :: rest, acc => Crystal.loadGo (i + 1) rest ((i, s) :: acc)

def Crystal.load (l : List (Option Crystal)) : List (Nat × Option Crystal) := Crystal.loadGo 0 l []

def Crystal.ok (symOf : Nat → Option Nat) (l : List (Option Crystal)) : Bool :=
  (List.range l.length).all fun z => (symOf z).isSome

/-! ## xsf.init_spectral_lines (xsf.py 618-629) -/

structure LineRow where
  sym : Nat
  kAlpha : Dec
  kBeta1 : Dec
deriving Repr, DecidableEq, Inhabited

def parseLineRow (line : Str) : Option LineRow :=
  match words line with
  | [el, ka, kb] =>
    match pyFloat ka, pyFloat kb with
    | some ka, some kb => some ⟨symCode el, ka, kb⟩
    | _, _ => none
  | _ => none

/-- `(K_alpha, K_beta1)` per Z -/
def Lines.loadRows (zOf : Nat → Option Nat) (rows : List LineRow) : List (Nat × (Dec × Dec)) :=
  rows.foldl (fun l r => match zOf r.sym with
    | some z => (z, (r.kAlpha, r.kBeta1)) :: l
    | none => l) []

def Lines.rowsOk (zOf : Nat → Option Nat) (rows : List LineRow) : Bool :=
  rows.all fun r => (zOf r.sym).isSome

/-! ## magnetic_ff.init (magnetic_ff.py 101-159) -/

/-- which attribute of the `MagneticFormFactor` a line sets -/
inductive Jn where
  | j0 | J | j2 | j4 | j6
deriving Repr, DecidableEq, Inhabited

/-- a data line of CFML_DATA as the loader reads it -/
structure MagRow where
  jn : Jn
  sym : Nat          -- `symCode` of the capitalised symbol
  charge : Nat
  values : List Dec
deriving Repr, DecidableEq, Inhabited

/-- `CFML_DATA.replace('&\n', '')` -/
def dropContinuation : Str → Str
  | '&' :: '\n' :: r => dropContinuation r
  | c :: r => c :: dropContinuation r
  | [] => []

def startsWith (p s : Str) : Bool := p.isPrefixOf s

def upper (c : Char) : Char := if 'a' ≤ c ∧ c ≤ 'z' then Char.ofNat (c.toNat - 32) else c
def lower (c : Char) : Char := if 'A' ≤ c ∧ c ≤ 'Z' then Char.ofNat (c.toNat + 32) else c
/-- `s.capitalize()` (ASCII) -/
def capitalize : Str → Str
  | [] => []
  | c :: r => upper c :: r.map lower

/-- the argument text of `Magnetic_Form_Type("<state>", ( v1, v2, … ) )` after `/` was removed:
    the quoted state and the numbers.  (The real code `eval`s this text; the model accepts the
    one shape the table uses and fails on anything else.) -/
def parseMagArgs (b : Str) : Option (Str × List Dec) :=
  let b := strip b
  let name := "Magnetic_Form_Type".toList
  if !startsWith name b then none else
  match strip (b.drop name.length) with
  | '(' :: r =>
    match strip r with
    | '"' :: r =>
      let st := r.takeWhile (· ≠ '"')
      match strip ((r.dropWhile (· ≠ '"')).drop 1) with
      | ',' :: r =>
        match strip r with
        | '(' :: r =>
          let inner := r.takeWhile (· ≠ ')')
          match strip ((r.dropWhile (· ≠ ')')).drop 1) with
          | [')'] => (mapM? pyFloat (splitOn ',' inner)).map fun vs => (st, vs)
          | _ => none
        | _ => none
      | _ => none
    | _ => none
  | _ => none

/-- `<EL><ION>` → symbol and charge (magnetic_ff.py 145-150) -/
def splitState (state : Str) : Option (Str × Nat) :=
  match state with
  | c0 :: c1 :: rest =>
    if isDigit c1 then some ([c0], c1.toNat - 48)
    else match rest with
      | c2 :: _ => if isDigit c2 then some (capitalize [c0, c1], c2.toNat - 48) else none
      | [] => none
  | _ => none

/-- one stripped line containing `=`; `prev` is the `jn` left over from the previous data line
    (the Python variable keeps its value when no branch assigns it) -/
def parseMagLine (prev : Option Jn) (line : Str) : Option MagRow :=
  match splitOn '=' line with
  | [a, b] =>
    match parseMagArgs (b.filter (· ≠ '/')) with
    | none => none
    | some (state, values) =>
      let sel : Option (Jn × Str) :=
        if startsWith "Magnetic_Form".toList a then
          match state with
          | c :: rest => some (if c = 'M' then .j0 else .J, rest)
          | [] => none
        else if startsWith "Magnetic_j2".toList a then some (.j2, state)
        else if startsWith "Magnetic_j4".toList a then some (.j4, state)
        else if startsWith "Magnetic_j6".toList a then some (.j6, state)
        else prev.map fun j => (j, state)
      match sel with
      | none => none
      | some (jn, state) =>
        match splitState state with
        | some (sym, q) => some ⟨jn, symCode sym, q, values⟩
        | none => none
  | _ => none

def parseMagGo (prev : Option Jn) : List Str → Option (List MagRow)
  | [] => some []
  | l :: ls =>
    let l := strip l
    if !l.contains '=' then parseMagGo prev ls
    else match parseMagLine prev l with
      | none => none
      | some r => (parseMagGo (some r.jn) ls).map (r :: ·)

def parseMag (text : Str) : Option (List MagRow) := parseMagGo none (lines (dropContinuation text))

/-- the coefficient tuples of one `MagneticFormFactor` -/
structure MagRec where
  j0 : Option (List Dec) := none
  J : Option (List Dec) := none
  j2 : Option (List Dec) := none
  j4 : Option (List Dec) := none
  j6 : Option (List Dec) := none
deriving Repr, DecidableEq, Inhabited

def MagRec.set (r : MagRec) : Jn → List Dec → MagRec
  | .j0, v => { r with j0 := some v }
  | .J, v => { r with J := some v }
  | .j2, v => { r with j2 := some v }
  | .j4, v => { r with j4 := some v }
  | .j6, v => { r with j6 := some v }

def MagRec.get (r : MagRec) : Jn → Option (List Dec)
  | .j0 => r.j0 | .J => r.J | .j2 => r.j2 | .j4 => r.j4 | .j6 => r.j6

/-- `el.magnetic_ff[charge]` per (Z, charge), latest version first -/
def Mag.loadRows (zOf : Nat → Option Nat) (rows : List MagRow) : List ((Nat × Nat) × MagRec) :=
  rows.foldl (fun l r => match zOf r.sym with
    | some z => ((z, r.charge), ((aget (z, r.charge) l).getD {}).set r.jn r.values) :: l
    | none => l) []

def Mag.rowsOk (zOf : Nat → Option Nat) (rows : List MagRow) : Bool :=
  rows.all fun r => (zOf r.sym).isSome

/-! ## cromermann._update_cmformulas (cromermann.py 176-203) -/

/-- `#S n symbol` … `#L …` followed by the 11 numbers `a1 a2 a3 a4 a5 c b1 b2 b3 b4 b5` -/
structure CMEntry where
  symbol : String
  a : List Dec
  c : Dec
  b : List Dec
deriving Repr, DecidableEq, Inhabited

/-- the line state machine; `smbl : Option (Option Str)` is the Python variable: unbound,
    `None`, or a symbol -/
def parseCMGo (smbl : Option (Option Str)) : List Str → Option (List CMEntry)
  | [] => some []
  | l :: ls =>
    match words l with
    | [] => none                                        -- w[0]: IndexError
    | w0 :: w =>
      if w0 = "#S".toList then
        match w with
        | _ :: s :: _ => parseCMGo (some (some s)) ls
        | _ => none
      else if w0 = "#L".toList then
        match smbl, ls with
        | some (some s), l1 :: ls' =>
          let w1 := words l1
          if w1.length ≠ 11 then none else
          match mapM? pyFloat w1 with
          | some v => (parseCMGo (some none) ls').map
              (⟨String.ofList s, v.take 5, (v.drop 5).headD default, v.drop 6⟩ :: ·)
          | none => none
        | _, _ => none
      else parseCMGo smbl ls

/-- lines of a text file as iterating the file object gives them -/
def fileLines (s : Str) : List Str :=
  match lines s with
  | ls => if ls.getLast? = some [] then ls.dropLast else ls

def parseCM (text : Str) : Option (List CMEntry) := parseCMGo none (fileLines text)

/-- `_cmformulas[symbol]`: latest entry of a symbol first -/
def CM.load (es : List CMEntry) : List (String × CMEntry) :=
  es.foldl (fun l e => (e.symbol, e) :: l) []

/-- the lookup symbol `fxrayatstol(symbol, stol, charge)` resolves to (cromermann.py 96-110) -/
def cmKey (symbol : Str) (charge : Option Int) : Str :=
  match charge with
  | some q =>
    let base := (symbol.reverse.dropWhile fun c => "012345678+-".toList.contains c).reverse
    if q = 0 then base
    else
      -- ("%+i" % charge)[::-1]
      let digits := (toString q.natAbs).toList
      base ++ digits.reverse ++ [if q > 0 then '+' else '-']
  | none =>
    match symbol.reverse with
    | s :: rest =>
      if (s = '+' || s = '-') && !(match rest with | d :: _ => isDigit d | [] => false)
      then rest.reverse ++ ['1', s]
      else symbol
    | [] => symbol

/-! ## form-factor formulas -/

section ff
variable {α : Type} [Add α] [Mul α] [Div α] [Neg α] [NatCast α] [Transc α]

/-- `(q/(4π))²` -/
def sSq (q : α) : α :=
  let s := q / (((4 : Nat) : α) * Transc.pi)
  s * s

/-- `formfactor_0(j0, q)` (magnetic_ff.py 18-25): `A e^{-a s²} + B e^{-b s²} + C e^{-c s²} + D` -/
def formfactor0 (j : List α) (q : α) : Option α :=
  match j with
  | [A, a, B, b, C, c, D] =>
    let s := sSq q
    some (A * Transc.exp (-a * s) + B * Transc.exp (-b * s) + C * Transc.exp (-c * s) + D)
  | _ => none

/-- `formfactor_n(jn, q)` (magnetic_ff.py 27-34): `s² (A e^{-a s²} + … + D)` -/
def formfactorN (j : List α) (q : α) : Option α :=
  match j with
  | [A, a, B, b, C, c, D] =>
    let s := sSq q
    some (s * (A * Transc.exp (-a * s) + B * Transc.exp (-b * s) + C * Transc.exp (-c * s) + D))
  | _ => none

/-- Cromer-Mann `atstol` for `stol ≤ 6`: `Σ aᵢ e^{-bᵢ stol²} + c` -/
def cmAtStol (a b : List α) (c stol : α) : α :=
  (List.zipWith (fun ai bi => ai * Transc.exp (-bi * (stol * stol))) a b).foldr (· + ·) c

end ff

end PtLoad
