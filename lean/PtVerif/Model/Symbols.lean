import PtVerif.Generated.ElementBase
/-! The symbol an atom reports (`atom.symbol`), from the generated `element_base` plus the two
specially named isotopes of `PeriodicTable.__init__` (`D` = H[2], `T` = H[3]). -/
namespace PtModel

def codeD : Nat := 68 * 256
def codeT : Nat := 84 * 256

def symOfTable (tbl : List (Nat × Nat)) (z a : Nat) : Nat :=
  if z = 1 ∧ a = 2 then codeD else if z = 1 ∧ a = 3 then codeT else
  match tbl.find? (·.1 = z) with
  | some e => e.2
  | none => 0

/-- (Z, symbol code) of every element of `element_base` -/
def genSyms : List (Nat × Nat) := PtGen.elementBase.map fun e => (e.1, e.2.2.2.1)

def symOf : Nat → Nat → Nat := symOfTable genSyms

end PtModel
