import PtVerif.Model.Loaders
/-!
# `nsf.init` (nsf.py 517-639): the neutron scattering-length table loader (C07)

Same two layers as the mass loader: text → structured rows (`parseNsfLine`, `parseNsfILine`),
rows → table state (`Nsf.loadRows`).  `Neutron` objects are *shared* between an element and its
first listed isotope when the element has no row of its own, and later passes mutate them in
place, so records live in a small heap (`recs`, id → record; id 0 is the shared `missing`
default) and atoms point to record ids.

Eleven positional columns:
`Z-Sym[-A], abundance|half-life, spin, b_c, b+, b-, E-flag, coherent, incoherent, total, absorption`.
-/
namespace PtLoad

/-! ## rows -/

structure NsfRow where
  z : Nat
  sym : Nat
  a : Nat                 -- 0 for an element row (`Z-Sym`)
  p : Option Unc          -- column 1: `none` = contains a blank ("half-life Y"), else `fix_number`
  spin : String
  b_c : Unc
  bp : Unc
  bm : Unc
  isE : Bool
  coh : Unc
  inc : Unc
  tot : Unc
  abs : Unc
deriving Repr, DecidableEq, Inhabited

/-- `Z-Sym[-A], b_c_i, bp_i, bm_i` -/
structure NsfIRow where
  z : Nat
  a : Nat
  b_c_i : Unc
  bp_i : Unc
  bm_i : Unc
deriving Repr, DecidableEq, Inhabited

/-- one entry of `ENERGY_DEPENDENT_TABLES`: symbol, isotope (0 = `None`), rows `(E/eV, Re a, Im a)` -/
structure EDTable where
  sym : Nat
  a : Nat
  rows : List (Dec × Dec × Dec)
deriving Repr, DecidableEq, Inhabited

structure NsfTables where
  rows : List NsfRow
  irows : List NsfIRow
  ed : List EDTable
deriving Repr

/-! ### text → rows -/

/-- `fix_number` (nsf.py 1680-1687): `parse_uncertainty(s.replace('<','').replace('*',''))` -/
def fixNumber (s : Str) : Option Unc :=
  parseUncertainty (s.filter fun c => !(c = '<' || c = '*'))

/-- `Z-Sym` / `Z-Sym-A`; any other number of parts than three means isotope 0 -/
def parseNsfKey (k : Str) : Option (Nat × Str × Nat) :=
  match splitOn '-' k with
  | [z, sym, a] =>
    match pyNat z, pyNat a with
    | some z, some a => some (z, sym, a)
    | _, _ => none
  | z :: sym :: _ => (pyNat z).map fun z => (z, sym, 0)
  | _ => none

def parseNsfLine (line : Str) : Option NsfRow :=
  match splitOn ',' line with
  | [key, p, spin, b_c, bp, bm, e, coh, inc, tot, ab] =>
    match parseNsfKey key, fixNumber b_c, fixNumber bp, fixNumber bm with
    | some (z, sym, a), some b_c, some bp, some bm =>
      match fixNumber coh, fixNumber inc, fixNumber tot, fixNumber ab with
      | some coh, some inc, some tot, some ab =>
        -- the abundance column is only read for isotope rows
        let pv : Option (Option Unc) :=
          if a = 0 then some (some .missing)
          else if p.contains ' ' then some none
          else (fixNumber p).map some
        match pv with
        | some pv => some ⟨z, symCode sym, a, pv, String.ofList spin, b_c, bp, bm, e = ['E'], coh, inc, tot, ab⟩
        | none => none
      | _, _, _, _ => none
    | _, _, _, _ => none
  | _ => none

def parseNsfILine (line : Str) : Option NsfIRow :=
  match splitOn ',' line with
  | [key, x, y, w] =>
    match parseNsfKey key, fixNumber x, fixNumber y, fixNumber w with
    | some (z, _, a), some x, some y, some w => some ⟨z, a, x, y, w⟩
    | _, _, _, _ => none
  | _ => none

/-! ## the `Neutron` record -/

/-- a complex number as a pair -/
abbrev Cx (α : Type) := α × α

structure NRec (α : Type) where
  b_c : Option α := none
  bp : Option α := none
  bm : Option α := none
  coherent : Option α := none
  incoherent : Option α := none
  total : Option α := none
  absorption : Option α := none
  isE : Bool := false
  /-- class default `0.`; an isotope row stores `fix_number(p)` (possibly `None`) or `0` -/
  abundance : Option α
  /-- `b_c_complex`: `none` = `None` (the default record); the real part is `none` for NaN
      (row without b_c) -/
  bcc : Option (Option α × α) := none
  b_c_i : Option α := none
  bp_i : Option α := none
  bm_i : Option α := none
  /-- `_number_density` -/
  nd : Option α := none
  /-- `nsf_table`: wavelengths (increasing) with the complex scattering length -/
  table : Option (List (α × Cx α)) := none

section nsf
variable {α : Type} [Add α] [Sub α] [Mul α] [Div α] [Neg α] [OfNat α 0] [NatCast α] [IntCast α]
  [Transc α]

/-- the `Neutron()` every atom without data shares -/
def NRec.missing : NRec α := { abundance := some 0 }

/-- `has_sld()` -/
def NRec.hasSld (r : NRec α) : Bool := r.b_c.isSome && r.nd.isSome

structure NsfState (α : Type) where
  /-- heap of `Neutron` objects, latest version of an id first; id 0 = `missing` -/
  recs : List (Nat × NRec α)
  next : Nat
  /-- `element.neutron` instance attributes -/
  elRec : List (Nat × Nat)
  /-- `isotope.neutron` instance attributes -/
  isoRec : List ((Nat × Nat) × Nat)
  /-- `isotope.nuclear_spin` -/
  spin : List ((Nat × Nat) × String)
  /-- isotopes added by `add_isotope` -/
  isotopes : List (Nat × Nat)

def NsfState.fresh : NsfState α := ⟨[(0, NRec.missing)], 1, [], [], [], []⟩

def NsfState.elId (st : NsfState α) (z : Nat) : Nat := (aget z st.elRec).getD 0
def NsfState.isoId (st : NsfState α) (z a : Nat) : Nat := (aget (z, a) st.isoRec).getD 0
def NsfState.getRec (st : NsfState α) (id : Nat) : NRec α := (aget id st.recs).getD NRec.missing
/-- `element.neutron` -/
def NsfState.elNeutron (st : NsfState α) (z : Nat) : NRec α := st.getRec (st.elId z)
/-- `isotope.neutron` (class default `missing`, never the element's) -/
def NsfState.isoNeutron (st : NsfState α) (z a : Nat) : NRec α := st.getRec (st.isoId z a)
def NsfState.setRec (st : NsfState α) (id : Nat) (r : NRec α) : NsfState α :=
  { st with recs := (id, r) :: st.recs }
/-- in-place mutation of one `Neutron` object -/
def NsfState.modify (st : NsfState α) (id : Nat) (f : NRec α → NRec α) : NsfState α :=
  st.setRec id (f (st.getRec id))

/-- `-absorption/(2000*ABSORPTION_WAVELENGTH)` -/
def bcImag (lam0 absorption : α) : α := -absorption / (((2000 : Nat) : α) * lam0)

/-- the record built from one row (before it is attached to an atom) -/
def rowRec (lam0 : α) (nd : Option α) (r : NsfRow) : NRec α :=
  { b_c := r.b_c.val, bp := r.bp.val, bm := r.bm.val, isE := r.isE,
    coherent := r.coh.val, incoherent := r.inc.val, total := r.tot.val, absorption := r.abs.val,
    abundance := some 0,
    bcc := some (r.b_c.val, bcImag lam0 ((r.abs.val (α := α)).getD 0)),
    nd := nd }

/-- one line of `nsftable` (nsf.py 553-607); `nd z` is `table[z].number_density` -/
def nsfStep (lam0 : α) (nd : Nat → Option α) (st : NsfState α) (r : NsfRow) : NsfState α :=
  let id := st.next
  let rc : NRec α := rowRec lam0 (nd r.z) r
  if r.a = 0 then
    { st with recs := (id, rc) :: st.recs, next := id + 1, elRec := (r.z, id) :: st.elRec }
  else
    let rc := { rc with abundance := match r.p with
                                     | none => some 0
                                     | some u => u.val }
    { recs := (id, rc) :: st.recs, next := id + 1
      isoRec := ((r.z, r.a), id) :: st.isoRec
      spin := ((r.z, r.a), r.spin) :: st.spin
      isotopes := (r.z, r.a) :: st.isotopes
      -- `if element.neutron is missing: element.neutron = nsf`
      elRec := if st.elId r.z = 0 then (r.z, id) :: st.elRec else st.elRec }

/-- `_4PI_100 = 4*pi/100` -/
def fourPi100 : α := ((4 : Nat) : α) * Transc.pi / ((100 : Nat) : α)

/-- the two gap fills (nsf.py 609-618): Xe total = coherent + incoherent,
    Eu-151 b_c = sqrt(coherent/_4PI_100) -/
def gapFill (st : NsfState α) : NsfState α :=
  let st := st.modify (st.elId 54) fun rx =>
    { rx with total := match rx.coherent, rx.incoherent with
                       | some c, some i => some (c + i)
                       | _, _ => none }
  st.modify (st.isoId 63 151) fun re =>
    { re with b_c := re.coherent.map fun c => Transc.sqrt (c / fourPi100) }

/-- one line of `nsftableI` (nsf.py 620-636) -/
def nsfIStep (st : NsfState α) (r : NsfIRow) : NsfState α :=
  st.modify (if r.a = 0 then st.elId r.z else st.isoId r.z r.a) fun rc =>
    { rc with b_c_i := r.b_c_i.val, bp_i := r.bp_i.val, bm_i := r.bm_i.val }

/-- `neutron_wavelength(E)` (nsf.py 197-221): `sqrt(ENERGY_FACTOR/E)`, E in meV -/
def neutronWavelength (ef e : α) : α := Transc.sqrt (ef / e)

/-- `ENERGY_FACTOR` (nsf.py 193): `h²·eV/(2·m_n·amu)·1e23` -/
def energyFactor (h ev mn amu : α) : α :=
  (h * h * ev / (((2 : Nat) : α) * mn * amu)) * ((10 ^ 23 : Nat) : α)

/-- one energy-dependent table: eV → Å, reversed to increasing wavelength (nsf.py 520-527) -/
def edTable (ef : α) (rows : List (Dec × Dec × Dec)) : List (α × Cx α) :=
  (rows.map fun r => (neutronWavelength ef (r.1.toNum * ((1000 : Nat) : α)),
                      ((r.2.1.toNum : α), (r.2.2.toNum : α)))).reverse

def edStep (zOf : Nat → Option Nat) (ef : α) (st : NsfState α) (t : EDTable) : NsfState α :=
  match zOf t.sym with
  | none => st
  | some z =>
    st.modify (if t.a = 0 then st.elId z else st.isoId z t.a) fun rc =>
      { rc with table := some (edTable ef t.rows) }

/-- complex × real as CPython / numpy compute it (the real number is promoted to `x+0j`);
    it matters only when a part is NaN -/
def cxMulReal (c : Cx α) (x : α) : Cx α := (c.1 * x - c.2 * 0, c.1 * 0 + c.2 * x)

/-- complex / real (Smith's algorithm with a zero imaginary divisor) -/
def cxDivReal (c : Cx α) (x : α) : Cx α := ((c.1 + c.2 * 0) / x, (c.2 - c.1 * 0) / x)

/-- the mixed table of natural Lu: `(bc_175*ab175 + bc_176*ab176)/100` -/
def luTable (ab175 ab176 : α) (bcc175 : Option α × α) (tbl : List (α × Cx α)) : List (α × Cx α) :=
  let c175 : Cx α := cxMulReal (bcc175.1.getD ((0 : α) / (0 : α)), bcc175.2) ab175
  tbl.map fun p =>
    let c176 := cxMulReal p.2 ab176
    (p.1, cxDivReal (c175.1 + c176.1, c175.2 + c176.2) ((100 : Nat) : α))

/-- natural Lu mixed from Lu-175 (constant) and Lu-176 (table) by abundance (nsf.py 529-535) -/
def luMix (ab175 ab176 : α) (st : NsfState α) : NsfState α :=
  match (st.isoNeutron 71 175).bcc, (st.isoNeutron 71 176).table with
  | some bcc175, some tbl =>
    st.modify (st.elId 71) fun rc => { rc with table := some (luTable ab175 ab176 bcc175 tbl) }
  | _, _ => st

/-- what `nsf.init` needs from the tables loaded before it -/
structure NsfEnv (α : Type) where
  /-- `table[z].symbol` -/
  symOf : Nat → Option Nat
  /-- `getattr(table, symbol)` -/
  zOf : Nat → Option Nat
  /-- `table[z].number_density` -/
  nd : Nat → Option α
  /-- isotopes that exist before `nsf.init` (mass table, D, T) -/
  hasIso : Nat → Nat → Bool
  /-- `Lu[175].abundance`, `Lu[176].abundance` (mass table) -/
  ab175 : Option α
  ab176 : Option α
  /-- `ABSORPTION_WAVELENGTH` -/
  lam0 : α
  /-- `ENERGY_FACTOR` -/
  ef : α

def Nsf.loadRows (env : NsfEnv α) (t : NsfTables) : NsfState α :=
  let st := t.rows.foldl (nsfStep env.lam0 env.nd) NsfState.fresh
  let st := gapFill st
  let st := t.irows.foldl nsfIStep st
  let st := t.ed.foldl (edStep env.zOf env.ef) st
  luMix ((env.ab175).getD 0) ((env.ab176).getD 0) st

/-! guards (the conditions under which `nsf.init` runs to completion) -/

def NsfState.hasIso (env : NsfEnv α) (st : NsfState α) (z a : Nat) : Bool :=
  env.hasIso z a || st.isotopes.contains (z, a)

/-- main pass: element exists with that symbol, absorption present (`-None` is a TypeError) -/
def nsfRowsOk (env : NsfEnv α) (rows : List NsfRow) : Bool :=
  rows.all fun r => env.symOf r.z == some r.sym && (r.abs.val (α := Rat)).isSome

/-- gap fills: `assert Xe.total is None`, `assert Eu[151].b_c is None`, operands present,
    `table.Eu[151]` exists -/
def gapFillOk (env : NsfEnv α) (st : NsfState α) : Bool :=
  let rx := st.elNeutron 54
  let re := st.isoNeutron 63 151
  (env.symOf 54).isSome && rx.total.isNone && rx.coherent.isSome && rx.incoherent.isSome
    && (env.symOf 63).isSome && st.hasIso env 63 151 && re.b_c.isNone && re.coherent.isSome

def nsfIRowsOk (env : NsfEnv α) (st : NsfState α) (rows : List NsfIRow) : Bool :=
  rows.all fun r => (env.symOf r.z).isSome && (r.a == 0 || st.hasIso env r.z r.a)

def edOk (env : NsfEnv α) (st : NsfState α) (ts : List EDTable) : Bool :=
  ts.all fun t => match env.zOf t.sym with
    | some z => t.a == 0 || st.hasIso env z t.a
    | none => false

def luOk (env : NsfEnv α) (st : NsfState α) : Bool :=
  (env.symOf 71).isSome && st.hasIso env 71 175 && st.hasIso env 71 176
    && env.ab175.isSome && env.ab176.isSome

end nsf

/-! the loader proper needs the state after each pass for its guards -/
section load
variable {α : Type} [Add α] [Sub α] [Mul α] [Div α] [Neg α] [OfNat α 0] [NatCast α] [IntCast α]
  [Transc α]

def Nsf.loadOk (env : NsfEnv α) (t : NsfTables) : Bool :=
  let st1 := t.rows.foldl (nsfStep env.lam0 env.nd) NsfState.fresh
  let st2 := gapFill st1
  let st3 := t.irows.foldl nsfIStep st2
  let st4 := t.ed.foldl (edStep env.zOf env.ef) st3
  nsfRowsOk env t.rows && gapFillOk env st1 && nsfIRowsOk env st2 t.irows && edOk env st3 t.ed
    && luOk env st4 && (st4.isoNeutron 71 175).bcc.isSome && (st4.isoNeutron 71 176).table.isSome

/-- `nsf.init(table)` on structured rows; `none` = raises -/
def Nsf.load (env : NsfEnv α) (t : NsfTables) : Option (NsfState α) :=
  if Nsf.loadOk env t then some (Nsf.loadRows env t) else none

/-- `nsf.init(table)` on the raw text of the two tables (the energy-dependent tables are
    Python literals, handed over structured) -/
def Nsf.loadText (env : NsfEnv α) (main imag : Str) (ed : List EDTable) : Option (NsfState α) :=
  match mapM? parseNsfLine (lines main), mapM? parseNsfILine (lines imag) with
  | some rows, some irows => Nsf.load env ⟨rows, irows, ed⟩
  | _, _ => none

/-! ## `numpy.interp` on an increasing grid, for the complex table -/

variable [LT α] [DecidableRel (α := α) (· < ·)]

/-- `np.interp(x, xp, fp)`: clamped at both ends, linear between nodes
    (`slope*(x - xp[j]) + fp[j]` with `xp[j] ≤ x < xp[j+1]`) -/
def interpGo (x : α) : List (α × Cx α) → Option (Cx α)
  | [] => none
  | [(_, y)] => some y
  | (x0, y0) :: (x1, y1) :: rest =>
    if x < x1 then
      let sr := (y1.1 - y0.1) / (x1 - x0)
      let si := (y1.2 - y0.2) / (x1 - x0)
      some (sr * (x - x0) + y0.1, si * (x - x0) + y0.2)
    else interpGo x ((x1, y1) :: rest)

def interp (x : α) (tbl : List (α × Cx α)) : Option (Cx α) :=
  match tbl with
  | [] => none
  | (x0, y0) :: _ => if x < x0 then some y0 else interpGo x tbl

/-- `Neutron.scattering_by_wavelength(λ)[0]` for a record with a table -/
def NRec.bcAt (r : NRec α) (lam : α) : Option (Cx α) :=
  match r.table with
  | some tbl => interp lam tbl
  | none => r.bcc.map fun c => (c.1.getD ((0 : α) / (0 : α)), c.2)

end load

end PtLoad
