import PtVerif.Model.Formula
/-!
# The pyparsing grammar of `formulas.py: formula_grammar` (compound part), combinator for combinator

A shallow, fuel-bounded recursive-descent model of the object `formula_grammar(table)` builds,
including pyparsing's whitespace discipline (DESIGN.md Appendix A):

* `Regex`/`Literal` pre-skip `" \t\r\n"`; `~White()`, and every `And`/`Optional` whose first
  element is `~White()`, do not;
* ordered choice (`MatchFirst`), greedy `OneOrMore`/`ZeroOrMore` that restore the position of a
  failed iteration;
* the regexes as written: `[A-Z][a-z]?`, `[1-9][0-9]*`, `(0|[1-9][0-9]*|)([.][0-9]*)`,
  `([1-9][0-9]*)?[+-]`, `[ni]`;
* the parse actions `table.symbol`, `int`, `float`, `convert_element`, `convert_implicit`,
  `convert_explicit`, `convert_compound`.

Two failure kinds: `fail` = `ParseException` (backtrackable), `abort` = any other exception
raised inside a parse action (`ValueError` unknown symbol / invalid charge / `float('.')`,
`KeyError` unknown isotope, `TypeError` `D[2]`), which propagates through every alternative.

Counts are exact decimals `num / 10^dec`.  The table is a parameter.

The density tag is modelled *as repaired* (`fixes/grammar-1-density-tag-needs-count.patch`):
`'@' + ~White() + (fract|whole) + Optional([ni])`.
-/
namespace PtModel.Grammar
open PtModel

inductive Err where
  | fail
  | abort
deriving DecidableEq, Repr

/-- a count as written: `num / 10^dec` -/
structure Cnt where
  num : Nat
  dec : Nat
deriving DecidableEq, Repr

/-- Python's `count == 1` on the value the token denotes -/
def Cnt.isOne (c : Cnt) : Bool := c.num == 10 ^ c.dec
def Cnt.one : Cnt := ⟨1, 0⟩

abbrev Res (α : Type) := Except Err (α × List Char)

instance {ε β : Type} [DecidableEq ε] [DecidableEq β] : DecidableEq (Except ε β)
  | .ok a, .ok b => if h : a = b then isTrue (by rw [h]) else isFalse (by intro e; cases e; exact h rfl)
  | .error a, .error b => if h : a = b then isTrue (by rw [h]) else isFalse (by intro e; cases e; exact h rfl)
  | .ok _, .error _ => isFalse (by intro e; cases e)
  | .error _, .ok _ => isFalse (by intro e; cases e)

section DecEq
variable {α : Type} [DecidableEq α]
mutual
/-- decidable equality of nested structures (the shared `Frag`/`Items` derive none) -/
def decFrag : (a b : Frag α) → Decidable (a = b)
  | .atom x, .atom y =>
    if h : x = y then isTrue (by rw [h]) else isFalse (by intro e; cases e; exact h rfl)
  | .group s, .group t =>
    match decItems s t with
    | isTrue h => isTrue (by rw [h])
    | isFalse h => isFalse (by intro e; cases e; exact h rfl)
  | .atom _, .group _ => isFalse (by intro e; cases e)
  | .group _, .atom _ => isFalse (by intro e; cases e)
def decItems : (a b : Items α) → Decidable (a = b)
  | .nil, .nil => isTrue rfl
  | .cons c f r, .cons c' f' r' =>
    if hc : c = c' then
      match decFrag f f' with
      | isTrue hf =>
        match decItems r r' with
        | isTrue hr => isTrue (by rw [hc, hf, hr])
        | isFalse h => isFalse (by intro e; cases e; exact h rfl)
      | isFalse h => isFalse (by intro e; cases e; exact h rfl)
    else isFalse (by intro e; cases e; exact hc rfl)
  | .nil, .cons _ _ _ => isFalse (by intro e; cases e)
  | .cons _ _ _, .nil => isFalse (by intro e; cases e)
end
instance : DecidableEq (Frag α) := decFrag
instance : DecidableEq (Items α) := decItems
end DecEq

/-! ## characters -/

/-- pyparsing's default whitespace `" \t\r\n"` (also what `White()` matches) -/
def isWs (c : Char) : Bool := c.toNat = 32 || c.toNat = 9 || c.toNat = 10 || c.toNat = 13

/-- `[A-Z]`, `[a-z]`, `[0-9]` of a Python `str` pattern: ASCII only -/
def isUp (c : Char) : Bool := 65 ≤ c.toNat && c.toNat ≤ 90
def isLo (c : Char) : Bool := 97 ≤ c.toNat && c.toNat ≤ 122
def isDig (c : Char) : Bool := 48 ≤ c.toNat && c.toNat ≤ 57

def skipWs : List Char → List Char
  | [] => []
  | c :: cs => if isWs c then skipWs cs else c :: cs

/-- longest prefix of ASCII digits, and the rest -/
def digits : List Char → List Char × List Char
  | [] => ([], [])
  | c :: cs => if isDig c then ((digits cs).1.cons c, (digits cs).2) else ([], c :: cs)

/-- `int(text)` of a digit string -/
def natOf (ds : List Char) : Nat := ds.foldl (fun n c => n * 10 + (c.toNat - 48)) 0

/-! ## token regexes -/

/-- `Regex("[1-9][0-9]*")` at the head (no pre-skip) -/
def reWhole : List Char → Option (List Char × List Char)
  | [] => none
  | c :: cs => if isDig c && c.toNat != 48 then some (c :: (digits cs).1, (digits cs).2) else none

/-- `Regex("(0|[1-9][0-9]*|)([.][0-9]*)")` at the head: (integer digits, fraction digits, rest).
    The alternation is ordered; since only `.` may follow, no other backtracking helps. -/
def reFract (s : List Char) : Option (List Char × List Char × List Char) :=
  match s with
  | '0' :: '.' :: r => some (['0'], (digits r).1, (digits r).2)
  | _ =>
    match reWhole s with
    | some (i, '.' :: r) => some (i, (digits r).1, (digits r).2)
    | _ =>
      match s with
      | '.' :: r => some ([], (digits r).1, (digits r).2)
      | _ => none

/-- `(fract | whole)` with their parse actions `float(t[0])`, `int(t[0])`;
    `none` = neither regex matches here; `float('.')` raises `ValueError` -/
def pNumber (s : List Char) : Option (Except Err (Cnt × List Char)) :=
  match reFract s with
  | some (i, f, r) =>
    if i.isEmpty && f.isEmpty then some (.error .abort)
    else some (.ok (⟨natOf (i ++ f), f.length⟩, r))
  | none =>
    match reWhole s with
    | some (i, r) => some (.ok (⟨natOf i, 0⟩, r))
    | none => none

/-- `count = Optional(~White() + (fract|whole), default=1)`: never pre-skips -/
def pCount (s : List Char) : Res Cnt :=
  match s with
  | [] => .ok (Cnt.one, s)
  | c :: _ =>
    if isWs c then .ok (Cnt.one, s) else
    match pNumber s with
    | some (.ok x) => .ok x
    | some (.error e) => .error e
    | none => .ok (Cnt.one, s)

/-! ## the table -/

/-- what `table.symbol(sym)` returns: element `z`, or (`alias ≠ 0`) the isotope `z[alias]`
    that carries its own symbol (D, T); `isos`, `ions` are those of the element -/
structure Entry where
  sym : List Char
  z : Nat
  alias : Nat
  isos : List Nat
  ions : List Int
deriving DecidableEq, Repr

abbrev Table := List Entry

def Table.lookup (T : Table) (s : List Char) : Option Entry := T.find? (fun e => e.sym = s)

/-- a text the symbol regex `[A-Z][a-z]?` matches entirely -/
def symOK : List Char → Bool
  | [u] => isUp u
  | [u, l] => isUp u && isLo l
  | _ => false

/-- every entry is served under its own symbol (`setattr(table, symbol, element)`: no two
    entries share a symbol) -/
def Table.wf (T : Table) : Bool := T.all fun e => decide (T.lookup e.sym = some e)

/-- `symbol = Regex("[A-Z][a-z]?")` (pre-skips) with the action `table.symbol(t[0])`
    (`ValueError` for an unknown symbol: abort) -/
def pSymbol (T : Table) (s : List Char) : Res Entry :=
  match skipWs s with
  | [] => .error .fail
  | c :: cs =>
    if isUp c then
      match cs with
      | d :: ds =>
        if isLo d then
          match T.lookup [c, d] with
          | some e => .ok (e, ds)
          | none => .error .abort
        else
          match T.lookup [c] with
          | some e => .ok (e, cs)
          | none => .error .abort
      | [] =>
        match T.lookup [c] with
        | some e => .ok (e, cs)
        | none => .error .abort
    else .error .fail

/-- `isotope = Optional(~White() + '[' + Regex("[1-9][0-9]*") + ']', default='0')`, `int` -/
def pIsotope (s : List Char) : Nat × List Char :=
  match s with
  | '[' :: r =>
    match reWhole (skipWs r) with
    | some (d, r') =>
      match skipWs r' with
      | ']' :: r'' => (natOf d, r'')
      | _ => (0, s)
    | none => (0, s)
  | _ => (0, s)

/-- the optional magnitude `([1-9][0-9]*)?` of the ion regex (1 when absent), and the rest -/
def ionMag (s : List Char) : Nat × List Char :=
  match reWhole s with
  | some (d, r') => (natOf d, r')
  | none => (1, s)

/-- `ion = Optional(~White() + '{' + Regex("([1-9][0-9]*)?[+-]") + '}', default='0+')`,
    action `int(t[0][-1] + (t[0][:-1] if len(t[0]) > 1 else '1'))` -/
def pIon (s : List Char) : Int × List Char :=
  match s with
  | '{' :: r =>
    match (ionMag (skipWs r)).2 with
    | sg :: r3 =>
      if sg = '+' then
        match skipWs r3 with
        | '}' :: r4 => (((ionMag (skipWs r)).1 : Int), r4)
        | _ => (0, s)
      else if sg = '-' then
        match skipWs r3 with
        | '}' :: r4 => (-((ionMag (skipWs r)).1 : Int), r4)
        | _ => (0, s)
      else (0, s)
    | [] => (0, s)
  | _ => (0, s)

/-- `convert_element`: `symbol[isotope]` (KeyError; TypeError for D/T), then `.ion[q]`
    (ValueError) -/
def convertElement (e : Entry) (iso : Nat) (ion : Int) : Except Err Atom :=
  if iso ≠ 0 then
    if e.alias ≠ 0 then .error .abort
    else if iso ∈ e.isos then
      (if ion ≠ 0 ∧ ion ∉ e.ions then .error .abort else .ok ⟨e.z, iso, ion⟩)
    else .error .abort
  else
    (if ion ≠ 0 ∧ ion ∉ e.ions then .error .abort else .ok ⟨e.z, e.alias, ion⟩)

/-- `element = symbol + isotope + ion + count` -/
def pElement (T : Table) (s : List Char) : Res (Cnt × Atom) :=
  match pSymbol T s with
  | .error e => .error e
  | .ok (e, r1) =>
    match pCount (pIon (pIsotope r1).2).2 with
    | .error er => .error er
    | .ok (c, r4) =>
      match convertElement e (pIsotope r1).1 (pIon (pIsotope r1).2).1 with
      | .error er => .error er
      | .ok a => .ok ((c, a), r4)

/-- `ZeroOrMore(element)`: a failed iteration restores its position; abort propagates -/
def pElements (T : Table) : Nat → List Char → Res (Items Cnt)
  | 0, s => .ok (.nil, s)
  | fuel + 1, s =>
    match pElement T s with
    | .ok ((c, a), r) =>
      match pElements T fuel r with
      | .ok (fs, r') => .ok (.cons c (.atom a) fs, r')
      | .error e => .error e
    | .error .fail => .ok (.nil, s)
    | .error .abort => .error .abort

def isNil : Items Cnt → Bool
  | .nil => true
  | .cons _ _ _ => false

/-- `fragment if count == 1 else (count, fragment)` (`convert_implicit`, `convert_explicit`) -/
def wrap (c : Cnt) (fs : Items Cnt) : Items Cnt :=
  if c.isOne then fs else .cons c (.group fs) .nil

/-- a `Literal` (pre-skips) -/
def pLit (ch : Char) (s : List Char) : Option (List Char) :=
  match skipWs s with
  | c :: r => if c = ch then some r else none
  | [] => none

/-- `implicit_group = count + OneOrMore(element)` with `convert_implicit` -/
def pImplicit (T : Table) (fuel : Nat) (s : List Char) : Res (Items Cnt) :=
  match pCount s with
  | .error e => .error e
  | .ok (c, r) =>
    match pElements T fuel r with
    | .error e => .error e
    | .ok (fs, r') => if isNil fs then .error .fail else .ok (wrap c fs, r')

/-- separator: `(space + '+' + space) | space` -/
def skipSep (s : List Char) : List Char :=
  match skipWs s with
  | '+' :: r => skipWs r
  | r => r

mutual
/-- `group = implicit_group | explicit_group`,
    `explicit_group = space '(' space composite space ')' space count` -/
def pGroup (T : Table) : Nat → List Char → Res (Items Cnt)
  | 0, _ => .error .fail
  | fuel + 1, s =>
    match pImplicit T fuel s with
    | .ok x => .ok x
    | .error .abort => .error .abort
    | .error .fail =>
      match pLit '(' s with
      | none => .error .fail
      | some r1 =>
        match pComposite T fuel (skipWs r1) with
        | .error e => .error e
        | .ok (fs, r2) =>
          match pLit ')' r2 with
          | none => .error .fail
          | some r3 =>
            match pCount (skipWs r3) with
            | .error e => .error e
            | .ok (c, r4) => .ok (wrap c fs, r4)
/-- `composite = group + ZeroOrMore(implicit_separator + group)` -/
def pComposite (T : Table) : Nat → List Char → Res (Items Cnt)
  | 0, _ => .error .fail
  | fuel + 1, s =>
    match pGroup T fuel s with
    | .error e => .error e
    | .ok (g, r) =>
      match pMore T fuel r with
      | .error e => .error e
      | .ok (gs, r') => .ok (g.append gs, r')
/-- `ZeroOrMore(implicit_separator + group)`: a failed iteration restores the position
    before its separator -/
def pMore (T : Table) : Nat → List Char → Res (Items Cnt)
  | 0, s => .ok (.nil, s)
  | fuel + 1, s =>
    match pGroup T fuel (skipSep s) with
    | .ok (g, r) =>
      match pMore T fuel r with
      | .error e => .error e
      | .ok (gs, r') => .ok (g.append gs, r')
    | .error .fail => .ok (.nil, s)
    | .error .abort => .error .abort
end

/-- the density tag: isotopic (`@1.5`, `@1.5i`) or natural (`@1n`) -/
inductive Dens where
  | iso (c : Cnt)
  | nat (c : Cnt)
deriving DecidableEq, Repr

/-- `Optional('@' + ~White() + (fract|whole) + Optional(Regex("[ni]"), default='i'))`
    (`'@'` and `[ni]` pre-skip) -/
def pDensity (s : List Char) : Res (Option Dens) :=
  match skipWs s with
  | '@' :: r =>
    match r with
    | [] => .ok (none, s)
    | c :: _ =>
      if isWs c then .ok (none, s) else
      match pNumber r with
      | none => .ok (none, s)
      | some (.error e) => .error e
      | some (.ok (c, r')) =>
        match skipWs r' with
        | 'n' :: r'' => .ok (some (.nat c), r'')
        | 'i' :: r'' => .ok (some (.iso c), r'')
        | _ => .ok (some (.iso c), r')
  | _ => .ok (none, s)

/-- enough for every call chain: each level of nesting and each group consumes a character -/
def fuelFor (s : List Char) : Nat := 2 * s.length + 4

/-- `Optional(compound, default=Formula()) + StringEnd()` – the compound alternative of the
    top-level grammar (the mixture alternatives are not part of this model) -/
def parse (T : Table) (s : List Char) : Except Err (Items Cnt × Option Dens) :=
  match pComposite T (fuelFor s) s with
  | .ok (fs, r) =>
    match pDensity r with
    | .ok (d, r') => if (skipWs r').isEmpty then .ok (fs, d) else .error .fail
    | .error e => .error e
  | .error .fail => if (skipWs s).isEmpty then .ok (.nil, none) else .error .fail
  | .error .abort => .error .abort

end PtModel.Grammar
