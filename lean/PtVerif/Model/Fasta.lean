import PtVerif.Num
import PtVerif.Model.Formula
import PtVerif.Generated.Constants
import PtVerif.Generated.ElementBase
import PtVerif.Generated.FastaTables
/-!
# Biomolecule sequences (fasta.py) — C18

Mirrors `Molecule.__init__` (density from the cell volume, H / D forms by
`Formula.replace`), `Sequence.__init__` (cut at `*`, drop blanks, sum of volumes, charges and
structures, Hill form), `_code_average`, the module-level construction of the three code
tables, the `aa:`/`dna:`/`rna:` prefix dispatch of `formulas.formula`, `read_fasta` and
`_guess_type_from_filename`.  Formula structures, `_count_atoms`, `n*formula`, and Hill order
are the shared ones of `Model/Formula.lean`.
-/
namespace PtModel.Fasta
open PtModel

/-- what `Sequence.__init__` reads off a code-table entry (a `Molecule`) -/
structure Residue (α : Type) where
  /-- `labile_formula.structure` -/
  struct : Items α
  /-- `cell_volume` -/
  vol : α
  charge : α

/-- a code table: a Python dict keyed by one-character codes (later insertions overwrite) -/
abbrev Table (α : Type) := List (Char × Residue α)

namespace Table
variable {α : Type}

def find (t : Table α) (c : Char) : Option (Residue α) :=
  match t with
  | [] => none
  | (k, r) :: rest => if k = c then some r else find rest c

/-- `table[c] = r` -/
def insert (t : Table α) (c : Char) (r : Residue α) : Table α :=
  match t with
  | [] => [(c, r)]
  | (k, x) :: rest => if k = c then (k, r) :: rest else (k, x) :: insert rest c r

end Table

/-! ## symbols as Hill order sees them -/

/-- the symbol code an atom reports (`D`/`T` for H[2]/H[3]), from core.py `element_base` -/
def symOf (z a : Nat) : Nat :=
  if z = 1 ∧ a = 2 then 68 * 256
  else if z = 1 ∧ a = 3 then 84 * 256
  else match PtGen.elementBase.find? (fun r => r.1 = z) with
    | some r => r.2.2.2.1
    | none => 0

def atomH1 : Atom := ⟨1, 1, 0⟩
def atomH : Atom := ⟨1, 0, 0⟩
def atomD : Atom := ⟨1, 2, 0⟩

/-! ## `Formula.replace(source, target)` with `portion = 1`, on the atoms dict -/
section Replace
variable {α : Type} [Add α] [Mul α] [OfNat α 0] [OfNat α 1]

/-- `del atoms[source]` -/
def eraseKey (t : List (Atom × α)) (a : Atom) : List (Atom × α) := t.filter fun e => e.1 ≠ a

def hasKey (t : List (Atom × α)) (a : Atom) : Bool := t.any fun e => e.1 = a

/-- `atoms[target] = atoms.get(target, 0) + atoms[source]*portion; del atoms[source]` -/
def replaceAll (t : List (Atom × α)) (src tgt : Atom) : List (Atom × α) :=
  if hasKey t src then eraseKey (bump t tgt (lookupD t src * 1)) src else t

end Replace

/-! ## `Molecule.__init__` -/

/-- the attributes of a `Molecule` the property speaks about -/
structure Mol (α : Type) where
  /-- `labile_formula.structure` -/
  labile : Items α
  /-- `natural_formula.structure` (H[1] → H, Hill order) -/
  natural : Items α
  /-- `cell_volume` -/
  vol : α
  charge : α
  /-- `mass` (H form) -/
  mass : α
  /-- `Dmass` (H[1] → D) -/
  dmass : α
  /-- `labile_formula.density` -/
  density : α

section Molecule
variable {α : Type} [Add α] [Sub α] [Mul α] [Div α] [NatCast α] [IntCast α] [OfNat α 0] [OfNat α 1]
  [BEq α] [LT α] [DecidableRel (α := α) (· < ·)]

/-- `1e24` -/
def e24 : α := ((1000000000000 : Nat) : α) * ((1000000000000 : Nat) : α)

/-- `formula.replace(H[1], target)`: a Hill-ordered formula of the substituted dict -/
def substH1 (s : Items α) (tgt : Atom) : Items α :=
  hillS symOf (replaceAll s.atoms atomH1 tgt)

/-- `Molecule(name, formula, cell_volume=V, charge=c)` for a formula without tritium -/
def molecule (am : Atom → α) (s : Items α) (V c : α) : Mol α :=
  let massM := massOf am s.atoms
  let h := substH1 s atomH
  let d := substH1 s atomD
  { labile := s, natural := h, vol := V, charge := c,
    mass := massOf am h.atoms, dmass := massOf am d.atoms,
    density := if 0 < V then e24 * (massM / PtGen.avogadro_number) / V else 0 }

end Molecule

/-! ## `Sequence.__init__` -/

/-- `sequence.split('*', 1)[0].replace(' ', '')` -/
def clean (s : List Char) : List Char := (s.takeWhile (· ≠ '*')).filter (· ≠ ' ')

section Sequence
variable {α : Type} [Add α] [Sub α] [Mul α] [Div α] [NatCast α] [IntCast α] [OfNat α 0] [OfNat α 1]
  [BEq α] [LT α] [DecidableRel (α := α) (· < ·)]

/-- `tuple(codes[c] for c in sequence)`; `none` = `KeyError` -/
def lookupAll (t : Table α) : List Char → Option (List (Residue α))
  | [] => some []
  | c :: r => match t.find c, lookupAll t r with
    | some x, some xs => some (x :: xs)
    | _, _ => none

/-- `sum(p.cell_volume for p in parts)` -/
def sumVol (parts : List (Residue α)) : α := parts.foldl (fun s p => s + p.vol) 0
def sumCharge (parts : List (Residue α)) : α := parts.foldl (fun s p => s + p.charge) 0
/-- `for p in parts: structure.extend(list(p.labile_formula.structure))` -/
def joinStruct : List (Residue α) → Items α
  | [] => .nil
  | p :: r => p.struct.append (joinStruct r)

/-- `Sequence(name, sequence, type)` given the code table of the type -/
def sequence (am : Atom → α) (t : Table α) (s : List Char) : Option (Mol α) :=
  match lookupAll t (clean s) with
  | none => none
  | some parts =>
    some (molecule am (hillS symOf (joinStruct parts).atoms) (sumVol parts) (sumCharge parts))

/-! ## `_code_average` and the module-level tables -/

/-- `_code_average(bases, code_table)` → `(formula.structure, cell_volume, charge)` -/
def codeAverage (t : Table α) (bases : List Char) : Option (Items α × α × α) :=
  match lookupAll t bases with
  | none => none
  | some parts =>
    let n := bases.length
    if n > 0 then
      some (rmulS (1 / (n : α)) (joinStruct parts), sumVol parts / (n : α), sumCharge parts / (n : α))
    else some (joinStruct parts, sumVol parts, sumCharge parts)

/-- the flat structure a table formula string parses to -/
def flatItems (atoms : List (Nat × Nat × Nat)) : Items α :=
  Items.ofList (atoms.map fun x => ((x.2.2 : α), Frag.atom ⟨x.1, x.2.1, 0⟩))

def baseResidue (row : Char × Nat × Nat × List (Nat × Nat × Nat) × Int) : Residue α :=
  ⟨flatItems row.2.2.2.1, (row.2.1 : α) / (row.2.2.1 : α), (row.2.2.2.2 : α)⟩

/-- `dict((_(…), …))` -/
def baseTable (rows : List (Char × Nat × Nat × List (Nat × Nat × Nat) × Int)) : Table α :=
  rows.foldl (fun t r => t.insert r.1 (baseResidue r)) []

/-- `_set_amino_acid_average(target, codes)` applied in program order -/
def addAverages : Table α → List (Char × List Char) → Option (Table α)
  | t, [] => some t
  | t, (target, codes) :: rest =>
    match codeAverage t codes with
    | none => none
    | some (f, v, c) => addAverages (t.insert target ⟨f, v, c⟩) rest

/-- `AMINO_ACID_CODES` -/
def aaTable : Option (Table α) := addAverages (baseTable PtGen.aaBase) PtGen.aaAverages

/-- `RNA_CODES` / `DNA_CODES`: `Molecule(name, D.hill, cell_volume=V)` per row, collected by
    `dict(v)` (a later row with the same code overwrites an earlier one) -/
def nucleotideTable (bases : Table α) (rows : List (Char × List Char)) : Option (Table α) :=
  go rows []
where
  go : List (Char × List Char) → Table α → Option (Table α)
    | [], t => some t
    | (code, bs) :: rest, t =>
      match codeAverage bases bs with
      | some (f, v, _) => go rest (t.insert code ⟨hillS symOf f.atoms, v, 0⟩)
      | none => none

def rnaTable : Option (Table α) := nucleotideTable (baseTable PtGen.rnaBases) PtGen.nucleotideCodes
def dnaTable : Option (Table α) := nucleotideTable (baseTable PtGen.dnaBases) PtGen.nucleotideCodes

end Sequence

/-! ## `formula("aa:…")` prefix dispatch (formulas.py) -/

inductive SeqType where
  | aa | dna | rna
deriving DecidableEq, Repr

/-- `seq_type in fasta.CODE_TABLES` -/
def typeOfPrefix (p : List Char) : Option SeqType :=
  if p = ['a', 'a'] then some .aa
  else if p = ['d', 'n', 'a'] then some .dna
  else if p = ['r', 'n', 'a'] then some .rna
  else none

/-- `compound.split(':', 1)` when `':' in compound` -/
def splitColon : List Char → Option (List Char × List Char)
  | [] => none
  | c :: r => if c = ':' then some ([], r) else
    match splitColon r with
    | some (p, q) => some (c :: p, q)
    | none => none

inductive Dispatch where
  /-- `fasta.Sequence(name=None, sequence=seq, type=seq_type).labile_formula` -/
  | seq (t : SeqType) (s : List Char)
  /-- the chemical-formula parser -/
  | chem (s : List Char)
deriving DecidableEq, Repr

def dispatch (s : List Char) : Dispatch :=
  match splitColon s with
  | some (p, rest) =>
    match typeOfPrefix p with
    | some t => .seq t rest
    | none => .chem s
  | none => .chem s

/-! ## `read_fasta` -/

/-- `str.isspace` for one character -/
def isSpace (c : Char) : Bool :=
  let n := c.toNat
  (9 ≤ n ∧ n ≤ 13) ∨ (28 ≤ n ∧ n ≤ 32) ∨ n = 0x85 ∨ n = 0xA0 ∨ n = 0x1680 ∨
  (0x2000 ≤ n ∧ n ≤ 0x200A) ∨ n = 0x2028 ∨ n = 0x2029 ∨ n = 0x202F ∨ n = 0x205F ∨ n = 0x3000

/-- `line.rstrip()` -/
def rstrip (s : List Char) : List Char := (s.reverse.dropWhile isSpace).reverse

/-- `line.startswith(">")` -/
def isHeader (l : List Char) : Bool := l.head? = some '>'

/-- the generator's local state `name, seq` plus what has been yielded so far -/
structure RState where
  name : Option (List Char)
  seq : List (List Char)
  out : List (List Char × List Char)

def RState.init : RState := ⟨none, [], []⟩

/-- `if name: yield (name, ''.join(seq))` -/
def RState.flush (st : RState) : List (List Char × List Char) :=
  match st.name with
  | some n => st.out ++ [(n, st.seq.flatten)]
  | none => st.out

/-- one iteration of `for line in fp` -/
def step (st : RState) (line : List Char) : RState :=
  let l := rstrip line
  if isHeader l then ⟨some l, [], st.flush⟩ else { st with seq := st.seq ++ [l] }

/-- `list(read_fasta(lines))` -/
def readFasta (lines : List (List Char)) : List (List Char × List Char) :=
  (lines.foldl step RState.init).flush

/-- lines of a text file opened in text mode (universal newlines), terminators dropped -/
def splitLines (text : List Char) : List (List Char) :=
  go text []
where
  go : List Char → List Char → List (List Char)
    | [], cur => if cur.isEmpty then [] else [cur.reverse]
    | '\n' :: r, cur => cur.reverse :: go r []
    | '\r' :: '\n' :: r, cur => cur.reverse :: go r []
    | '\r' :: r, cur => cur.reverse :: go r []
    | c :: r, cur => go r (c :: cur)

/-! ## `_guess_type_from_filename` -/

def endsWith (s suffix : List Char) : Bool := suffix.isSuffixOf s

/-- `_guess_type_from_filename(filename, type)`; the type is returned as the table key -/
def guessType (filename : List Char) (type : Option (List Char)) : List Char :=
  match type with
  | some t => t
  | none =>
    if endsWith filename ['.', 'f', 'n', 'a'] then ['d', 'n', 'a']
    else if endsWith filename ['.', 'f', 'f', 'n'] then ['d', 'n', 'a']
    else if endsWith filename ['.', 'f', 'a', 'a'] then ['a', 'a']
    else if endsWith filename ['.', 'f', 'r', 'n'] then ['r', 'n', 'a']
    else ['a', 'a']

end PtModel.Fasta
