import PtVerif.Num
import PtVerif.Model.Formula
import PtVerif.Generated.Constants
/-!
# X-ray scattering (xsf.py, cromermann.py) — C05

Mirrors the code that exists (with the repairs of `fixes/xsf-*.patch` applied, see
docs/notes-xray.md): `Xray._gettable` (eV → keV, `-9999` → NaN, rows ordered by energy),
`Xray.scattering_factors` (`numpy.interp(..., left=nan, right=nan)`), `xray_sld`,
`Xray.sld`, `xray_energy/xray_wavelength`, `index_of_refraction`, `mirror_reflectivity`,
`cromermann.fxrayatstol` (symbol/charge resolution) and `CromerMannFormula.atstol`.

A floating-point NaN is an explicit `none` (`Option α`): the model is polymorphic in the
number type and a field has no NaN.  Decimal constants are written `n / 10^k` with `NatCast`
(at `Float` the correctly rounded quotient of two exact integers is the same double as the
decimal literal of the source).
-/
namespace PtModel.Xray

/-! ## NaN-propagating arithmetic -/
section Opt
variable {α : Type} [Add α] [Mul α]

/-- `x + y` where either may be NaN -/
def oadd : Option α → Option α → Option α
  | some a, some b => some (a + b)
  | _, _ => none

/-- `f*quantity` -/
def omul : Option α → α → Option α
  | some a, c => some (a * c)
  | none, _ => none

end Opt

/-! ## `numpy.interp(x, xp, fp, left=nan, right=nan)` -/
section Interp
variable {α : Type} [Add α] [Sub α] [Mul α] [Div α] [BEq α] [LT α]
  [DecidableRel (α := α) (· < ·)]

/-- numpy's evaluation between two nodes: `slope*(x - xp[j]) + fp[j]` -/
def lin (x0 y0 x1 y1 x : α) : α := (y1 - y0) / (x1 - x0) * (x - x0) + y0

/-- … which is NaN as soon as one of the two node values is NaN -/
def linO (x0 : α) (y0 : Option α) (x1 : α) (y1 : Option α) (x : α) : Option α :=
  match y0, y1 with
  | some a, some b => some (lin x0 a x1 b x)
  | _, _ => none

/-- `numpy.interp` with `left = right = nan` on a table of `(x, y)` nodes (`y = none`: a NaN
    node).  On an increasing grid numpy's search returns the `j` with `xp[j] ≤ x < xp[j+1]`
    (`j = len-1` for `x = xp[-1]`); a hit on a node returns the node value itself (numpy's
    `x == xp[j]` shortcut, which keeps a NaN neighbour from leaking into the node). -/
def interpNaN : List (α × Option α) → α → Option α
  | [], _ => none
  | [(x0, y0)], x => if x == x0 then y0 else none
  | (x0, y0) :: (x1, y1) :: r, x =>
      if x < x0 then none
      else if x < x1 then (if x == x0 then y0 else linO x0 y0 x1 y1 x)
      else interpNaN ((x1, y1) :: r) x

end Interp

/-! ## the table of one element (`Xray._gettable`) -/

/-- one row of a loaded table: energy in keV, f1 (`none` for the `-9999` marker), f2 -/
structure Node (α : Type) where
  e : α
  f1 : Option α
  f2 : α

section Table
variable {α : Type} [Add α] [Sub α] [Mul α] [Div α] [Neg α] [NatCast α] [BEq α] [LT α]
  [DecidableRel (α := α) (· < ·)]

/-- `xsf[1, xsf[1] == -9999.] = nan; xsf[0] *= 0.001` on one raw row `(eV, f1, f2)` -/
def loadRow (r : α × α × α) : Node α :=
  ⟨r.1 * (((1 : Nat) : α) / ((1000 : Nat) : α)),
   if r.2.1 == -((9999 : Nat) : α) then none else some r.2.1,
   r.2.2⟩

/-- `a.e ≤ b.e` as numpy's stable argsort sees it -/
def nodeLe (a b : Node α) : Bool := !(decide (b.e < a.e))

/-- the loaded table: rows converted, then ordered by energy (stable) -/
def loadTable (rows : List (α × α × α)) : List (Node α) :=
  sortBy nodeLe (rows.map loadRow)

/-- the table as the raw file orders it (the pinned tree before the repair) -/
def loadTableUnsorted (rows : List (α × α × α)) : List (Node α) := rows.map loadRow

def f1Nodes (t : List (Node α)) : List (α × Option α) := t.map fun n => (n.e, n.f1)
def f2Nodes (t : List (Node α)) : List (α × Option α) := t.map fun n => (n.e, some n.f2)

/-- `Xray.scattering_factors(energy=e)` for an element with a table: `(f1, f2)` -/
def scatteringFactors (t : List (Node α)) (e : α) : Option α × Option α :=
  (interpNaN (f1Nodes t) e, interpNaN (f2Nodes t) e)

/-- consecutive energies strictly increase (what `numpy.interp` needs) – executable check -/
def strictlyIncreasing : List (Node α) → Bool
  | [] => true
  | [_] => true
  | a :: b :: r => decide (a.e < b.e) && strictlyIncreasing (b :: r)

end Table

/-! ## energy ↔ wavelength -/
section Convert
variable {α : Type} [Mul α] [Div α] [NatCast α]

/-- `plancks_constant*speed_of_light/energy*1e7` -/
def xrayWavelength (energy : α) : α :=
  PtGen.plancks_constant * PtGen.speed_of_light / energy * ((10000000 : Nat) : α)

/-- `plancks_constant*speed_of_light/wavelength*1e7` -/
def xrayEnergy (wavelength : α) : α :=
  PtGen.plancks_constant * PtGen.speed_of_light / wavelength * ((10000000 : Nat) : α)

end Convert

/-! ## `xray_sld` -/

inductive Err where
  /-- `ValueError('X-ray scattering factors not available for …')` -/
  | noTable
  /-- `AssertionError: scattering calculation needs density` -/
  | noDensity
  /-- `AssertionError: scattering calculation needs energy or wavelength` -/
  | noEnergy
deriving DecidableEq, Repr

section Sld
variable {α : Type} [Add α] [Mul α] [Div α] [NatCast α] [OfNat α 0] [BEq α]

/-- the loop of `xray_sld`: `(mass, sum_f1, sum_f2)`; raises at the first atom without a table.
    `sf a = none`: the atom has no table; `some (f1, f2)`: its factors at the energy asked. -/
def sumLoop (am : PtModel.Atom → α) (sf : PtModel.Atom → Option (Option α × Option α)) :
    List (PtModel.Atom × α) → α × Option α × Option α → Except Err (α × Option α × Option α)
  | [], acc => .ok acc
  | (a, n) :: r, (m, s1, s2) =>
    match sf a with
    | none => .error .noTable
    | some (f1, f2) => sumLoop am sf r (m + am a * n, oadd s1 (omul f1 n), oadd s2 (omul f2 n))

/-- `N*sum_f*electron_radius` -/
def scaleSld (N : α) (s : Option α) : Option α :=
  match s with
  | some v => some (N * v * PtGen.electron_radius)
  | none => none

/-- `xray_sld` after the compound has been resolved to its atoms and density:
    `(rho, irho)` in 1e-6/Å². -/
def xraySld (am : PtModel.Atom → α) (sf : PtModel.Atom → Option (Option α × Option α))
    (atoms : List (PtModel.Atom × α)) (density : Option α) :
    Except Err (Option α × Option α) :=
  match density with
  | none => .error .noDensity
  | some d =>
    match sumLoop am sf atoms (0, some 0, some 0) with
    | .error e => .error e
    | .ok (m, s1, s2) =>
      if m == 0 then .ok (some 0, some 0) else
      let N := d / m * PtGen.avogadro_number * (((1 : Nat) : α) / ((100000000 : Nat) : α))
      .ok (scaleSld N s1, scaleSld N s2)

/-- `Xray.sld` of a bare element / ion: `f*electron_radius*number_density*1e-8`;
    `nd = none`: `number_density is None` → `(None, None)` (outer `none`). -/
def elementSld (sf : Option α × Option α) (nd : Option α) : Option (Option α × Option α) :=
  match nd with
  | none => none
  | some n =>
    let g := fun (f : Option α) => match f with
      | some v => some (v * PtGen.electron_radius * n * (((1 : Nat) : α) / ((100000000 : Nat) : α)))
      | none => none
    some (g sf.1, g sf.2)

end Sld

/-! ## `natural_density=` (formulas.py `Formula.natural_density` setter) -/
section Natural
variable {α : Type} [Add α] [Mul α] [Div α] [OfNat α 0]

/-- `density = natural_density / natural_mass_ratio()`, the ratio being
    `total_natural_mass/total_isotope_mass`; `nm` is the natural mass of an atom's element -/
def densityOfNatural (am nm : PtModel.Atom → α) (atoms : List (PtModel.Atom × α)) (nd : α) : α :=
  nd / (PtModel.massOf nm atoms / PtModel.massOf am atoms)

end Natural

/-! ## relabelling the atoms of a structure (isotope substitution at fixed counts) -/
section MapAtoms
variable {α : Type}

mutual
def mapFrag (ρ : PtModel.Atom → PtModel.Atom) : PtModel.Frag α → PtModel.Frag α
  | .atom a => .atom (ρ a)
  | .group is => .group (mapItems ρ is)
def mapItems (ρ : PtModel.Atom → PtModel.Atom) : PtModel.Items α → PtModel.Items α
  | .nil => .nil
  | .cons c f r => .cons c (mapFrag ρ f) (mapItems ρ r)
end

end MapAtoms

/-! ## index of refraction and mirror reflectivity -/
section Optics
variable {α : Type} [Add α] [Sub α] [Mul α] [Div α] [Neg α] [NatCast α] [OfNat α 0] [OfNat α 1]
  [Transc α]

/-- `1 - wavelength**2/(2*pi)*(f1 + f2*1j)*1e-6` as (re, im).  A NaN in either SLD makes the
    whole complex number NaN (the real factor is promoted to a complex before multiplying). -/
def indexOfRefraction (wavelength : α) (sld : Option α × Option α) : Option (α × α) :=
  match sld with
  | (some rho, some irho) =>
    let k := wavelength * wavelength / (((2 : Nat) : α) * Transc.pi)
    some (1 - k * rho * (((1 : Nat) : α) / ((1000000 : Nat) : α)),
          0 - k * irho * (((1 : Nat) : α) / ((1000000 : Nat) : α)))
  | _ => none

def cmul (x y : α × α) : α × α := (x.1 * y.1 - x.2 * y.2, x.1 * y.2 + x.2 * y.1)

/-- `(x.1 + i x.2)/(y.1 + i y.2)` -/
def cdiv (x y : α × α) : α × α :=
  let d := y.1 * y.1 + y.2 * y.2
  ((x.1 * y.1 + x.2 * y.2) / d, (x.2 * y.1 - x.1 * y.2) / d)

def sinT (x : α) : α := Transc.cos (x - Transc.pi / ((2 : Nat) : α))

/-- `exp(a + ib)` -/
def cexp (w : α × α) : α × α :=
  (Transc.exp w.1 * Transc.cos w.2, Transc.exp w.1 * sinT w.2)

/-- one entry of the `mirror_reflectivity` matrix.  `csqrt` is numpy's principal complex
    square root (an abstract parameter here; the theorems need only `0 ≤ re (csqrt z)`). -/
def mirrorR (csqrt : α × α → α × α) (wavelength angleDeg roughness : α) (n : α × α) : α :=
  let th := angleDeg * (Transc.pi / ((180 : Nat) : α))
  let k0 := ((2 : Nat) : α) * Transc.pi / wavelength
  let ki := k0 * sinT th
  let c := Transc.cos th
  let n2 := cmul n n
  let s := csqrt (n2.1 - c * c, n2.2)
  let kf : α × α := (k0 * s.1, k0 * s.2)
  let q := cdiv (ki - kf.1, 0 - kf.2) (ki + kf.1, kf.2)
  let g := (0 - ((2 : Nat) : α)) * ki
  let w : α × α := (g * kf.1 * (roughness * roughness), g * kf.2 * (roughness * roughness))
  let r := cmul q (cexp w)
  let a := Transc.sqrt (r.1 * r.1 + r.2 * r.2)
  a * a

/-- `mirror_reflectivity` entry including NaN propagation from the index of refraction -/
def mirrorReflectivity (csqrt : α × α → α × α) (wavelength angleDeg roughness : α)
    (n : Option (α × α)) : Option α :=
  n.map (mirrorR csqrt wavelength angleDeg roughness)

end Optics

/-! ## f0: Cromer-Mann / Waasmaier-Kirfel analytic form factor -/
section F0
variable {α : Type} [Add α] [Mul α] [Div α] [Neg α] [NatCast α] [OfNat α 0]
  [LT α] [DecidableRel (α := α) (· < ·)] [Transc α]

/-- `Σ aᵢ·exp(−bᵢ·s²)` -/
def f0sum : List (α × α) → α → α
  | [], _ => 0
  | (a, b) :: r, s2 => a * Transc.exp (-(b * s2)) + f0sum r s2

/-- `CromerMannFormula.atstol(stol)`: NaN beyond `stollimit = 6` -/
def atstol (ab : List (α × α)) (c : α) (stol : α) : Option α :=
  if ((6 : Nat) : α) < stol then none else some (f0sum ab (stol * stol) + c)

/-- `fxrayatq`: `stol = Q/(4π)` -/
def f0 (ab : List (α × α)) (c : α) (Q : α) : Option α :=
  atstol ab c (Q / (((4 : Nat) : α) * Transc.pi))

end F0

/-- coefficients of one generated table row as numbers: `([(aᵢ, bᵢ)], c)` -/
def rowCoeffs {α : Type} [Div α] [NatCast α] [IntCast α] (scale : Nat) (a b : List Int) (c : Int) :
    List (α × α) × α :=
  ((a.zip b).map fun p => (((p.1 : Int) : α) / ((scale : Nat) : α), ((p.2 : Int) : α) / ((scale : Nat) : α)),
   ((c : Int) : α) / ((scale : Nat) : α))

/-! ## `fxrayatstol`: which table entry an (element symbol, charge) pair resolves to -/

/-- `s.rstrip(set)` -/
def rstripSet (set : List Char) (s : List Char) : List Char :=
  (s.reverse.dropWhile fun c => set.contains c).reverse

/-- `"%+i" % q` -/
def fmtPlusI (q : Int) : List Char :=
  (if q < 0 then '-' else '+') :: (Nat.toDigits 10 q.natAbs)

/-- the lookup symbol `smbl` of `fxrayatstol(symbol, stol, charge)` -/
def resolveSymbol (symbol : List Char) (charge : Option Int) : List Char :=
  match charge with
  | some q =>
    let s := rstripSet ['0', '1', '2', '3', '4', '5', '6', '7', '8', '+', '-'] symbol
    if q ≠ 0 then s ++ (fmtPlusI q).reverse else s
  | none =>
    match symbol.reverse with
    | c :: rest =>
      if (c == '+' || c == '-') && !((rest.head?.map Char.isDigit).getD false)
      then rest.reverse ++ ['1', c] else symbol
    | [] => symbol

end PtModel.Xray
