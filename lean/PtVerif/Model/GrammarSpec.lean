import PtVerif.Model.Grammar
/-!
# The documented formula grammar as a type of derivations (doc/sphinx/guide/formula_grammar.rst)

```
compound   :: group (separator group)* density?
group      :: count element+ | '(' formula ')' count
element    :: symbol isotope? ion? count?
symbol     :: [A-Z][a-z]*          isotope :: '[' number ']'      ion :: '{' number? [+-] '}'
density    :: '@' count            count   :: number | fraction
number     :: [1-9][0-9]*          fraction :: ([1-9][0-9]* | 0)? '.' [0-9]*
separator  :: space? '+'? space?
```

A derivation records every token as written, including the blanks the implementation tolerates
(before a symbol, inside `[ ]` / `{ }`, around parentheses, before `@`, before `n`/`i`).
`text` is its yield; `items T` is the nested structure it denotes in table `T` (`none` when it
names a symbol, isotope or charge the table does not define); `den` is the documented reading
of the composition: *a count multiplies everything in its group and repeated atoms add*.

The grammar as documented is ambiguous (`CaCO3 6H2O` / `CaCO36H2O`, `2H2 O`); `canon` states the
side conditions under which a derivation is the one the greedy loops of the parser take:
* a group that directly follows the previous token (empty separator) does not open with a count
  (the digits would belong to the previous count);
* an implicit group that follows an implicit group after a blank-only or empty separator opens
  with a count (otherwise its elements belong to the previous group);
* blanks after a parenthesised group without a count belong to the group, and what follows does
  not open with a count;
* blanks before a group that opens with a count are only allowed where a separator or `(` owns
  them.
-/
namespace PtModel.Grammar
open PtModel

/-! ## tokens -/

/-- `[1-9][0-9]*` -/
def okWhole : List Char → Bool
  | d :: ds => isDig d && d.toNat != 48 && ds.all isDig
  | [] => false

def allWs (b : List Char) : Bool := b.all isWs

/-- a count as written: absent, `number`, or `fraction` (integer digits, fraction digits) -/
inductive CntTok where
  | none
  | whole (ds : List Char)
  | fract (i f : List Char)
deriving DecidableEq, Repr

def CntTok.ok : CntTok → Bool
  | .none => true
  | .whole ds => okWhole ds
  | .fract i f => (i.isEmpty || i == ['0'] || okWhole i) && f.all isDig && !(i.isEmpty && f.isEmpty)

def CntTok.text : CntTok → List Char
  | .none => []
  | .whole ds => ds
  | .fract i f => i ++ '.' :: f

/-- the value of the token: absent = 1 -/
def CntTok.val : CntTok → Cnt
  | .none => Cnt.one
  | .whole ds => ⟨natOf ds, 0⟩
  | .fract i f => ⟨natOf (i ++ f), f.length⟩

def CntTok.isNone : CntTok → Bool
  | .none => true
  | _ => false

/-- `'[' blanks number blanks ']'` -/
structure IsoTok where
  b1 : List Char
  ds : List Char
  b2 : List Char
deriving DecidableEq, Repr

/-- `'{' blanks number? sign blanks '}'` -/
structure IonTok where
  b1 : List Char
  mag : List Char
  neg : Bool
  b2 : List Char
deriving DecidableEq, Repr

def IsoTok.ok (t : IsoTok) : Bool := allWs t.b1 && okWhole t.ds && allWs t.b2
def IonTok.ok (t : IonTok) : Bool := allWs t.b1 && (t.mag.isEmpty || okWhole t.mag) && allWs t.b2
def IsoTok.text (t : IsoTok) : List Char := '[' :: (t.b1 ++ (t.ds ++ (t.b2 ++ [']'])))
def IonTok.text (t : IonTok) : List Char :=
  '{' :: (t.b1 ++ (t.mag ++ ((if t.neg then '-' else '+') :: (t.b2 ++ ['}']))))

/-- `element :: symbol isotope? ion? count?` with the blanks before the symbol -/
structure Elem where
  pre : List Char
  sym : List Char
  iso : Option IsoTok
  ion : Option IonTok
  cnt : CntTok
deriving DecidableEq, Repr

def isoOkOpt : Option IsoTok → Bool
  | some t => t.ok
  | none => true

def ionOkOpt : Option IonTok → Bool
  | some t => t.ok
  | none => true

def Elem.ok (e : Elem) : Bool :=
  allWs e.pre && symOK e.sym && isoOkOpt e.iso && ionOkOpt e.ion && e.cnt.ok

def optText {α : Type} (f : α → List Char) : Option α → List Char
  | some t => f t
  | none => []

def Elem.text (e : Elem) : List Char :=
  e.pre ++ (e.sym ++ (optText IsoTok.text e.iso ++ (optText IonTok.text e.ion ++ e.cnt.text)))

def isoNumOpt : Option IsoTok → Nat
  | some t => natOf t.ds
  | none => 0

def IonTok.charge (t : IonTok) : Int :=
  if t.neg then -(((if t.mag.isEmpty then 1 else natOf t.mag : Nat)) : Int)
  else (((if t.mag.isEmpty then 1 else natOf t.mag : Nat)) : Int)

def chargeOpt : Option IonTok → Int
  | some t => t.charge
  | none => 0

/-- the mass number written (0: none) -/
def Elem.isoNum (e : Elem) : Nat := isoNumOpt e.iso

/-- the charge written (0: none; a bare sign is ±1) -/
def Elem.charge (e : Elem) : Int := chargeOpt e.ion

/-- the atom the element names in table `T`; `none`: the table does not define the symbol, the
    isotope (D and T take no isotope tag) or the charge -/
def Elem.atom (T : Table) (e : Elem) : Option Atom :=
  match T.lookup e.sym with
  | none => none
  | some ent =>
    if (e.isoNum = 0 ∨ (ent.alias = 0 ∧ e.isoNum ∈ ent.isos)) ∧ (e.charge = 0 ∨ e.charge ∈ ent.ions)
    then some ⟨ent.z, if e.isoNum = 0 then ent.alias else e.isoNum, e.charge⟩
    else none

/-- `separator :: space? '+'? space?` -/
structure Sep where
  b1 : List Char
  plus : Bool
  b2 : List Char
deriving DecidableEq, Repr

def Sep.text (s : Sep) : List Char := s.b1 ++ (if s.plus then '+' :: s.b2 else s.b2)
def Sep.ok (s : Sep) : Bool := allWs s.b1 && allWs s.b2 && (s.plus || s.b2.isEmpty)
def Sep.isEmpty (s : Sep) : Bool := s.b1.isEmpty && !s.plus && s.b2.isEmpty

/-! ## groups and composites -/

mutual
/-- `group :: count element+ | '(' formula ')' count` -/
inductive Group where
  | implicit (lead : CntTok) (els : List Elem)
  | explicit (b0 b1 : List Char) (inner : Comp) (b2 b3 : List Char) (cnt : CntTok)
/-- `group (separator group)*` -/
inductive Comp where
  | one (g : Group)
  | more (g : Group) (sep : Sep) (rest : Comp)
end

def elemsText : List Elem → List Char
  | [] => []
  | e :: r => e.text ++ elemsText r

mutual
def Group.text : Group → List Char
  | .implicit lead els => lead.text ++ elemsText els
  | .explicit b0 b1 inner b2 b3 cnt =>
    b0 ++ ('(' :: (b1 ++ (inner.text ++ (b2 ++ (')' :: (b3 ++ cnt.text))))))
def Comp.text : Comp → List Char
  | .one g => g.text
  | .more g sep rest => g.text ++ (sep.text ++ rest.text)
end

/-- the `(count, atom)` pairs of an element run -/
def elemsItems (T : Table) : List Elem → Option (Items Cnt)
  | [] => some .nil
  | e :: r =>
    match e.atom T, elemsItems T r with
    | some x, some fs => some (.cons e.cnt.val (.atom x) fs)
    | _, _ => none

mutual
/-- the structure a group denotes: `fragment if count == 1 else (count, fragment)` -/
def Group.items (T : Table) : Group → Option (Items Cnt)
  | .implicit lead els =>
    match elemsItems T els with
    | some fs => some (wrap lead.val fs)
    | none => none
  | .explicit _ _ inner _ _ cnt =>
    match inner.items T with
    | some fs => some (wrap cnt.val fs)
    | none => none
def Comp.items (T : Table) : Comp → Option (Items Cnt)
  | .one g => g.items T
  | .more g _ rest =>
    match g.items T, rest.items T with
    | some a, some b => some (a.append b)
    | _, _ => none
end

/-! ## the documented reading of the composition -/

def Cnt.toRat (c : Cnt) : Rat := (c.num : Rat) / ((10 ^ c.dec : Nat) : Rat)

/-- count of atom `a` in an element run -/
def elemsDen (T : Table) (a : Atom) : List Elem → Rat
  | [] => 0
  | e :: r => (if e.atom T = some a then e.cnt.val.toRat else 0) + elemsDen T a r

mutual
/-- a count multiplies everything in its group … -/
def Group.den (T : Table) (a : Atom) : Group → Rat
  | .implicit lead els => elemsDen T a els * lead.val.toRat
  | .explicit _ _ inner _ _ cnt => inner.den T a * cnt.val.toRat
/-- … and repeated atoms add -/
def Comp.den (T : Table) (a : Atom) : Comp → Rat
  | .one g => g.den T a
  | .more g _ rest => g.den T a + rest.den T a
end

/-! ## canonical derivations: the reading the greedy loops take -/

def Group.leadNone : Group → Bool
  | .implicit lead _ => lead.isNone
  | .explicit .. => true

def Group.isImplicit : Group → Bool
  | .implicit .. => true
  | .explicit .. => false

/-- a parenthesised group without a count -/
def Group.bare : Group → Bool
  | .implicit .. => false
  | .explicit _ _ _ _ _ cnt => cnt.isNone

def Comp.first : Comp → Group
  | .one g => g
  | .more g _ _ => g

def Comp.lastBare : Comp → Bool
  | .one g => g.bare
  | .more _ _ rest => rest.lastBare

/-- how group `g`, separator `s` and the next group `nxt` may meet -/
def link (g : Group) (s : Sep) (nxt : Group) : Bool :=
  (!s.isEmpty || nxt.leadNone) &&
  (s.plus || !g.bare || (s.isEmpty && nxt.leadNone)) &&
  (!g.bare || s.b1.isEmpty) &&
  (s.plus || !g.isImplicit || !nxt.isImplicit || !nxt.leadNone)

def elemsOk : List Elem → Bool
  | [] => true
  | e :: r => e.ok && elemsOk r

mutual
def Group.canon : Group → Bool
  | .implicit lead els =>
    lead.ok && elemsOk els &&
    (match els with
     | [] => false
     | e :: _ => !lead.isNone || e.pre.isEmpty)
  | .explicit b0 b1 inner b2 b3 cnt =>
    b0.isEmpty && allWs b1 && allWs b2 && allWs b3 && cnt.ok && inner.canon &&
    (!inner.lastBare || b2.isEmpty)
def Comp.canon : Comp → Bool
  | .one g => g.canon
  | .more g sep rest => g.canon && sep.ok && link g sep rest.first && rest.canon
end

/-! ## the whole string -/

/-- `'@' count` with an optional `n` / `i` -/
structure DensTok where
  b0 : List Char
  cnt : CntTok
  b1 : List Char
  tag : Option Bool
deriving DecidableEq, Repr

def DensTok.tagText (d : DensTok) : List Char :=
  match d.tag with
  | some true => d.b1 ++ ['n']
  | some false => d.b1 ++ ['i']
  | none => []

def DensTok.text (d : DensTok) : List Char := d.b0 ++ ('@' :: (d.cnt.text ++ d.tagText))

def DensTok.ok (d : DensTok) : Bool := allWs d.b0 && allWs d.b1 && d.cnt.ok && !d.cnt.isNone

def DensTok.val (d : DensTok) : Dens :=
  match d.tag with
  | some true => .nat d.cnt.val
  | _ => .iso d.cnt.val

/-- a formula string: blanks only, or blanks, a composite, an optional density tag, blanks -/
inductive Compound where
  | empty (b : List Char)
  | full (lead : List Char) (comp : Comp) (dens : Option DensTok) (trail : List Char)

def Compound.text : Compound → List Char
  | .empty b => b
  | .full lead comp dens trail => lead ++ (comp.text ++ (optText DensTok.text dens ++ trail))

def Compound.canon : Compound → Bool
  | .empty b => allWs b
  | .full lead comp dens trail =>
    allWs lead && allWs trail && comp.canon && (lead.isEmpty || comp.first.leadNone) &&
    (match dens with
     | some d => d.ok && (!comp.lastBare || d.b0.isEmpty)
     | none => !comp.lastBare || trail.isEmpty)

/-- what the string denotes in table `T`: structure and density tag; `none` = it names something
    the table does not define -/
def Compound.result (T : Table) : Compound → Option (Items Cnt × Option Dens)
  | .empty _ => some (.nil, none)
  | .full _ comp dens _ =>
    match comp.items T with
    | some fs => some (fs, dens.map DensTok.val)
    | none => none

end PtModel.Grammar
