import PtVerif.Num
import PtVerif.Model.Formula
import PtVerif.Generated.Constants
import PtVerif.Generated.NeutronConsts
/-!
# Neutron scattering calculations (nsf.py, fasta.py; no Mathlib)

Mirrors the code that exists, in the code's order of operations, polymorphic in the number
type `α` (`Float`: executable, run by `ptdriver neutron` against the real code; `ℝ`: the
theorems of C03, C04, C16, C17).

* complex numbers are pairs `(re, im)`;
* numpy broadcasting over a wavelength *vector* is modelled as the pointwise application of the
  scalar arithmetic (`…V` functions); the decisions the code takes *once per call* (the
  `has_sld` loop, the vacuum test) are taken once in the vector models too;
* where the real code returns `(None, None, None)`, returns the vacuum tuple or raises, the
  model has an explicit constructor (`Outcome.missing`, `Outcome.vacuum`, `Option`).

Source anchors are given with each definition (nsf.py line numbers of the pinned tree).
-/
namespace PtModel.Neutron
open PtModel

/-- complex numbers as pairs `(re, im)` -/
abbrev Cx (α : Type) := α × α

/-- numeric literal `n` of the source (an int, or a float with an integral value) -/
@[reducible] def lit {α : Type} [NatCast α] (n : Nat) : α := (n : α)

section Basic
variable {α : Type} [Add α] [Sub α] [Mul α] [Div α] [Neg α] [OfNat α 0] [OfNat α 1] [NatCast α]
  [BEq α] [LT α] [DecidableRel (α := α) (· < ·)] [Transc α]

def Cx.add (a b : Cx α) : Cx α := (a.1 + b.1, a.2 + b.2)
/-- `quantity * b_ck` (float × complex) -/
def Cx.smul (q : α) (b : Cx α) : Cx α := (q * b.1, q * b.2)
/-- `b_c /= num_atoms` (complex / float) -/
def Cx.divS (b : Cx α) (n : α) : Cx α := (b.1 / n, b.2 / n)
/-- numpy `abs` of a complex number (hypot) -/
def cabs (b : Cx α) : α := Transc.sqrt (b.1 * b.1 + b.2 * b.2)

/-! ## energy / wavelength / velocity (nsf.py 179-247) -/

/-- `neutron_wavelength(energy) = sqrt(ENERGY_FACTOR / energy)` -/
def neutronWavelength (energy : α) : α := Transc.sqrt (PtGen.ENERGY_FACTOR / energy)
/-- `neutron_wavelength_from_velocity(v) = VELOCITY_FACTOR / v` -/
def neutronWavelengthFromVelocity (velocity : α) : α := PtGen.VELOCITY_FACTOR / velocity
/-- `neutron_energy(wavelength) = ENERGY_FACTOR / wavelength**2` -/
def neutronEnergy (wavelength : α) : α := PtGen.ENERGY_FACTOR / (wavelength * wavelength)

/-! ## `numpy.interp` on an increasing grid, end-clamped (complex values) -/

/-- a non-empty table of nodes `(x, y)`; `nsf_table = (wavelength[::-1], xs[::-1])` -/
structure Grid (α : Type) where
  first : α × Cx α
  rest : List (α × Cx α)

def Grid.toList (g : Grid α) : List (α × Cx α) := g.first :: g.rest

/-- numpy's linear piece between two nodes: `slope*(x - xp[j]) + fp[j]`, real and imaginary
    parts separately -/
def lerp (x0 : α) (y0 : Cx α) (x1 : α) (y1 : Cx α) (x : α) : Cx α :=
  (((y1.1 - y0.1) / (x1 - x0)) * (x - x0) + y0.1, ((y1.2 - y0.2) / (x1 - x0)) * (x - x0) + y0.2)

/-- search for the last node `≤ x`, knowing `x0 ≤ x`; `j == len-1 → fp[j]`,
    `xp[j] == x → fp[j]` (the node rule), otherwise the linear piece -/
def interpGo (x0 : α) (y0 : Cx α) : List (α × Cx α) → α → Cx α
  | [], _ => y0
  | (x1, y1) :: r, x =>
    if x < x1 then (if x == x0 then y0 else lerp x0 y0 x1 y1 x) else interpGo x1 y1 r x

/-- `np.interp(x, xp, fp)` with the default `left = fp[0]`, `right = fp[-1]` -/
def interpClamp (g : Grid α) (x : α) : Cx α :=
  if x < g.first.1 then g.first.2 else interpGo g.first.1 g.first.2 g.rest x

/-! ## energy_dependent_init (nsf.py 517-536) -/

/-- one table of `ENERGY_DEPENDENT_TABLES`: rows `(energy eV, Re, Im)`;
    `wavelength = neutron_wavelength(energy*1000)`, both arrays reversed -/
def edNodes (rows : List (α × α × α)) : List (α × Cx α) :=
  (rows.map fun r => (neutronWavelength (r.1 * lit 1000), (r.2.1, r.2.2))).reverse

def gridOfList : List (α × Cx α) → Option (Grid α)
  | [] => none
  | n :: r => some ⟨n, r⟩

/-- natural Lu: `(bc_175*Lu175.abundance + bc_176*Lu176.abundance)/100.0` on the Lu-176 grid -/
def luNatural (bc175 : Cx α) (ab175 ab176 : α) (t176 : List (α × Cx α)) : List (α × Cx α) :=
  t176.map fun n => (n.1, Cx.divS (Cx.add (Cx.smul ab175 bc175) (Cx.smul ab176 n.2)) (lit 100))

/-! ## the neutron record of an atom (nsf.py 304-456, 538-590) -/

/-- the fields of a `Neutron` record the calculations read.  A record exists in the model only
    for atoms whose `has_sld()` is true (`b_c` and `_number_density` are not `None`). -/
structure NRec (α : Type) where
  bc : α
  absorption : α
  total : α
  numberDensity : α
  table : Option (Grid α)

/-- nsf.init: `b_c_complex = b_c + 1j*(-absorption/(2000*ABSORPTION_WAVELENGTH))` -/
def NRec.bcComplex (r : NRec α) : Cx α :=
  (r.bc, (-r.absorption) / (lit 2000 * PtGen.ABSORPTION_WAVELENGTH))

/-- `_4PI_100` -/
def fourPi100 : α := PtGen.FOUR_PI_100

/-- `Neutron.scattering_by_wavelength` for a scalar wavelength (nsf.py 430-456):
    `(b_c, sigma_s)` -/
def scatteringByWavelength (r : NRec α) (w : α) : Cx α × α :=
  match r.table with
  | none => (r.bcComplex, r.total)
  | some g =>
    let b := interpClamp g w
    (b, fourPi100 * (cabs b * cabs b))

/-! ## `_calculate_scattering` (nsf.py 936-983) -/

structure Scat (α : Type) where
  sldRe : α
  sldIm : α
  sldInc : α
  coh : α
  abs : α
  inc : α
  pen : α

/-- `np.maximum(x, 0.)` -/
def maxZero (x : α) : α := if 0 < x then x else 0

def calculateScattering (numberDensity wavelength : α) (b : Cx α) (sigS : α) : Scat α :=
  let k : α := lit 10 * numberDensity
  let sldRe := k * b.1
  let sldIm := Transc.abs (k * b.2)
  let sigC := fourPi100 * (cabs b * cabs b)
  let sigI := maxZero (sigS - sigC)
  let bI := Transc.sqrt (sigI / fourPi100)
  let sldInc := numberDensity * bI * lit 10
  let sigA := lit 2000 * Transc.abs b.2 * wavelength
  let totalXs := numberDensity * sigS
  let cohXs := numberDensity * sigC
  let absXs := numberDensity * sigA
  let incXs := numberDensity * sigI
  let penetration := 1 / (absXs + totalXs)
  ⟨sldRe, sldIm, sldInc, cohXs, absXs, incXs, penetration⟩

/-! ## the table the calculations see -/

/-- per-atom data served by the periodic table: the neutron record of `(Z, A)` (`none`: no
    record or `has_sld()` false), the mass of the un-ionised element/isotope, the electron mass
    (ions: `Ion.mass`, the neutron record of an ion is that of its element/isotope). -/
structure Tbl (α : Type) where
  recOf : Nat → Nat → Option (NRec α)
  mass : Nat → Nat → α
  me : α

def Tbl.neutron (t : Tbl α) (x : Atom) : Option (NRec α) := t.recOf x.z x.a
def Tbl.atomMass [IntCast α] (t : Tbl α) (x : Atom) : α := PtModel.atomMass t.mass t.me x

/-! ## `neutron_scattering` (nsf.py 646-933): composition sums, number density -/

/-- the four running sums of the loop over `compound.atoms.items()` -/
structure Acc (α : Type) where
  molarMass : α
  numAtoms : α
  bc : Cx α
  sigS : α

def Acc.zero : Acc α := ⟨0, 0, (0, 0), 0⟩

variable [IntCast α]

/-- one iteration; `none` = `return None, None, None` (an atom without SLD) -/
def sumStep (t : Tbl α) (w : α) (acc : Option (Acc α)) (e : Atom × α) : Option (Acc α) :=
  match acc, t.neutron e.1 with
  | some a, some r =>
    let bs := scatteringByWavelength r w
    some ⟨a.molarMass + t.atomMass e.1 * e.2, a.numAtoms + e.2,
          Cx.add a.bc (Cx.smul e.2 bs.1), a.sigS + e.2 * bs.2⟩
  | _, _ => none

inductive Outcome (α : Type) where
  /-- `(None, None, None)` -/
  | missing
  /-- `(0, 0, 0), (0, 0, 0), inf` -/
  | vacuum
  | ok (s : Scat α)

/-- `cell_volume = (molar_mass/density)/avogadro_number*1e24`;
    `number_density = num_atoms / cell_volume` -/
def cellVolume (molarMass density : α) : α :=
  (molarMass / density) / PtGen.avogadro_number * lit (10 ^ 24)

def finish (a : Acc α) (density w : α) : Outcome α :=
  if a.molarMass * density == 0 then .vacuum else
  let b := Cx.divS a.bc a.numAtoms
  let s := a.sigS / a.numAtoms
  let n := a.numAtoms / cellVolume a.molarMass density
  .ok (calculateScattering n w b s)

/-- `neutron_scattering(compound, density=, wavelength=)` from `compound.atoms` and
    `compound.density` on, scalar wavelength -/
def neutronScattering (t : Tbl α) (atoms : List (Atom × α)) (density w : α) : Outcome α :=
  match atoms.foldl (sumStep t w) (some Acc.zero) with
  | none => .missing
  | some a => finish a density w

/-- `energy=` : `wavelength = neutron_wavelength(energy)` -/
def neutronScatteringE (t : Tbl α) (atoms : List (Atom × α)) (density energy : α) : Outcome α :=
  neutronScattering t atoms density (neutronWavelength energy)

/-- neither `energy=` nor `wavelength=`: `wavelength = ABSORPTION_WAVELENGTH` -/
def neutronScatteringDefault (t : Tbl α) (atoms : List (Atom × α)) (density : α) : Outcome α :=
  neutronScattering t atoms density PtGen.ABSORPTION_WAVELENGTH

/-- `neutron_sld = neutron_scattering(...)[0]`: `none` = `None`; the vacuum tuple is `(0,0,0)` -/
def Outcome.sld : Outcome α → Option (α × α × α)
  | .missing => none
  | .vacuum => some (0, 0, 0)
  | .ok s => some (s.sldRe, s.sldIm, s.sldInc)

def neutronSld (t : Tbl α) (atoms : List (Atom × α)) (density w : α) : Option (α × α × α) :=
  (neutronScattering t atoms density w).sld

/-! ## `Spec`: the equations of the `neutron_scattering` docstring, written from the text

Nothing here refers to the code's running sums, to `b_c_complex`, `_4PI_100` or
`_calculate_scattering`; constants are written as the docstring writes them. -/
namespace Spec

/-- `Σ` -/
def sum : List α → α
  | [] => 0
  | x :: r => x + sum r

/-- "Im(b_ck) = −σ_ak / (1000·2λ)", λ = 1.798 Å -/
def imB (sigmaA : α) : α := -(sigmaA / (lit 1000 * lit 2 * PtGen.ABSORPTION_WAVELENGTH))

/-- scattering length and total cross section of one atom: tabulated `b_c`, `σ_a`, `σ_s`; for the
    energy-dependent rare earths "b_c is interpolated from the table values, with the end points
    used for values outside the tabulated range" and "the total scattering is estimated from b" -/
def atom (r : NRec α) (w : α) : Cx α × α :=
  match r.table with
  | none => ((r.bc, imB r.absorption), r.total)
  | some g =>
    let b := interpClamp g w
    (b, lit 4 * Transc.pi * (b.1 * b.1 + b.2 * b.2) / lit 100)

/-- the per-atom values a compound sums over (an atom without record contributes nothing – the
    theorems assume every atom has one) -/
def atomOf (t : Tbl α) (w : α) (x : Atom) : Cx α × α :=
  match t.neutron x with
  | some r => atom r w
  | none => ((0, 0), 0)

variable (t : Tbl α) (atoms : List (Atom × α)) (density w : α)

/-- "m = Σ n_k m_k" -/
def molarMass : α := sum (atoms.map fun e => e.2 * t.atomMass e.1)
/-- "Σ n_k" -/
def count : α := sum (atoms.map fun e => e.2)
/-- "V = m/ρ · 1/N_A · (10⁸)³" -/
def cellVolume : α :=
  molarMass t atoms / density * (1 / PtGen.avogadro_number) * (lit (10 ^ 8) * lit (10 ^ 8) * lit (10 ^ 8))
/-- "N = Σ n_k / V" -/
def numberDensity : α := count atoms / cellVolume t atoms density
/-- "Re(b_c) = Σ n_k Re(b_ck) / Σ n_k" -/
def reB : α := sum (atoms.map fun e => e.2 * (atomOf t w e.1).1.1) / count atoms
/-- "Im(b_c) = Σ n_k Im(b_ck) / Σ n_k" -/
def imBc : α := sum (atoms.map fun e => e.2 * (atomOf t w e.1).1.2) / count atoms
/-- "σ_s = Σ n_k σ_sk / Σ n_k" -/
def sigmaS : α := sum (atoms.map fun e => e.2 * (atomOf t w e.1).2) / count atoms
/-- "σ_c = 4π |Re(b_c) + i Im(b_c)|² / 100" -/
def sigmaC : α :=
  lit 4 * Transc.pi * (reB t atoms w * reB t atoms w + imBc t atoms w * imBc t atoms w) / lit 100
/-- "σ_a = −1000·4π ⟨Im(b_c)⟩ / k for k = 2π/λ" -/
def sigmaA : α := -(lit 1000 * lit 4 * Transc.pi * imBc t atoms w) / (lit 2 * Transc.pi / w)
/-- "σ_i = σ_s − σ_c", never negative (the incoherent cross section is clipped at zero) -/
def sigmaI : α :=
  let d := sigmaS t atoms w - sigmaC t atoms w
  if d < 0 then 0 else d
/-- "b_i = √(100 σ_i / (4π))" -/
def bI : α := Transc.sqrt (lit 100 * sigmaI t atoms w / (lit 4 * Transc.pi))

/-- the seven documented results:
    ρ_re = 10 N Re b_c, ρ_im = −10 N Im b_c, ρ_inc = 10 N b_i,
    Σ_coh = N σ_c, Σ_abs = N σ_a, Σ_inc = N σ_i, t_u = 1/(Σ_s + Σ_abs) -/
def scattering : Scat α :=
  let n := numberDensity t atoms density
  { sldRe := lit 10 * n * reB t atoms w
    sldIm := -(lit 10 * n * imBc t atoms w)
    sldInc := lit 10 * n * bI t atoms w
    coh := n * sigmaC t atoms w
    abs := n * sigmaA t atoms w
    inc := n * sigmaI t atoms w
    pen := 1 / (n * sigmaS t atoms w + n * sigmaA t atoms w) }

end Spec

/-! ### vector wavelength: numpy broadcasting is the pointwise application of the same
arithmetic; `has_sld` and the vacuum test are evaluated once per call -/

inductive OutcomeV (α : Type) where
  | missing
  | vacuum
  | ok (s : List (Scat α))

/-- `molar_mass` of the loop (does not depend on the wavelength) -/
def molarMassOf (t : Tbl α) (atoms : List (Atom × α)) : α :=
  atoms.foldl (fun s e => s + t.atomMass e.1 * e.2) 0

/-- the arithmetic of one wavelength entry, for a compound whose atoms all have records;
    atoms without record contribute nothing (never reached: guarded by the `has_sld` loop) -/
def sumsStep (t : Tbl α) (w : α) (a : Acc α) (e : Atom × α) : Acc α :=
  match t.neutron e.1 with
  | some r =>
    let bs := scatteringByWavelength r w
    ⟨a.molarMass + t.atomMass e.1 * e.2, a.numAtoms + e.2,
     Cx.add a.bc (Cx.smul e.2 bs.1), a.sigS + e.2 * bs.2⟩
  | none => a

def sumsAt (t : Tbl α) (w : α) (atoms : List (Atom × α)) : Acc α :=
  atoms.foldl (sumsStep t w) Acc.zero

def entryAt (t : Tbl α) (atoms : List (Atom × α)) (density w : α) : Scat α :=
  let a := sumsAt t w atoms
  calculateScattering (a.numAtoms / cellVolume a.molarMass density) w
    (Cx.divS a.bc a.numAtoms) (a.sigS / a.numAtoms)

def neutronScatteringV (t : Tbl α) (atoms : List (Atom × α)) (density : α) (ws : List α) :
    OutcomeV α :=
  if atoms.any (fun e => (t.neutron e.1).isNone) then .missing
  else if molarMassOf t atoms * density == 0 then .vacuum
  else .ok (ws.map (entryAt t atoms density))

/-- the `i`-th entry of a vector result (`None`s and the vacuum tuple are not arrays) -/
def OutcomeV.get? : OutcomeV α → Nat → Option (Outcome α)
  | .missing, _ => some .missing
  | .vacuum, _ => some .vacuum
  | .ok l, i => (l[i]?).map .ok

/-! ## `Neutron.scattering` / `Neutron.sld` of a bare element or isotope (nsf.py 458-515) -/

/-- `number_density = self._number_density*1e-24`, then `_calculate_scattering` -/
def bareScattering (r : NRec α) (w : α) : Scat α :=
  let n := r.numberDensity / lit (10 ^ 24)
  let bs := scatteringByWavelength r w
  calculateScattering n w bs.1 bs.2

/-- `atom.neutron.scattering(wavelength=)`: `none` = `(None, None, None)` -/
def atomScattering (t : Tbl α) (z a : Nat) (w : α) : Option (Scat α) :=
  (t.recOf z a).map fun r => bareScattering r w

/-- density.py `number_density(element) = (element.density/element.mass)*avogadro_number` -/
def numberDensityOf (rhoEl mEl : α) : α := (rhoEl / mEl) * PtGen.avogadro_number
/-- density.py `density(isotope) = element._density * (iso.mass/element.mass)` -/
def isotopeDensity (rhoEl mIso mEl : α) : α := rhoEl * (mIso / mEl)

/-! ## `neutron_composite_sld` (nsf.py 1134-1230) -/

/-- `_sum_piece`: `(num_atoms, molar_mass, b_c, sigma_s)`; `none` = `return None` on an atom
    whose `has_sld()` is false (fixes/composite-missing-data.patch: the same test as in
    `neutron_scattering`) -/
def pieceStep (t : Tbl α) (w : α) (acc : Option (Acc α)) (e : Atom × α) : Option (Acc α) :=
  match acc, t.neutron e.1 with
  | some a, some r =>
    let bs := scatteringByWavelength r w
    some ⟨a.molarMass + t.atomMass e.1 * e.2, a.numAtoms + e.2,
          Cx.add a.bc (Cx.smul e.2 bs.1), a.sigS + e.2 * bs.2⟩
  | _, _ => none

def sumPiece (t : Tbl α) (w : α) (atoms : List (Atom × α)) : Option (Acc α) :=
  atoms.foldl (pieceStep t w) (some Acc.zero)

/-- `np.sum(weights*parts)` -/
def dotSum (ws ps : List α) : α := (List.zipWith (· * ·) ws ps).foldl (· + ·) 0
def dotSumC (ws : List α) (ps : List (Cx α)) : Cx α :=
  (List.zipWith Cx.smul ws ps).foldl Cx.add (0, 0)

inductive CompOut (α : Type) where
  /-- `(None, None, None)`: the SLD of some material is unknown -/
  | missing
  /-- `return 0, 0, 0` -/
  | zeros
  | ok (re im inc : α)

/-- `_compute(weights, density)` on the precomputed parts (scalar wavelength) -/
def compositeCompute (parts : List (Acc α)) (weights : List α) (density : α) : CompOut α :=
  let molarMass := dotSum weights (parts.map (·.molarMass))
  let numAtoms := dotSum weights (parts.map (·.numAtoms))
  let bc := dotSumC weights (parts.map (·.bc))
  let sigS := dotSum weights (parts.map (·.sigS))
  if molarMass * density == 0 then .zeros else
  let cv := (molarMass / density) / PtGen.avogadro_number * lit (10 ^ 24)
  let n := numAtoms / cv
  let b := Cx.divS bc numAtoms
  let s := sigS / numAtoms
  -- "duplicated from _calculate_scattering"
  let k : α := lit 10 * n
  let sldRe := k * b.1
  let sldIm := Transc.abs (k * b.2)
  let sigC := fourPi100 * (cabs b * cabs b)
  let sigI := maxZero (s - sigC)
  let bI := Transc.sqrt (sigI / fourPi100)
  let sldInc := n * bI * lit 10
  .ok sldRe sldIm sldInc

/-- `neutron_composite_sld(materials, wavelength)(weights, density)` -/
def compositeSld (t : Tbl α) (materials : List (List (Atom × α))) (w : α) (weights : List α)
    (density : α) : CompOut α :=
  match materials.mapM (sumPiece t w) with
  | none => .missing
  | some parts => compositeCompute parts weights density

inductive CompOutV (α : Type) where
  | missing
  | zeros
  | ok (s : List (α × α × α))

/-- the numbers of a result (`missing` has none; never used on it) -/
def CompOut.tuple : CompOut α → α × α × α
  | .missing => (0, 0, 0)
  | .zeros => (0, 0, 0)
  | .ok a b c => (a, b, c)

/-- vector wavelength: `is_multi`, `weights[:, None]`, `np.sum(…, axis=0)` – pointwise in the
    wavelength; the zero test is on scalars and taken once -/
def compositeSldV (t : Tbl α) (materials : List (List (Atom × α))) (ws : List α) (weights : List α)
    (density : α) : CompOutV α :=
  if materials.any (fun m => m.any fun e => (t.neutron e.1).isNone) then .missing else
  let molarMass := dotSum weights (materials.map (molarMassOf t))
  if molarMass * density == 0 then .zeros else
  .ok (ws.map fun w =>
    (compositeCompute (materials.map (sumsAt t w)) weights density).tuple)

/-- the `i`-th entry of a vector result -/
def CompOutV.get? : CompOutV α → Nat → Option (CompOut α)
  | .missing, _ => some .missing
  | .zeros, _ => some .zeros
  | .ok l, i => (l[i]?).map fun x => .ok x.1 x.2.1 x.2.2

end Basic

end PtModel.Neutron
