import PtVerif.Model.Density
/-!
# Mixtures (formulas.py `_mix_by_weight_pairs`, `_mix_by_volume_pairs`, and the parse
actions `convert_by_weight/volume/layer/absmass`, `convert_mixture`) — C11

A formula value is its structure plus its (possibly unknown) density.
-/
namespace PtModel

structure FVal (α : Type) where
  s : Items α
  density : Option α

section
variable {α : Type} [Add α] [Sub α] [Mul α] [Div α] [OfNat α 0] [OfNat α 1] [BEq α]
  [LT α] [DecidableRel (α := α) (· < ·)]

/-- Python's `min` over a non-empty sequence: the first minimal element -/
def minOf : List α → α
  | [] => 0
  | x :: r => r.foldl (fun m y => if y < m then y else m) x

def absOf (x : α) : α := if x < 0 then 0 - x else x

/-- one step of CPython's (≥ 3.12) float `sum()`: Neumaier-compensated addition -/
def sumStep (st : α × α) (x : α) : α × α :=
  let t := st.1 + x
  if absOf st.1 < absOf x then (t, st.2 + ((x - t) + st.1)) else (t, st.2 + ((st.1 - t) + x))

/-- `sum(xs)` of floats as CPython ≥ 3.12 computes it: running sum plus a compensation term that
    is added at the end when it is non-zero.  In exact arithmetic the compensation is always 0 and
    this is the plain sum (`sumOf_eq`). -/
def sumOf (l : List α) : α :=
  let r := l.foldl sumStep (0, 0)
  if r.2 == 0 then r.1 else r.1 + r.2

def FVal.mass (am : Atom → α) (f : FVal α) : α := massOf am f.s.atoms

/-- truthiness of `f.density` (`None` and `0.0` are false) -/
def FVal.hasDensity (f : FVal α) : Bool :=
  match f.density with
  | none => false
  | some d => !(d == 0)

def FVal.dens (f : FVal α) : α := f.density.getD 0

/-- `result += n * f` for each pair, starting from the empty formula -/
def accumulate (parts : List (α × FVal α)) : Items α :=
  parts.foldl (fun acc p => addS acc (rmulS p.1 p.2.s)) Items.nil

/-- `pairs = [(f, q) for f, q in pairs if q > 0]` -/
def kept (pairs : List (FVal α × α)) : List (FVal α × α) := pairs.filter fun p => 0 < p.2

/-- `scale = min(q/f.mass for f, q in pairs)` -/
def weightScale (am : Atom → α) (ps : List (FVal α × α)) : α :=
  minOf (ps.map fun p => p.2 / p.1.mass am)

/-- `for f, q in pairs: result += ((q/f.mass)/scale) * f` -/
def weightStruct (am : Atom → α) (ps : List (FVal α × α)) : Items α :=
  accumulate (ps.map fun p => ((p.2 / p.1.mass am) / weightScale am ps, p.1))

/-- `if all(f.density …): volume = sum(q/f.density …)/scale; result.density = result.mass/volume` -/
def weightDensity (am : Atom → α) (ps : List (FVal α × α)) : Option α :=
  if ps.all (fun p => p.1.hasDensity) then
    some (massOf am (weightStruct am ps).atoms / (sumOf (ps.map fun p => p.2 / p.1.dens) / weightScale am ps))
  else none

/-- `_mix_by_weight_pairs` -/
def mixByWeight (am : Atom → α) (pairs : List (FVal α × α)) : FVal α :=
  if (kept pairs).isEmpty then ⟨Items.nil, none⟩
  else ⟨weightStruct am (kept pairs), weightDensity am (kept pairs)⟩

/-- `scale = min(q*f.density/f.mass …)` -/
def volumeScale (am : Atom → α) (ps : List (FVal α × α)) : α :=
  minOf (ps.map fun p => p.2 * p.1.dens / p.1.mass am)

def volumeStruct (am : Atom → α) (ps : List (FVal α × α)) : Items α :=
  accumulate (ps.map fun p => ((p.2 * p.1.dens / p.1.mass am) / volumeScale am ps, p.1))

/-- `volume = sum(q for _, q in pairs)/scale; result.density = result.mass/volume` -/
def volumeDensity (am : Atom → α) (ps : List (FVal α × α)) : α :=
  massOf am (volumeStruct am ps).atoms / (sumOf (ps.map (·.2)) / volumeScale am ps)

/-- `_mix_by_volume_pairs`; `none` = `ValueError("Need the mass density of …")` -/
def mixByVolume (am : Atom → α) (pairs : List (FVal α × α)) : Option (FVal α) :=
  if (kept pairs).all (fun p => p.1.hasDensity) then
    if (kept pairs).isEmpty then some ⟨Items.nil, none⟩
    else some ⟨volumeStruct am (kept pairs), some (volumeDensity am (kept pairs))⟩
  else none

/-! ### parse actions of the mixture sub-grammars (children already evaluated) -/

variable [NatCast α]

/-- `convert_by_weight` / `convert_by_volume`: the listed percentages, the base component takes
    `100 - sum`; `none` = ValueError (negative remainder, or a missing density by volume) -/
def percentPairs (parts : List (α × FVal α)) (base : FVal α) : Option (List (FVal α × α)) :=
  let rest := ((100 : Nat) : α) - sumOf (parts.map (·.1))
  if rest < 0 then none
  else some (parts.map (fun p => (p.2, p.1)) ++ [(base, rest)])

def byWeightPercent (am : Atom → α) (parts : List (α × FVal α)) (base : FVal α) : Option (FVal α) :=
  (percentPairs parts base).map (mixByWeight am)

def byVolumePercent (am : Atom → α) (parts : List (α × FVal α)) (base : FVal α) : Option (FVal α) :=
  (percentPairs parts base).bind (mixByVolume am)

/-- `(v/total)*100` for each quantity -/
def toPercent (qs : List α) : List α :=
  let total := sumOf qs
  qs.map fun v => (v / total) * ((100 : Nat) : α)

/-- `convert_by_layer`: absolute thicknesses (already in metres); result and its `.thickness` -/
def byLayer (am : Atom → α) (parts : List (α × FVal α)) : Option (FVal α × α) :=
  let total := sumOf (parts.map (·.1))
  (mixByVolume am ((parts.map (·.2)).zip (toPercent (parts.map (·.1))))).map fun r => (r, total)

/-- quantity of one `convert_by_absmass` part in grams: a mass, or a volume in litres converted
    with the component's density (`none` = ValueError: density unknown) -/
def absMassOf (f : FVal α) (value unitFactor : α) (isVolume : Bool) : Option α :=
  if isVolume then
    match f.density with
    | none => none
    | some d => some (value * unitFactor * ((1000 : Nat) : α) * d)
  else some (value * unitFactor)

/-- `convert_by_absmass`: absolute masses in grams; result and its `.total_mass` -/
def byAbsMass (am : Atom → α) (parts : List (α × FVal α)) : FVal α × α :=
  let total := sumOf (parts.map (·.1))
  (mixByWeight am ((parts.map (·.2)).zip (toPercent (parts.map (·.1)))), total)

end
end PtModel
