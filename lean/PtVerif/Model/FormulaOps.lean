import PtVerif.Model.Formula
/-!
# Formula objects and the operations that build them (C02: "operations that return a
new formula leave their operands unchanged")

A tiny heap: object id = index into `objs`; registers are the Python variables of a
construction program.  `iadd` is the only operation that mutates an existing object.
-/
namespace PtModel

inductive Op (α : Type) where
  /-- `r = formula(<nested sequence>)` / `formula(atom)` / parsed string -/
  | new (r : Nat) (s : Items α)
  /-- `r = formula({atom: count, …})` – Hill-ordered -/
  | dict (r : Nat) (t : List (Atom × α))
  /-- `r = formula(r2)` – a new object with the same structure -/
  | copy (r r2 : Nat)
  /-- `r = r2` – a second name for the same object -/
  | same (r r2 : Nat)
  | add (r r1 r2 : Nat)
  | mul (r : Nat) (n : α) (r1 : Nat)
  | iadd (r1 r2 : Nat)
  /-- `r = r1.hill` -/
  | hill (r r1 : Nat)

structure Heap (α : Type) where
  objs : List (Items α)
  regs : List (Nat × Nat)

namespace Heap
variable {α : Type} [Add α] [Mul α] [OfNat α 0] [OfNat α 1] [BEq α]

def empty : Heap α := ⟨[], []⟩

def reg (h : Heap α) (r : Nat) : Option Nat := (h.regs.find? (·.1 = r)).map (·.2)

def obj (h : Heap α) (r : Nat) : Option (Items α) := do
  let i ← h.reg r
  h.objs[i]?

def alloc (h : Heap α) (r : Nat) (s : Items α) : Heap α :=
  ⟨h.objs ++ [s], (r, h.objs.length) :: h.regs⟩

/-- one statement; `none` = the statement names an unbound variable -/
def step (sym : Nat → Nat → Nat) (h : Heap α) : Op α → Option (Heap α)
  | .new r s => some (h.alloc r s)
  | .dict r t => some (h.alloc r (hillS sym t))
  | .copy r r2 => do let s ← h.obj r2; some (h.alloc r s)
  | .same r r2 => do let i ← h.reg r2; some ⟨h.objs, (r, i) :: h.regs⟩
  | .add r r1 r2 => do
      let s1 ← h.obj r1; let s2 ← h.obj r2
      some (h.alloc r (addS s1 s2))
  | .mul r n r1 => do let s ← h.obj r1; some (h.alloc r (rmulS n s))
  | .iadd r1 r2 => do
      let i ← h.reg r1
      let s1 ← h.objs[i]?
      let s2 ← h.obj r2
      some ⟨h.objs.set i (addS s1 s2), h.regs⟩
  | .hill r r1 => do let s ← h.obj r1; some (h.alloc r (hillS sym s.atoms))

def isIadd : Op α → Bool
  | .iadd _ _ => true
  | _ => false

end Heap
end PtModel
