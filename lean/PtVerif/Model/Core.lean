/-!
# Model of the table core (core.py 152-599, 740-775): identity of atoms

`PeriodicTable`, `Element`, `Isotope`, `Ion`, `IonSet`, the `_make_*` restorers used by
pickle / copy / deepcopy, `change_table` and `define_elements`, as a state machine over a heap of
objects.  Objects are numbered by an allocation counter (their index in `State.objs`), each
Python dictionary that caches objects is an insertion-ordered association list with
overwrite-on-assign semantics, and every operation is written the way the Python method is
written (which dictionary it consults, when it allocates, what it validates, what it delegates
through `__getattr__`).

No Mathlib.  Executable: `Driver/CoreCmd.lean` runs `step` against the real code.
-/
namespace PtCore

/-! ## Python `dict` as an insertion-ordered association list -/

abbrev Dict (κ ν : Type) := List (κ × ν)

namespace Dict
variable {κ ν : Type} [DecidableEq κ]

def get? : Dict κ ν → κ → Option ν
  | [], _ => none
  | (k', v) :: d, k => if k' = k then some v else get? d k

/-- `d[k] = v`.  The entry is (re)inserted at the front: Python keeps insertion order, but every
    iteration in core.py goes through `sorted(…)`, so the position of an entry is unobservable. -/
def set (d : Dict κ ν) (k : κ) (v : ν) : Dict κ ν := (k, v) :: d.filter (fun e => e.1 ≠ k)

def contains (d : Dict κ ν) (k : κ) : Bool := (d.get? k).isSome
end Dict

/-- `sorted(d.items())` for integer keys (insertion sort: structurally recursive, so the kernel can
    evaluate it; the keys of a dict are distinct, so stability is not an issue) -/
def insertByKey {ν : Type} (x : Nat × ν) : List (Nat × ν) → List (Nat × ν)
  | [] => [x]
  | y :: ys => if x.1 ≤ y.1 then x :: y :: ys else y :: insertByKey x ys

def sortByKey {ν : Type} : List (Nat × ν) → List (Nat × ν)
  | [] => []
  | x :: xs => insertByKey x (sortByKey xs)

/-! ## data of `element_base` -/

structure BaseRow where
  z : Nat
  name : String        -- lower-case name
  symbol : String
  ions : List Int      -- sorted(ions + uncommon_ions)
deriving Repr, DecidableEq

abbrev Base := List BaseRow

def Base.row? (b : Base) (z : Nat) : Option BaseRow := b.find? (·.z = z)

/-- rows of `Generated.ElementBase`: (Z, lower-case name, symbol, symbol code, ions) -/
def baseOfRaw (raw : List (Nat × String × String × Nat × List Int)) : Base :=
  raw.map fun (z, name, sym, _, ions) => ⟨z, name, sym, ions⟩

/-! ## heap objects -/

/-- what each object stores in its own `__dict__` (everything else is delegated) -/
inductive Obj
  | element (table : String) (z : Nat)   -- Element.table, Element.number
  | isotope (el : Nat) (a : Nat)          -- Isotope.element, Isotope.isotope
  | ion (base : Nat) (q : Int)            -- Ion.element (an Element or an Isotope), Ion.charge
deriving Repr, DecidableEq

/-- the key the property speaks about: table, atomic number, isotope number, charge -/
structure Key where
  table : String
  z : Nat
  a : Option Nat
  q : Option Int
deriving Repr, DecidableEq

inductive Err | key | value | type | attribute
deriving Repr, DecidableEq

inductive Res
  | obj (i : Nat)
  | objs (is : List Nat)
  | nats (ns : List Nat)
  | unit
  | err (e : Err)
deriving Repr, DecidableEq

structure State where
  /-- every object ever allocated; the index is the object's identity -/
  objs : Array Obj := #[]
  /-- `PRIVATE_TABLES` (a table object is identified with its unique name) -/
  tables : List String := []
  /-- `PeriodicTable._element` of every table: (table, Z) ↦ element object -/
  elems : Dict (String × Nat) Nat := []
  /-- attributes of the table object that hold atoms (`setattr(self, symbol, element)`, `D`, `T`) -/
  attrs : Dict (String × String) Nat := []
  /-- `Element._isotopes` of object i (A ↦ isotope object); parallel to `objs`, used by elements -/
  isoC : Array (Dict Nat Nat) := #[]
  /-- `IonSet.ionset` of the `ion` attribute of object i (charge ↦ ion object); parallel to `objs` -/
  ionC : Array (Dict Int Nat) := #[]
  /-- instance attributes `symbol`, `name` written on an isotope (D and T) -/
  alias : Dict Nat (String × String) := []
  /-- the namespace filled by the last `define_elements` -/
  ns : Dict String Nat := []
deriving Repr

def State.obj (s : State) (i : Nat) : Option Obj := s.objs[i]?

def State.alloc (s : State) (o : Obj) : State × Nat :=
  ({ s with objs := s.objs.push o, isoC := s.isoC.push [], ionC := s.ionC.push [] }, s.objs.size)

/-- the `_isotopes` dictionary of object `e` -/
def State.isosOf (s : State) (e : Nat) : Dict Nat Nat := (s.isoC[e]?).getD []
/-- the `ionset` dictionary owned by object `w` -/
def State.ionsOf (s : State) (w : Nat) : Dict Int Nat := (s.ionC[w]?).getD []

/-! ## attribute delegation (`Isotope.__getattr__`, `Ion.__getattr__`) -/

/-- the `Element` object an atom delegates to, with its `table` and `number` -/
def State.elemOf (s : State) (i : Nat) : Option (Nat × String × Nat) :=
  match s.obj i with
  | some (.element t z) => some (i, t, z)
  | some (.isotope e _) =>
    match s.obj e with
    | some (.element t z) => some (e, t, z)
    | _ => none
  | some (.ion b _) =>
    match s.obj b with
    | some (.element t z) => some (b, t, z)
    | some (.isotope e _) =>
      match s.obj e with
      | some (.element t z) => some (e, t, z)
      | _ => none
    | _ => none
  | none => none

/-- `x.isotope`: own attribute of an Isotope, delegated by an Ion, AttributeError on an Element -/
def State.isoNum (s : State) (i : Nat) : Option Nat :=
  match s.obj i with
  | some (.isotope _ a) => some a
  | some (.ion b _) =>
    match s.obj b with
    | some (.isotope _ a) => some a
    | _ => none
  | _ => none

/-- `x.charge` where it is an instance attribute (Ion); the class default 0 is `none` here -/
def State.chargeOf (s : State) (i : Nat) : Option Int :=
  match s.obj i with
  | some (.ion _ q) => some q
  | _ => none

/-- the owner of the `IonSet` reached by `x.ion` (`Ion` has no `ion` of its own and delegates) -/
def State.ionOwner (s : State) (i : Nat) : Option Nat :=
  match s.obj i with
  | some (.element _ _) => some i
  | some (.isotope _ _) => some i
  | some (.ion b _) => some b
  | none => none

/-- table, number, isotope number, charge as the object reports them -/
def State.keyOf (s : State) (i : Nat) : Option Key :=
  match s.elemOf i with
  | some (_, t, z) => some ⟨t, z, s.isoNum i, s.chargeOf i⟩
  | none => none

/-- `x.symbol`, `x.name` (instance attribute on D / T, otherwise the element's) -/
def State.symName (s : State) (b : Base) (i : Nat) : Option (String × String) :=
  let own : Option (String × String) :=
    match s.obj i with
    | some (.isotope _ _) => s.alias.get? i
    | some (.ion bs _) =>
      match s.obj bs with
      | some (.isotope _ _) => s.alias.get? bs
      | _ => none
    | _ => none
  match own with
  | some p => some p
  | none =>
    match s.elemOf i with
    | some (_, _, z) => (b.row? z).map fun r => (r.symbol, r.name)
    | none => none

/-! ## the methods -/

/-- `Element.add_isotope(number)` on the element object `e` -/
def State.addIsotope (s : State) (e : Nat) (a : Nat) : State × Nat :=
  match (s.isosOf e).get? a with
  | some i => (s, i)
  | none =>
    let (s', i) := s.alloc (.isotope e a)
    ({ s' with isoC := s'.isoC.setIfInBounds e ((s'.isosOf e).set a i) }, i)

/-- `IonSet.__getitem__(charge)` of the ion set owned by `owner` -/
def State.ionGet (s : State) (b : Base) (owner : Nat) (q : Int) : State × Res :=
  match (s.ionsOf owner).get? q with
  | some i => (s, .obj i)
  | none =>
    match s.elemOf owner with
    | some (_, _, z) =>
      match b.row? z with
      | some r =>
        if q ∈ r.ions then
          let (s', i) := s.alloc (.ion owner q)
          ({ s' with ionC := s'.ionC.setIfInBounds owner ((s'.ionsOf owner).set q i) }, .obj i)
        else (s, .err .value)
      | none => (s, .err .attribute)
    | none => (s, .err .attribute)

/-- one iteration of the constructor loop of `PeriodicTable.__init__` -/
def State.mkElement (s : State) (t : String) (r : BaseRow) : State :=
  let (s', i) := s.alloc (.element t r.z)
  { s' with elems := s'.elems.set (t, r.z) i, attrs := s'.attrs.set (t, r.symbol) i }

/-- `self.D = self.H.add_isotope(2); self.D.name = …; self.D.symbol = …` -/
def State.mkAlias (s : State) (t : String) (sym name : String) (a : Nat) : Option State :=
  match s.attrs.get? (t, "H") with
  | some h =>
    match s.obj h with
    | some (.element _ _) =>
      let (s', i) := s.addIsotope h a
      some { s' with attrs := s'.attrs.set (t, sym) i, alias := s'.alias.set i (sym, name) }
    | _ => none
  | none => none

/-- `PeriodicTable(name)` -/
def State.newTable (s : State) (b : Base) (t : String) : State × Res :=
  if t ∈ s.tables then (s, .err .value)
  else
    let s1 := { s with tables := t :: s.tables }
    let s2 := b.foldl (fun st r => st.mkElement t r) s1
    match s2.mkAlias t "D" "deuterium" 2 with
    | none => (s2, .err .attribute)
    | some s3 =>
      match s3.mkAlias t "T" "tritium" 3 with
      | none => (s3, .err .attribute)
      | some s4 => (s4, .unit)

/-- `sorted(self._element.items())` of table `t`: pairs (Z, element id) by increasing Z -/
def State.sortedElems (s : State) (t : String) : List (Nat × Nat) :=
  sortByKey ((s.elems.filter (fun e => e.1.1 = t)).map (fun e => (e.1.2, e.2)))

/-- `sorted(self._isotopes.items())` of element object `e` -/
def State.sortedIsos (s : State) (e : Nat) : List (Nat × Nat) :=
  sortByKey (s.isosOf e)

/-! ### `int(text)` and `str.split('-')` as `PeriodicTable.isotope` uses them -/

def isPySpace (c : Char) : Bool :=
  c = ' ' || c = '\t' || c = '\n' || c = '\r' || c = '\x0b' || c = '\x0c'

/-- digits with single underscores between digits (ASCII) -/
def digitsVal : List Char → Nat → Bool → Option Nat
  | [], acc, lastDigit => if lastDigit then some acc else none
  | c :: cs, acc, lastDigit =>
    if c.isDigit then digitsVal cs (acc * 10 + (c.toNat - 48)) true
    else if c = '_' && lastDigit then
      match cs with
      | d :: _ => if d.isDigit then digitsVal cs acc false else none
      | [] => none
    else none

/-- Python `int(s)` for an ASCII string: surrounding white space, optional sign, digits -/
def pyInt (s : List Char) : Option Int :=
  let s := (s.dropWhile isPySpace).reverse.dropWhile isPySpace |>.reverse
  match s with
  | '+' :: r => (digitsVal r 0 false).map Int.ofNat
  | '-' :: r => (digitsVal r 0 false).map fun n => - Int.ofNat n
  | r => (digitsVal r 0 false).map Int.ofNat

def splitDash (s : List Char) : List (List Char) :=
  go s [] where
  go : List Char → List Char → List (List Char)
    | [], cur => [cur.reverse]
    | c :: cs, cur => if c = '-' then cur.reverse :: go cs [] else go cs (c :: cur)

/-- the parse at the top of `PeriodicTable.isotope`: (symbol, isotope number; −1 = invalid).
    `zeroIsInvalid` is the repaired behaviour (`fixes/isotope-zero.patch`): an explicit
    mass number 0 ("0-Fe") is not a valid isotope. -/
def parseIsotope (input : String) : String × Int :=
  match splitDash input.toList with
  | [sym] => (String.ofList sym, 0)
  | [num, sym] =>
    let n := match pyInt num with
      | some n => if n = 0 then -1 else n
      | none => -1
    (String.ofList sym, n)
  | _ => ("", -1)

/-! ## operations -/

inductive Op
  | newTable (t : String)
  | defineElements (t : String)
  | getZ (t : String) (z : Nat)
  | symbol (t : String) (s : String)
  | name (t : String) (s : String)
  | isotope (t : String) (s : String)
  | attr (t : String) (s : String)
  | modAttr (s : String)
  | iso (o : Nat) (a : Nat)
  | addIsotope (o : Nat) (a : Nat)
  | ion (o : Nat) (q : Int)
  | element (o : Nat)
  | isotopes (o : Nat)
  | iterTable (t : String)
  | iterIso (o : Nat)
  | reduce (o : Nat)
  | changeTable (o : Nat) (t : String)
deriving Repr, DecidableEq

/-- `table[Z]` -/
def State.getZ (s : State) (t : String) (z : Nat) : Res :=
  match s.elems.get? (t, z) with
  | some i => .obj i
  | none => .err .key

/-- `element[A]` for an element object id (a `KeyError` when absent) -/
def State.isoGet (s : State) (e : Nat) (a : Nat) : Res :=
  match (s.isosOf e).get? a with
  | some i => .obj i
  | none => .err .key

/-- `_get_table(t)[Z]` … `[A]` … `.ion[q]` : the common tail of `_make_*` and `change_table` -/
def State.path (s : State) (b : Base) (t : String) (z : Nat) (a : Option Nat) (q : Option Int) :
    State × Res :=
  match s.elems.get? (t, z) with
  | none => (s, .err .key)
  | some e =>
    let base : Res := match a with
      | none => .obj e
      | some a => s.isoGet e a
    match base, q with
    | .obj o, some q => s.ionGet b o q
    | r, _ => (s, r)

def State.isoKeys (s : State) (e : Nat) : List Nat := (s.sortedIsos e).map (·.1)

def step (b : Base) (s : State) : Op → State × Res
  | .newTable t => s.newTable b t
  | .defineElements t =>
    if t ∈ s.tables then
      -- names[el.symbol] = el; names[el.name] = el  for el in table;  then D, T
      let names : Dict String Nat := (s.sortedElems t).foldl (fun d (zi : Nat × Nat) =>
        match b.row? zi.1 with
        | some r => (d.set r.symbol zi.2).set r.name zi.2
        | none => d) []
      let names := ["D", "T"].foldl (fun d k =>
        match s.attrs.get? (t, k) with
        | some i =>
          match s.alias.get? i with
          | some (sym, nm) => (d.set sym i).set nm i
          | none => d
        | none => d) names
      ({ s with ns := names }, .unit)
    else (s, .err .value)
  | .getZ t z => (s, s.getZ t z)
  | .symbol t x =>
    -- hasattr(self, input) and isinstance(value, (Element, Isotope))
    match s.attrs.get? (t, x) with
    | some i => (s, .obj i)
    | none => (s, .err .value)
  | .name t x =>
    match (s.sortedElems t).find? (fun zi => (b.row? zi.1).map (·.name) = some x) with
    | some zi => (s, .obj zi.2)
    | none =>
      let viaAlias (k : String) : Option Nat :=
        match s.attrs.get? (t, k) with
        | some i => match s.alias.get? i with
          | some (_, nm) => if nm = x then some i else none
          | none => none
        | none => none
      match viaAlias "D" with
      | some i => (s, .obj i)
      | none =>
        match viaAlias "T" with
        | some i => (s, .obj i)
        | none => (s, .err .value)
  | .isotope t x =>
    let (sym, n) := parseIsotope x
    match s.attrs.get? (t, sym) with
    | some i =>
      match s.obj i with
      | some (.element _ _) =>
        if n = 0 then (s, .obj i)
        else if n < 0 then (s, .err .value)
        else
          match (s.isosOf i).get? n.toNat with     -- `isotope in attr.isotopes` then `attr[isotope]`
          | some j => (s, .obj j)
          | none => (s, .err .value)
      | some (.isotope _ _) => if n = 0 then (s, .obj i) else (s, .err .value)
      | _ => (s, .err .value)
    | none => (s, .err .value)
  | .attr t x =>
    match s.attrs.get? (t, x) with
    | some i => (s, .obj i)
    | none => (s, .err .attribute)
  | .modAttr x =>
    match s.ns.get? x with
    | some i => (s, .obj i)
    | none => (s, .err .attribute)
  | .iso o a =>
    -- `__getitem__` is looked up on the type: only Element has it
    match s.obj o with
    | some (.element _ _) => (s, s.isoGet o a)
    | some _ => (s, .err .type)
    | none => (s, .err .attribute)
  | .addIsotope o a =>
    -- an ordinary method: Isotope and Ion delegate to their element
    match s.elemOf o with
    | some (e, _, _) => let (s', i) := s.addIsotope e a; (s', .obj i)
    | none => (s, .err .attribute)
  | .ion o q =>
    match s.ionOwner o with
    | some w => s.ionGet b w q
    | none => (s, .err .attribute)
  | .element o =>
    match s.obj o with
    | some (.isotope e _) => (s, .obj e)
    | some (.ion bs _) => (s, .obj bs)
    | _ => (s, .err .attribute)
  | .isotopes o =>
    match s.elemOf o with
    | some (e, _, _) => (s, .nats (s.isoKeys e))
    | none => (s, .err .attribute)
  | .iterTable t => if t ∈ s.tables then (s, .objs ((s.sortedElems t).map (·.2))) else (s, .err .value)
  | .iterIso o =>
    match s.obj o with
    | some (.element _ _) => (s, .objs ((s.sortedIsos o).map (·.2)))
    | some _ => (s, .err .type)
    | none => (s, .err .attribute)
  | .reduce o =>
    -- `__reduce__` gives (`_make_*`, (table, Z[, A][, q])); restoring calls it
    match s.keyOf o with
    | some k => if k.table ∈ s.tables then s.path b k.table k.z k.a k.q else (s, .err .value)
    | none => (s, .err .attribute)
  | .changeTable o t =>
    match s.keyOf o with
    | some k => if t ∈ s.tables then s.path b t k.z k.a k.q else (s, .err .value)
    | none => (s, .err .attribute)

def run (b : Base) (s : State) : List Op → State
  | [] => s
  | op :: ops => run b (step b s op).1 ops

def init : State := {}

end PtCore
