import PtVerif.Model.Neutron
import PtVerif.Generated.NeutronWater
/-!
# D2O contrast and fasta.Molecule (nsf.py 1025-1131, formulas.py 549-561/616-640, fasta.py; C16)

Continues `PtVerif.Model.Neutron`: `Formula.replace` on the atom dict, the solvent compounds
`"H2O@0.9982n"` / `"D2O@0.9982n"` (literals generated into `Generated/NeutronWater`),
`_D2O_slds`, `D2O_sld`, `D2O_match`, `mix_values`, and what a `fasta.Molecule` reports.
-/
namespace PtModel.Neutron
open PtModel

section D2O
variable {α : Type} [Add α] [Sub α] [Mul α] [Div α] [Neg α] [OfNat α 0] [OfNat α 1] [NatCast α]
  [BEq α] [LT α] [DecidableRel (α := α) (· < ·)] [Transc α] [IntCast α]

/-! ## isotope substitution (formulas.py 616-640 `_isotope_substitution`) -/

def hasKey (t : List (Atom × α)) (a : Atom) : Bool := t.any (fun e => e.1 == a)

/-- `d[a] = x` on an insertion-ordered dict -/
def setKey (t : List (Atom × α)) (a : Atom) (x : α) : List (Atom × α) :=
  match t with
  | [] => [(a, x)]
  | (b, y) :: r => if b = a then (b, x) :: r else (b, y) :: setKey r a x

/-- `del d[a]` -/
def delKey (t : List (Atom × α)) (a : Atom) : List (Atom × α) := t.filter (fun e => !(e.1 == a))

/-- a compound as the calculations see it: `formula.atoms` and `formula.density` -/
structure Compound (α : Type) where
  atoms : List (Atom × α)
  density : α

/-- `compound.replace(source, target, portion)`; the result is rebuilt by
    `formula(atoms, density=density)` (Hill order of the dict – the order of a sum – is not
    modelled) -/
def replace (am : Atom → α) (c : Compound α) (source target : Atom) (portion : α) : Compound α :=
  if hasKey c.atoms source then
    let mass := massOf am c.atoms
    let ns := lookupD c.atoms source
    let massReduction := ns * portion * (am source - am target)
    let density := c.density * (mass - massReduction) / mass
    let atoms1 := setKey c.atoms target (lookupD c.atoms target + ns * portion)
    let atoms2 := if portion == 1 then delKey atoms1 source
                  else setKey atoms1 source (lookupD atoms1 source * (1 - portion))
    ⟨atoms2, density⟩
  else c

/-! ## D2O contrast (nsf.py 1025-1131) -/

def atomH : Atom := ⟨1, 0, 0⟩
def atomH1 : Atom := ⟨1, 1, 0⟩
def atomD : Atom := ⟨1, 2, 0⟩
def atomO : Atom := ⟨8, 0, 0⟩

/-- the compound with a fraction `d` of its labile hydrogens H[1] replaced by D and the rest by
    natural H: `mol.replace(H[1], D, d).replace(H[1], H)` -/
def substituted (am : Atom → α) (c : Compound α) (d : α) : Compound α :=
  replace am (replace am c atomH1 atomD d) atomH1 atomH 1

/-- `Formula.natural_mass_ratio` for un-ionised atoms: natural element mass over isotope mass -/
def naturalMassRatio (t : Tbl α) (atoms : List (Atom × α)) : α :=
  let nat := atoms.foldl (fun s e => s + e.2 * t.mass e.1.z 0) 0
  let iso := atoms.foldl (fun s e => s + e.2 * t.atomMass e.1) 0
  nat / iso

/-- `formula("X2O@<d>n")`: `density = natural_density / natural_mass_ratio()` -/
def water (t : Tbl α) (h : Atom) (naturalDensity : α) : Compound α :=
  let atoms := [(h, lit 2), (atomO, 1)]
  ⟨atoms, naturalDensity / naturalMassRatio t atoms⟩

abbrev Sld3 (α : Type) := α × α × α

/-- `mix_values(a, b, fraction)`: `aj*fraction + bj*(1-fraction)` -/
def mixValues (a b : Sld3 α) (f : α) : Sld3 α :=
  (a.1 * f + b.1 * (1 - f), a.2.1 * f + b.2.1 * (1 - f), a.2.2 * f + b.2.2 * (1 - f))

def compoundSld (t : Tbl α) (c : Compound α) (w : α) : Option (Sld3 α) :=
  neutronSld t c.atoms c.density w

/-- `_D2O_slds`: `(H2O_sld, D2O_sld, Hsld, Dsld)`; `none`: one of them is `(None, None, None)`
    (arithmetic on `None` raises) -/
def d2oSlds (t : Tbl α) (c : Compound α) (w : α) : Option (Sld3 α × Sld3 α × Sld3 α × Sld3 α) :=
  match compoundSld t (water t atomH PtGen.nsf_H2O_natural_density) w,
        compoundSld t (water t atomD PtGen.nsf_D2O_natural_density) w,
        compoundSld t (replace t.atomMass c atomH1 atomH 1) w,
        compoundSld t (replace t.atomMass c atomH1 atomD 1) w with
  | some a, some b, some h, some d => some (a, b, h, d)
  | _, _, _, _ => none

/-- `D2O_sld(compound, volume_fraction, D2O_fraction)` -/
def d2oSld (t : Tbl α) (c : Compound α) (w volumeFraction d2oFraction : α) : Option (Sld3 α) :=
  (d2oSlds t c w).map fun (h2o, d2o, hs, ds) =>
    let solvent := mixValues d2o h2o d2oFraction
    let solute := mixValues ds hs d2oFraction
    mixValues solute solvent volumeFraction

/-- `D2O_match(compound)`: `(D2O_fraction, sld at the match point)` -/
def d2oMatch (t : Tbl α) (c : Compound α) (w : α) : Option (α × α) :=
  (d2oSlds t c w).map fun (h2o, d2o, hs, ds) =>
    let f := (h2o.1 - hs.1) / (ds.1 - hs.1 + h2o.1 - d2o.1)
    (f, (mixValues ds hs f).1)

/-! ## fasta.Molecule (fasta.py 117-159, 228-259) -/

/-- what a `Molecule` reports -/
structure Molecule (α : Type) where
  sld : α
  dsld : α
  d2oMatch : α

/-- `M.density = 1e24*M.molecular_mass/cell_volume if cell_volume > 0 else 0` -/
def moleculeDensity (mass cellVolume : α) : α :=
  if 0 < cellVolume then lit (10 ^ 24) * (mass / PtGen.avogadro_number) / cellVolume else 0

/-- module-level `H2O_SLD`, `D2O_SLD` of fasta.py (default wavelength) -/
def fastaWaterSld (t : Tbl α) (h : Atom) (nd : α) : Option α :=
  (compoundSld t (water t h nd) PtGen.ABSORPTION_WAVELENGTH).map (·.1)

/-- `Molecule.__init__` from the labile formula `M` (density already set) -/
def molecule (t : Tbl α) (m : Compound α) : Option (Molecule α) :=
  match fastaWaterSld t atomH PtGen.fasta_H2O_natural_density,
        fastaWaterSld t atomD PtGen.fasta_D2O_natural_density,
        compoundSld t (replace t.atomMass m atomH1 atomH 1) PtGen.ABSORPTION_WAVELENGTH,
        compoundSld t (replace t.atomMass m atomH1 atomD 1) PtGen.ABSORPTION_WAVELENGTH with
  | some h2o, some d2o, some hs, some ds =>
    some ⟨hs.1, ds.1, lit 100 * (h2o - hs.1) / (ds.1 - hs.1 + h2o - d2o)⟩
  | _, _, _, _ => none

/-- `Molecule.D2Osld(volume_fraction, D2O_fraction)` -/
def moleculeD2Osld (t : Tbl α) (m : Compound α) (volumeFraction d2oFraction : α) : Option α :=
  match fastaWaterSld t atomH PtGen.fasta_H2O_natural_density,
        fastaWaterSld t atomD PtGen.fasta_D2O_natural_density,
        molecule t m with
  | some h2o, some d2o, some mol =>
    let solvent := d2oFraction * d2o + (1 - d2oFraction) * h2o
    let solute := d2oFraction * mol.dsld + (1 - d2oFraction) * mol.sld
    some (volumeFraction * solute + (1 - volumeFraction) * solvent)
  | _, _, _ => none

end D2O

end PtModel.Neutron
