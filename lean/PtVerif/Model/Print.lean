import PtVerif.Model.Grammar
/-!
# Printing a formula (`formulas.py: _str_atoms`, `_str_count`, `Formula.__str__/__repr__`)
and an exact model of C's `%g` (precision 6) on positive rationals

Counts are the *exact* values of the Python numbers (`num / den`, a float's binary value is a
rational), so the rounding to six significant digits is decided exactly (round-half-even on
the exact value, as glibc / CPython's `dtoa` do).

`_str_atoms` is modelled *as repaired*:
* `fixes/grammar-2-dt-ion-symbol.patch`: an ion of D/T prints `D{+}`, not `D[2]{+}`;
* `fixes/grammar-3-positional-counts.patch`: `_str_count` writes the six significant digits of
  `%g` in positional notation for every magnitude (the grammar has no exponent form).
  `strCount` is the observable behaviour of `_str_count` (digits of `%g`, decimal point moved),
  not its string surgery; `fmtG6` is `%g` itself, exponent form included.
-/
namespace PtModel.Print
open PtModel PtModel.Grammar

/-- a non-negative rational `num / den` (`den > 0`) -/
structure Q where
  num : Nat
  den : Nat
deriving DecidableEq, Repr

/-! ## decimal digits -/

def digitsAux : Nat → Nat → List Char → List Char
  | 0, _, acc => acc
  | fuel + 1, n, acc =>
    if n / 10 = 0 then Nat.digitChar (n % 10) :: acc
    else digitsAux fuel (n / 10) (Nat.digitChar (n % 10) :: acc)

/-- `"%d" % n`: most significant digit first, no leading zero, `"0"` for 0 -/
def natDigits (n : Nat) : List Char := digitsAux (n + 1) n []

/-- exactly `k` digits of `v` (mod `10^k`), zero padded on the left -/
def padDigits : Nat → Nat → List Char
  | 0, _ => []
  | k + 1, v => padDigits k (v / 10) ++ [Nat.digitChar (v % 10)]

/-- number of decimal digits -/
def ndigits (n : Nat) : Nat := (natDigits n).length

/-! ## `%g` -/

/-- `⌊log10 (n/d)⌋` for `n, d > 0` -/
def exp10 (n d : Nat) : Int :=
  if d ≤ n then (ndigits (n / d) : Int) - 1
  else -(ndigits ((d + n - 1) / n - 1) : Int)

/-- round `N / D` to the nearest integer, ties to even -/
def roundHalfEven (N D : Nat) : Nat :=
  let q := N / D
  let r := N % D
  if 2 * r < D then q
  else if D < 2 * r then q + 1
  else q + q % 2

/-- six significant digits: `(m, e)` with `10^5 ≤ m < 10^6`, value `m · 10^(e-5)` -/
def sig6 (n d : Nat) : Nat × Int :=
  let e := exp10 n d
  let m := if e ≤ 5 then roundHalfEven (n * 10 ^ (5 - e).toNat) d
           else roundHalfEven n (d * 10 ^ (e - 5).toNat)
  if m = 10 ^ 6 then (10 ^ 5, e + 1) else (m, e)

/-- drop trailing zeros of the fraction: `num / 10^dec` in lowest decimal terms -/
def strip : Nat → Nat → Cnt
  | num, 0 => ⟨num, 0⟩
  | num, dec + 1 => if num % 10 = 0 then strip (num / 10) dec else ⟨num, dec + 1⟩

/-- the decimal `m · 10^(e-5)` in lowest decimal terms -/
def cntOf (m : Nat) (e : Int) : Cnt :=
  if 5 ≤ e then ⟨m * 10 ^ (e - 5).toNat, 0⟩ else strip m (5 - e).toNat

/-- the count rounded to six significant digits -/
def round6 (q : Q) : Cnt :=
  if q.num = 0 then ⟨0, 0⟩ else cntOf (sig6 q.num q.den).1 (sig6 q.num q.den).2

/-- positional notation of an exact decimal -/
def showCnt (c : Cnt) : List Char :=
  if c.dec = 0 then natDigits c.num
  else natDigits (c.num / 10 ^ c.dec) ++ '.' :: padDigits c.dec (c.num % 10 ^ c.dec)

/-- exponent form `d.ddddde±XX` with trailing zeros of the mantissa removed -/
def expForm (m : Nat) (e : Int) : List Char :=
  showCnt (strip m 5) ++ 'e' :: (if e < 0 then '-' else '+') ::
    (if e.natAbs < 10 then '0' :: natDigits e.natAbs else natDigits e.natAbs)

/-- C's `"%g"` (precision 6, no flags) of the non-negative rational `q` -/
def fmtG6 (q : Q) : List Char :=
  if q.num = 0 then ['0'] else
  let me := sig6 q.num q.den
  if me.2 < -4 ∨ 6 ≤ me.2 then expForm me.1 me.2 else showCnt (cntOf me.1 me.2)

/-- `_str_count` (repaired): the digits of `%g`, always positional -/
def strCount (q : Q) : List Char := showCnt (round6 q)

/-! ## `_str_atoms` -/

/-- symbol of element `z` in the table -/
def elemSym (T : Table) (z : Nat) : List Char :=
  match T.find? (fun e => e.z = z ∧ e.alias = 0) with
  | some e => e.sym
  | none => []

/-- `fragment.symbol`, or `Sym[A]` for an isotope that does not carry its own symbol -/
def isoText (T : Table) (z a : Nat) : List Char :=
  if a = 0 then elemSym T z else
  match T.find? (fun e => e.z = z ∧ e.alias = a) with
  | some e => e.sym
  | none => elemSym T z ++ '[' :: natDigits a ++ [']']

/-- `'{' + value + sign + '}'` -/
def chargeText (q : Int) : List Char :=
  if q = 0 then [] else
  '{' :: (if 1 < q.natAbs then natDigits q.natAbs else []) ++ [if 0 < q then '+' else '-', '}']

def atomText (T : Table) (x : Atom) : List Char := isoText T x.z x.a ++ chargeText x.q

/-- the atom is one the grammar can name in table `T`: its element has a symbol the symbol
    regex reads, the isotope is defined (or carries its own symbol: D, T), the charge is one of
    the element's ions -/
def nameable (T : Table) (x : Atom) : Bool :=
  match T.find? (fun e => e.z = x.z ∧ e.alias = 0) with
  | none => false
  | some e0 =>
    symOK e0.sym &&
    (if x.a = 0 then decide (x.q = 0 ∨ x.q ∈ e0.ions)
     else match T.find? (fun e => e.z = x.z ∧ e.alias = x.a) with
       | some e1 => symOK e1.sym && decide (x.q = 0 ∨ x.q ∈ e1.ions)
       | none => decide (x.a ∈ e0.isos) && decide (x.q = 0 ∨ x.q ∈ e0.ions))

/-- Python `count == 1` on the exact value -/
def Q.isOne (q : Q) : Bool := q.num == q.den

mutual
def strFrag (T : Table) (c : Q) : Frag Q → List Char
  | .atom x => atomText T x ++ (if c.isOne then [] else strCount c)
  | .group g => if c.isOne then strItems T g else '(' :: strItems T g ++ ')' :: strCount c
/-- `_str_atoms(seq)` -/
def strItems (T : Table) : Items Q → List Char
  | .nil => []
  | .cons c f r => strFrag T c f ++ strItems T r
end

def qisNil : Items Q → Bool
  | .nil => true
  | .cons _ _ _ => false

mutual
def okFrag (T : Table) : Frag Q → Bool
  | .atom x => nameable T x
  | .group g => !qisNil g && okItems T g
/-- the structures C13 quantifies over: positive counts, nameable atoms, no empty group -/
def okItems (T : Table) : Items Q → Bool
  | .nil => true
  | .cons c f r => decide (0 < c.num) && decide (0 < c.den) && okFrag T f && okItems T r
end

/-- `Formula.__str__`: `self.name if self.name else _str_atoms(self.structure)`
    (`name = none`: `None` or the empty string) -/
def strFormula (T : Table) (name : Option (List Char)) (s : Items Q) : List Char :=
  match name with
  | some (c :: cs) => c :: cs
  | _ => strItems T s

/-- `Formula.__repr__`: `"formula('%s')" % str(self)` -/
def reprFormula (T : Table) (name : Option (List Char)) (s : Items Q) : List Char :=
  "formula('".toList ++ strFormula T name s ++ "')".toList

/-! ## what parsing the printed string gives back -/

mutual
def roundFrag : Frag Q → Frag Cnt
  | .atom x => .atom x
  | .group g => .group (roundItems g)
/-- every count rounded to the printed precision -/
def roundItems : Items Q → Items Cnt
  | .nil => .nil
  | .cons c f r => .cons (round6 c) (roundFrag f) (roundItems r)
end

mutual
/-- the items a single `(c, fragment)` pair parses back as: the grammar cannot represent a group
    with count 1 (`convert_implicit` and `convert_explicit` both splice it into its parent) -/
def normFrag (c : Cnt) : Frag Cnt → Items Cnt
  | .atom x => .cons c (.atom x) .nil
  | .group g => if c.isOne then norm g else .cons c (.group (norm g)) .nil
def norm : Items Cnt → Items Cnt
  | .nil => .nil
  | .cons c f r => (normFrag c f).append (norm r)
end

end PtModel.Print
