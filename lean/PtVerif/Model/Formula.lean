import PtVerif.Num
/-!
# Formula algebra (formulas.py: `_count_atoms`, `mass`, `charge`, `mass_fraction`,
`__add__`, `__iadd__`, `__rmul__`, `formula()` dispatch, Hill order)

Mirrors the code that exists.  An atom is the key `(Z, A, q)` (`A = 0`: natural
element; `q`: ion charge); a formula structure is the nested `(count, fragment)`
sequence of `Formula.structure`.
-/
namespace PtModel

structure Atom where
  z : Nat
  a : Nat
  q : Int
deriving DecidableEq, Repr, Hashable, Inhabited

mutual
/-- a fragment: an atom or a nested sequence -/
inductive Frag (α : Type) where
  | atom (a : Atom)
  | group (items : Items α)
/-- `((count, fragment), …)` -/
inductive Items (α : Type) where
  | nil
  | cons (c : α) (f : Frag α) (rest : Items α)
end

namespace Items
variable {α : Type}

def append : Items α → Items α → Items α
  | nil, t => t
  | cons c f r, t => cons c f (append r t)

def length : Items α → Nat
  | nil => 0
  | cons _ _ r => r.length + 1

def ofList : List (α × Frag α) → Items α
  | [] => nil
  | (c, f) :: r => cons c f (ofList r)

def toList : Items α → List (α × Frag α)
  | nil => []
  | cons c f r => (c, f) :: r.toList

end Items

section Count
variable {α : Type} [Add α] [Mul α] [OfNat α 0] [OfNat α 1]

/-- `if el not in total: total[el] = 0;  total[el] += x` on an insertion-ordered dict -/
def bump (t : List (Atom × α)) (a : Atom) (x : α) : List (Atom × α) :=
  match t with
  | [] => [(a, 0 + x)]
  | (b, y) :: r => if b = a then (b, y + x) :: r else (b, y) :: bump r a x

/-- `for el, elcount in partial.items(): total[el] += elcount*count` -/
def mergeScaled (t : List (Atom × α)) (p : List (Atom × α)) (c : α) : List (Atom × α) :=
  p.foldl (fun t e => bump t e.1 (e.2 * c)) t

mutual
/-- `partial = _count_atoms(fragment)` or `{fragment: 1}` -/
def Frag.count : Frag α → List (Atom × α)
  | .atom a => [(a, 1)]
  | .group is => is.countAcc []
/-- the loop of `_count_atoms`, `t` is the dict `total` so far -/
def Items.countAcc : Items α → List (Atom × α) → List (Atom × α)
  | .nil, t => t
  | .cons c f r, t => r.countAcc (mergeScaled t f.count c)
end

/-- `Formula.atoms` -/
def Items.atoms (s : Items α) : List (Atom × α) := s.countAcc []

/-- `dict.get(a, 0)` -/
def lookupD (t : List (Atom × α)) (a : Atom) : α :=
  match t with
  | [] => 0
  | (b, y) :: r => if b = a then y else lookupD r a

mutual
/-- the statement's reading: count-weighted sum of the atom counts of the parts -/
def Frag.cnt : Frag α → Atom → α
  | .atom b, a => if b = a then 1 else 0
  | .group is, a => is.cnt a
def Items.cnt : Items α → Atom → α
  | .nil, _ => 0
  | .cons c f r, a => f.cnt a * c + r.cnt a
end

end Count

section Mass
variable {α : Type} [Add α] [Sub α] [Mul α] [Div α] [OfNat α 0] [OfNat α 1] [IntCast α]

/-- `Ion.mass`: `element.mass - electron_mass*charge`; `m z a` is the mass of the
    un-ionised element (`a = 0`) or isotope.  For `q = 0` the code reads `el.mass`
    directly (no subtraction). -/
def atomMass (m : Nat → Nat → α) (me : α) (x : Atom) : α :=
  if x.q = 0 then m x.z x.a else m x.z x.a - me * (x.q : α)

/-- `Formula.mass`: `mass = 0; for el, count in atoms.items(): mass += el.mass*count` -/
def massOf (am : Atom → α) (t : List (Atom × α)) : α :=
  t.foldl (fun s e => s + am e.1 * e.2) 0

/-- `Formula.charge`: `sum([m*a.charge for a, m in atoms.items()])` -/
def chargeOf (t : List (Atom × α)) : α :=
  t.foldl (fun s e => s + e.2 * (e.1.q : α)) 0

/-- `Formula.mass_fraction` -/
def massFraction (am : Atom → α) (t : List (Atom × α)) : List (Atom × α) :=
  let total := massOf am t
  t.map fun e => (e.1, e.2 * am e.1 / total)

mutual
/-- the statement's reading of mass: sum of count times atomic mass over the parts -/
def Frag.flatMass (am : Atom → α) : Frag α → α
  | .atom b => am b
  | .group is => is.flatMass am
def Items.flatMass (am : Atom → α) : Items α → α
  | .nil => 0
  | .cons c f r => f.flatMass am * c + r.flatMass am
end

end Mass

section Ops
variable {α : Type} [Mul α] [OfNat α 1] [BEq α]

/-- `Formula.__add__` / `__iadd__` on the structure -/
def addS (s t : Items α) : Items α := s.append t

/-- `Formula.__rmul__` on the structure: `other != 1 and self.structure` guard,
    single-fragment shortcut `((other*q, f),)`, otherwise `((other, structure),)` -/
def rmulS (n : α) (s : Items α) : Items α :=
  if n == 1 then s else
  match s with
  | .nil => .nil
  | .cons q f .nil => .cons (n * q) f .nil
  | s => .cons n (.group s) .nil

end Ops

end PtModel

namespace PtModel

/-! ## Hill order (`_hill_key`, `_convert_to_hill_notation`, `Formula.hill`) -/

/-- `_hill_key`: `(0 if symbol in ("C","H") else 1, symbol, isotope or 0, charge)`.
    The symbol string is abstracted to the number `256*c₁ + c₂` (`c₂ = 0` for a one-letter
    symbol), which orders one- and two-letter ASCII symbols exactly as Python orders
    the strings.  `sym z a` is the symbol *the atom reports* (`D`/`T` for H[2]/H[3]). -/
structure HillKey where
  cls : Nat
  sym : Nat
  iso : Nat
  chg : Int
deriving DecidableEq, Repr

def HillKey.le (x y : HillKey) : Bool :=
  if x.cls ≠ y.cls then x.cls < y.cls
  else if x.sym ≠ y.sym then x.sym < y.sym
  else if x.iso ≠ y.iso then x.iso < y.iso
  else x.chg ≤ y.chg

/-- code of the symbols "C" and "H" -/
def symC : Nat := 67 * 256
def symH : Nat := 72 * 256

def hillKey (sym : Nat → Nat → Nat) (x : Atom) : HillKey :=
  let s := sym x.z x.a
  ⟨if s = symC ∨ s = symH then 0 else 1, s, x.a, x.q⟩

section SortSec
variable {β : Type}

/-- stable insertion (Python's `sorted` is stable; any stable sort gives this list) -/
def insertBy (le : β → β → Bool) (x : β) : List β → List β
  | [] => [x]
  | y :: r => if le x y then x :: y :: r else y :: insertBy le x r

def sortBy (le : β → β → Bool) : List β → List β
  | [] => []
  | x :: r => insertBy le x (sortBy le r)

end SortSec

variable {α : Type}

/-- `_convert_to_hill_notation(atoms)` -/
def hillS (sym : Nat → Nat → Nat) (t : List (Atom × α)) : Items α :=
  Items.ofList ((sortBy (fun x y => (hillKey sym x.1).le (hillKey sym y.1)) t).map
    fun e => (e.2, Frag.atom e.1))

end PtModel
