import PtVerif.Model.Grammar
/-!
# The mixture sub-grammars of `formula_grammar` (wt% / vol% / layers / absolute mass or volume)

An extension of `Model/Grammar.lean` to the whole top-level grammar
`Optional(compound | ungrouped_mixture | grouped_mixture) + StringEnd()`.  The parse actions of the
mixture alternatives (`convert_by_weight`, …) compute with masses and densities (C11); here the
parser returns the *term* those actions are applied to: which components, with which quantities and
units, in which nesting.  No theorems are stated about this file; it is tied to formulas.py by the
`mixture` stream of `harness/ptv/props/C01.py`, which evaluates the term with the real
`_mix_by_weight_pairs` / `_mix_by_volume_pairs`.
-/
namespace PtModel.Grammar
open PtModel

mutual
inductive Mix where
  /-- `compound = composite + Optional(density)` -/
  | compound (fs : Items Cnt) (d : Option Dens)
  /-- `'(' ungrouped_mixture ')' density?` -/
  | grouped (m : Mix) (d : Option Dens)
  /-- `count wt% mixture ('//' count (wt%|%) mixture)* '//' mixture` -/
  | byWeight (parts : PctParts) (base : Mix)
  | byVolume (parts : PctParts) (base : Mix)
  /-- `layer_part ('//' layer_part)*` -/
  | byLayer (parts : QtyParts)
  | byMass (parts : QtyParts)
inductive PctParts where
  | nil
  | cons (c : Cnt) (m : Mix) (rest : PctParts)
inductive QtyParts where
  | nil
  /-- `count unit mixture` (unit = index into the unit list) -/
  | qty (c : Cnt) (unit : Nat) (m : Mix) (rest : QtyParts)
  /-- `'(' mixture_by_… ')' count` -/
  | rep (inner : Mix) (c : Cnt) (rest : QtyParts)
end

/-- a literal word at the head (no pre-skip) -/
def stripPrefix : List Char → List Char → Option (List Char)
  | [], s => some s
  | _ :: _, [] => none
  | p :: ps, c :: cs => if p = c then stripPrefix ps cs else none

/-- the first of the words (in order) that the text begins with, after blanks: its index and the rest -/
def pWord (ws : List (List Char)) (s : List Char) : Option (Nat × List Char) :=
  go ws 0 (skipWs s)
where
  go : List (List Char) → Nat → List Char → Option (Nat × List Char)
    | [], _, _ => none
    | w :: r, i, s =>
      match stripPrefix w s with
      | some rest => some (i, rest)
      | none => go r (i + 1) s

/-- `LENGTH_RE = '(nm|um|mm|cm)'` -/
def lengthUnits : List (List Char) := ["nm".toList, "um".toList, "mm".toList, "cm".toList]
/-- `MASS_VOLUME_RE = '(ng|ug|mg|g|kg|nL|uL|mL|L)'` (ordered alternation) -/
def massVolumeUnits : List (List Char) :=
  ["ng".toList, "ug".toList, "mg".toList, "g".toList, "kg".toList,
   "nL".toList, "uL".toList, "mL".toList, "L".toList]

/-- `Regex("(w((eigh)?t)?|m(ass)?)")` (pre-skips) -/
def pWeightWord (s : List Char) : Option (List Char) :=
  match skipWs s with
  | 'w' :: r =>
    match stripPrefix "eight".toList r with
    | some r' => some r'
    | none =>
      match r with
      | 't' :: r' => some r'
      | _ => some r
  | 'm' :: r =>
    match stripPrefix "ass".toList r with
    | some r' => some r'
    | none => some r
  | _ => none

/-- `Regex("v(ol(ume)?)?")` (pre-skips) -/
def pVolumeWord (s : List Char) : Option (List Char) :=
  match skipWs s with
  | 'v' :: r =>
    match stripPrefix "ol".toList r with
    | some r' =>
      match stripPrefix "ume".toList r' with
      | some r'' => some r''
      | none => some r'
    | none => some r
  | _ => none

/-- `((percent + word) | (word + percent)) + space` -/
def pWordPercent (word : List Char → Option (List Char)) (s : List Char) : Option (List Char) :=
  match pLit '%' s with
  | some r =>
    match word r with
    | some r' => some (skipWs r')
    | none =>
      -- first alternative failed after the '%': try the second from the start
      match word s with
      | some r1 => match pLit '%' r1 with
        | some r2 => some (skipWs r2)
        | none => none
      | none => none
  | none =>
    match word s with
    | some r1 => match pLit '%' r1 with
      | some r2 => some (skipWs r2)
      | none => none
    | none => none

/-- `partsep = space + '//' + space` -/
def pPartsep (s : List Char) : Option (List Char) :=
  match skipWs s with
  | '/' :: '/' :: r => some (skipWs r)
  | _ => none

/-- which percentage mixture -/
inductive PctKind where
  | weight
  | volume

def PctKind.word : PctKind → List Char → Option (List Char)
  | .weight => pWeightWord
  | .volume => pVolumeWord

mutual
/-- `mixture << (compound | grouped_mixture)` -/
def pMixture (T : Table) : Nat → List Char → Res Mix
  | 0, _ => .error .fail
  | fuel + 1, s =>
    -- `mixture << (grouped_mixture | compound)` (mixtures first, so that a leading quantity such as
    -- `2L` is not read as a count followed by the unknown element L)
    match pGrouped T fuel s with
    | .ok x => .ok x
    | .error .abort => .error .abort
    | .error .fail =>
      match pComposite T (fuelFor s) s with
      | .ok (fs, r) =>
        match pDensity r with
        | .ok (d, r') => .ok (.compound fs d, r')
        | .error e => .error e
      | .error e => .error e
/-- `grouped_mixture = opengrp + ungrouped_mixture + closegrp + Optional(density)` -/
def pGrouped (T : Table) : Nat → List Char → Res Mix
  | 0, _ => .error .fail
  | fuel + 1, s =>
    match pLit '(' s with
    | none => .error .fail
    | some r1 =>
      match pUngrouped T fuel (skipWs r1) with
      | .error e => .error e
      | .ok (m, r2) =>
        match pLit ')' r2 with
        | none => .error .fail
        | some r3 =>
          match pDensity (skipWs r3) with
          | .ok (d, r4) => .ok (.grouped m d, r4)
          | .error e => .error e
/-- `mixture_by_weight | mixture_by_volume | mixture_by_layer | mixture_by_absmass` -/
def pUngrouped (T : Table) : Nat → List Char → Res Mix
  | 0, _ => .error .fail
  | fuel + 1, s =>
    match pPct T .weight fuel s with
    | .ok x => .ok x
    | .error .abort => .error .abort
    | .error .fail =>
      match pPct T .volume fuel s with
      | .ok x => .ok x
      | .error .abort => .error .abort
      | .error .fail =>
        match pQty T lengthUnits fuel s with
        | .ok (ps, r) => .ok (.byLayer ps, r)
        | .error .abort => .error .abort
        | .error .fail =>
          match pQty T massVolumeUnits fuel s with
          | .ok (ps, r) => .ok (.byMass ps, r)
          | .error e => .error e
/-- `count + word_percent + mixture + ZeroOrMore(partsep+count+(word_percent|percent+space)+mixture)
    + partsep + mixture` -/
def pPct (T : Table) (k : PctKind) : Nat → List Char → Res Mix
  | 0, _ => .error .fail
  | fuel + 1, s =>
    match pCount s with
    | .error e => .error e
    | .ok (c, r1) =>
      match pWordPercent k.word r1 with
      | none => .error .fail
      | some r2 =>
        match pMixture T fuel r2 with
        | .error e => .error e
        | .ok (m, r3) =>
          match pPctMore T k fuel r3 with
          | .error e => .error e
          | .ok (ps, r4) =>
            match pPartsep r4 with
            | none => .error .fail
            | some r5 =>
              match pMixture T fuel r5 with
              | .error e => .error e
              | .ok (base, r6) =>
                match k with
                | .weight => .ok (.byWeight (.cons c m ps) base, r6)
                | .volume => .ok (.byVolume (.cons c m ps) base, r6)
/-- the `ZeroOrMore` of a percentage mixture -/
def pPctMore (T : Table) (k : PctKind) : Nat → List Char → Res PctParts
  | 0, s => .ok (.nil, s)
  | fuel + 1, s =>
    match pPartsep s with
    | none => .ok (.nil, s)
    | some r1 =>
      match pCount r1 with
      | .error e => .error e
      | .ok (c, r2) =>
        let r3 := match pWordPercent k.word r2 with
          | some r => some r
          | none => (pLit '%' r2).map skipWs
        match r3 with
        | none => .ok (.nil, s)
        | some r3 =>
          match pMixture T fuel r3 with
          | .error .abort => .error .abort
          | .error .fail => .ok (.nil, s)
          | .ok (m, r4) =>
            match pPctMore T k fuel r4 with
            | .error e => .error e
            | .ok (ps, r5) => .ok (.cons c m ps, r5)
/-- `part + ZeroOrMore(partsep + part)` with
    `part = (Group(count + unit + space) + mixture) | (opengrp + this + closegrp + count)` -/
def pQty (T : Table) (units : List (List Char)) : Nat → List Char → Res QtyParts
  | 0, _ => .error .fail
  | fuel + 1, s =>
    match pQtyPart T units fuel s with
    | .error e => .error e
    | .ok (mk, r) =>
      match pQtyMore T units fuel r with
      | .error e => .error e
      | .ok (ps, r') => .ok (mk ps, r')
def pQtyMore (T : Table) (units : List (List Char)) : Nat → List Char → Res QtyParts
  | 0, s => .ok (.nil, s)
  | fuel + 1, s =>
    match pPartsep s with
    | none => .ok (.nil, s)
    | some r1 =>
      match pQtyPart T units fuel r1 with
      | .error .abort => .error .abort
      | .error .fail => .ok (.nil, s)
      | .ok (mk, r2) =>
        match pQtyMore T units fuel r2 with
        | .error e => .error e
        | .ok (ps, r3) => .ok (mk ps, r3)
def pQtyPart (T : Table) (units : List (List Char)) : Nat → List Char → Res (QtyParts → QtyParts)
  | 0, _ => .error .fail
  | fuel + 1, s =>
    let first : Res (QtyParts → QtyParts) :=
      match pCount s with
      | .error e => .error e
      | .ok (c, r1) =>
        match pWord units r1 with
        | none => .error .fail
        | some (u, r2) =>
          match pMixture T fuel (skipWs r2) with
          | .error e => .error e
          | .ok (m, r3) => .ok (fun rest => .qty c u m rest, r3)
    match first with
    | .ok x => .ok x
    | .error .abort => .error .abort
    | .error .fail =>
      match pLit '(' s with
      | none => .error .fail
      | some r1 =>
        match pQty T units fuel (skipWs r1) with
        | .error e => .error e
        | .ok (ps, r2) =>
          match pLit ')' r2 with
          | none => .error .fail
          | some r3 =>
            match pCount (skipWs r3) with
            | .error e => .error e
            | .ok (c, r4) =>
              let inner : Mix := if units.length = 4 then .byLayer ps else .byMass ps
              .ok (fun rest => .rep inner c rest, r4)
end

/-- `Optional(ungrouped_mixture | compound | grouped_mixture) + StringEnd()`: the first alternative
    that matches a prefix is committed to -/
def parseTop (T : Table) (s : List Char) : Except Err Mix :=
  let fuel := fuelFor s
  let atEnd (m : Mix) (r : List Char) : Except Err Mix :=
    if (skipWs r).isEmpty then .ok m else .error .fail
  match pUngrouped T fuel s with
  | .ok (m, r) => atEnd m r
  | .error .abort => .error .abort
  | .error .fail =>
    match pComposite T fuel s with
    | .ok (fs, r) =>
      match pDensity r with
      | .ok (d, r') => atEnd (.compound fs d) r'
      | .error e => .error e
    | .error .abort => .error .abort
    | .error .fail =>
      match pGrouped T fuel s with
      | .ok (m, r) => atEnd m r
      | .error .abort => .error .abort
      | .error .fail => if (skipWs s).isEmpty then .ok (.compound .nil none) else .error .fail

end PtModel.Grammar
