import PtVerif.Model.Formula
/-!
# Density, natural density, isotope substitution, volume (formulas.py; util.cell_volume;
density.py `density` for isotopes) — C12

`Option α` is Python's `None` for an unknown density.
-/
namespace PtModel

/-- `_natural_atom`: isotope ↦ its natural element, ion charge kept -/
def naturalAtom (x : Atom) : Atom := ⟨x.z, 0, x.q⟩

section Ratio
variable {α : Type} [Add α] [Sub α] [Mul α] [Div α] [OfNat α 0] [OfNat α 1]

/-- `Formula.natural_mass_ratio`: two running sums over `atoms.items()`, then one division -/
def naturalMassRatio (am : Atom → α) (t : List (Atom × α)) : α :=
  let sums := t.foldl (fun (s : α × α) e => (s.1 + e.2 * am (naturalAtom e.1), s.2 + e.2 * am e.1)) (0, 0)
  sums.1 / sums.2

/-- `natural_density` getter: `density * natural_mass_ratio()` (only meaningful for a known density) -/
def getNaturalDensity (am : Atom → α) (t : List (Atom × α)) (density : α) : α :=
  density * naturalMassRatio am t

/-- `natural_density` setter: the density it stores -/
def setNaturalDensity (am : Atom → α) (t : List (Atom × α)) (nd : α) : α :=
  nd / naturalMassRatio am t

/-- `density.density(iso_el)`: element density, scaled by the mass ratio for an isotope,
    `None` when the element's density is unknown; an ion reports its atom's density -/
def atomDensity (m : Nat → Nat → α) (edens : Nat → Option α) (x : Atom) : Option α :=
  match edens x.z with
  | none => none
  | some d => if x.a = 0 then some d else some (d * (m x.z x.a / m x.z 0))

/-- `Formula.__init__`: natural_density ▸ density ▸ single atom's density ▸ None -/
def ctorDensity (am : Atom → α) (atomDens : Atom → Option α) (t : List (Atom × α))
    (density natural : Option α) : Option α :=
  match natural, density with
  | some nd, _ => some (setNaturalDensity am t nd)
  | none, some d => some d
  | none, none =>
    match t with
    | [e] => atomDens e.1
    | _ => none

/-- `formula(string, density=, natural_density=)`: the tag is applied by the parser
    (`Formula(structure, density=…)` / `natural_density=…`), then a keyword overrides it,
    `density` first.  `tag = (value, isNatural)`. -/
def stringDensity (am : Atom → α) (atomDens : Atom → Option α) (t : List (Atom × α))
    (tag : Option (α × Bool)) (density natural : Option α) : Option α :=
  let parsed := match tag with
    | none => ctorDensity am atomDens t none none
    | some (v, true) => ctorDensity am atomDens t none (some v)
    | some (v, false) => ctorDensity am atomDens t (some v) none
  match density, natural with
  | some d, _ => some d
  | none, some nd => some (setNaturalDensity am t nd)
  | none, none => parsed

end Ratio

section Replace
variable {α : Type} [Add α] [Sub α] [Mul α] [Div α] [OfNat α 0] [OfNat α 1] [BEq α]

def eraseKey (t : List (Atom × α)) (a : Atom) : List (Atom × α) := t.filter (fun e => e.1 ≠ a)

def hasKey (t : List (Atom × α)) (a : Atom) : Bool := t.any (fun e => e.1 = a)

/-- `atoms[a] = v` on an insertion-ordered dict -/
def setKey (t : List (Atom × α)) (a : Atom) (v : α) : List (Atom × α) :=
  if hasKey t a then t.map (fun e => if e.1 = a then (e.1, v) else e) else t ++ [(a, v)]

/-- `_isotope_substitution`: (new atoms dict, new density).  The real code then builds
    `formula(atoms)` (Hill order) and stores the density. -/
def substitute (am : Atom → α) (t : List (Atom × α)) (density : Option α)
    (source target : Atom) (portion : α) : List (Atom × α) × Option α :=
  if hasKey t source then
    let ns := lookupD t source
    let density' := density.map fun d =>
      let mass := massOf am t
      let reduction := ns * portion * (am source - am target)
      d * (mass - reduction) / mass
    let t1 := setKey t target (lookupD t target + ns * portion)
    let t2 := if portion == 1 then eraseKey t1 source
              else setKey t1 source (lookupD t1 source * (1 - portion))
    (t2, density')
  else (t, density)

end Replace

section Volume
variable {α : Type} [Add α] [Sub α] [Mul α] [Div α] [OfNat α 0] [OfNat α 1] [NatCast α]
  [OfScientific α] [Transc α]

/-- `V = 0; V += el.covalent_radius**3*count …; V *= 4.*pi/3; V/packing_factor*1e-24` -/
def sphereVolume (radius : Atom → α) (t : List (Atom × α)) (packing : α) : α :=
  let v := t.foldl (fun s e => s + radius e.1 * radius e.1 * radius e.1 * e.2) 0
  v * (((4 : Nat) : α) * Transc.pi / ((3 : Nat) : α)) / packing * (1e-24 : α)

/-- `radians(x)` -/
def radians (deg : α) : α := deg * (Transc.pi / ((180 : Nat) : α))

/-- `util.cell_volume(a, b, c, alpha, beta, gamma)` with its defaults (`b, c ← a`;
    `cos α ← 0`; `cos β, cos γ ← cos α`) -/
def cellVolume (a : α) (b c alpha beta gamma : Option α) : α :=
  let b := b.getD a
  let c := c.getD a
  let ca : α := match alpha with | some x => Transc.cos (radians x) | none => 0
  let cb : α := match beta with | some x => Transc.cos (radians x) | none => ca
  let cg : α := match gamma with | some x => Transc.cos (radians x) | none => ca
  a * b * c * Transc.sqrt (1 - ca * ca - cb * cb - cg * cg + ((2 : Nat) : α) * ca * cb * cg)

/-- `Formula.volume(a, b, c, alpha, beta, gamma)`: `cell_volume(...)*1e-24` -/
def latticeVolume (a : α) (b c alpha beta gamma : Option α) : α :=
  cellVolume a b c alpha beta gamma * (1e-24 : α)

end Volume

end PtModel
