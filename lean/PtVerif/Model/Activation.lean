import PtVerif.Num
/-!
# Model of `periodictable/activation.py` (C14, C15) — no Mathlib

Polymorphic in the number type `α` (BUILDING.md numeric rules): at `Float` these
definitions are executed by `ptdriver activation` and diffed against the real code; at `ℝ`
the *same terms* carry the theorems of `Properties/C14.lean` / `C15.lean`.

What is modelled, statement for statement, in the order the code evaluates it:

* `ActivationEnvironment.epithermal_reduction_factor`                 (`epithermal`)
* `activity()`: fast-reaction omission, `initialXS`, flux selection, `root`, `lam`, the three
  branches `'b'` (expm1 form), `'2n'` (three-exponential sum) and everything else (single
  capture with burn-up), the negative-activity error path, rest-time decay      (`activityRow`, `activity`)
* `Sample.calculate_activation` / `_accumulate`                          (`calcActivation`)
* `Sample.decay_time` / `find_root`                                      (`decayTime`, `findRoot`)

The model is of the tree **with `fixes/activation-1-burnup-expm1.patch` and
`fixes/activation-2-decay-time.patch` applied** (DESIGN §6 D12a, D18, D3): the single-capture
branch is `lam·T·exp(-min(U,V))·expm1(-|V-U|) / (-|V-U|)` (limit at `V = U`), `decay_time` works from the activity at
removal from the beam, which `calculate_activation` now records besides the requested
rest times.

Where Python raises, the model has an explicit `Except` branch: `ZeroDivisionError` for a
float division by an exact zero, `RuntimeError` for the two `raise RuntimeError` sites,
`OverflowError` for `math.exp` overflowing (only reachable inside `find_root`),
`ValueError` for `log` of a non-positive number.
-/
namespace PtModel.Activation

/-- the two operations of `math` beyond `Transc` that activation.py relies on -/
class ActNum (α : Type) where
  /-- `math.expm1` -/
  expm1 : α → α
  /-- `math.exp x` raises OverflowError (instead of returning inf) -/
  expOverflows : α → Bool

/-- `expm1` at `Float` (Kahan): exact to a couple of ulp, no libm `expm1` in Lean core. -/
def expm1Float (x : Float) : Float :=
  let u := Float.exp x
  if u == 1.0 then x
  else if u - 1.0 == -1.0 then -1.0
  else (u - 1.0) * x / Float.log u

instance : ActNum Float := ⟨expm1Float, fun x => (Float.exp x).isInf⟩

/-- Python exception classes the model distinguishes -/
inductive Err
  | zeroDivision
  | runtime
  | overflow
  | value
  deriving DecidableEq, Repr

def Err.name : Err → String
  | .zeroDivision => "ZeroDivisionError"
  | .runtime => "RuntimeError"
  | .overflow => "OverflowError"
  | .value => "ValueError"

/-- `reaction` column: only `'b'` and `'2n'` are distinguished by `activity()`; every other
string (`act`, `n,p`, `n,a`, `n,2n`, `n,n'`) takes the single-capture branch -/
inductive Reaction
  | act
  | b
  | twoN
  deriving DecidableEq, Repr, Inhabited

/-- the columns of one `activation.dat` row that `activity()` reads -/
structure Row (α : Type) where
  z : Nat
  a : Nat
  fast : Bool
  reaction : Reaction
  abundance : α
  thermalXS : α
  resonance : α
  thalf : α
  thalfParent : α
  thermalXSParent : α
  resonanceParent : α

/-- `ActivationEnvironment` -/
structure Env (α : Type) where
  fluence : α
  cdRatio : α
  fastRatio : α

/-- module-level constants (from `Generated.ActivationDat`): `LN2`, and the `1.6278e19` of `root` -/
structure Consts (α : Type) where
  ln2 : α
  uCi : α

section Numeric
variable {α : Type} [Add α] [Sub α] [Mul α] [Div α] [Neg α] [OfScientific α] [OfNat α 0] [OfNat α 1]
  [NatCast α] [LT α] [DecidableRel (α := α) (· < ·)] [LE α] [DecidableRel (α := α) (· ≤ ·)]
  [BEq α] [Transc α] [ActNum α]

/-- `1./Cd_ratio if Cd_ratio >= 1 else 0` -/
def epithermal (cd : α) : α := if 1 ≤ cd then 1 / cd else 0

/-- column H: `ai.thermalXS + env.epithermal_reduction_factor*ai.resonance` -/
def initialXS (env : Env α) (r : Row α) : α := r.thermalXS + epithermal env.cdRatio * r.resonance

/-- column P: `ai.thermalXS_parent + env.epithermal_reduction_factor*ai.resonance_parent` -/
def effectiveXS (env : Env α) (r : Row α) : α :=
  r.thermalXSParent + epithermal env.cdRatio * r.resonanceParent

/-- column K: `env.fluence/env.fast_ratio if ai.fast else env.fluence` -/
def fluxOf (env : Env α) (r : Row α) : α := if r.fast then env.fluence / env.fastRatio else env.fluence

/-- column L: `flux * initialXS * 1e-24 * mass / isotope.isotope * 1.6278e19` -/
def rootOf (c : Consts α) (flux xs mass : α) (massNumber : Nat) : α :=
  flux * xs * 1e-24 * mass / (massNumber : α) * c.uCi

/-- `'b'`: `root/(parent_lam - lam) * (lam*expm1(-parent_lam*exposure) - parent_lam*expm1(-lam*exposure))`
    (the caller has checked `parent_lam - lam ≠ 0`) -/
def bCore (root lam plam T : α) : α :=
  root / (plam - lam) * (lam * ActNum.expm1 (-plam * T) - plam * ActNum.expm1 (-lam * T))

/-- the three denominators of the `'2n'` sum, in the order the code multiplies them -/
def twoNDen1 (l2 pa p2 : α) : α := (pa - l2) * (p2 - l2)
def twoNDen2 (l2 pa p2 : α) : α := (l2 - pa) * (p2 - pa)
def twoNDen3 (l2 pa p2 : α) : α := (l2 - p2) * (pa - p2)

/-- `'2n'`: `root*lam*(parent_activity-parent_lam)*(exp(-lam_2n*T)/(…) + exp(-parent_activity*T)/(…) + exp(-product_2n*T)/(…))` -/
def twoNCore (root lam plam l2 pa T : α) : α :=
  root * lam * (pa - plam) *
    (Transc.exp (-l2 * T) / twoNDen1 l2 pa lam
     + Transc.exp (-pa * T) / twoNDen2 l2 pa lam
     + Transc.exp (-lam * T) / twoNDen3 l2 pa lam)

/-- columns U, V of the single-capture branch -/
def actU (flux xs T : α) : α := flux * xs * 3.6e3 * 1e-24 * T
def actV (lam fluence exs T : α) : α := (fluence * exs * 3.6e3 * 1e-24 + lam) * T

/-- single capture with burn-up (repaired form), `x = V - U`:
    `lam*exposure * exp(-U) * expm1(-x) / (-x)` if `x > 0`, `lam*exposure * exp(-V) * expm1(x)/x` if
    `x < 0`, else the limit `lam*exposure * exp(-U)` -/
def actCorrection (lam T U V : α) : α :=
  let x := V - U
  if 0 < x then lam * T * Transc.exp (-U) * ActNum.expm1 (-x) / -x
  else if x < 0 then lam * T * Transc.exp (-V) * ActNum.expm1 x / x
  else lam * T * Transc.exp (-U)

/-- Activity of one reaction row at the end of the irradiation (column Y), or `none` when the
reaction is omitted (`ai.fast and env.fast_ratio == 0`), or the exception Python raises. -/
def activityRow (c : Consts α) (r : Row α) (mass : α) (env : Env α) (T : α) : Except Err (Option α) :=
  if r.fast && env.fastRatio == 0 then .ok none else
  let xs := initialXS env r
  let flux := fluxOf env r
  let root := rootOf c flux xs mass r.a
  if r.thalf == 0 then .error .zeroDivision else
  let lam := c.ln2 / r.thalf
  match r.reaction with
  | .b =>
    if r.thalfParent == 0 then .error .zeroDivision else
    let plam := c.ln2 / r.thalfParent
    if plam - lam == 0 then .error .zeroDivision else
    .ok (some (bCore root lam plam T))
  | .twoN =>
    if r.thalfParent == 0 then .error .zeroDivision else
    let plam := c.ln2 / r.thalfParent
    let exs := effectiveXS env r
    let l2 := flux * xs * 1e-24 * 3.6e3
    let pa := env.fluence * 1e-24 * 3.6e3 * exs + plam
    if twoNDen1 l2 pa lam == 0 then .error .zeroDivision else
    if twoNDen2 l2 pa lam == 0 then .error .zeroDivision else
    if twoNDen3 l2 pa lam == 0 then .error .zeroDivision else
    .ok (some (twoNCore root lam plam l2 pa T))
  | .act =>
    let exs := effectiveXS env r
    let U := actU flux xs T
    let V := actV lam env.fluence exs T
    let act := root * actCorrection lam T U V
    if act < 0 then .error .runtime else .ok (some act)

/-- `[activity*exp(-lam*Ti) for Ti in rest_times]` -/
def restDecay (lam act : α) (rests : List α) : List α :=
  rests.map fun t => act * Transc.exp (-lam * t)

/-- `activity(isotope, mass, env, exposure, rest_times)`: the rows of one isotope in table
order, keyed by their row number; an exception in any row aborts the call. -/
def activity (c : Consts α) (rows : List (Nat × Row α)) (mass : α) (env : Env α) (T : α)
    (rests : List α) : Except Err (List (Nat × List α)) :=
  match rows with
  | [] => .ok []
  | (k, r) :: more =>
    match activityRow c r mass env T with
    | .error e => .error e
    | .ok none => activity c more mass env T rests
    | .ok (some act) =>
      match activity c more mass env T rests with
      | .error e => .error e
      | .ok out => .ok ((k, restDecay (c.ln2 / r.thalf) act rests) :: out)

/-! ## `Sample.calculate_activation` -/

/-- one isotope the sample contains: either named by the formula itself (`share = none`,
mass `mass*frac`) or an isotope of a natural element with its abundance in percent -/
structure IsoPart (α : Type) where
  z : Nat
  a : Nat
  share : Option α

/-- one entry of `formula.mass_fraction` with the isotopes it expands to -/
structure Part (α : Type) where
  frac : α
  isos : List (IsoPart α)

/-- `Sample.activity` and the (repaired) `Sample._activity_at_removal`, keyed by row number,
    in insertion order -/
structure Tally (α : Type) where
  removal : List (Nat × α) := []
  table : List (Nat × List α) := []

def bumpRemoval (t : List (Nat × α)) (k : Nat) (v : α) : List (Nat × α) :=
  match t with
  | [] => [(k, 0 + v)]
  | (k', x) :: rest => if k' = k then (k', x + v) :: rest else (k', x) :: bumpRemoval rest k v

def addLists : List α → List α → List α
  | x :: xs, y :: ys => (x + y) :: addLists xs ys
  | _, _ => []

def bumpTable (n : Nat) (t : List (Nat × List α)) (k : Nat) (v : List α) : List (Nat × List α) :=
  match t with
  | [] => [(k, addLists (List.replicate n 0) v)]
  | (k', x) :: rest => if k' = k then (k', addLists x v) :: rest else (k', x) :: bumpTable n rest k v

/-- `_accumulate`: `activity_el[0]` goes to the removal tally, `activity_el[1:]` to the table -/
def accumulate (n : Nat) (s : Tally α) (res : List (Nat × List α)) : Tally α :=
  res.foldl (fun s (k, vs) =>
    { removal := bumpRemoval s.removal k (vs.headD 0), table := bumpTable n s.table k vs.tail }) s

/-- the mass handed to `activity()`, or `none` when the isotope is skipped (`if iso_mass:`) -/
def isoMass (mass frac : α) (p : IsoPart α) : Option α :=
  match p.share with
  | none => some (mass * frac)
  | some ab =>
    let m := mass * frac * ab * 0.01
    if m == 0 then none else some m

/-- the `(Z, A, mass)` of every call `activity(el[iso], iso_mass, …)` that `calculate_activation`
    makes, in the order it makes them -/
def isoJobs (mass : α) (parts : List (Part α)) : List (Nat × Nat × α) :=
  parts.flatMap fun part =>
    part.isos.filterMap fun p => (isoMass mass part.frac p).map fun m => (p.z, p.a, m)

/-- the results of those calls; the first exception ends the calculation -/
def runJobs (c : Consts α) (rowsOf : Nat → Nat → List (Nat × Row α)) (env : Env α) (T : α)
    (times : List α) : List (Nat × Nat × α) → Except Err (List (List (Nat × List α)))
  | [] => .ok []
  | (z, a, m) :: more =>
    match activity c (rowsOf z a) m env T times with
    | .error e => .error e
    | .ok res =>
      match runJobs c rowsOf env T times more with
      | .error e => .error e
      | .ok out => .ok (res :: out)

/-- `calculate_activation`: `rowsOf z a` are the table rows of that isotope.  (Accumulating
    after all calls instead of after each one gives the same tally or the same exception.) -/
def calcActivation (c : Consts α) (rowsOf : Nat → Nat → List (Nat × Row α)) (mass : α) (env : Env α)
    (T : α) (rests : List α) (parts : List (Part α)) : Except Err (Tally α) :=
  match runJobs c rowsOf env T ((0 : α) :: rests) (isoJobs mass parts) with
  | .error e => .error e
  | .ok results => .ok (results.foldl (accumulate rests.length) {})

/-! ## `Sample.decay_time` and `find_root` -/

/-- `math.exp` with its OverflowError -/
def pexp (x : α) : Except Err α := if ActNum.expOverflows x then .error .overflow else .ok (Transc.exp x)

/-- one term of `sum(Ia*exp(-La*t) for Ia, La in data)` added to the running sum -/
def sumStep (t : α) (acc : Except Err α) (d : α × α) : Except Err α :=
  match acc with
  | .error e => .error e
  | .ok s => match pexp (-d.2 * t) with
    | .error e => .error e
    | .ok e => .ok (s + d.1 * e)

/-- `sum(Ia*exp(-La*t) for Ia, La in data)`, left to right from 0.  (CPython ≥ 3.12 compensates
    the rounding of float `sum()`; the same real number, at most an ulp apart at `Float`.) -/
def sumDecay (data : List (α × α)) (t : α) : Except Err α :=
  data.foldl (sumStep t) (.ok 0)

/-- `f = lambda t: sum(Ia*exp(-La*t) …) - target` -/
def fDecay (data : List (α × α)) (target t : α) : Except Err α :=
  match sumDecay data t with
  | .error e => .error e
  | .ok s => .ok (s - target)

/-- one term of `sum(-La*Ia*exp(-La*t) …)` added to the running sum -/
def dsumStep (t : α) (acc : Except Err α) (d : α × α) : Except Err α :=
  match acc with
  | .error e => .error e
  | .ok s => match pexp (-d.2 * t) with
    | .error e => .error e
    | .ok e => .ok (s + -d.2 * d.1 * e)

/-- `df = lambda t: sum(-La*Ia*exp(-La*t) …)` -/
def dfDecay (data : List (α × α)) (t : α) : Except Err α :=
  data.foldl (dsumStep t) (.ok 0)

/-- the loop of `find_root` with `n` iterations left, as written: the break test re-evaluates
    `f(x)`, the step uses the remembered `fx` -/
def findRootLoop (f df : α → Except Err α) (tol : α) : Nat → α → α → Except Err (α × α)
  | 0, x, fx => .ok (x, fx)
  | n + 1, x, fx =>
    match f x with
    | .error e => .error e
    | .ok fx' =>
      if Transc.abs fx' < tol then .ok (x, fx) else
      match df x with
      | .error e => .error e
      | .ok d =>
        if d == 0 then .error .zeroDivision else
        let x' := x - fx / d
        match f x' with
        | .error e => .error e
        | .ok fx2 => findRootLoop f df tol n x' fx2

/-- `find_root(x, f, df, max=20, tol=1e-10)` -/
def findRoot (f df : α → Except Err α) (x : α) : Except Err (α × α) :=
  match f x with
  | .error e => .error e
  | .ok fx => findRootLoop f df 1e-10 20 x fx

/-- `[(Ia, LN2/a.Thalf_hrs) for a, Ia in self._activity_at_removal.items() if Ia > 0]` -/
def decayData (c : Consts α) (thalfOf : Nat → α) (removal : List (Nat × α)) : Except Err (List (α × α)) :=
  match removal with
  | [] => .ok []
  | (k, ia) :: rest =>
    if 0 < ia then
      if thalfOf k == 0 then .error .zeroDivision else
      match decayData c thalfOf rest with
      | .error e => .error e
      | .ok out => .ok ((ia, c.ln2 / thalfOf k) :: out)
    else decayData c thalfOf rest

/-- `-log(target/Ia)/La` for one product -/
def guessOf (target : α) (d : α × α) : Except Err α :=
  if d.1 == 0 then .error .zeroDivision else
  let q := target / d.1
  if q ≤ 0 then .error .value else
  if d.2 == 0 then .error .zeroDivision else
  .ok (-Transc.log q / d.2)

def guessStep (target : α) (acc : Except Err (Option α)) (d : α × α) : Except Err (Option α) :=
  match acc with
  | .error e => .error e
  | .ok m =>
    match guessOf target d with
    | .error e => .error e
    | .ok g =>
      match m with
      | none => .ok (some g)
      | some m => .ok (some (if m < g then g else m))

/-- `max(-log(target/Ia)/La for Ia, La in data)`; Python's `max` keeps the first maximum -/
def initialGuess (data : List (α × α)) (target : α) : Except Err (Option α) :=
  data.foldl (guessStep target) (.ok none)

/-- `Sample.decay_time(target)` after `calculate_activation` (so `self.rest_times` and
`self.activity` are non-empty); `data` is the list built by `decayData`. -/
def decayTimeOfData (data : List (α × α)) (target : α) : Except Err α :=
  match fDecay data target 0 with
  | .error e => .error e
  | .ok f0 =>
    if f0 ≤ 0 then .ok 0 else
    match initialGuess data target with
    | .error e => .error e
    | .ok none => .error .value            -- `max()` of an empty sequence
    | .ok (some x0) =>
      match findRoot (fDecay data target) (dfDecay data) x0 with
      | .error e => .error e
      | .ok (t, ft) =>
        if target == 0 then .error .zeroDivision else
        if 0.1 < 1e2 * Transc.abs ft / target then .error .runtime
        else .ok (if t < 0 then 0 else t)     -- `max(t, 0.)`

def decayTime (c : Consts α) (thalfOf : Nat → α) (removal : List (Nat × α)) (target : α) : Except Err α :=
  match decayData c thalfOf removal with
  | .error e => .error e
  | .ok data => decayTimeOfData data target

end Numeric

/-! ## Decimal literals of the table and the string-level reading of a row

`Dec m e` stands for `m · 10^e`; `Generated.ActivationDat` stores every numeric field this
way (exact), `Dec.toNum` interprets it in any number type. -/

structure Dec where
  m : Nat
  e : Int
  deriving DecidableEq, Repr, Inhabited

def Dec.toNum {α : Type} [OfScientific α] (d : Dec) : α :=
  match d.e with
  | .ofNat k => OfScientific.ofScientific d.m false k
  | .negSucc k => OfScientific.ofScientific d.m true (k + 1)

/-- a table row with exact decimal fields (what the translator emits) -/
structure DRow where
  z : Nat
  a : Nat
  fast : Bool
  reaction : Reaction
  abundance : Dec
  thermalXS : Dec
  resonance : Dec
  thalf : Dec
  thalfParent : Dec
  thermalXSParent : Dec
  resonanceParent : Dec
  deriving DecidableEq, Repr, Inhabited

def DRow.toRow {α : Type} [OfScientific α] (d : DRow) : Row α :=
  { z := d.z, a := d.a, fast := d.fast, reaction := d.reaction,
    abundance := d.abundance.toNum, thermalXS := d.thermalXS.toNum, resonance := d.resonance.toNum,
    thalf := d.thalf.toNum, thalfParent := d.thalfParent.toNum,
    thermalXSParent := d.thermalXSParent.toNum, resonanceParent := d.resonanceParent.toNum }

/-- rows of one isotope, with their row numbers, in table order -/
def rowsOfIsotope {α : Type} [OfScientific α] (table : List DRow) (z a : Nat) : List (Nat × Row α) :=
  (table.zipIdx.filter fun (r, _) => r.z == z && r.a == a).map fun (r, i) => (i, r.toRow)

/-! ### `activation.init`: one line of `activation.dat` → a row (string level)

`row.split('\t')`; skipped when `columns[0].strip()` is `''` or `'xx'`; a leading `"` strips the
first and last character; `int()` of columns 1, 2, 4; `== 'y'` for column 13; `float()` or `0.`
for the float columns.  `float()` is modelled for the notations the file uses
(`digits[.digits][E±digits]`, surrounding blanks); anything else is `none` (= the model does
not claim to know what Python does). -/

def isBlank (c : Char) : Bool := c == ' ' || c == '\t' || c == '\n' || c == '\r'

def strip (s : List Char) : List Char :=
  ((s.dropWhile isBlank).reverse.dropWhile isBlank).reverse

def splitTabs (s : List Char) : List (List Char) :=
  let rec go (cur : List Char) (acc : List (List Char)) : List Char → List (List Char)
    | [] => (cur.reverse :: acc).reverse
    | c :: cs => if c == '\t' then go [] (cur.reverse :: acc) cs else go (c :: cur) acc cs
  go [] [] s

def unquote (c : List Char) : List Char :=
  match c with
  | '"' :: rest => rest.dropLast
  | _ => c

def digitsVal (cs : List Char) : Option Nat :=
  if cs.isEmpty then none else
  cs.foldl (fun acc c => acc.bind fun n => if c.isDigit then some (n * 10 + (c.toNat - 48)) else none) (some 0)

/-- `float(text)` for `digits[.digits][(E|e)[+-]digits]` → exact decimal -/
def parseDec (cs : List Char) : Option Dec :=
  let cs := strip cs
  let (mant, ex) := cs.span fun c => c != 'E' && c != 'e'
  let (ip, fp) := mant.span fun c => c != '.'
  let fp := fp.drop 1
  if ip.isEmpty && fp.isEmpty then none else
  match digitsVal (if ip.isEmpty then ['0'] else ip), (if fp.isEmpty then some 0 else digitsVal fp) with
  | some i, some f =>
    let m := i * 10 ^ fp.length + f
    let e0 : Int := -(fp.length : Int)
    match ex with
    | [] => some ⟨m, e0⟩
    | _ :: '+' :: ds => (digitsVal ds).map fun k => ⟨m, e0 + k⟩
    | _ :: '-' :: ds => (digitsVal ds).map fun k => ⟨m, e0 - k⟩
    | _ :: ds => (digitsVal ds).map fun k => ⟨m, e0 + k⟩
  | _, _ => none

/-- `float(c) if c.strip() else 0.` -/
def floatColumn (c : List Char) : Option Dec :=
  if (strip c).isEmpty then some ⟨0, 0⟩ else parseDec c

/-- `int(c)` for plain digits (with surrounding blanks) -/
def intColumn (c : List Char) : Option Nat := digitsVal (strip c)

def reactionOf (c : List Char) : Reaction :=
  if c == ['b'] then .b else if c == ['2', 'n'] then .twoN else .act

inductive Line
  | skipped
  | row (r : DRow)
  | unreadable
  deriving DecidableEq, Repr

/-- one line of the file as `activation.init` reads it -/
def parseLine (line : List Char) : Line :=
  let cols := splitTabs line
  match cols with
  | [] => .skipped
  | c0 :: _ =>
    let k := strip c0
    if k.isEmpty || k == ['x', 'x'] then .skipped else
    let cols := (cols.map unquote).toArray
    if cols.size < 23 then .unreadable else
    match intColumn cols[2]!, intColumn cols[4]!, intColumn cols[1]!,
          floatColumn cols[6]!, floatColumn cols[14]!, floatColumn cols[16]!, floatColumn cols[17]!,
          floatColumn cols[19]!, floatColumn cols[20]!, floatColumn cols[21]!,
          floatColumn cols[11]!, floatColumn cols[15]! with
    | some z, some a, some _, some ab, some xs, some res, some th, some thp, some xsp, some resp,
      some _, some _ =>
      .row { z := z, a := a, fast := cols[13]! == ['y'], reaction := reactionOf cols[12]!,
             abundance := ab, thermalXS := xs, resonance := res, thalf := th, thalfParent := thp,
             thermalXSParent := xsp, resonanceParent := resp }
    | _, _, _, _, _, _, _, _, _, _, _, _ => .unreadable

end PtModel.Activation
