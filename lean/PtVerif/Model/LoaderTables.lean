import PtVerif.Model.Loaders
import PtVerif.Generated.ElementBase
/-!
# The element table the loaders index (`core.py element_base`, via `Generated.ElementBase`)
-/
namespace PtLoad

/-- `table[z].symbol` as a `symCode`; `none` = `KeyError` -/
def symOf (z : Nat) : Option Nat :=
  (PtGen.elementBase.find? (fun r => r.1 == z)).map (fun r => r.2.2.2.1)

/-- `getattr(table, symbol)` for an element symbol; `none` = no such element -/
def zOf (code : Nat) : Option Nat :=
  (PtGen.elementBase.find? (fun r => r.2.2.2.1 == code)).map (fun r => r.1)

/-- atomic numbers of the table -/
def allZ : List Nat := PtGen.elementBase.map (·.1)

end PtLoad
