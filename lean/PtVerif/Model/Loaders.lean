import PtVerif.Num
/-!
# Table loaders (C06, C07): text utilities, `parse_uncertainty`, `mass.init`, `density`

Mathlib-free and executable.  Everything numeric is polymorphic in the number type `α`
(`Float` in the driver, any field in the theorems).

The hand-written line parsers of the library are modelled in two layers that are composed by
`Mass.loadText` / `Nsf.loadText`:

* **text → structured rows** (`parseIsoLine`, `parseElLine`, `parseAbLine`, `parseNsfLine` …):
  the Python string methods the loaders use (`split(',')`, `split()`, `strip()`, `int()`,
  `float()`, slicing) on `List Char`, and `parse_uncertainty` (util.py 8-54) producing a
  *reading* `Unc` (which of the notations, with exact decimal numbers `Dec`);
* **rows → table state**: the loops of `mass.init` (mass.py 100-186) as folds with the same
  carry-over state (pass 1 overwrites the element mass on every isotope row; pass 2
  overrides unless `-`; pass 3 collects an element's composition in a dict and writes the
  normalised abundances when the next header arrives – and, since the repair of D1, once more
  after the last line).

Where the real code raises (`ValueError` from `int`/`float`/unpacking, `KeyError`,
`AssertionError`, `ZeroDivisionError`, `TypeError`) the model's `load` returns `none`; the
conditions are collected in explicit guard predicates (`pass1Ok` …) so that the theorems
state them as hypotheses.
-/
namespace PtLoad

abbrev Str := List Char

/-! ## exact decimal numbers -/

/-- the exact value `m / 10^e` of a decimal literal -/
structure Dec where
  m : Int
  e : Nat
deriving Repr, DecidableEq, Inhabited

namespace Dec
/-- same value (the representation is not normalised: `12.0` is `⟨120, 1⟩`) -/
def same (a b : Dec) : Bool := a.m * (10 ^ b.e : Nat) == b.m * (10 ^ a.e : Nat)

def toNum {α : Type} [NatCast α] [IntCast α] [Div α] (d : Dec) : α :=
  (d.m : α) / ((10 ^ d.e : Nat) : α)

def toRat (d : Dec) : Rat := (d.m : Rat) / ((10 ^ d.e : Nat) : Rat)
end Dec

/-! ## Python string methods on ASCII text -/

/-- the characters `str.split()` / `str.strip()` treat as blank (ASCII part) -/
def isWs (c : Char) : Bool :=
  c == ' ' || c == '\t' || c == '\n' || c == '\r' || c == '\x0b' || c == '\x0c'

/-- `s.split(sep)` for a one-character separator: never empty, keeps empty fields -/
def splitOn (sep : Char) : Str → List Str
  | [] => [[]]
  | c :: cs =>
    if c = sep then [] :: splitOn sep cs
    else match splitOn sep cs with
      | w :: ws => (c :: w) :: ws
      | [] => [[c]]

def wordsGo : Str → Str → List Str
  | cur, [] => if cur.isEmpty then [] else [cur.reverse]
  | cur, c :: cs =>
    if isWs c then (if cur.isEmpty then wordsGo [] cs else cur.reverse :: wordsGo [] cs)
    else wordsGo (c :: cur) cs

/-- `s.split()`: blank-separated words, no empty strings -/
def words (s : Str) : List Str := wordsGo [] s

/-- `s.strip()` -/
def strip (s : Str) : Str := ((s.dropWhile isWs).reverse.dropWhile isWs).reverse

def isDigit (c : Char) : Bool := '0' ≤ c && c ≤ '9'

/-- value of a digit string, most significant first -/
def natOf (cs : Str) : Nat := cs.foldl (fun n c => n * 10 + (c.toNat - 48)) 0

/-- `int(s)`: blanks around, optional sign, one or more ASCII digits.  (Python also accepts
    `_` between digits and non-ASCII digits; the tables and the generators contain neither.) -/
def pyInt (s : Str) : Option Int :=
  let s := strip s
  let (neg, ds) := match s with
    | '-' :: r => (true, r)
    | '+' :: r => (false, r)
    | _ => (false, s)
  if ds.isEmpty || !ds.all isDigit then none
  else some (if neg then -(natOf ds : Int) else (natOf ds : Int))

/-- `int(s)` used as a table key (atomic number, mass number): negative values never name
    an entry (`KeyError` in the real code) -/
def pyNat (s : Str) : Option Nat :=
  match pyInt s with
  | some i => if i < 0 then none else some i.toNat
  | none => none

/-- leading digits and the rest -/
def spanDigits (s : Str) : Str × Str := (s.takeWhile isDigit, s.dropWhile isDigit)

/-- an optional leading sign -/
def splitSign (s : Str) : Bool × Str :=
  match s with
  | '-' :: r => (true, r)
  | '+' :: r => (false, r)
  | _ => (false, s)

/-- the exponent part of a float literal: nothing, or `e`/`E`, optional sign, digits -/
def parseExp (r : Str) : Option Int :=
  match r with
  | [] => some 0
  | c :: r' =>
    if c = 'e' || c = 'E' then
      let (eneg, ds) := splitSign r'
      if ds.isEmpty || !ds.all isDigit then none
      else some (if eneg then -(natOf ds : Int) else (natOf ds : Int))
    else none

/-- `±(ip.fp)·10^ex` as an exact decimal -/
def mkDec (neg : Bool) (ip fp : Str) (ex : Int) : Dec :=
  let mant : Int := (natOf (ip ++ fp) : Int)
  let mant := if neg then -mant else mant
  let scale : Int := (fp.length : Int) - ex
  if scale ≥ 0 then ⟨mant, scale.toNat⟩
  else ⟨mant * ((10 ^ (-scale).toNat : Nat) : Int), 0⟩

/-- the fraction digits after an optional point -/
def fracPart (r : Str) : Str × Str :=
  match r with
  | '.' :: r' => spanDigits r'
  | _ => ([], r)

/-- `float(s)` for decimal literals: blanks around, sign, digits with optional point, optional
    exponent.  (`inf`, `nan`, `_` are not modelled.)  The result is exact. -/
def pyFloat (s : Str) : Option Dec :=
  let (neg, s) := splitSign (strip s)
  let (ip, r) := spanDigits s
  let (fp, r) := fracPart r
  if ip.isEmpty && fp.isEmpty then none
  else (parseExp r).map (mkDec neg ip fp)

/-- an injective-enough number for a symbol string; for one or two ASCII letters it is the
    code used by `Generated.ElementBase` (`ord(c0)*256 + ord(c1)`, `ord(c0)*256`). -/
def symCode : Str → Nat
  | [c0] => c0.toNat * 256
  | [c0, c1] => c0.toNat * 256 + c1.toNat
  | s => s.foldl (fun n c => n * 1114112 + c.toNat + 1) 65536 + 16777216

/-! ## `parse_uncertainty` (util.py 8-54) -/

/-- which notation a field is written in, with its exact numbers -/
inductive Unc where
  | missing                       -- ""            → (None, None)
  | plain (v : Dec)               -- "23"          → (23, 0)
  | valUnc (v u : Dec)            -- "23.0035(12)" → (23.0035, 0.0012)
  | nominal (v : Dec)             -- "[289]"       → (289, 0)
  | range (lo hi : Dec)           -- "[lo,hi]"     → ((hi+lo)/2, (hi-lo)/sqrt(12))
deriving Repr, DecidableEq, Inhabited

namespace Unc
def same : Unc → Unc → Bool
  | .missing, .missing => true
  | .plain a, .plain b => a.same b
  | .valUnc a u, .valUnc b w => a.same b && u.same w
  | .nominal a, .nominal b => a.same b
  | .range a b, .range c d => a.same c && b.same d
  | _, _ => false
end Unc

/-- the text handed to `float()` for the uncertainty of `value(unc)`: when `unc` has no
    decimal point and `value` has one, `unc` counts units of the last digit of `value` -/
def uncText (value unc : Str) : Str :=
  if !unc.contains '.' && value.contains '.' then
    let frac := ((splitOn '.' value).drop 1).headD []
    -- "0"*zeros is empty for zeros ≤ 0
    '0' :: '.' :: (List.replicate (frac.length - unc.length) '0' ++ unc)
  else unc

/-- `parse_uncertainty(s)`; `none` = the real code raises (`float()` of a malformed number) -/
def parseUncertainty (s : Str) : Option Unc :=
  match s with
  | [] => some .missing
  | '[' :: rest =>
    -- s[1:-1]
    let inner := rest.dropLast
    match splitOn ',' inner with
    | lo :: hi :: _ =>
      match pyFloat lo, pyFloat hi with
      | some lo, some hi => some (.range lo hi)
      | _, _ => none
    | [v] => (pyFloat v).map .nominal
    | [] => none
  | _ =>
    match splitOn '(' s with
    | value :: p1 :: _ =>
      let unc := (splitOn ')' p1).headD []
      match pyFloat value, pyFloat (uncText value unc) with
      | some v, some u => some (.valUnc v u)
      | _, _ => none
    | _ => (pyFloat s).map .plain

/-- value and uncertainty as numbers; `none` is the pair `(None, None)` -/
abbrev VU (α : Type) := Option (α × α)

section eval
variable {α : Type} [Add α] [Sub α] [Div α] [OfNat α 0] [NatCast α] [IntCast α]

/-- the value part (needs no square root: usable at `Rat`) -/
def Unc.val : Unc → Option α
  | .missing => none
  | .plain v => some v.toNum
  | .valUnc v _ => some v.toNum
  | .nominal v => some v.toNum
  | .range lo hi => some ((hi.toNum + lo.toNum) / ((2 : Nat) : α))

/-- the uncertainty part; a `[lo,hi]` range is a rectangular distribution of 1-sigma
    equivalent width `(hi-lo)/sqrt(12)` -/
def Unc.unc [Transc α] : Unc → Option α
  | .missing => none
  | .plain _ => some 0
  | .valUnc _ u => some u.toNum
  | .nominal _ => some 0
  | .range lo hi => some ((hi.toNum - lo.toNum) / Transc.sqrt (((12 : Nat) : α)))

/-- what `parse_uncertainty` returns -/
def Unc.eval [Transc α] (u : Unc) : VU α :=
  match u.val (α := α), u.unc (α := α) with
  | some v, some d => some (v, d)
  | _, _ => none

/-- `fix_number` (nsf.py 1680-1687) keeps only the value of `parse_uncertainty` -/
abbrev Unc.value (u : Unc) : Option α := u.val
end eval

/-! ## association lists (latest binding first) -/

def aget {κ β : Type} [DecidableEq κ] (k : κ) : List (κ × β) → Option β
  | [] => none
  | (k', v) :: l => if k = k' then some v else aget k l

/-- Python `d[k] = v` on an insertion-ordered dict -/
def dictSet {κ β : Type} [DecidableEq κ] (k : κ) (v : β) : List (κ × β) → List (κ × β)
  | [] => [(k, v)]
  | (k', v') :: l => if k = k' then (k, v) :: l else (k', v') :: dictSet k v l

/-! ## the three mass tables as structured rows -/

/-- `z-el-iso,isotope mass(unc)#?,abundance(unc),element mass(unc)` -/
structure IsoRow where
  z : Nat
  sym : Nat          -- `symCode` of the symbol column
  a : Nat
  m : Unc
  avg : Unc
deriving Repr, DecidableEq, Inhabited

/-- `z  El  name  mass(unc)|[lo,hi]|-  notes…` (`value = none` for `-`) -/
structure ElRow where
  z : Nat
  value : Option Unc
deriving Repr, DecidableEq, Inhabited

/-- a line of the composition table: an element header or an indented isotope entry -/
inductive AbLine where
  | header (z : Nat)
  | entry (a : Nat) (v : Unc)
deriving Repr, DecidableEq, Inhabited

structure MassTables where
  iso : List IsoRow
  el : List ElRow
  ab : List AbLine
deriving Repr

/-! ### text → rows -/

/-- remove a trailing `#` … nothing to do: `parse_uncertainty` cuts at `)` -/
def parseIsoLine (line : Str) : Option IsoRow :=
  match splitOn ',' line with
  | [isotope, m, _p, avg] =>
    match splitOn '-' isotope with
    | [z, sym, iso] =>
      match pyNat z, pyNat iso, parseUncertainty avg, parseUncertainty m with
      | some z, some a, some avg, some m => some ⟨z, symCode sym, a, m, avg⟩
      | _, _, _, _ => none
    | _ => none
  | _ => none

def parseElLine (line : Str) : Option ElRow :=
  match words line with
  | z :: _symbol :: _name :: value :: _ =>
    match pyNat z with
    | none => none
    | some z =>
      if value = ['-'] then some ⟨z, none⟩
      else (parseUncertainty value).map fun u => ⟨z, some u⟩
  | _ => none

def parseAbLine (line : Str) : Option AbLine :=
  match line with
  | [] => none                                  -- line[0]: IndexError
  | c :: _ =>
    if !(c = ' ' || c = '\t') then
      match words (strip line) with
      | z :: _ => (pyNat z).map .header
      | [] => none
    else
      match words (strip line) with
      | a :: v :: _ =>
        match pyNat a, parseUncertainty v with
        | some a, some v => some (.entry a v)
        | _, _ => none
      | _ => none

def mapM? {β γ : Type} (f : β → Option γ) : List β → Option (List γ)
  | [] => some []
  | x :: xs => match f x, mapM? f xs with
    | some y, some ys => some (y :: ys)
    | _, _ => none

def lines (s : Str) : List Str := splitOn '\n' s

def parseMassTables (iso el ab : Str) : Option MassTables :=
  match mapM? parseIsoLine (lines iso), mapM? parseElLine (lines el), mapM? parseAbLine (lines ab) with
  | some i, some e, some a => some ⟨i, e, a⟩
  | _, _, _ => none

/-! ### rows → table state -/

section mass
variable {α : Type} [Add α] [Sub α] [Mul α] [Div α] [OfNat α 0] [NatCast α] [IntCast α] [Transc α]
  [BEq α]

/-- what `mass.init` leaves on the objects of one table -/
structure MassState (α : Type) where
  /-- `el._mass, el._mass_unc`, latest write first -/
  elMass : List (Nat × VU α)
  /-- `iso._mass, iso._mass_unc` -/
  isoMass : List ((Nat × Nat) × VU α)
  /-- `iso._abundance, iso._abundance_unc` -/
  isoAb : List ((Nat × Nat) × (α × α))
  /-- keys of `el._isotopes` (a fresh table already has D and T) -/
  isotopes : List (Nat × Nat)

def MassState.fresh : MassState α := ⟨[], [], [], [(1, 3), (1, 2)]⟩

/-- pass 1, one line (mass.py 116-130) -/
def pass1Step (st : MassState α) (r : IsoRow) : MassState α :=
  { elMass := (r.z, r.avg.eval) :: st.elMass
    isoMass := ((r.z, r.a), r.m.eval) :: st.isoMass
    isoAb := ((r.z, r.a), (0, 0)) :: st.isoAb
    isotopes := (r.z, r.a) :: st.isotopes }

/-- the neutron: element 0 and its isotope 1 (mass.py 132-137) -/
def neutronStep (nm nmu : α) (st : MassState α) : MassState α :=
  { elMass := (0, some (nm, nmu)) :: st.elMass
    isoMass := ((0, 1), some (nm, nmu)) :: st.isoMass
    isoAb := ((0, 1), (((100 : Nat) : α), 0)) :: st.isoAb
    isotopes := (0, 1) :: st.isotopes }

/-- pass 2, one line (mass.py 141-151) -/
def pass2Step (st : MassState α) (r : ElRow) : MassState α :=
  match r.value with
  | none => st
  | some u => { st with elMass := (r.z, u.eval) :: st.elMass }

/-- Python `sum(v[0] for v in value.values())` (starts from 0, left to right) -/
def abTotal (value : List (Nat × (α × α))) : α := value.foldl (fun s p => s + p.2.1) 0

/-- normalise one element's composition and store it (mass.py 166-180) -/
def flush (st : MassState α) (z : Nat) (value : List (Nat × (α × α))) : MassState α :=
  if z = 0 then st else
  let total := abTotal value
  value.foldl (fun st p =>
    { st with isoAb := ((z, p.1), (((100 : Nat) : α) * p.2.1 / total,
                                   ((100 : Nat) : α) * p.2.2 / total)) :: st.isoAb }) st

/-- pass 3 carry-over: current element and its `value` dict -/
structure AbCur (α : Type) where
  st : MassState α
  z : Nat
  value : List (Nat × (α × α))

def pass3Step (c : AbCur α) : AbLine → AbCur α
  | .header z' => ⟨flush c.st c.z c.value, z', []⟩
  | .entry a u => { c with value := dictSet a ((u.eval (α := α)).getD (0, 0)) c.value }

/-- pass 3 with the final flush (the repair of D1: without it the last element of the table
    never received its abundances) -/
def pass3 (st : MassState α) (ls : List AbLine) : MassState α :=
  let c := ls.foldl pass3Step ⟨st, 0, []⟩
  flush c.st c.z c.value

def loadRows (nm nmu : α) (t : MassTables) : MassState α :=
  let st := t.iso.foldl pass1Step MassState.fresh
  let st := neutronStep nm nmu st
  let st := t.el.foldl pass2Step st
  pass3 st t.ab

/-! guards: the conditions under which `mass.init` runs to completion -/

/-- `table[z]` exists and `el.symbol == sym` -/
def pass1Ok (symOf : Nat → Option Nat) (rows : List IsoRow) : Bool :=
  rows.all fun r => symOf r.z == some r.sym

def pass2Ok (symOf : Nat → Option Nat) (rows : List ElRow) : Bool :=
  rows.all fun r => (symOf r.z).isSome

/-- one flush: element exists, every listed isotope exists, total is not zero -/
def flushOk (symOf : Nat → Option Nat) (isotopes : List (Nat × Nat)) (z : Nat)
    (value : List (Nat × (α × α))) : Bool :=
  z == 0 || ((symOf z).isSome && value.all (fun p => isotopes.contains (z, p.1))
             && (value.isEmpty || !(abTotal value == 0)))

def pass3OkGo (symOf : Nat → Option Nat) (isotopes : List (Nat × Nat)) :
    Nat → List (Nat × (α × α)) → List AbLine → Bool
  | z, value, [] => flushOk symOf isotopes z value
  | z, value, .header z' :: ls => flushOk symOf isotopes z value && pass3OkGo symOf isotopes z' [] ls
  | z, value, .entry a u :: ls =>
    (u != .missing) && pass3OkGo symOf isotopes z (dictSet a ((u.eval (α := α)).getD (0, 0)) value) ls

def isotopesAfter (t : MassTables) : List (Nat × Nat) :=
  (0, 1) :: (t.iso.foldl (fun l r => (r.z, r.a) :: l) [(1, 3), (1, 2)])

def loadOk (symOf : Nat → Option Nat) (t : MassTables) : Bool :=
  pass1Ok symOf t.iso && (symOf 0).isSome && pass2Ok symOf t.el
    && pass3OkGo (α := α) symOf (isotopesAfter t) 0 [] t.ab

/-- `mass.init(table)` on structured rows: `none` = raises -/
def Mass.load (symOf : Nat → Option Nat) (nm nmu : α) (t : MassTables) : Option (MassState α) :=
  if loadOk (α := α) symOf t then some (loadRows nm nmu t) else none

/-- `mass.init(table)` on the raw text of the three tables -/
def Mass.loadText (symOf : Nat → Option Nat) (nm nmu : α) (iso el ab : Str) : Option (MassState α) :=
  match parseMassTables iso el ab with
  | some t => Mass.load symOf nm nmu t
  | none => none

/-! ### what the objects serve -/

/-- `el._mass, el._mass_unc`; outer `none` = AttributeError (never assigned) -/
def MassState.elMassOf (st : MassState α) (z : Nat) : Option (VU α) := aget z st.elMass

def MassState.hasIsotope (st : MassState α) (z a : Nat) : Bool := st.isotopes.contains (z, a)

/-- `iso._mass, iso._mass_unc`: the isotope's own, else (`Isotope.__getattr__`) the element's -/
def MassState.isoMassOf (st : MassState α) (z a : Nat) : Option (VU α) :=
  match aget (z, a) st.isoMass with
  | some v => some v
  | none => st.elMassOf z

/-- `iso._abundance, iso._abundance_unc`; `none` = AttributeError -/
def MassState.isoAbOf (st : MassState α) (z a : Nat) : Option (α × α) := aget (z, a) st.isoAb

end mass

/-! ## density (density.py 47-172) -/

/-- an entry of `element_densities`: keyword (symbol) and the number (`none` for `None`) -/
structure DensityRow where
  sym : Nat
  value : Option Dec
deriving Repr, DecidableEq, Inhabited

section density
variable {α : Type} [Add α] [Sub α] [Mul α] [Div α] [OfNat α 0] [NatCast α] [IntCast α] [Transc α]

/-- `el._density` per atomic number, latest first; `zOf` resolves `getattr(table, symbol)` -/
def Density.loadRows (zOf : Nat → Option Nat) (rows : List DensityRow) : List (Nat × Option α) :=
  rows.foldl (fun l r => match zOf r.sym with
    | some z => (z, r.value.map Dec.toNum) :: l
    | none => l) []

def Density.loadOk (zOf : Nat → Option Nat) (rows : List DensityRow) : Bool :=
  rows.all fun r => (zOf r.sym).isSome

/-- `element.density` -/
def elDensity (tbl : List (Nat × Option α)) (z : Nat) : Option (Option α) := aget z tbl

/-- `isotope.density` (density.py 62-66): element density scaled by the mass ratio -/
def isoDensityVal (rho isoMass elMass : α) : α := rho * (isoMass / elMass)

/-- `number_density` (density.py 108-137): `(density/mass)*avogadro_number` -/
def numberDensityVal (na rho m : α) : α := (rho / m) * na

/-- `x ** (1./3.)` for positive `x` -/
def cbrt (x : α) : α := Transc.exp (Transc.log x / ((3 : Nat) : α))

/-- `interatomic_distance` (density.py 69-106): `(mass/(density*avogadro_number*1e-24))**(1/3)` -/
def interatomicDistanceVal (na rho m : α) : α :=
  cbrt (m / (rho * na * (((1 : Nat) : α) / ((10 ^ 24 : Nat) : α))))

/-! Access semantics.  An attribute is `Option (Option α)`: outer `none` = the access raises
(AttributeError / TypeError), `some none` = `None`. -/

/-- `element.number_density` / `.interatomic_distance`: `None` as soon as the density is `None`
    (the mass is not looked at), `None` when the mass is `None`; `bad r m` is the divisor test
    (Python float division by zero raises ZeroDivisionError) -/
def elDerived (bad : α → α → Bool) (f : α → α → α) (rho mass : Option (Option α)) : Option (Option α) :=
  match rho with
  | none => none
  | some none => some none
  | some (some r) =>
    match mass with
    | none => none
    | some none => some none
    | some (some m) => if bad r m then none else some (some (f r m))

variable [BEq α]

/-- `element.number_density` -/
def elNumberDensity (na : α) (rho mass : Option (Option α)) : Option (Option α) :=
  elDerived (fun _ m => m == 0) (numberDensityVal na) rho mass

/-- `element.interatomic_distance` -/
def elInteratomicDistance (na : α) (rho mass : Option (Option α)) : Option (Option α) :=
  elDerived (fun r _ => r * na * (((1 : Nat) : α) / ((10 ^ 24 : Nat) : α)) == 0)
    (interatomicDistanceVal na) rho mass

/-- `isotope.density`: `None` when the element's density is `None` (unknown, not an error);
    when the isotope or the element has no mass *attribute* the getter's AttributeError makes
    Python fall back to `Isotope.__getattr__`, i.e. to the element's density; a mass that is
    `None` is a TypeError, an element mass of 0 a ZeroDivisionError. -/
def isoDensity (rho isoMass elMass : Option (Option α)) : Option (Option α) :=
  match rho with
  | none => none
  | some none => some none
  | some (some r) =>
    match isoMass, elMass with
    | none, _ => some (some r)
    | _, none => some (some r)
    | some (some mi), some (some me) => if me == 0 then none else some (some (isoDensityVal r mi me))
    | _, _ => none

end density

end PtLoad
