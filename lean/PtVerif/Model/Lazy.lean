/-!
# Model of lazy loading (core.py `delayed_load`, the registrations in `__init__.py`, every
# module's `init(table)`) and of Python's attribute resolution for Element / Isotope / Ion

Python attribute lookup on an instance `x` of class `C` for name `p`:
  1. `C.__dict__[p]` is a data descriptor (a `property`)  → call its getter (setter on assignment);
     an `AttributeError` raised inside the getter falls back to `C.__getattr__` if `C` has one;
  2. `x.__dict__[p]`;
  3. `C.__dict__[p]` as a plain class attribute;
  4. `C.__getattr__(x, p)` – Isotope delegates to its element, Ion to its element-or-isotope;
     Element has none → `AttributeError`.

`delayed_load(props, loader, element, isotope, ion)` installs on the flagged classes, for every
name in `props`, a property whose getter is `clearprops(); loader(); return getattr(el, name)` and
whose setter is `clearprops(); [loader();] setattr(el, name, value)` – the two step lists are read
from core.py by the translator (`Generated/LazyConfig.lean`), as are, for every module `init`, the
guard on `table.properties` and the ordered class-level and per-instance writes.

State is kept **per registration group** (`GS`): the class-dictionary entries of the group's
attribute names on the three classes, the guard names of the group's inits in every table's
`properties`, and which per-instance write effects have run on which table.  The translator
checks that every `init` mentions attributes of one group only (otherwise it refuses to generate),
which is what makes the per-group layout faithful.  User-assigned instance attributes and
in-place mutation marks live in a separate log `L` (they are unbounded; the control state is
finite, which the proofs exploit).

No Mathlib.  Executable: `Driver/LazyCmd.lean`.
-/
namespace PtLazy

inductive Cls | element | isotope | ion
deriving DecidableEq, Repr, Hashable

/-- has the class a `__getattr__` that delegates to `self.element`? -/
def Cls.delegates : Cls → Bool
  | .element => false
  | _ => true

/-- a class-dictionary entry for one of the group's names -/
inductive CAttr
  | pending                 -- the delayed-load property of this group
  | plain (i v t : Nat)     -- plain value: object number v created by init i when it ran on table t
  | desc (i k : Nat)        -- data descriptor (a `property`) written by effect k of init i
deriving DecidableEq, Repr, Hashable

inductive AccStep | clear | load | get | set
deriving DecidableEq, Repr, Hashable

inductive Sel | zero | rows
deriving DecidableEq, Repr, Hashable

inductive Eff
  /-- `if name in table.properties and not reload: return` ; `table.properties.append(name)` -/
  | guard (name : Nat)
  /-- `C.p = value` (`isDesc`: the value is a `property(...)`; `vid`: which object of this init
      run the value is – `Isotope.x = Element.x = v` stores one object twice) -/
  | classWrite (c : Cls) (p : Nat) (isDesc : Bool) (vid : Nat)
  /-- `x.p = value` for the atoms x (instances of c) selected by `sel`; `shared`: the value is a
      mutable module-level object stored by reference -/
  | instWrite (c : Cls) (p : Nat) (sel : Sel) (shared : Bool)
  /-- a read of `x.p` inside the init; `catches`: through `hasattr` / `getattr(x, p, default)` -/
  | probe (c : Cls) (p : Nat) (catches : Bool)
  /-- `if hasattr(x, p): del x.p` for every atom of the table -/
  | delIfHas (c : Cls) (p : Nat)
deriving DecidableEq, Repr, Hashable

structure GroupCfg where
  attrs : List Nat
  onElement : Bool
  onIsotope : Bool
  onIon : Bool
  /-- the init the registered loader calls on the public table -/
  loader : Nat
  /-- every init that mentions an attribute of this group, with its effects in program order -/
  inits : List (Nat × List Eff)
  getter : List AccStep
  setter : List AccStep
deriving DecidableEq, Repr, Hashable

def GroupCfg.flag (g : GroupCfg) : Cls → Bool
  | .element => g.onElement
  | .isotope => g.onIsotope
  | .ion => g.onIon

def GroupCfg.effsOf (g : GroupCfg) (m : Nat) : Option (List Eff) :=
  (g.inits.find? (·.1 = m)).map (·.2)

/-- effect k of init i -/
def GroupCfg.eff? (g : GroupCfg) (i k : Nat) : Option Eff :=
  match g.effsOf i with
  | some es => es[k]?
  | none => none

/-- an object on the delegation chain of a read: its class, its position key (same number for
    "the same atom" in every table) and the per-instance write effects (init, index) whose
    selection contains it -/
structure Node where
  cls : Cls
  atom : Nat
  rows : List (Nat × Nat)
deriving DecidableEq, Repr, Hashable

inductive TraceItem
  | wrote (t i k : Nat)       -- effect k of init i performed its instance writes on table t
  | delAttr (t p : Nat)       -- instance attributes p of table t deleted
deriving DecidableEq, Repr, Hashable

/-- control state of one group -/
structure GS where
  cls : List ((Cls × Nat) × CAttr) := []
  props : List (Nat × Nat) := []          -- (table, guard name) ∈ table.properties
  effs : List (Nat × Nat × Nat) := []     -- (table, init, index), newest first, no duplicates
  trace : List TraceItem := []            -- instance-level actions of the current event, newest first
deriving DecidableEq, Repr, Hashable

def GS.clsGet (s : GS) (c : Cls) (p : Nat) : Option CAttr :=
  (s.cls.find? (fun e => e.1 = (c, p))).map (·.2)

def GS.clsSet (s : GS) (c : Cls) (p : Nat) (v : CAttr) : GS :=
  { s with cls := ((c, p), v) :: s.cls.filter (fun e => e.1 ≠ (c, p)) }

def GS.clsDel (s : GS) (c : Cls) (p : Nat) : GS :=
  { s with cls := s.cls.filter (fun e => e.1 ≠ (c, p)) }

def GS.addEff (s : GS) (t i k : Nat) : GS :=
  { s with effs := (t, i, k) :: s.effs.filter (· ≠ (t, i, k)), trace := .wrote t i k :: s.trace }

/-- initial class state: the delayed-load property on every flagged class -/
def GroupCfg.initGS (g : GroupCfg) : GS :=
  { cls := ([Cls.element, Cls.isotope, Cls.ion].filter g.flag).flatMap fun c =>
      g.attrs.map fun p => ((c, p), CAttr.pending) }

inductive Val
  | data (i k : Nat) (marks : List Nat)     -- written on the instance by effect k of init i
  | user (pos : Nat)                        -- the user-assigned value found at chain position pos
  | dflt (i v t : Nat) (marks : List Nat)   -- class-level plain value (object v of init i run on table t)
  | computed (i k : Nat) (pos : Nat)        -- class-level descriptor evaluated on chain position pos
deriving DecidableEq, Repr, Hashable

inductive Res (α : Type)
  | ok (a : α)
  | attrError
  | otherError
  | outOfFuel
deriving DecidableEq, Repr, Hashable

/-- does the object at chain position `pos` carry a user-assigned instance value for the name? -/
abbrev Orc := Nat → Bool

/-- the instance dictionary of `node` (of table t) for name p, as far as the loaders filled it:
    the newest effect that ran on t, selects the node and writes p on its class -/
def GS.instData (g : GroupCfg) (s : GS) (t : Nat) (node : Node) (p : Nat) : Option (Nat × Nat) :=
  (s.effs.find? fun (t', i, k) =>
    t' = t && node.rows.contains (i, k) &&
      match g.eff? i k with
      | some (.instWrite c p' _ _) => c = node.cls && p' = p
      | _ => false).map fun (_, i, k) => (i, k)

def GroupCfg.clsOrder : List Cls := [.element, .isotope, .ion]

/-- `clearprops()`: `delattr(C, p)` for every flagged class and every name; `AttributeError`
    at the first name that is not there -/
def clearprops (g : GroupCfg) (s : GS) : GS × Res Unit :=
  let targets := (GroupCfg.clsOrder.filter g.flag).flatMap fun c => g.attrs.map fun p => (c, p)
  go targets s
where
  go : List (Cls × Nat) → GS → GS × Res Unit
    | [], s => (s, .ok ())
    | (c, p) :: rest, s =>
      match s.clsGet c p with
      | some _ => go rest (s.clsDel c p)
      | none => (s, .attrError)

/-- the per-instance write effects of init m (any position) -/
def GroupCfg.writesOf (g : GroupCfg) (m : Nat) : List (Nat × Nat) :=
  match g.effsOf m with
  | some es => (List.range es.length).filterMap fun k =>
      match es[k]? with
      | some (Eff.instWrite _ _ _ _) => some (m, k)
      | _ => none
  | none => []

/-- the abstract atom an init works on in its loops: an object of class c of the table, carrying
    exactly the instance attributes that this init's own write effects have stored so far
    (`instData` only counts effects that have run on the table) -/
def absChain (g : GroupCfg) (m : Nat) : Cls → List Node
  | .element => [⟨.element, 0, g.writesOf m⟩]
  | .isotope => [⟨.isotope, 0, g.writesOf m⟩, ⟨.element, 0, g.writesOf m⟩]
  | .ion => [⟨.ion, 0, g.writesOf m⟩, ⟨.element, 0, g.writesOf m⟩]

/-- an atom without instance attributes (import-time reads are modelled on such an atom) -/
def bareChain : Cls → List Node
  | .element => [⟨.element, 0, []⟩]
  | .isotope => [⟨.isotope, 0, []⟩, ⟨.element, 0, []⟩]
  | .ion => [⟨.ion, 0, []⟩, ⟨.element, 0, []⟩]

def noUser : Orc := fun _ => false

/-- what a write stores -/
inductive WVal
  | user            -- a user value (recorded in the log L by the caller)
  | eff (i k : Nat) -- the data of effect k of init i (for all selected atoms)
deriving DecidableEq, Repr, Hashable

/-- where a lookup ends when no delayed-load getter runs: at a value, at a pending delayed-load
    property (chain position), or nowhere (`AttributeError`) -/
inductive Stop
  | val (v : Val)
  | pendingAt (pos : Nat)
  | fail
deriving DecidableEq, Repr

/-- the walk of `getattr(x, p)` along the delegation chain, up to the first delayed-load property:
    for every object – data descriptor on its class, instance dictionary (user value, loader
    data), plain class attribute, else `__getattr__` delegation to the next object -/
def findStop (g : GroupCfg) (s : GS) (t p : Nat) (orc : Orc) : List Node → Nat → Stop
  | [], _ => .fail
  | node :: rest, pos =>
    match s.clsGet node.cls p with
    | some .pending => .pendingAt pos
    | some (.desc i k) => .val (.computed i k pos)
    | c =>
      if orc pos then .val (.user pos)
      else
        match s.instData g t node p with
        | some (i, k) => .val (.data i k [])
        | none =>
          match c with
          | some (.plain i v t') => .val (.dflt i v t' [])
          | _ => if node.cls.delegates then findStop g s t p orc rest (pos + 1) else .fail

mutual
/-- `getattr(x, p)` where `chain` is x followed by the objects it delegates to; `pos` is the
    chain position of the head.  When the walk meets a pending delayed-load property its getter
    runs; an `AttributeError` from the getter falls back to `__getattr__` of that object. -/
def getAttr (g : GroupCfg) : Nat → GS → Nat → List Node → Nat → Nat → Orc → GS × Res Val
  | 0, s, _, _, _, _, _ => (s, .outOfFuel)
  | fuel + 1, s, t, chain, pos, p, orc =>
    match findStop g s t p orc chain pos with
    | .val v => (s, .ok v)
    | .fail => (s, .attrError)
    | .pendingAt j =>
      let sub := chain.drop (j - pos)
      let (s1, r) := runAcc g fuel g.getter s t sub j p orc none
      match r with
      | .attrError =>
        match sub with
        | node :: rest =>
          if node.cls.delegates then getAttr g fuel s1 t rest (j + 1) p orc else (s1, .attrError)
        | [] => (s1, .attrError)
      | r => (s1, r)

/-- `setattr(x, p, value)` on the head of the chain -/
def setAttr (g : GroupCfg) : Nat → GS → Nat → List Node → Nat → Nat → Orc → WVal → GS × Res Val
  | 0, s, _, _, _, _, _, _ => (s, .outOfFuel)
  | fuel + 1, s, t, chain, pos, p, orc, w =>
    match chain with
    | [] => (s, .attrError)
    | node :: _ =>
      match s.clsGet node.cls p with
      | some .pending => runAcc g fuel g.setter s t chain pos p orc (some w)
      | some (.desc _ _) => (s, .attrError)      -- a property without a setter
      | _ =>
        match w with
        | .user => (s, .ok (.user pos))
        | .eff i k => (s.addEff t i k, .ok (.data i k []))

/-- the body of the delayed-load getter / setter: the steps as written in core.py -/
def runAcc (g : GroupCfg) : Nat → List AccStep → GS → Nat → List Node → Nat → Nat → Orc →
    Option WVal → GS × Res Val
  | 0, _, s, _, _, _, _, _, _ => (s, .outOfFuel)
  | _ + 1, [], s, _, _, _, _, _, _ => (s, .otherError)     -- fell off the end: returns None
  | fuel + 1, step :: more, s, t, chain, pos, p, orc, w =>
    match step with
    | .clear =>
      match clearprops g s with
      | (s1, .ok _) => runAcc g fuel more s1 t chain pos p orc w
      | (s1, .attrError) => (s1, .attrError)
      | (s1, _) => (s1, .otherError)
    | .load =>
      match runInit g fuel s g.loader 0 with
      | (s1, .ok _) => runAcc g fuel more s1 t chain pos p orc w
      | (s1, .attrError) => (s1, .attrError)
      | (s1, .otherError) => (s1, .otherError)
      | (s1, .outOfFuel) => (s1, .outOfFuel)
    | .get => getAttr g fuel s t chain pos p orc
    | .set =>
      match w with
      | some w => setAttr g fuel s t chain pos p orc w
      | none => (s, .otherError)

/-- `<module>.<init>(table t)` -/
def runInit (g : GroupCfg) : Nat → GS → Nat → Nat → GS × Res Unit
  | 0, s, _, _ => (s, .outOfFuel)
  | fuel + 1, s, m, t =>
    match g.effsOf m with
    | some es => runEffs g fuel s m t 0 es
    | none => (s, .ok ())

def runEffs (g : GroupCfg) : Nat → GS → Nat → Nat → Nat → List Eff → GS × Res Unit
  | 0, s, _, _, _, _ => (s, .outOfFuel)
  | _ + 1, s, _, _, _, [] => (s, .ok ())
  | fuel + 1, s, m, t, k, e :: es =>
    match e with
    | .guard name =>
      if s.props.contains (t, name) then (s, .ok ())
      else runEffs g fuel { s with props := (t, name) :: s.props } m t (k + 1) es
    | .classWrite c p isDesc vid =>
      runEffs g fuel (s.clsSet c p (if isDesc then .desc m k else .plain m vid t)) m t (k + 1) es
    | .instWrite c p _ _ =>
      match setAttr g fuel s t (absChain g m c) 0 p noUser (.eff m k) with
      | (s1, .ok _) => runEffs g fuel s1 m t (k + 1) es
      | (s1, .attrError) => (s1, .attrError)
      | (s1, .otherError) => (s1, .otherError)
      | (s1, .outOfFuel) => (s1, .outOfFuel)
    | .probe c p catches =>
      match getAttr g fuel s t (absChain g m c) 0 p noUser with
      | (s1, .ok _) => runEffs g fuel s1 m t (k + 1) es
      | (s1, .attrError) => if catches then runEffs g fuel s1 m t (k + 1) es else (s1, .attrError)
      | (s1, .otherError) => (s1, .otherError)
      | (s1, .outOfFuel) => (s1, .outOfFuel)
    | .delIfHas c p =>
      -- `hasattr` first (forces a pending load), then the instance attributes of this table go
      match getAttr g fuel s t (absChain g m c) 0 p noUser with
      | (s1, .otherError) => (s1, .otherError)
      | (s1, .outOfFuel) => (s1, .outOfFuel)
      | (s1, _) =>
        let s2 := { s1 with
          effs := s1.effs.filter (fun (t', i, k') =>
            !(t' = t && match g.eff? i k' with
                        | some (.instWrite c' p' _ _) => c' = c && p' = p
                        | _ => false)),
          trace := .delAttr t p :: s1.trace }
        runEffs g fuel s2 m t (k + 1) es
end

def fuel0 : Nat := 60

/-! ## events on one group -/

/-- outcome of an event as the property observes it -/
inductive Out
  | val (v : Val)
  | attrError
  | otherError
  | bool (b : Bool)
  | done
  | outOfFuel
deriving DecidableEq, Repr, Hashable

def Res.toOut : Res Val → Out
  | .ok v => .val v
  | .attrError => .attrError
  | .otherError => .otherError
  | .outOfFuel => .outOfFuel

/-- events that concern one group (the attribute p belongs to the group) -/
inductive GEvent
  | read (t : Nat) (chain : List Node) (p : Nat)
  | has (t : Nat) (chain : List Node) (p : Nat)
  | init (m : Nat) (t : Nat)
  | assign (t : Nat) (chain : List Node) (p : Nat)
deriving DecidableEq, Repr, Hashable

def gstep (g : GroupCfg) (s : GS) (orc : Orc) : GEvent → GS × Out
  | .read t chain p =>
    let (s1, r) := getAttr g fuel0 s t chain 0 p orc
    (s1, r.toOut)
  | .has t chain p =>
    match getAttr g fuel0 s t chain 0 p orc with
    | (s1, .ok _) => (s1, .bool true)
    | (s1, .attrError) => (s1, .bool false)
    | (s1, .otherError) => (s1, .otherError)
    | (s1, .outOfFuel) => (s1, .outOfFuel)
  | .init m t =>
    match runInit g fuel0 s m t with
    | (s1, .ok _) => (s1, .done)
    | (s1, .attrError) => (s1, .attrError)
    | (s1, .otherError) => (s1, .otherError)
    | (s1, .outOfFuel) => (s1, .outOfFuel)
  | .assign t chain p =>
    match setAttr g fuel0 s t chain 0 p orc .user with
    | (s1, .ok _) => (s1, .done)
    | (s1, .attrError) => (s1, .attrError)
    | (s1, .otherError) => (s1, .otherError)
    | (s1, .outOfFuel) => (s1, .outOfFuel)

/-! ## the whole machine: all groups + the log of user values and mutation marks -/

structure Config where
  groups : List GroupCfg
  /-- reads performed at import time by a submodule: (module id, [(class of the atom read, attr)]) -/
  importReads : List (Nat × List (Cls × Nat))
deriving DecidableEq, Repr, Hashable

def Config.groupOf (cfg : Config) (p : Nat) : Option Nat :=
  cfg.groups.findIdx? (fun g => g.attrs.contains p)

/-- entries of the log, newest first -/
inductive LEntry
  /-- `x.p = <user value v>` on the atom `atom` of table t (with the atom's row profile) -/
  | user (t : Nat) (atom : Nat) (cls : Cls) (rows : List (Nat × Nat)) (p : Nat) (v : Nat)
  /-- in-place mutation mark n on the object served for (atom, p): `scope = some t` for an object
      owned by table t, `none` for a module-level / class-level object visible from every table;
      `src` identifies the object (the effect that produced it) -/
  | mark (scope : Option Nat) (atom : Nat) (p : Nat) (src : Nat × Nat) (n : Nat)
deriving DecidableEq, Repr, Hashable

structure State where
  gs : List GS
  log : List LEntry := []
deriving DecidableEq, Repr, Hashable

def Config.init (cfg : Config) : State := { gs := cfg.groups.map (·.initGS) }

def userVal (log : List LEntry) (t : Nat) (node : Node) (p : Nat) : Option Nat :=
  log.findSome? fun
    | .user t' a c _ p' v => if t' = t ∧ a = node.atom ∧ c = node.cls ∧ p' = p then some v else none
    | _ => none

/-- the oracle of an event: which chain positions carry a user value for p -/
def orcOf (log : List LEntry) (t : Nat) (chain : List Node) (p : Nat) : Orc := fun pos =>
  match chain[pos]? with
  | some node => (userVal log t node p).isSome
  | none => false

/-- instance-level actions of an event applied to the log: a loader write replaces the user
    values of the atoms it selects; `del` removes them; both drop table-owned marks -/
def applyTrace (g : GroupCfg) (log : List LEntry) : List TraceItem → List LEntry
  | [] => log
  | item :: older =>
    let log := applyTrace g log older
    match item with
    | .wrote t i k =>
      match g.eff? i k with
      | some (.instWrite c p _ _) =>
        log.filter fun
          | .user t' _ c' rows p' _ => !(t' = t && c' = c && p' = p && rows.contains (i, k))
          | .mark (some t') _ p' src _ => !(t' = t && p' = p && src = (i, k))
          | _ => true
      | _ => log
    | .delAttr t p =>
      log.filter fun
        | .user t' _ _ _ p' _ => !(t' = t && p' = p)
        | .mark (some t') _ p' _ _ => !(t' = t && p' = p)
        | _ => true

/-- the value as served: user values and mutation marks filled in from the log -/
inductive Served
  | data (i k : Nat) (marks : List Nat)
  | user (v : Nat)
  | dflt (i v : Nat) (marks : List Nat)
  | computed (i k : Nat) (pos : Nat) (marks : List Nat)
  | attrError
  | otherError
  | bool (b : Bool)
  | done
  | outOfFuel
deriving DecidableEq, Repr, Hashable

def markOf (scope : Option Nat) (atom p : Nat) (src : Nat × Nat) : LEntry → Option Nat
  | .mark sc a p' s n => if sc = scope ∧ a = atom ∧ p' = p ∧ s = src then some n else none
  | _ => none

def marksOf (log : List LEntry) (scope : Option Nat) (atom p : Nat) (src : Nat × Nat) : List Nat :=
  List.mergeSort (le := fun a b => a ≤ b) (log.filterMap (markOf scope atom p src))

/-- is the value written by effect (i, k) a module-level object stored by reference? -/
def GroupCfg.sharedEff (g : GroupCfg) (i k : Nat) : Bool :=
  match g.eff? i k with
  | some (.instWrite _ _ _ sh) => sh
  | _ => false

/-- which chain position served a `data` value: the first node the effect selects -/
def servingNode (g : GroupCfg) (chain : List Node) (i k : Nat) : Option Node :=
  chain.find? fun n => n.rows.contains (i, k) &&
    match g.eff? i k with
    | some (.instWrite c _ _ _) => c = n.cls
    | _ => false

def serve (g : GroupCfg) (log : List LEntry) (t : Nat) (chain : List Node) (p : Nat) : Out → Served
  | .val (.data i k _) =>
    let atom := ((servingNode g chain i k).map (·.atom)).getD 0
    let scope := if g.sharedEff i k then none else some t
    .data i k (marksOf log scope atom p (i, k))
  | .val (.user pos) =>
    match chain[pos]? with
    | some node => .user ((userVal log t node p).getD 0)
    | none => .user 0
  | .val (.dflt i v t' _) => .dflt i v (marksOf log none t' p (i, v))
  | .val (.computed i k pos) =>
    let atom := ((chain[pos]?).map (·.atom)).getD 0
    .computed i k pos (marksOf log (some t) atom p (i, k))
  | .attrError => .attrError
  | .otherError => .otherError
  | .bool b => .bool b
  | .done => .done
  | .outOfFuel => .outOfFuel

inductive Event
  | read (t : Nat) (chain : List Node) (p : Nat)
  | has (t : Nat) (chain : List Node) (p : Nat)
  | init (m : Nat) (t : Nat)
  | importMod (m : Nat)
  | assign (t : Nat) (chain : List Node) (p : Nat) (v : Nat)
  | mutate (t : Nat) (chain : List Node) (p : Nat) (n : Nat)
deriving DecidableEq, Repr, Hashable

def State.setGS (s : State) (gi : Nat) (x : GS) : State := { s with gs := s.gs.set gi x }

/-- record a mutation mark (once) -/
def addMark (log : List LEntry) (e : LEntry) : List LEntry := if log.contains e then log else e :: log

/-- run a group event on group gi, fold its trace into the log -/
def stepG (cfg : Config) (s : State) (gi : Nat) (orc : Orc) (e : GEvent) : State × Out :=
  match cfg.groups[gi]?, s.gs[gi]? with
  | some g, some x =>
    let (x1, out) := gstep g x orc e
    let log := applyTrace g s.log x1.trace
    ({ gs := s.gs.set gi { x1 with trace := [] }, log := log }, out)
  | _, _ => (s, .attrError)

/-- an init touches every group that lists it (the translator admits one) -/
def stepInit (cfg : Config) (s : State) (m t : Nat) : State × Out :=
  (List.range cfg.groups.length).foldl (fun (acc : State × Out) gi =>
    match cfg.groups[gi]? with
    | some g =>
      if (g.effsOf m).isSome then
        let (s1, o) := stepG cfg acc.1 gi noUser (.init m t)
        (s1, if acc.2 = .done then o else acc.2)
      else acc
    | none => acc) (s, .done)

def step (cfg : Config) (s : State) : Event → State × Served
  | .read t chain p =>
    match cfg.groupOf p with
    | some gi =>
      let (s1, o) := stepG cfg s gi (orcOf s.log t chain p) (.read t chain p)
      (s1, match cfg.groups[gi]? with
           | some g => serve g s1.log t chain p o
           | none => .attrError)
    | none => (s, .attrError)
  | .has t chain p =>
    match cfg.groupOf p with
    | some gi =>
      let (s1, o) := stepG cfg s gi (orcOf s.log t chain p) (.has t chain p)
      (s1, match cfg.groups[gi]? with
           | some g => serve g s1.log t chain p o
           | none => .attrError)
    | none => (s, .bool false)
  | .init m t =>
    let (s1, o) := stepInit cfg s m t
    (s1, match o with
         | .done => .done | .attrError => .attrError | .otherError => .otherError
         | .outOfFuel => .outOfFuel | _ => .done)
  | .importMod m =>
    match cfg.importReads.find? (·.1 = m) with
    | some (_, reads) =>
      (reads.foldl (fun st (c, p) =>
        match cfg.groupOf p with
        | some gi => (stepG cfg st gi noUser (.read 0 (bareChain c) p)).1
        | none => st) s, .done)
    | none => (s, .done)
  | .assign t chain p v =>
    match cfg.groupOf p, chain with
    | some gi, node :: _ =>
      let (s1, o) := stepG cfg s gi (orcOf s.log t chain p) (.assign t chain p)
      match o with
      | .done =>
        let log := s1.log.filter fun
          | .user t' a c _ p' _ => !(t' = t && a = node.atom && c = node.cls && p' = p)
          | _ => true
        ({ s1 with log := .user t node.atom node.cls node.rows p v :: log }, .done)
      | .attrError => (s1, .attrError)
      | .outOfFuel => (s1, .outOfFuel)
      | _ => (s1, .otherError)
    | _, _ => (s, .attrError)
  | .mutate t chain p n =>
    -- read the value, then mutate the object in place
    match cfg.groupOf p with
    | some gi =>
      let (s1, o) := stepG cfg s gi (orcOf s.log t chain p) (.read t chain p)
      match cfg.groups[gi]?, o with
      | some g, .val (.data i k _) =>
        let atom := ((servingNode g chain i k).map (·.atom)).getD 0
        let scope := if g.sharedEff i k then none else some t
        ({ s1 with log := addMark s1.log (.mark scope atom p (i, k) n) }, .done)
      | some _, .val (.dflt i v t' _) =>
        ({ s1 with log := addMark s1.log (.mark none t' p (i, v) n) }, .done)
      | some _, .val (.user _) => (s1, .otherError)       -- the harness' sentinels are immutable
      | some _, .val (.computed i k pos) =>                -- cached on the object itself: owned by table t
        let atom := ((chain[pos]?).map (·.atom)).getD 0
        ({ s1 with log := addMark s1.log (.mark (some t) atom p (i, k) n) }, .done)
      | some _, .attrError => (s1, .attrError)
      | _, _ => (s1, .otherError)
    | none => (s, .attrError)

def run (cfg : Config) (s : State) : List Event → State
  | [] => s
  | e :: es => run cfg (step cfg s e).1 es

/-- what the canonical order serves: the event on a fresh interpreter -/
def canon (cfg : Config) (e : Event) : Served := (step cfg cfg.init e).2

end PtLazy
