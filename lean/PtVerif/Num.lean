/-!
# Numeric plumbing shared by all models (no Mathlib)

Every numeric model is written once, polymorphic in the number type `α`, using only
notation classes (`Add`, `Mul`, …) plus the small class `Transc` for the non-algebraic
operations.  At `Float` the definitions are executable (driver / correspondence); at `ℝ`
(instance declared in proof files only) the *same terms* carry the theorems.
-/

/-- Non-algebraic operations the numeric models need beyond field notation. -/
class Transc (α : Type) where
  exp : α → α
  log : α → α
  sqrt : α → α
  cos : α → α
  pi : α
  abs : α → α

instance : Transc Float :=
  ⟨Float.exp, Float.log, Float.sqrt, Float.cos, 3.141592653589793, Float.abs⟩

instance : IntCast Float := ⟨Float.ofInt⟩
instance : NatCast Float := ⟨Float.ofNat⟩

namespace PtNum

/-- 16 lower-case hex digits of a 64-bit pattern. -/
def hex64 (u : UInt64) : String :=
  let ds := (List.range 16).map fun i =>
    let nib := ((u >>> (UInt64.ofNat (60 - 4 * i))) &&& 0xF).toNat
    Nat.digitChar nib
  String.ofList ds

def hexVal (c : Char) : Option Nat :=
  if '0' ≤ c ∧ c ≤ '9' then some (c.toNat - 48)
  else if 'a' ≤ c ∧ c ≤ 'f' then some (c.toNat - 87)
  else if 'A' ≤ c ∧ c ≤ 'F' then some (c.toNat - 55)
  else none

def parseHex64 (s : String) : Option UInt64 :=
  if s.length != 16 then none else
  s.toList.foldl (fun acc c => do
    let a ← acc
    let v ← hexVal c
    pure (a * 16 + UInt64.ofNat v)) (some 0)

/-- floats cross the line protocol as bit patterns -/
def showF (x : Float) : String := hex64 x.toBits
def readF (s : String) : Option Float := (parseHex64 s).map Float.ofBits

end PtNum
