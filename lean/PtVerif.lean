import PtVerif.Num
import PtVerif.Generated.ElementBase
import PtVerif.Generated.Constants
import PtVerif.Model.Formula
import PtVerif.Model.FormulaOps
import PtVerif.Properties.C02
