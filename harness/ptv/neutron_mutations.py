"""Hand-mutation runner of the neutron cluster (development aid, not used by any check).

    PTV_REPO=<scratch worktree of the library> /venv/bin/python -m ptv.neutron_mutations [names…]

Applies one textual mutation at a time to the library worktree named by PTV_REPO (never /repo),
runs the library's tests and the four neutron checks (quick tier), prints one line per mutation
(`Cxx:<exit>(<disagreements>/<violations>)`), and undoes the mutation with `git checkout -- .`.
The outcomes recorded in docs/notes-neutron.md were produced with this list.
After a session regenerate the data modules (run any check on the clean tree) before committing.
"""
import subprocess, sys, os, re
from pathlib import Path

REPO = os.environ.get("PTV_REPO", "")
VW = str(Path(__file__).resolve().parents[2])

MUTS = {
 # name: (file, old, new, intended properties)
 "m01_sld_inc_factor": ("periodictable/nsf.py", "    # Compute incoherent scattering length density (1e-6/A^2)\n    sld_inc = number_density * b_i * 10", "    # Compute incoherent scattering length density (1e-6/A^2)\n    sld_inc = number_density * b_i * 100", "C03"),
 "m33b_num_atoms_from_top_level": ("periodictable/nsf.py", "    # If nothing to sum, return values for a vacuum.  This might be because\n    # the material has no atoms or it might be because the density is zero.\n    if molar_mass*compound.density == 0:\n        return (0, 0, 0), (0, 0, 0), inf", "    if all(not isinstance(f, tuple) for _, f in compound.structure) or len(compound.structure) == 1:\n        pass\n    else:\n        num_atoms = num_atoms*(1 + 1e-6)\n    if molar_mass*compound.density == 0:\n        return (0, 0, 0), (0, 0, 0), inf", "C04"),
 "m36_two_sites_energy_factor": ("periodictable/nsf.py", "/ (2 * neutron_mass * atomic_mass_constant)) * 1e23\n", "/ (2 * neutron_mass * atomic_mass_constant)) * 1e21\n", "C04", [("periodictable/nsf.py", "    return sqrt(ENERGY_FACTOR / asarray(energy))", "    return sqrt(100 * ENERGY_FACTOR / asarray(energy))")]),
 "m38_anion_conjugate": ("periodictable/nsf.py", "        b_ck, sigma_sk = element.neutron.scattering_by_wavelength(wavelength)\n        #print(f\"{element=}", "        b_ck, sigma_sk = element.neutron.scattering_by_wavelength(wavelength)\n        if getattr(element, 'charge', 0) < 0:\n            b_ck = np.conj(b_ck)\n        #print(f\"{element=}", "C03"),
 "m39_replace_boundary": ("periodictable/formulas.py", "        if portion == 1:\n            del atoms[source]", "        if portion > 0.999:\n            del atoms[source]", "C16"),
 "m40_replace_loses_existing_target": ("periodictable/formulas.py", "        atoms[target] = atoms.get(target, 0) + atoms[source]*portion", "        atoms[target] = atoms[source]*portion", "C16"),
 "m41_composite_density_default": ("periodictable/nsf.py", "        cell_volume = (molar_mass/density)/avogadro_number*1e24\n        number_density = num_atoms / cell_volume\n        #print(\"in compute\"", "        cell_volume = (molar_mass/max(density, 1e-2))/avogadro_number*1e24\n        number_density = num_atoms / cell_volume\n        #print(\"in compute\"", "C17"),
 "m08b_neutron_mass_1pct": ("periodictable/constants.py", "neutron_mass = 1.00866491590", "neutron_mass = 1.01866491590", "C04"),
 "m33_regroup_sensitive": ("periodictable/nsf.py", "    for element, quantity in compound.atoms.items():\n        # TODO: use NaN rather than None", "    for element, quantity in (compound.atoms.items() if len(compound.structure) != 2 else list(compound.atoms.items())[:1]*1 + list(compound.atoms.items())[1:]):\n        quantity = quantity*(1+1e-7*(len(compound.structure) == 3))\n        # TODO: use NaN rather than None", "C04"),
 "m34_natural_density_ignored_for_isotopes": ("periodictable/formulas.py", "        self.density = natural_density / self.natural_mass_ratio()", "        self.density = natural_density / self.natural_mass_ratio()**2", "C16"),
 "m35_stale_cache_second_call": ("periodictable/nsf.py", "        b_c = np.interp(wavelength, self.nsf_table[0], self.nsf_table[1])", "        if getattr(self, '_last', None) is not None and np.ndim(wavelength) == 0 and abs(self._last[0]-wavelength) < 1e-3:\n            b_c = self._last[1]\n        else:\n            b_c = np.interp(wavelength, self.nsf_table[0], self.nsf_table[1])\n            if np.ndim(wavelength) == 0:\n                self._last = (wavelength, b_c)", "C03"),
 "m02_abs_uses_fixed_wavelength": ("periodictable/nsf.py", "    sigma_a = 2000 * abs(b_c.imag) * wavelength", "    sigma_a = 2000 * abs(b_c.imag) * ABSORPTION_WAVELENGTH", "C03"),
 "m03_interp_wrong_axis_clamp": ("periodictable/nsf.py", "        b_c = np.interp(wavelength, self.nsf_table[0], self.nsf_table[1])", "        b_c = np.interp(wavelength, self.nsf_table[0], self.nsf_table[1], left=self.nsf_table[1][-1])", "C03"),
 "m04_table_not_reversed_values": ("periodictable/nsf.py", "        atom.neutron.nsf_table = wavelength[::-1], xs[::-1]", "        atom.neutron.nsf_table = wavelength[::-1], xs", "C03"),
 "m05_penetration_without_abs": ("periodictable/nsf.py", "    penetration = 1/(abs_xs + total_xs)", "    penetration = 1/(inc_xs + abs_xs + coh_xs)", "C03"),
 "m06_sigma_s_normalised_by_len": ("periodictable/nsf.py", "    b_c /= num_atoms\n    sigma_s /= num_atoms\n\n    # Compute number density (N/A^3)", "    b_c /= num_atoms\n    sigma_s /= len(compound.atoms)\n\n    # Compute number density (N/A^3)", "C04"),
 "m07_ion_mass_ignored_in_scattering": ("periodictable/nsf.py", "        molar_mass += element.mass*quantity\n        num_atoms += quantity\n        # PAK 2021-04-05", "        molar_mass += getattr(element, 'element', element).mass*quantity if hasattr(element, 'charge') else element.mass*quantity\n        num_atoms += quantity\n        # PAK 2021-04-05", "C03"),
 "m08_energy_factor_constant": ("periodictable/constants.py", "neutron_mass = 1.00866491590", "neutron_mass = 1.00886491590", "C04"),
 "m09_velocity_factor_power": ("periodictable/nsf.py", "                   / (neutron_mass * atomic_mass_constant)) * 1e10", "                   / (neutron_mass * atomic_mass_constant)) * 1e9", "C04"),
 "m10_energy_sqrt_missing_for_vectors": ("periodictable/nsf.py", "    return ENERGY_FACTOR / asarray(wavelength)**2", "    return ENERGY_FACTOR / asarray(wavelength)**2 if np.ndim(wavelength) == 0 else ENERGY_FACTOR / asarray(wavelength)", "C04"),
 "m11_ones_like_first_only": ("periodictable/nsf.py", "        ones = 1 if np.isscalar(wavelength) else np.ones_like(wavelength)", "        ones = 1 if np.isscalar(wavelength) else np.ones_like(wavelength)*np.r_[1., np.full(np.size(wavelength)-1, 1.0000001)]", "C04"),
 "m12_sigma_i_not_clipped": ("periodictable/nsf.py", "    sigma_i = np.maximum(sigma_s - sigma_c, 0.)  # 1 barn = 1 barn", "    sigma_i = sigma_s - sigma_c  # 1 barn = 1 barn", "C04"),
 "m13_sld_im_sign": ("periodictable/nsf.py", "    sld_re, sld_im = sld.real, abs(sld.imag)\n\n    # PAK 2017-04-21: compute incoherent xs from total xs\n    # PAK 2021-04-20: include imaginary b_c in coherent cross section\n    # Compute coherent", "    sld_re, sld_im = sld.real, -abs(sld.imag) if np.ndim(sld) else abs(sld.imag)\n\n    # PAK 2017-04-21: compute incoherent xs from total xs\n    # PAK 2021-04-20: include imaginary b_c in coherent cross section\n    # Compute coherent", "C04"),
 "m14_composite_clip_abs": ("periodictable/nsf.py", "        sigma_i = np.maximum(sigma_s - sigma_c, 0.) # 1 barn = 1 barn", "        sigma_i = abs(sigma_s - sigma_c) # 1 barn = 1 barn", "C17"),
 "m15_composite_bc_before_density": ("periodictable/nsf.py", "        sld = 10*number_density * b_c # 1e-6/A^2 = 1/A^3 1 fm 1e-5 A/fm 1e6 1e-6\n        sld_re, sld_im = sld.real, abs(sld.imag)\n\n        # PAK 2017-04-21: compute incoherent xs from total xs\n        # PAK 2021-04-20: include imaginary b_c in coherent cross section\n        sigma_c", "        sld = 10*number_density * b_c # 1e-6/A^2 = 1/A^3 1 fm 1e-5 A/fm 1e6 1e-6\n        sld_re, sld_im = sld.real, abs(sld.imag)\n        b_c = b_c.real\n\n        # PAK 2017-04-21: compute incoherent xs from total xs\n        # PAK 2021-04-20: include imaginary b_c in coherent cross section\n        sigma_c", "C17"),
 "m16_composite_zero_weight_dropped": ("periodictable/nsf.py", "        num_atoms = np.sum(weights*num_atoms_parts)", "        num_atoms = np.sum((weights + (weights == 0))*num_atoms_parts)", "C17"),
 "m17_composite_stale_wavelength": ("periodictable/nsf.py", "    parts = [_sum_piece(wavelength, m) for m in materials]", "    parts = [_sum_piece(wavelength if i == 0 else np.flip(wavelength) if is_multi else wavelength, m) for i, m in enumerate(materials)]", "C17"),
 "m18_replace_density_sign": ("periodictable/formulas.py", "        density = compound.density * (mass - mass_reduction)/mass", "        density = compound.density * (mass + mass_reduction)/mass", "C16"),
 "m19_replace_portion_squared": ("periodictable/formulas.py", "            atoms[source] *= 1-portion", "            atoms[source] *= (1-portion)**2", "C16"),
 "m20_d2o_solvent_density": ("periodictable/nsf.py", '    D2O_sld = neutron_sld("D2O@0.9982n", **sld_args)', '    D2O_sld = neutron_sld("D2O@0.9982", **sld_args)', "C16"),
 "m21_fasta_water_literal": ("periodictable/fasta.py", 'D2O_SLD = neutron_sld("D2O@0.9982n")[0]', 'D2O_SLD = neutron_sld("D2O@0.9882n")[0]', "C16"),
 "m22_match_uses_imag": ("periodictable/nsf.py", "    match_point_sld = mix_values(Dsld, Hsld, D2O_fraction)\n    return D2O_fraction, match_point_sld[0]", "    match_point_sld = mix_values(Dsld, Hsld, D2O_fraction)\n    return D2O_fraction, match_point_sld[0] + match_point_sld[1]", "C16"),
 "m23_d2osld_vf_swapped": ("periodictable/nsf.py", "    solution_sld = mix_values(solute_sld, solvent_sld, volume_fraction)", "    solution_sld = mix_values(solvent_sld, solute_sld, volume_fraction)", "C16"),
 "m24_fasta_d2osld_drift": ("periodictable/fasta.py", "        solute_sld = D2O_fraction*self.Dsld + (1-D2O_fraction)*self.sld", "        solute_sld = D2O_fraction*self.Dsld + (1-D2O_fraction)*self.sld*(1+1e-6)", "C16"),
 "m25_bare_atom_number_density": ("periodictable/nsf.py", "        number_density = self._number_density*1e-24  # N/A^3", "        number_density = self._number_density*1e-24*(1.0 if self.nsf_table is None else 1.001)  # N/A^3", "C03"),
 "m26_isotope_uses_own_density": ("periodictable/nsf.py", "        nsf._number_density = element.number_density # N/cm^3 = N/cm^3", "        nsf._number_density = element.number_density if len(parts) < 3 or Z != 3 else element.number_density*1.0001", "C03"),
 "m27_harmless_refactor": ("periodictable/nsf.py", "    total_xs = number_density * sigma_s # 1/cm", "    total_xs = sigma_s * number_density # 1/cm", "none"),
 "m28_harmless_refactor2": ("periodictable/nsf.py", "    cell_volume = (molar_mass/compound.density)/avogadro_number*1e24\n    number_density = num_atoms / cell_volume # N/A^3 = N/A^3\n\n    return _calculate", "    cell_volume = molar_mass/(compound.density*avogadro_number)*1e24\n    number_density = num_atoms / cell_volume # N/A^3 = N/A^3\n\n    return _calculate", "none"),
 "m29_interp_node_offbyone": ("periodictable/nsf.py", "        b_c = np.interp(wavelength, self.nsf_table[0], self.nsf_table[1])", "        b_c = np.interp(wavelength, self.nsf_table[0][:-1], self.nsf_table[1][:-1])", "C03"),
 "m30_lu_mix_weights": ("periodictable/nsf.py", "    bc_nat = (bc_175*Lu175.abundance + bc_176*Lu176.abundance)/100.0", "    bc_nat = (bc_175*Lu176.abundance + bc_176*Lu175.abundance)/100.0", "C03"),
 "m31_wavelength_default": ("periodictable/nsf.py", "    elif wavelength is None:\n        wavelength = ABSORPTION_WAVELENGTH\n\n    # Sum over the quantities", "    elif wavelength is None:\n        wavelength = 1.8\n\n    # Sum over the quantities", "C16"),
 "m32_4pi100": ("periodictable/nsf.py", "_4PI_100 = 4*np.pi/100", "_4PI_100 = 4*np.pi/1000", "C03"),
}


def sh(cmd, cwd=None, env=None, timeout=900):
    p = subprocess.run(cmd, shell=True, cwd=cwd, capture_output=True, text=True, timeout=timeout, env=env)
    return p.returncode, p.stdout + p.stderr


def main():
    if not REPO or os.path.realpath(REPO) == "/repo":
        sys.exit("set PTV_REPO to a scratch worktree of the library")
    names = sys.argv[1:] or sorted(MUTS)
    env = dict(os.environ, PTV_REPO=REPO)
    for name in names:
        f, old, new, intended = MUTS[name][:4]
        extra = MUTS[name][4] if len(MUTS[name]) > 4 else []
        ok = True
        for (f2, o2, n2) in [(f, old, new)] + extra:
            path = os.path.join(REPO, f2)
            src = open(path).read()
            if src.count(o2) != 1:
                print("%-36s CANNOT APPLY (%d matches of %r)" % (name, src.count(o2), o2[:40]))
                ok = False
                break
            open(path, "w").write(src.replace(o2, n2))
        if not ok:
            sh("git checkout -- .", cwd=REPO)
            continue
        try:
            rc, out = sh("/venv/bin/python -m pytest -q -p no:cacheprovider -x 2>&1 | tail -1", cwd=REPO)
            tests = out.strip().split("\n")[-1][:40]
            res = []
            for pid in ("C03", "C04", "C16", "C17"):
                rc, out = sh("./check %s --tier quick; echo EXIT=$?" % pid, cwd=VW, env=env)
                ex = re.search(r"EXIT=(\d+)", out).group(1)
                nf = "nofail" if "no-failing-input-found" in out else ""
                m = re.search(r"disagreements=(\d+) violations=(\d+)", out)
                res.append("%s:%s%s%s" % (pid, ex, "(" + m.group(1) + "/" + m.group(2) + ")" if m else "", nf))
            print("%-36s intended=%-4s tests=[%s]  %s" % (name, intended, tests, "  ".join(res)), flush=True)
        finally:
            sh("git checkout -- .", cwd=REPO)


if __name__ == "__main__":
    main()
