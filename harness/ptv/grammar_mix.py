"""Mixture sub-grammars (wt%, vol%, layers, absolute mass / volume) – the string level.

`ptdriver grammar parsemix` (Model/GrammarMix.lean) models the whole top-level grammar of
`formula_grammar` and returns the *term* the mixture parse actions are applied to.  The semantics
of mixing is C11's; here the term is evaluated with the real `_mix_by_weight_pairs` /
`_mix_by_volume_pairs` (the same arithmetic the parse actions do) and the result is compared with
`formula(string)`: accepted / rejected, and – when accepted – structure, density, thickness,
total mass.  This ties the *syntax* (which components, which quantities, which nesting) only.
"""
from __future__ import annotations

from fractions import Fraction

from .common import close
from . import grammar_lib as G

LENGTH_ORDER = ["nm", "um", "mm", "cm"]
MASSVOL_ORDER = ["ng", "ug", "mg", "g", "kg", "nL", "uL", "mL", "L"]


# --------------------------------------------------------------------------- reading the term

def parse_term(toks, pos):
    """-> (term, pos); term = ('C', items, dens) | ('G', term, dens) | ('W'|'V', [(cnt, term)], base) |
    ('L'|'M', [('q', cnt, unit, term) | ('r', cnt, term)])"""
    assert toks[pos] == "(", toks[pos:pos + 5]
    kind = toks[pos + 1]
    pos += 2
    if kind == "C":
        items, pos = G.parse_items(toks, pos)
        dens, pos = parse_dens(toks, pos)
        assert toks[pos] == ")"
        return ("C", items, dens), pos + 1
    if kind == "G":
        t, pos = parse_term(toks, pos)
        dens, pos = parse_dens(toks, pos)
        assert toks[pos] == ")"
        return ("G", t, dens), pos + 1
    if kind in ("W", "V"):
        parts = []
        while toks[pos] == "p":
            c = Fraction(int(toks[pos + 1]), 10 ** int(toks[pos + 2]))
            t, pos = parse_term(toks, pos + 3)
            parts.append((c, t))
        base, pos = parse_term(toks, pos)
        assert toks[pos] == ")"
        return (kind, parts, base), pos + 1
    parts = []
    while toks[pos] in ("q", "r"):
        if toks[pos] == "q":
            c = Fraction(int(toks[pos + 1]), 10 ** int(toks[pos + 2]))
            u = int(toks[pos + 3])
            t, pos = parse_term(toks, pos + 4)
            parts.append(("q", c, u, t))
        else:
            c = Fraction(int(toks[pos + 1]), 10 ** int(toks[pos + 2]))
            t, pos = parse_term(toks, pos + 3)
            parts.append(("r", c, t))
    assert toks[pos] == ")"
    return (kind, parts), pos + 1


def parse_dens(toks, pos):
    if toks[pos] == "-":
        return None, pos + 1
    return (toks[pos], Fraction(int(toks[pos + 1]), 10 ** int(toks[pos + 2]))), pos + 3


def parse_mix_reply(text):
    toks = text.split()
    if toks[0] != "OK":
        return (toks[0],)
    term, _ = parse_term(toks, 1)
    return ("OK", term)


# --------------------------------------------------------------------------- evaluating the term with the real mixing code

class Skip(Exception):
    """the real code cannot evaluate this term for a reason that is C11's (e.g. D9)"""


def pynum(c: Fraction):
    return int(c) if c.denominator == 1 else float(c)


def cnt_py(c, items_dec=None):
    return pynum(c)


def eval_term(t, tbl):
    """the Formula the parse actions build from this term (same calls, same order)"""
    import periodictable.formulas as F
    kind = t[0]
    if kind == "C":
        st = F._immutable(_objs(t[1], tbl))
        if t[2] is None:
            return F.Formula(structure=st)
        if t[2][0] == "n":
            return F.Formula(structure=st, natural_density=pynum(t[2][1]))
        return F.Formula(structure=st, density=pynum(t[2][1]))
    if kind == "G":
        f = eval_term(t[1], tbl)
        if t[2] is not None:
            if t[2][0] == "n":
                f.natural_density = pynum(t[2][1])
            else:
                f.density = pynum(t[2][1])
        return f
    if kind in ("W", "V"):
        piece = [eval_term(m, tbl) for _, m in t[1]] + [eval_term(t[2], tbl)]
        fract = [float(pynum(c)) for c, _ in t[1]]
        fract.append(100 - sum(fract))
        if fract[-1] < 0:
            raise ValueError("Formula percentages must sum to less than 100%")
        if kind == "W":
            return F._mix_by_weight_pairs(zip(piece, fract))
        return F._mix_by_volume_pairs(zip(piece, fract))
    piece, fract = [], []
    if kind == "L":
        for p in t[1]:
            if p[0] == "q":
                piece.append(eval_term(p[3], tbl))
                fract.append(float(pynum(p[1])) * F.LENGTH_UNITS[LENGTH_ORDER[p[2]]])
            else:
                inner = eval_term(p[2], tbl)
                if not hasattr(inner, "absthick"):
                    raise Skip("repeated layer group: Formula.absthick is never set (C11, D9)")
                piece.append(inner)
                fract.append(inner.absthick * float(pynum(p[1])))
        if not piece:
            raise Skip("empty layer list")
        total = sum(fract)
        vfract = [(v / total) * 100 for v in fract]
        result = F._mix_by_volume_pairs(zip(piece, vfract))
        result.thickness = total
        return result
    for p in t[1]:
        if p[0] == "q":
            m = eval_term(p[3], tbl)
            unit = MASSVOL_ORDER[p[2]]
            value = float(pynum(p[1]))
            if unit in F.VOLUME_UNITS:
                if m.density is None:
                    raise ValueError("Need the mass density of " + str(m))
                f = value * F.VOLUME_UNITS[unit] * 1000. * m.density
            else:
                f = value * F.MASS_UNITS[unit]
            piece.append(m)
            fract.append(f)
        else:
            inner = eval_term(p[2], tbl)
            piece.append(inner)
            fract.append(inner.total_mass * float(pynum(p[1])))
    total = sum(fract)
    mfract = [(m / total) * 100 for m in fract]
    result = F._mix_by_weight_pairs(zip(piece, mfract))
    result.total_mass = total
    return result


def _objs(items, tbl):
    return tuple((pynum(c), G.atom_of(f, tbl) if G.is_key(f) else _objs(f, tbl)) for c, f in items)


def units_match():
    """the unit alternations of the model are those of the source, in order"""
    import periodictable.formulas as F
    return (list(F.LENGTH_UNITS.keys()) == LENGTH_ORDER
            and list(F.MASS_UNITS.keys()) + list(F.VOLUME_UNITS.keys()) == MASSVOL_ORDER)


def struct_close(a, b):
    if len(a) != len(b):
        return False
    for (ca, fa), (cb, fb) in zip(a, b):
        if not close(ca, cb, rel=1e-12):
            return False
        if G.is_key(fa) != G.is_key(fb):
            return False
        if G.is_key(fa):
            if tuple(fa) != tuple(fb):
                return False
        elif not struct_close(fa, fb):
            return False
    return True


# --------------------------------------------------------------------------- generator

WT = ["wt%", "wt%", "%wt", "w%", "weight%", "mass%", "m%", "% mass", "wt %", "%w", " wt%"]
VOL = ["vol%", "vol%", "%vol", "v%", "volume%", "%v", "vol %", " vol%"]


def gen_part(rng, ref, depth):
    if depth < 2 and rng.random() < 0.2:
        return "(" + rng.choice(["", " "]) + gen_ungrouped(rng, ref, depth + 1) + rng.choice(["", " "]) + ")" + \
            (rng.choice(["@%s" % rng.choice(["1", "2.5", "0.9n", "1.1i"]), ""]))
    d = G.gen_compound(rng, ref, maxdepth=1, pb=0.0)
    d["lead"] = ""
    d["trail"] = ""
    if d["dens"] is None and rng.random() < 0.7:
        d["dens"] = ("", rng.choice(["1", "2.16", "0.5", "7.8", "1.0"]), "", rng.choice([None, None, "n", "i"]))
    return G.text_of(G.render_compound(d))


def gen_qty(rng):
    r = rng.random()
    if r < 0.1:
        return ""
    if r < 0.6:
        return str(rng.randint(1, 90))
    return rng.choice(["0.5", "2.5", "10.", ".25", "1e3", "12.75", "100", "1"])


def gen_ungrouped(rng, ref, depth=0):
    k = rng.choice(["W", "V", "L", "M"])
    sep = lambda: rng.choice([" // ", "//", " //", "// ", "  //  "])  # noqa: E731
    sp = lambda: rng.choice(["", " ", " ", "  "])  # noqa: E731
    if k in ("W", "V"):
        word = rng.choice(WT if k == "W" else VOL)
        n = rng.choice([1, 1, 2, 3])
        s = gen_qty(rng) + word + sp() + gen_part(rng, ref, depth)
        for _ in range(n - 1):
            s += sep() + gen_qty(rng) + rng.choice(["%", "%", word]) + sp() + gen_part(rng, ref, depth)
        if rng.random() < 0.9:
            s += sep() + gen_part(rng, ref, depth)
        return s
    units = LENGTH_ORDER if k == "L" else MASSVOL_ORDER
    n = rng.choice([1, 2, 2, 3])
    parts = []
    for _ in range(n):
        if depth < 2 and rng.random() < 0.12:
            inner = " // ".join(gen_qty(rng) + sp() + rng.choice(units) + sp() + gen_part(rng, ref, depth + 1)
                                for _ in range(rng.choice([1, 2])))
            parts.append("(" + inner + ")" + rng.choice(["", "2", "3", " 2", "1.5"]))
        else:
            u = rng.choice(units) if rng.random() < 0.95 else rng.choice(["km", "l", "G", "nl", "cL"])
            parts.append(gen_qty(rng) + sp() + u + sp() + gen_part(rng, ref, depth))
    return sep().join(parts)


def gen_mixture_string(rng, ref):
    r = rng.random()
    if r < 0.75:
        s = gen_ungrouped(rng, ref)
    elif r < 0.9:
        s = "(" + gen_ungrouped(rng, ref, 1) + ")" + rng.choice(["", "@1.5", "@2n", " @ 1"])
    else:
        s = gen_ungrouped(rng, ref)
        s = G.mutate(rng, s)
    if rng.random() < 0.05:
        s = " " + s
    if rng.random() < 0.05:
        s += " "
    return s


# --------------------------------------------------------------------------- the check

class _Relay:
    """routes disagreements: strict -> run.disagree (decides the verdict of the calling check);
    otherwise counted and noted in the evidence only (the mixtures are C11's property, and its repairs
    – e.g. of D9 / D10 – may legitimately change which strings are accepted)"""

    def __init__(self, run, strict):
        self.run, self.strict = run, strict

    def count(self, **kw):
        self.run.count(**kw)

    @property
    def dist(self):
        return self.run.dist

    def disagree(self, corr, inp, model, impl):
        if self.strict:
            self.run.disagree(corr, inp, model, impl)
        else:
            k = "mixture:DISAGREE %s (not part of this property's verdict)" % corr
            self.run.dist[k] = self.run.dist.get(k, 0) + 1
            if sum(1 for n in self.run.notes if n.startswith("mixture disagreement")) < 5:
                self.run.notes.append("mixture disagreement %s on %r: model %s, code %s" % (corr, inp["string"], model, impl))


def check_mixtures(run, tname, ref, tbl, prefix, strings, strict=True):
    """model term (evaluated with the real mixing functions) against `formula(string)`"""
    run = _Relay(run, strict)
    import pyparsing
    from periodictable.formulas import formula
    lines = list(prefix) + ["parsemix %s" % G.enc(s) for s in strings]
    replies = G.driver(lines)[len(prefix):]
    for s, rep in zip(strings, replies):
        inp = dict(table=tname, string=s, stream="mixture")
        m = parse_mix_reply(rep)
        try:
            f = formula(s, table=tbl)
            p = ("OK", f)
        except pyparsing.ParseBaseException:
            p = ("FAIL",)
        except Exception as e:  # noqa
            p = ("ABORT", type(e).__name__)
        run.count(key=(tname, "mix", s), nontrivial=True, tag="%s:mixture:%s" % (tname, p[0]),
                  sample="mixture %r -> %s" % (s, p[0]) if len(s) < 60 else None)
        if p[0] == "FAIL":
            if m[0] == "OK":
                # the term may still be one the actions reject … with a ParseException? they never do
                run.disagree("grammar-mixture(syntax)", inp, "OK", p)
            continue
        if m[0] == "FAIL":
            # a parse action of the real code may raise before the syntax error is reached: both reject
            if p[0] == "OK":
                run.disagree("grammar-mixture(syntax)", inp, m[0], "OK")
            continue
        if m[0] == "ABORT":
            if p[0] == "OK":
                run.disagree("grammar-mixture(syntax)", inp, "ABORT", "OK")
            continue
        # the model read a term
        try:
            g = eval_term(m[1], tbl)
        except Skip as e:
            run.dist["mixture:skipped (%s)" % e] = run.dist.get("mixture:skipped (%s)" % e, 0) + 1
            continue
        except Exception as e:  # noqa
            if p[0] == "OK":
                run.disagree("grammar-mixture(term)", inp, "actions raise %s" % type(e).__name__, "OK")
            continue
        if p[0] != "OK":
            # the real parse raised inside an action although the term evaluates: C11's business
            # unless the exception is one the grammar itself decides
            run.dist["mixture:real action raised %s, term evaluates (not compared)" % p[1]] = \
                run.dist.get("mixture:real action raised %s, term evaluates (not compared)" % p[1], 0) + 1
            continue
        f = p[1]
        ok = struct_close(G.struct_keys(g.structure), G.struct_keys(f.structure)) and \
            ((f.density is None and g.density is None) or
             (f.density is not None and g.density is not None and close(f.density, g.density, rel=1e-12))) and \
            close(getattr(f, "thickness", None), getattr(g, "thickness", None), rel=1e-12) and \
            close(getattr(f, "total_mass", None), getattr(g, "total_mass", None), rel=1e-12)
        if not ok:
            run.disagree("grammar-mixture(term)", inp,
                         (G.show_struct(G.struct_keys(g.structure)), g.density),
                         (G.show_struct(G.struct_keys(f.structure)), f.density))
