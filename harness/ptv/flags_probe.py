"""Interpreter-settings probe (all properties): `python [-O] [-W ...] -m ptv.flags_probe <repo> <Cxx> <setting>`.

Prints one JSON object {name: repr(value)} of a small, fixed set of values that property Cxx is about, computed in a
fresh interpreter under one process-global *setting* an application is entitled to have:

  default        nothing changed (the reference)
  optimize       the interpreter runs with -O (asserts are compiled away)           [flag given by the caller]
  userwarning    UserWarning is an error (-W error::UserWarning)                      [flag given by the caller]
  npraise        numpy's floating-point error state is 'raise' for everything (np.seterr(all='raise'))
  decimal4       the decimal context has 4 digits of precision

The values must not depend on the setting: `common.settings_probe` compares every section with the reference.
(The library itself uses none of these facilities; a change that makes a result depend on one of them is a
change of behaviour for every user who has that setting.)
"""
import json
import sys


def val(fn):
    try:
        v = fn()
    except Exception as e:  # noqa: the outcome class is part of the observation
        return "raises %s" % type(e).__name__
    return show(v)


def show(v):
    import numpy as np
    if isinstance(v, (list, tuple)):
        return "[" + ", ".join(show(x) for x in v) + "]"
    if isinstance(v, dict):
        return "{" + ", ".join("%s: %s" % (show(k), show(x)) for k, x in sorted(v.items(), key=lambda kv: str(kv[0]))) + "}"
    if isinstance(v, np.ndarray):
        return show(v.tolist())
    if isinstance(v, (float, np.floating)):
        return repr(float(v))
    if isinstance(v, (complex, np.complexfloating)):
        return repr(complex(v))
    if isinstance(v, (int, np.integer)):
        return repr(int(v))
    return str(v)


class _Lazy:
    """a submodule imported at first use (importing fasta, for one, touches the neutron data: the order of
    first touches is part of what some sections observe)"""

    def __init__(self, name):
        self._name = name

    def __getattr__(self, attr):
        import importlib
        return getattr(importlib.import_module("periodictable." + self._name), attr)


def sections(pt):
    from periodictable import formulas, core
    nsf, xsf, activation, fasta, cromermann, mass, density, covalent_radius, crystal_structure, magnetic_ff = [
        _Lazy(n) for n in ("nsf", "xsf", "activation", "fasta", "cromermann", "mass", "density", "covalent_radius",
                           "crystal_structure", "magnetic_ff")]
    formula = formulas.formula
    el = pt.elements
    H, D, O, Fe = el.H, el.D, el.O, el.Fe

    def private_first():
        t = core.PeriodicTable("probe-private")
        mass.init(t); density.init(t); nsf.init(t); xsf.init(t); crystal_structure.init(t)
        covalent_radius.init(t); magnetic_ff.init(t); activation.init(t)
        return [el.Fe.neutron.b_c, el.Fe.crystal_structure, el.Fe.covalent_radius, el.Co[59].neutron_activation[0].daughter,
                t.Fe.neutron.b_c, float(el.Fe.xray.f0(1.0)), el.Fe.magnetic_ff[2].M[0]]

    def activ(rests, **kw):
        s = activation.Sample(formula("Co30Fe70"), 1.5)
        env = activation.ActivationEnvironment(fluence=1e12, Cd_ratio=20.0, fast_ratio=50.0)
        s.calculate_activation(env, exposure=5.0, rest_times=rests, **kw)
        return s

    def decay(x):
        s = activ([0.0, 1.0])
        tot = sum(v[0] for v in s.activity.values())
        return s.decay_time(x * tot)

    def composite(weights, density_):
        import numpy as np
        calc = nsf.neutron_composite_sld([formula("H2O"), formula("D2O"), formula("Gd2O3")], wavelength=[0.5, 1.8, 4.0])
        return calc(np.array(weights, dtype=float), density=density_)

    return {
        "C01": lambda: {
            "Fe2O3 + 3H2O": str(formula("Fe2O3 + 3H2O").structure), "tag n": formula("D2O@1n").density,
            "ions": str(formula("Ca{2+}(O{2-}H{+})2").atoms), "isotope": str(formula("O[18]2H[1]4C[13]").atoms),
            "decimal counts": str(formula("Fe0.95Ni.05 1.5H2O").structure)},
        "C02": lambda: {
            "atoms": str((2.5 * formula("CaCO3") + formula("H2O")).atoms), "mass": formula("C6H12O6").mass,
            "charge": formula("Fe{3+}2(S{2-}O4)3").charge, "fractions": str(formula("NaCl").mass_fraction),
            "ion mass": el.Fe.ion[3].mass},
        "C03": lambda: {
            "XeF2": nsf.neutron_scattering("XeF2", density=4.3, wavelength=1.8), "Xe total": el.Xe.neutron.total,
            "Eu151 b_c": el.Eu[151].neutron.b_c, "Eu151 compound": nsf.neutron_scattering("Eu[151]2O3", density=7.4, wavelength=1.0),
            "Gd2O3 short": nsf.neutron_scattering("Gd2O3", density=7.4, wavelength=0.5), "H2O": nsf.neutron_scattering("H2O", density=1.0)},
        "C04": lambda: {
            "energy": nsf.neutron_sld("Gd2O3", density=7.4, energy=80.0), "vector": nsf.neutron_scattering("D2O", density=1.1, wavelength=[1.0, 2.0, 6.0]),
            "conversions": [nsf.neutron_wavelength(25.3), nsf.neutron_energy(1.798), nsf.neutron_wavelength_from_velocity(2200.0)]},
        "C05": lambda: {
            "sld": xsf.xray_sld("Fe2O3", density=5.24, energy=8.0), "index": xsf.index_of_refraction("SiO2", density=2.2, energy=[8.0, 12.0]),
            "mirror": xsf.mirror_reflectivity("Ni", density=8.9, energy=8.0, angle=[0.1, 0.3]), "f0": [el.Fe.ion[2].xray.f0(q) for q in (0.0, 2.5)],
            "natural": xsf.xray_sld("D2O", natural_density=1.0, energy=8.0)},
        "C06": lambda: {
            "masses": [H.mass, D.mass, el.U[235].mass, el.Fm.mass], "abundance sums": [sum(i.abundance for i in e) for e in (el.H, el.Fe, el.Sn, el.Xe)],
            "abundances": [el.C[13].abundance, el.Cl[37].abundance, el.U[235].abundance], "density": [Fe.density, D.density, Fe.number_density, Fe.interatomic_distance]},
        "C07": lambda: {
            "H": [H.neutron.b_c, H.neutron.total, H.neutron.absorption], "Xe": [el.Xe.neutron.b_c, el.Xe.neutron.total],
            "Eu151": [el.Eu[151].neutron.b_c, el.Eu[151].neutron.absorption], "He3 imaginary": el.He[3].neutron.b_c_i,
            "Gd157 nodes": [el.Gd[157].neutron.scattering_by_wavelength(float(el.Gd[157].neutron.nsf_table[0][k])) for k in (0, 3, -1)],
            "T absorption": el.T.neutron.absorption},
        "C08": lambda: {
            "routes": [el[26] is el.Fe, el.symbol("Fe") is el.Fe, el.name("iron") is el.Fe, el.isotope("56-Fe") is el.Fe[56], el.isotope("D") is el.D],
            "pickle": [__import__("pickle").loads(__import__("pickle").dumps(x)) is x for x in (el.Fe, el.Fe[56], el.Fe.ion[2], el.D)],
            "invalid": [val(lambda: el.symbol("Xx")), val(lambda: el.Fe[1]), val(lambda: el.Fe.ion[9])]},
        "C09": lambda: {"first touch through an isotope ion": [el.Fe[56].ion[2].neutron.b_c, el.Fe[56].ion[2].covalent_radius_uncertainty,
                                                               str(el.Fe[56].ion[2].crystal_structure), el.Cu.ion[2].K_alpha,
                                                               el.Co[59].neutron_activation[0].daughter, len(el.He[3].neutron_activation),
                                                               sum(len(getattr(i, "neutron_activation", ())) for e in el for i in e)]},
        "C10": lambda: {"private first": private_first()},
        "C11": lambda: {
            "wt%": str(formula("10wt% NaCl@2.16 // H2O@1").atoms), "wt% density": formula("10wt% NaCl@2.16 // H2O@1").density,
            "amounts": [str(formula("1234.5 mg NaCl // 1.0005 g H2O@1").atoms), formula("1234.5 mg NaCl // 1.0005 g H2O@1").total_mass],
            "layers": formula("5 nm Fe // 10.5 nm Ni").thickness, "call": str(formulas.mix_by_volume("Fe", 1.5, "Ni", 3).atoms)},
        "C12": lambda: {
            "replace": [str(formula("H2O@1").replace(H, D).atoms), formula("H2O@1").replace(H, D).density, str(formula("H2O@1").replace(H, D, 0.25).atoms)],
            "natural": [formula("D2O", natural_density=1.0).density, formula("D2O@1.1").natural_density],
            "volume": [formula("NaCl").volume(5.64, 5.64, 5.64), formula("Fe").volume("bcc"), formula("SiO2").volume(4.9, c=5.4, gamma=120)]},
        "C13": lambda: {
            "small": str(1.234567e-7 * formula("H2O")), "large": str(12345678 * formula("SiO2")),
            "big int": str(formula([(10 ** 15, el.Si)])), "named": [str(formula("H2O", name="water")), repr(formula("H2O", name="water"))],
            "nested": str(formula("(CH3(CH2)2.5)3 Fe{2+}0.001"))},
        "C14": lambda: {"activity": sorted((k.daughter, v) for k, v in activ([0.0, 1.0, 24.0, 360.0, 1e5]).activity.items()),
                        "positional": [activation.ActivationEnvironment(1e10, 25, 0).Cd_ratio, activation.ActivationEnvironment(1e10, 25, 0).fast_ratio]},
        "C15": lambda: {"decay": [decay(0.5), decay(1e-4), decay(2.0)]},
        "C16": lambda: {"match": nsf.D2O_match("C3H4H[1]NO@1.29n"), "sld": nsf.D2O_sld("C3H4H[1]NO@1.29n", volume_fraction=0.4, D2O_fraction=0.3),
                        "percent": fasta.D2Omatch(1.5, 2.5)},
        "C17": lambda: {"composite": composite([1.0, 2.0, 0.5], 1.2), "zero weight": composite([0.0, 0.0, 0.0], 1.2),
                        "zero density": composite([1.0, 2.0, 0.5], 0.0), "default wavelength": nsf.neutron_composite_sld([formula("Gd2O3")])(__import__("numpy").array([1.0]), density=7.4)},
        "C18": lambda: {"peptide": (lambda s: [str(s.formula), s.cell_volume, s.charge, s.mass])(fasta.Sequence("p", "ACDEFGHIKLMNPQRSTVWY" * 3, type="aa")),
                        "dna": (lambda s: [str(s.formula), s.cell_volume])(fasta.Sequence("d", "ACGTTGCA", type="dna"))},
        "C19": lambda: {"hill": [str(formula("OHCH2CH3Na{+}Cl{-}").hill), str(formula("Fe[56]{2+}Fe[54]{2+}O{2-}2").hill), str(formula("F{-}3Fe{3+}").hill)],
                        "equal": formula("CH4O") == formula("CH4O").hill},
        "C20": lambda: {"radius": [Fe.covalent_radius, Fe.covalent_radius_uncertainty], "crystal": str(Fe.crystal_structure), "lines": [el.Cu.K_alpha, el.Cu.K_beta1],
                        "magnetic": [Fe.magnetic_ff[2].j0, float(Fe.magnetic_ff[2].j0_Q(0.0)), float(Fe.magnetic_ff[2].j2_Q(3.0))],
                        "cm": [float(cromermann.fxrayatq("Fe", 2.5)), float(cromermann.fxrayatq("Cl1-", 0.0)), list(cromermann.getCMformula("O2-").a)]},
    }


def main(repo, prop, setting):
    sys.path.insert(0, repo)
    import numpy as np
    import decimal
    import periodictable as pt
    if setting == "npraise":
        np.seterr(all="raise")
    elif setting == "decimal4":
        decimal.getcontext().prec = 4
    fn = sections(pt)[prop]
    try:
        out = {k: show(v) for k, v in fn().items()}
    except Exception as e:  # noqa
        import traceback
        out = {"<section>": "raises %s: %s" % (type(e).__name__, traceback.format_exc()[-300:])}
    print("PROBE " + json.dumps(out))


if __name__ == "__main__":
    main(*sys.argv[1:4])
