"""Direct property oracle for C14 / C15 (activation).

Shares no code with the Lean model or with periodictable/activation.py.  The activity of a
product is obtained by *solving the reaction chain the property names* as a linear ODE
system N' = M N in 60-digit `Decimal`: exp(M T) is computed by scaling-and-squaring of a
shifted matrix with non-negative entries only (M = -k I + B, B >= 0 entrywise, so neither the
Taylor series nor the squarings subtract anything and every entry is accurate to working
precision, however stiff the chain).  No closed form is used; the closed forms below
(`closed_*`) exist only so that the tests of this file can cross-check the solver.

Units as documented in activation.py: rates in 1/h, the production term
R = flux * sigma * 1e-24 * (mass / A) * 1.6278e19 is the saturation activity in uCi
(1.6278e19 = N_A / 3.7e4), cross sections in barn, flux in n/cm^2/s.
"""
from __future__ import annotations

from decimal import Decimal as D, localcontext, MAX_EMAX, MIN_EMIN

PREC = 60
UCI = D("1.6278e19")          # documented constant (N_A / 3.7e4 Bq per uCi)
BARN = D("1e-24")
HOUR = D(3600)


def _ctx(c, prec):
    c.prec = prec
    c.Emax = MAX_EMAX
    c.Emin = MIN_EMIN


def _ln2():
    with localcontext() as c:
        _ctx(c, PREC + 10)
        return D(2).ln()


LN2 = _ln2()


def dec(x) -> D:
    """exact value of a float / int / decimal string"""
    if isinstance(x, D):
        return x
    if isinstance(x, float):
        return D(x)            # exact binary value
    return D(str(x))


# --------------------------------------------------------------------------- chain solver

def _matmul(a, b):
    n = len(a)
    return [[sum((a[i][k] * b[k][j] for k in range(n) if a[i][k] and b[k][j]), D(0))
             for j in range(n)] for i in range(n)]


def expm_metzler(m, t):
    """exp(m*t) for a matrix with non-negative off-diagonal entries, entrywise accurate."""
    n = len(m)
    with localcontext() as c:
        _ctx(c, PREC + 15)
        kappa = max(-m[i][i] for i in range(n))
        if kappa < 0:
            kappa = D(0)
        b = [[(m[i][j] + (kappa if i == j else 0)) * t for j in range(n)] for i in range(n)]
        norm = max(sum(abs(x) for x in row) for row in b)
        s = 0
        while norm > D("0.5"):
            norm /= 2
            s += 1
        scale = D(2) ** s
        b = [[x / scale for x in row] for row in b]
        # Taylor series, all terms non-negative
        term = [[D(1) if i == j else D(0) for j in range(n)] for i in range(n)]
        acc = [row[:] for row in term]
        for k in range(1, 60):
            term = _matmul(term, b)
            term = [[x / k for x in row] for row in term]
            acc = [[acc[i][j] + term[i][j] for j in range(n)] for i in range(n)]
            if max(max(row) for row in term) < D(10) ** (-(PREC + 12)):
                break
        for _ in range(s):
            acc = _matmul(acc, acc)
        damp = (-kappa * t).exp()
        return [[x * damp for x in row] for row in acc]


def _apply(e, v):
    return [sum((e[i][j] * v[j] for j in range(len(v))), D(0)) for i in range(len(v))]


# --------------------------------------------------------------------------- the three chains

def rates(row, A, mass, fluence, cd, fast_ratio):
    """common quantities of one reaction row.  `row` is a dict of the table fields (floats).
    Returns None when the reaction is omitted (fast reaction with fast ratio 0)."""
    fluence, cd, fast_ratio, mass = dec(fluence), dec(cd), dec(fast_ratio), dec(mass)
    if row["fast"] and fast_ratio == 0:
        return None
    epi = (1 / cd) if cd >= 1 else D(0)
    sigma = dec(row["thermalXS"]) + epi * dec(row["resonance"])
    flux = fluence / fast_ratio if row["fast"] else fluence
    R = flux * sigma * BARN * mass / D(A) * UCI
    lam = LN2 / dec(row["Thalf_hrs"])
    a = flux * sigma * BARN * HOUR
    sigma2 = dec(row["thermalXS_parent"]) + epi * dec(row["resonance_parent"])
    b = fluence * sigma2 * BARN * HOUR
    return dict(R=R, lam=lam, a=a, b=b)


def chain_activity(row, A, mass, fluence, cd, fast_ratio, exposure):
    """activity (uCi) at removal from the beam, from the chain ODE itself; None if omitted"""
    q = rates(row, A, mass, fluence, cd, fast_ratio)
    if q is None:
        return None
    T = dec(exposure)
    R, lam, a, b = q["R"], q["lam"], q["a"], q["b"]
    with localcontext() as c:
        _ctx(c, PREC + 15)
        kind = row["reaction"]
        if kind == "b":
            # parent P made at the constant rate R (no burn-up), decays with lp into the
            # daughter D, which decays with lam.   state (P, D, 1)
            lp = LN2 / dec(row["Thalf_parent"])
            m = [[-lp, D(0), R], [lp, -lam, D(0)], [D(0), D(0), D(0)]]
            v = _apply(expm_metzler(m, T), [D(0), D(0), D(1)])
            return lam * v[1]
        if kind == "2n":
            # target burns with a; x = a*N1 (x(0) = R); parent N2 lost by decay lp and capture b;
            # only the captures feed the product N3, which decays with lam
            lp = LN2 / dec(row["Thalf_parent"])
            m = [[-a, D(0), D(0)], [D(1), -(b + lp), D(0)], [D(0), b, -lam]]
            v = _apply(expm_metzler(m, T), [R, D(0), D(0)])
            return lam * v[2]
        # single capture with burn-up of target (a) and of product (b)
        m = [[-a, D(0)], [D(1), -(lam + b)]]
        v = _apply(expm_metzler(m, T), [R, D(0)])
        return lam * v[1]


def rest_factor(row, t):
    """2^(-t/T_half)"""
    with localcontext() as c:
        _ctx(c, PREC + 15)
        return (-(LN2 / dec(row["Thalf_hrs"])) * dec(t)).exp()


# --------------------------------------------------------------------------- closed forms (self-test only)

def closed_activity(row, A, mass, fluence, cd, fast_ratio, exposure, prec=400):
    q = rates(row, A, mass, fluence, cd, fast_ratio)
    if q is None:
        return None
    with localcontext() as c:
        _ctx(c, prec)
        T = dec(exposure)
        R, lam, a, b = q["R"], q["lam"], q["a"], q["b"]
        kind = row["reaction"]
        if kind == "b":
            lp = LN2 / dec(row["Thalf_parent"])
            return R * (1 - (lp * (-lam * T).exp() - lam * (-lp * T).exp()) / (lp - lam))
        if kind == "2n":
            lp = LN2 / dec(row["Thalf_parent"])
            k1, k2, k3 = a, b + lp, lam
            s = ((-k1 * T).exp() / ((k2 - k1) * (k3 - k1)) + (-k2 * T).exp() / ((k1 - k2) * (k3 - k2))
                 + (-k3 * T).exp() / ((k1 - k3) * (k2 - k3)))
            return R * lam * b * s
        c2 = lam + b
        return R * lam / (c2 - a) * ((-a * T).exp() - (-c2 * T).exp())


# --------------------------------------------------------------------------- C15

def total_activity(products, t):
    """sum_i A_i * 2^(-t/T_i); products = [(A_i as float/Decimal, T_half_i)]"""
    with localcontext() as c:
        _ctx(c, PREC)
        tt = dec(t)
        return sum((dec(a) * (-(LN2 / dec(th)) * tt).exp() for a, th in products), D(0))


def relerr(got, want) -> float:
    got, want = dec(got), dec(want)
    if want == 0:
        return 0.0 if got == 0 else float("inf")
    return float(abs(got - want) / abs(want))
