"""Entry point: ./check Cxx [--tier quick|thorough] [--replay file]"""
import argparse
import importlib
import json
import sys
import traceback

from .common import InfraError, Run, seed_from_env, tier_from_env, VERIF


def main():
    ap = argparse.ArgumentParser()
    ap.add_argument("pid")
    ap.add_argument("--tier", default=None)
    ap.add_argument("--replay", default=None)
    a = ap.parse_args()
    try:
        mod = importlib.import_module("ptv.props.%s" % a.pid)
    except ImportError as e:
        print("no check for %s: %s" % (a.pid, e), file=sys.stderr)
        return 2
    try:
        if a.replay:
            path = a.replay if a.replay.startswith("/") else str(VERIF / a.replay)
            data = json.load(open(path))
            return mod.replay(data)
        run = Run(a.pid, tier_from_env(a.tier), seed_from_env())
        try:
            from .common import settings_probe
            settings_probe(run)
            return mod.run(run)
        except InfraError:
            raise
        except Exception as e:  # noqa
            # The check itself stopped on an exception.  On the unchanged tree this does not happen (the
            # checks are run with many seeds); on a changed tree it means that the real code raised where
            # the harness had no reason to expect it, or that the model / translator can no longer be lined
            # up with the source.  Either way the property is no longer shown to hold: report it, with the
            # traceback as the replay, rather than hiding it behind an infrastructure exit code.
            tb = traceback.format_exc()
            traceback.print_exc()
            from .common import REPO
            in_real_code = str(REPO) in tb
            what = ("the real code raised %s: %s" if in_real_code else
                    "the check could not be completed (%s: %s): model, translator or harness no longer line up with the source") \
                % (type(e).__name__, str(e)[:200])
            run.proof_broken.append(what)
            run.build_log = tb[-6000:]
            if not run.theorems:
                try:
                    from .common import audit
                    run.theorems = audit(run.module)
                except Exception:  # noqa
                    pass
            return run.finish("the run was cut short by an exception; see proof_obligations_broken",
                              assumptions=["run cut short: " + what])
    except InfraError as e:
        print("INFRA-ERROR %s: %s" % (a.pid, e), file=sys.stderr)
        return 2
    except Exception:
        traceback.print_exc()
        return 2


if __name__ == "__main__":
    sys.exit(main())
