"""Entry point: ./check Cxx [--tier quick|thorough] [--replay file]"""
import argparse
import importlib
import json
import sys
import traceback

from .common import InfraError, Run, seed_from_env, tier_from_env, VERIF


def main():
    ap = argparse.ArgumentParser()
    ap.add_argument("pid")
    ap.add_argument("--tier", default=None)
    ap.add_argument("--replay", default=None)
    a = ap.parse_args()
    try:
        mod = importlib.import_module("ptv.props.%s" % a.pid)
    except ImportError as e:
        print("no check for %s: %s" % (a.pid, e), file=sys.stderr)
        return 2
    try:
        if a.replay:
            path = a.replay if a.replay.startswith("/") else str(VERIF / a.replay)
            data = json.load(open(path))
            return mod.replay(data)
        run = Run(a.pid, tier_from_env(a.tier), seed_from_env())
        return mod.run(run)
    except InfraError as e:
        print("INFRA-ERROR %s: %s" % (a.pid, e), file=sys.stderr)
        return 2
    except Exception:
        traceback.print_exc()
        return 2


if __name__ == "__main__":
    sys.exit(main())
