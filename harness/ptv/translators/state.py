"""Translator of the `state` cluster: `Generated/LazyConfig.lean` (C09, C10).

Reads with `ast`, never by importing:
  * core.py `delayed_load`: the statement lists of the property getter and setter
    (`clearprops(); loader(); return getattr(…)` / `clearprops(); [loader();] setattr(…)`),
    and the shape of `clearprops` (delattr on Element, Isotope, Ion – in that order);
  * `__init__.py`: the `core.delayed_load(props, loader, element=, isotope=, ion=)` registrations and
    which `module.init(elements)` every loader calls; the eager `mass.init` / `density.init`;
  * every such `init`: the guard on `table.properties`, and – in program order – class-level
    writes (`Element.x = …`), per-instance writes of lazy names, reads of lazy names
    (`hasattr`, `getattr`, plain attribute loads) and guarded deletes;
  * submodules whose top level calls a calculator at import time (fasta).

`lazy_config()` returns the same information as a dict for the harness (names ↔ numbers).
"""
from __future__ import annotations

import ast

from .. import translate
from ..translate import Unreadable, module_ast

CLASSES = {"Element": "element", "Isotope": "isotope", "Ion": "ion"}
SUBMODULES = ["nsf", "xsf", "covalent_radius", "crystal_structure", "magnetic_ff", "activation",
              "fasta", "formulas", "plot", "cromermann", "nsf_tables", "util", "constants"]
CALC_READS = {"neutron_sld": "neutron", "neutron_scattering": "neutron", "neutron_composite_sld": "neutron",
              "xray_sld": "xray"}


def _fn(tree, name):
    for n in ast.walk(tree):
        if isinstance(n, ast.FunctionDef) and n.name == name:
            return n
    raise Unreadable("no function %s" % name)


def _callname(node):
    if isinstance(node, ast.Call):
        f = node.func
        if isinstance(f, ast.Name):
            return f.id
        if isinstance(f, ast.Attribute):
            return f.attr
    return None


# --------------------------------------------------------------------------- core.delayed_load

def read_accessors():
    tree = module_ast("periodictable/core.py")
    dl = _fn(tree, "delayed_load")

    def steps(outer, inner):
        f = _fn(_fn(dl, outer), inner)
        out = []
        for st in f.body:
            if isinstance(st, ast.Expr) and isinstance(st.value, ast.Constant):
                continue   # docstring
            v = st.value if isinstance(st, (ast.Expr, ast.Return)) else None
            name = _callname(v)
            if name == "clearprops":
                out.append("clear")
            elif name == "loader":
                out.append("load")
            elif name == "getattr" and isinstance(st, ast.Return) and len(v.args) == 2:
                out.append("get")
            elif name == "setattr" and len(v.args) == 3:
                out.append("set")
            else:
                raise Unreadable("delayed_load.%s: statement not understood: %s" % (inner, ast.dump(st)[:80]))
        return out
    getter, setter = steps("getter", "getfn"), steps("setter", "setfn")
    # clearprops: if <flag>: for p in all_props: delattr(<Class>, p)   in the order Element, Isotope, Ion
    cp = _fn(dl, "clearprops")
    order = []
    for st in cp.body:
        if isinstance(st, ast.Expr) and isinstance(st.value, ast.Constant):
            continue
        ok = (isinstance(st, ast.If) and isinstance(st.test, ast.Name) and len(st.body) == 1
              and isinstance(st.body[0], ast.For) and len(st.body[0].body) == 1
              and isinstance(st.body[0].iter, ast.Name) and st.body[0].iter.id == "all_props"
              and not st.orelse)
        if ok:
            call = st.body[0].body[0]
            ok = (isinstance(call, ast.Expr) and _callname(call.value) == "delattr"
                  and isinstance(call.value.args[0], ast.Name) and call.value.args[0].id in CLASSES)
        if not ok:
            raise Unreadable("delayed_load.clearprops: statement not understood")
        order.append((st.test.id, CLASSES[call.value.args[0].id]))
    if order != [("element", "element"), ("isotope", "isotope"), ("ion", "ion")]:
        raise Unreadable("delayed_load.clearprops: unexpected class order %r" % order)
    # installation: if <flag>: for p in all_props: setattr(<Class>, p, property(getter(p), setter(p), …))
    inst = []
    for st in dl.body:
        if isinstance(st, ast.If) and isinstance(st.test, ast.Name) and st.test.id in ("element", "isotope", "ion"):
            if not (len(st.body) == 1 and isinstance(st.body[0], ast.For) and isinstance(st.body[0].iter, ast.Name)
                    and st.body[0].iter.id == "all_props"):
                raise Unreadable("delayed_load: properties are not installed for every name of all_props")
            for n in ast.walk(st):
                if _callname(n) == "setattr" and isinstance(n.args[0], ast.Name):
                    inst.append((st.test.id, CLASSES.get(n.args[0].id)))
    if sorted(inst) != sorted([("element", "element"), ("isotope", "isotope"), ("ion", "ion")]):
        raise Unreadable("delayed_load: unexpected installation of the properties: %r" % inst)
    defaults = {}
    args = dl.args
    for a, d in zip(args.args[-len(args.defaults):], args.defaults):
        defaults[a.arg] = ast.literal_eval(d)
    return getter, setter, defaults


# --------------------------------------------------------------------------- __init__.py

def read_registrations():
    tree = module_ast("periodictable/__init__.py")
    _, _, defaults = read_accessors()
    loaders = {}
    for n in tree.body:
        if isinstance(n, ast.FunctionDef) and n.name.startswith("_load"):
            mod = fn = None
            for st in n.body:
                if isinstance(st, ast.ImportFrom) and st.level == 1 and st.module is None:
                    mod = st.names[0].name
                elif isinstance(st, ast.Expr) and isinstance(st.value, ast.Call) and \
                        isinstance(st.value.func, ast.Attribute) and isinstance(st.value.func.value, ast.Name):
                    c = st.value
                    if not (len(c.args) == 1 and isinstance(c.args[0], ast.Name) and c.args[0].id == "elements"):
                        raise Unreadable("%s: loader call is not module.fn(elements)" % n.name)
                    if c.func.value.id != mod:
                        raise Unreadable("%s: loader calls %s, imported %s" % (n.name, c.func.value.id, mod))
                    fn = c.func.attr
                elif isinstance(st, ast.Expr) and isinstance(st.value, ast.Constant):
                    pass
                else:
                    raise Unreadable("%s: statement not understood" % n.name)
            if mod is None or fn is None:
                raise Unreadable("%s: no module.init(elements) call" % n.name)
            loaders[n.name] = (mod, fn)
    regs, eager = [], []
    for n in tree.body:
        if isinstance(n, ast.Expr) and isinstance(n.value, ast.Call):
            c = n.value
            if isinstance(c.func, ast.Attribute) and c.func.attr == "delayed_load":
                try:
                    props = ast.literal_eval(c.args[0])
                except (ValueError, TypeError, SyntaxError, IndexError):
                    raise Unreadable("delayed_load (line %d): the registered names are not a literal list" % c.lineno)
                if not isinstance(props, (list, tuple)) or not all(isinstance(x, str) for x in props):
                    raise Unreadable("delayed_load (line %d): the registered names are not a list of strings" % c.lineno)
                if not isinstance(c.args[1], ast.Name) or c.args[1].id not in loaders:
                    raise Unreadable("delayed_load: loader is not a _load_* function of __init__")
                flags = dict(defaults)
                for kw in c.keywords:
                    flags[kw.arg] = ast.literal_eval(kw.value)
                for i, a in enumerate(c.args[2:]):
                    flags[["element", "isotope", "ion"][i]] = ast.literal_eval(a)
                regs.append(dict(props=list(props), loader=loaders[c.args[1].id],
                                 element=bool(flags["element"]), isotope=bool(flags["isotope"]),
                                 ion=bool(flags["ion"])))
            elif isinstance(c.func, ast.Attribute) and isinstance(c.func.value, ast.Name) and \
                    len(c.args) == 1 and isinstance(c.args[0], ast.Name) and c.args[0].id == "elements":
                eager.append((c.func.value.id, c.func.attr))
    if not regs:
        raise Unreadable("no delayed_load registrations found")
    return regs, eager


# --------------------------------------------------------------------------- init functions

class InitReader:
    """effects of one `init(table, …)` in program order"""

    def __init__(self, modname, lazy):
        self.modname = modname
        self.tree = module_ast("periodictable/%s.py" % modname)
        self.lazy = lazy
        self.effs = []
        self.vids = {}
        self.mutable_globals = self._mutable_globals()
        self.depth = 0

    def _mutable_globals(self):
        out = set()
        for n in self.tree.body:
            if isinstance(n, ast.Assign) and len(n.targets) == 1 and isinstance(n.targets[0], ast.Name):
                v = n.value
                if isinstance(v, (ast.List, ast.Tuple, ast.Dict)):
                    elems = v.values if isinstance(v, ast.Dict) else v.elts
                    if any(isinstance(e, (ast.Dict, ast.List, ast.Set)) for e in elems):
                        out.add(n.targets[0].id)
        return out

    # kinds: table | element | isotope | ion | ionset | None
    def kind(self, e, env):
        if isinstance(e, ast.Name):
            return env.get(e.id, (None, False))[0]
        if isinstance(e, ast.Subscript):
            k = self.kind(e.value, env)
            return {"table": "element", "element": "isotope", "ionset": "ion"}.get(k)
        if isinstance(e, ast.Attribute):
            k = self.kind(e.value, env)
            if k == "table" and e.attr[:1].isupper():
                return "element"
            if k in ("element", "isotope") and e.attr == "ion":
                return "ionset"
            if k in ("isotope", "ion") and e.attr == "element":
                return "element"
            return None
        if isinstance(e, ast.Call):
            f = e.func
            if isinstance(f, ast.Attribute):
                k = self.kind(f.value, env)
                if k == "table" and f.attr in ("symbol", "name", "isotope"):
                    return "element"
                if k == "element" and f.attr == "add_isotope":
                    return "isotope"
            if isinstance(f, ast.Name) and f.id == "getattr" and e.args and self.kind(e.args[0], env) == "table":
                return "element"
        return None

    def shared(self, e, env):
        return isinstance(e, ast.Name) and env.get(e.id, (None, False))[1]

    def emit(self, *eff):
        self.effs.append(eff)

    def reads(self, e, env):
        """attribute loads of lazy names, in evaluation order"""
        if e is None:
            return
        if isinstance(e, ast.Call):
            name = _callname(e)
            if name in ("hasattr", "getattr") and isinstance(e.func, ast.Name) and len(e.args) >= 2 and \
                    isinstance(e.args[1], ast.Constant) and e.args[1].value in self.lazy:
                k = self.kind(e.args[0], env)
                self.reads(e.args[0], env)
                if k in ("element", "isotope", "ion"):
                    catches = name == "hasattr" or len(e.args) == 3
                    self.emit("probe", k, e.args[1].value, catches)
                    return
            if isinstance(e.func, ast.Name) and self._local_fn(e.func.id) is not None and \
                    any(self.kind(a, env) == "table" for a in e.args):
                self.inline(e, env)
                return
        if isinstance(e, ast.Attribute) and isinstance(e.ctx, ast.Load):
            self.reads(e.value, env)
            if e.attr in self.lazy and self.kind(e.value, env) in ("element", "isotope", "ion"):
                self.emit("probe", self.kind(e.value, env), e.attr, False)
            return
        if isinstance(e, (ast.Lambda, ast.FunctionDef)):
            return
        for c in ast.iter_child_nodes(e):
            self.reads(c, env)

    def _local_fn(self, name):
        for n in self.tree.body:
            if isinstance(n, ast.FunctionDef) and n.name == name:
                return n
        return None

    def inline(self, call, env):
        fn = self._local_fn(call.func.id)
        if self.depth > 3:
            raise Unreadable("%s: call nesting too deep" % self.modname)
        new = {}
        for a, p in zip(call.args, fn.args.args):
            new[p.arg] = (self.kind(a, env), False)
        self.depth += 1
        self.block(fn.body, new)
        self.depth -= 1

    def store(self, tgt, value, env):
        if isinstance(tgt, (ast.Tuple, ast.List)):
            for t in tgt.elts:
                self.store(t, None, env)
            return
        if isinstance(tgt, ast.Name):
            env[tgt.id] = (self.kind(value, env) if value is not None else None,
                           self.shared(value, env) if value is not None else False)
            return
        if isinstance(tgt, ast.Attribute):
            if isinstance(tgt.value, ast.Name) and tgt.value.id in CLASSES and tgt.value.id not in env:
                if tgt.attr in self.lazy:
                    # identity of the stored object within one run of the init: the same local name
                    # (`Isotope.x = missing; Element.x = missing`) is one object, anything else its own
                    vkey = ("name", value.id) if isinstance(value, ast.Name) else ("expr", len(self.effs))
                    vid = self.vids.setdefault(vkey, len(self.vids))
                    self.emit("classWrite", CLASSES[tgt.value.id], tgt.attr, _callname(value) == "property", vid)
                return
            k = self.kind(tgt.value, env)
            self.reads(tgt.value, env)
            if k in ("element", "isotope", "ion") and tgt.attr in self.lazy:
                zero = isinstance(tgt.value, ast.Subscript) and isinstance(tgt.value.slice, ast.Constant) \
                    and tgt.value.slice.value == 0
                self.emit("instWrite", k, tgt.attr, "zero" if zero else "rows",
                          bool(value is not None and self.shared(value, env)))
            return
        if isinstance(tgt, ast.Subscript):
            self.reads(tgt.value, env)
            self.reads(tgt.slice, env)
            return
        raise Unreadable("%s: assignment target not understood" % self.modname)

    def guard_name(self, st):
        """`if '<name>' in table.properties and not reload: return`"""
        if not (isinstance(st, ast.If) and len(st.body) == 1 and isinstance(st.body[0], ast.Return) and not st.orelse):
            return None
        t = st.test
        parts = t.values if isinstance(t, ast.BoolOp) and isinstance(t.op, ast.And) else [t]
        for p in parts:
            if isinstance(p, ast.Compare) and len(p.ops) == 1 and isinstance(p.ops[0], ast.In) and \
                    isinstance(p.left, ast.Constant) and isinstance(p.comparators[0], ast.Attribute) and \
                    p.comparators[0].attr == "properties":
                return p.left.value
        return None

    def block(self, body, env):
        for st in body:
            self.stmt(st, env)

    def stmt(self, st, env):
        g = self.guard_name(st)
        if g is not None:
            self.emit("guard", g)
            return
        if isinstance(st, ast.Expr):
            v = st.value
            if isinstance(v, ast.Constant):
                return
            if _callname(v) == "append" and isinstance(v.func, ast.Attribute) and \
                    isinstance(v.func.value, ast.Attribute) and v.func.value.attr == "properties":
                return    # part of the guard
            self.reads(v, env)
            return
        if isinstance(st, ast.Assert):
            if any(isinstance(n, ast.Attribute) and n.attr == "properties" for n in ast.walk(st.test)):
                return    # prerequisite tables (mass, density) – eager, not part of the lazy state
            self.reads(st.test, env)
            return
        if isinstance(st, ast.Assign):
            self.reads(st.value, env)
            for t in st.targets:
                self.store(t, st.value, env)
            return
        if isinstance(st, ast.AugAssign):
            self.reads(st.value, env)
            self.reads(st.target, env)
            return
        if isinstance(st, ast.AnnAssign):
            self.reads(st.value, env)
            if st.value is not None:
                self.store(st.target, st.value, env)
            return
        if isinstance(st, ast.If):
            # `if hasattr(x, 'p'): del x.p`
            if _callname(st.test) == "hasattr" and len(st.body) == 1 and isinstance(st.body[0], ast.Delete) \
                    and not st.orelse and isinstance(st.test.args[1], ast.Constant):
                d = st.body[0].targets[0]
                if isinstance(d, ast.Attribute) and d.attr == st.test.args[1].value and d.attr in self.lazy:
                    k = self.kind(d.value, env)
                    if k in ("element", "isotope", "ion"):
                        self.reads(st.test.args[0], env)
                        self.emit("delIfHas", k, d.attr)
                        return
            self.reads(st.test, env)
            self.block(st.body, env)
            self.block(st.orelse, env)
            return
        if isinstance(st, ast.For):
            self.reads(st.iter, env)
            it = st.iter
            k = self.kind(it, env)
            sh = False
            src = it
            if isinstance(it, ast.Call) and _callname(it) in ("enumerate", "items", "values", "sorted", "list"):
                src = it.args[0] if it.args else (it.func.value if isinstance(it.func, ast.Attribute) else it)
            if isinstance(src, ast.Name) and src.id in self.mutable_globals and src.id not in env:
                sh = True
            if isinstance(st.target, ast.Name):
                env[st.target.id] = ({"table": "element", "element": "isotope"}.get(k), sh)
            else:
                for n in ast.walk(st.target):
                    if isinstance(n, ast.Name):
                        env[n.id] = (None, sh)
            self.block(st.body, env)
            self.block(st.orelse, env)
            return
        if isinstance(st, ast.Delete):
            for t in st.targets:
                if isinstance(t, ast.Attribute) and t.attr in self.lazy:
                    raise Unreadable("%s: unguarded `del x.%s`" % (self.modname, t.attr))
            return
        if isinstance(st, (ast.Return, ast.Pass, ast.Continue, ast.Break, ast.Import, ast.ImportFrom,
                           ast.FunctionDef, ast.ClassDef, ast.Global, ast.Nonlocal)):
            if isinstance(st, ast.Return):
                self.reads(st.value, env)
            return
        if isinstance(st, (ast.With, ast.Try, ast.While)):
            for c in ast.iter_child_nodes(st):
                if isinstance(c, ast.stmt):
                    self.stmt(c, env)
                elif isinstance(c, ast.expr):
                    self.reads(c, env)
                elif isinstance(c, ast.ExceptHandler):
                    self.block(c.body, env)
            return
        if isinstance(st, ast.Raise):
            return
        raise Unreadable("%s: statement not understood: %s" % (self.modname, type(st).__name__))

    def read(self, fname):
        fn = self._local_fn(fname)
        if fn is None:
            raise Unreadable("no function %s.%s" % (self.modname, fname))
        if not fn.args.args or fn.args.args[0].arg != "table":
            raise Unreadable("%s.%s: first parameter is not `table`" % (self.modname, fname))
        self.effs = []
        self.block(fn.body, {"table": ("table", False)})
        # a read that repeats an earlier read with no write / guard / delete in between cannot
        # change the state again: keep the first
        out, seen = [], set()
        for e in self.effs:
            if e[0] == "probe":
                if e in seen:
                    continue
                seen.add(e)
            else:
                seen = set()
            out.append(e)
        return out


def import_reads(lazy):
    out = {}
    for m in SUBMODULES:
        try:
            tree = module_ast("periodictable/%s.py" % m)
        except Unreadable:
            continue
        attrs = []
        for st in tree.body:
            if isinstance(st, (ast.FunctionDef, ast.ClassDef, ast.Import, ast.ImportFrom)):
                continue
            for n in ast.walk(st):
                name = _callname(n)
                if name in CALC_READS and CALC_READS[name] in lazy and CALC_READS[name] not in attrs:
                    attrs.append(CALC_READS[name])
        if attrs:
            out[m] = [(c, a) for a in attrs for c in ("element", "isotope")]
    return out


_CACHE = {}


def lazy_config():
    """everything the model and the harness need, with names; numbering:
       attrs  = registration props in order; inits = eager inits then loader inits in order"""
    key = "cfg"
    getter, setter, _ = read_accessors()
    regs, eager = read_registrations()
    attrs = []
    for r in regs:
        for p in r["props"]:
            if p in attrs:
                raise Unreadable("attribute %s registered twice" % p)
            attrs.append(p)
    lazy = set(attrs)
    inits = list(eager)
    for r in regs:
        if r["loader"] not in inits:
            inits.append(r["loader"])
    guards = []
    effs = {}
    for (mod, fn) in inits:
        es = InitReader(mod, lazy).read(fn)
        effs[(mod, fn)] = es
        for e in es:
            if e[0] == "guard" and e[1] not in guards:
                guards.append(e[1])
    groups = []
    for r in regs:
        groups.append(dict(attrs=[attrs.index(p) for p in r["props"]], names=list(r["props"]),
                           element=r["element"], isotope=r["isotope"], ion=r["ion"],
                           loader=inits.index(r["loader"]), inits=[]))
    # group locality: an init may mention attributes of one group only
    for idx, key_ in enumerate(inits):
        touched = set()
        for e in effs[key_]:
            if e[0] in ("classWrite", "instWrite", "probe", "delIfHas"):
                touched.add(next(gi for gi, g in enumerate(groups) if e[2] in g["names"]))
        if len(touched) > 1:
            raise Unreadable("%s.%s mentions lazy attributes of %d registration groups; the model keeps "
                             "state per group" % (key_[0], key_[1], len(touched)))
        for gi in touched:
            groups[gi]["inits"].append((idx, effs[key_]))
    for gi, g in enumerate(groups):
        if g["loader"] not in [i for i, _ in g["inits"]]:
            g["inits"].append((g["loader"], effs[inits[g["loader"]]]))
    cfg = dict(attrs=attrs, inits=["%s.%s" % k for k in inits], guards=guards, groups=groups,
               getter=getter, setter=setter, modules=list(SUBMODULES), import_reads=import_reads(lazy))
    return cfg


def _cls(c):
    return "." + c


def lean_eff(e, cfg):
    a = cfg["attrs"]
    if e[0] == "guard":
        return ".guard %d" % cfg["guards"].index(e[1])
    if e[0] == "classWrite":
        return ".classWrite %s %d %s %d" % (_cls(e[1]), a.index(e[2]), "true" if e[3] else "false", e[4])
    if e[0] == "instWrite":
        return ".instWrite %s %d .%s %s" % (_cls(e[1]), a.index(e[2]), e[3], "true" if e[4] else "false")
    if e[0] == "probe":
        return ".probe %s %d %s" % (_cls(e[1]), a.index(e[2]), "true" if e[3] else "false")
    if e[0] == "delIfHas":
        return ".delIfHas %s %d" % (_cls(e[1]), a.index(e[2]))
    raise Unreadable("unknown effect %r" % (e,))


@translate.register("LazyConfig")
def gen_LazyConfig() -> str:
    cfg = lazy_config()
    out = ["import PtVerif.Model.Lazy", "namespace PtGen", "open PtLazy", "",
           "/-- lazy attribute names; the number of a name is its position -/",
           "def lazyAttrNames : List String := " + translate.lean_list(translate.lean_str(s) for s in cfg["attrs"]),
           "/-- init functions; the number of an init is its position -/",
           "def lazyInitNames : List String := " + translate.lean_list(translate.lean_str(s) for s in cfg["inits"]),
           "/-- names used in the `table.properties` guards -/",
           "def lazyGuardNames : List String := " + translate.lean_list(translate.lean_str(s) for s in cfg["guards"]),
           "/-- submodules (for import events) -/",
           "def lazyModuleNames : List String := " + translate.lean_list(translate.lean_str(s) for s in cfg["modules"]),
           ""]
    steps = lambda l: translate.lean_list("." + s for s in l)
    gnames = []
    for gi, g in enumerate(cfg["groups"]):
        name = "lazyGroup%d" % gi
        gnames.append(name)
        out.append("/-- delayed_load(%s, loader = %s) -/" % (g["names"], cfg["inits"][g["loader"]]))
        out.append("def %s : GroupCfg := {" % name)
        out.append("  attrs := %s," % translate.lean_list(str(x) for x in g["attrs"]))
        out.append("  onElement := %s, onIsotope := %s, onIon := %s," % tuple(
            "true" if g[k] else "false" for k in ("element", "isotope", "ion")))
        out.append("  loader := %d," % g["loader"])
        out.append("  inits := [")
        rows = []
        for idx, es in g["inits"]:
            rows.append("    -- %s\n    (%d, [%s])" % (cfg["inits"][idx], idx, ",\n      ".join(lean_eff(e, cfg) for e in es)))
        out.append(",\n".join(rows))
        out.append("  ],")
        out.append("  getter := %s," % steps(cfg["getter"]))
        out.append("  setter := %s }" % steps(cfg["setter"]))
        out.append("")
    irs = []
    for m, reads in cfg["import_reads"].items():
        irs.append("(%d, %s)" % (cfg["modules"].index(m), translate.lean_list(
            "(%s, %d)" % (_cls(c), cfg["attrs"].index(a)) for c, a in reads)))
    out.append("def lazyConfig : Config := {")
    out.append("  groups := %s," % translate.lean_list(gnames))
    out.append("  importReads := %s }" % translate.lean_list(irs))
    out += ["", "end PtGen", ""]
    return "\n".join(out)
