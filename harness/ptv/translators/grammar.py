"""Translator of the grammar cluster (C01, C13): the isotopes each element has.

`Element.isotopes` is loader output: `mass.init` calls `el.add_isotope(A)` for every row
`Z-Sym-A,…` of the `isotope_mass` literal of mass.py.  The rows are read here with `ast`
(the loader is not imported, the runtime is not trusted); the two isotopes that
`PeriodicTable.__init__` adds by hand (D = H[2], T = H[3]) and the neutron isotope added by
`mass.init` (`table[0].add_isotope(1)`) are *code*, and are part of the hand-written model
(`Model/GrammarTable.lean`).
"""
from __future__ import annotations

from .. import translate
from ..translate import Unreadable


def isotope_rows():
    """[(Z, symbol, [A, …])] in table order, from the literal"""
    tree = translate.module_ast("periodictable/mass.py")
    text = translate.literal(tree, "isotope_mass")
    if not isinstance(text, str):
        raise Unreadable("mass.isotope_mass is not a string literal")
    rows = {}
    order = []
    for n, line in enumerate(text.split("\n")):
        fields = line.split(",")
        key = fields[0].split("-")
        if len(fields) != 4 or len(key) != 3 or not key[0].isdigit() or not key[2].isdigit():
            raise Unreadable("mass.isotope_mass line %d is not 'Z-Sym-A,m,p,avg': %r" % (n + 1, line))
        z, sym, a = int(key[0]), key[1], int(key[2])
        if z not in rows:
            rows[z] = (sym, [])
            order.append(z)
        if rows[z][0] != sym:
            raise Unreadable("mass.isotope_mass line %d: symbol %s after %s for Z=%d" % (n + 1, sym, rows[z][0], z))
        rows[z][1].append(a)
    return [(z, rows[z][0], rows[z][1]) for z in order]


@translate.register("IsotopeList")
def gen_IsotopeList() -> str:
    rows = isotope_rows()
    out = ["namespace PtGen", "",
           "/-- mass.py `isotope_mass`: (Z, symbol code, mass numbers A in row order) – the isotopes",
           "    `mass.init` adds to each element -/",
           "def isotopeList : List (Nat × Nat × List Nat) := ["]
    out.append(",\n".join("  (%d, %d, %s)" % (z, translate.sym_code(sym), translate.lean_list(str(a) for a in isos))
                          for z, sym, isos in rows))
    out += ["]", "", "end PtGen", ""]
    return "\n".join(out)
