"""Translators of the loader cluster: Generated/MassTables, Density, NsfTables, Ancillary.

Each module holds the translator's *own reading* of every row of an embedded table as
structured, exact data (`PtLoad.IsoRow`, `PtLoad.Unc`, `PtLoad.Dec` …), chunked.  The raw text of
the tables is not compiled in (kernel reduction of `String` literals is unusable at this scale,
DESIGN 4.3): the check streams it to the compiled driver, which runs the string-level model of the
loaders on it and compares the result with these rows (`selfcheck`), on every run.
"""
from __future__ import annotations

from .. import loaders_read as R
from .. import translate
from ..translate import lean_int

CHUNK = 250


def register(name):
    """translate.register, plus: when translate.py itself runs as `python -m ptv.translate`
    (tools/setup.sh) it exists twice (`__main__` and `ptv.translate`) and reads the registry of
    the `__main__` copy – register there too."""
    import sys

    def deco(fn):
        translate.GENERATORS[name] = fn
        main = sys.modules.get("__main__")
        if main is not None and getattr(getattr(main, "__spec__", None), "name", None) == "ptv.translate" \
                and hasattr(main, "GENERATORS"):
            main.GENERATORS[name] = fn
        return fn
    return deco


def chunked(name: str, typ: str, rows, doc: str, size: int = CHUNK):
    """Lean text defining `name : List typ` as the concatenation of chunks of ≤ size rows"""
    out = []
    parts = []
    for i in range(0, max(len(rows), 1), size):
        part = "%s_%d" % (name, i // size)
        parts.append(part)
        out.append("def %s : List %s := [\n%s]\n" % (part, typ, ",\n".join("  " + r for r in rows[i:i + size])))
    out.append("/-- %s -/\ndef %s : List %s := %s\n" % (doc, name, typ, " ++ ".join(parts)))
    return "\n".join(out)


@register("MassTables")
def gen_MassTables() -> str:
    src = R.mass_source()
    iso = R.read_iso_mass(src["isotope_mass"])
    el = R.read_element_mass(src["element_mass"])
    ab = R.read_abundance(src["isotope_abundance"])
    nm, nmu = R.neutron_mass_consts()
    out = ["import PtVerif.Model.Loaders", "namespace PtGen", "open PtLoad", "",
           "/-! mass.py: the translator's reading of `isotope_mass` (%d rows), `element_mass` (%d),"
           % (len(iso), len(el)),
           "    `isotope_abundance` (%d lines); constants.py `neutron_mass`, `neutron_mass_unc`. -/" % len(ab), ""]
    out.append(chunked("isoMassRows", "IsoRow",
                       ["⟨%d, %d, %d, %s, %s⟩" % (z, R.sym_code(s), a, R.unc_lean(m), R.unc_lean(avg))
                        for z, s, a, m, avg in iso],
                       "mass.py `isotope_mass`: Z, symbol code, A, isotope mass, (old) element mass"))
    out.append(chunked("elMassRows", "ElRow",
                       ["⟨%d, %s⟩" % (z, "none" if v is None else "some " + R.unc_lean(v)) for z, v in el],
                       "mass.py `element_mass`: Z, standard atomic weight (`none` for `-`)"))
    out.append(chunked("abLines", "AbLine",
                       [(".header %d" % l[1]) if l[0] == "header" else ".entry %d %s" % (l[1], R.unc_lean(l[2]))
                        for l in ab],
                       "mass.py `isotope_abundance`: element headers and indented isotope entries"))
    out += ["def massTables : MassTables := ⟨isoMassRows, elMassRows, abLines⟩", "",
            "/-- constants.py `neutron_mass` -/", "def neutronMass : Dec := %s" % nm.lean(),
            "/-- constants.py `neutron_mass_unc` -/", "def neutronMassUnc : Dec := %s" % nmu.lean(),
            "", "end PtGen", ""]
    return "\n".join(out)


@register("Density")
def gen_Density() -> str:
    rows = R.density_source()
    out = ["import PtVerif.Model.Loaders", "namespace PtGen", "open PtLoad", "",
           "/-! density.py `element_densities` (%d entries): symbol code, density (`none` for `None`) -/" % len(rows), ""]
    out.append(chunked("densityRows", "DensityRow",
                       ["⟨%d, %s⟩" % (R.sym_code(k), "none" if v is None else "some " + v.lean()) for k, v in rows],
                       "density.py `element_densities`"))
    out += ["end PtGen", ""]
    return "\n".join(out)


def _opt_unc(p):
    return "none" if p is None else "(some %s)" % R.unc_lean(p)


@register("NsfTables")
def gen_NsfTables() -> str:
    src = R.nsf_source()
    rows = R.read_nsf(src["nsftable"])
    irows = R.read_nsf_imag(src["nsftableI"])
    ed = R.energy_tables_source()
    out = ["import PtVerif.Model.LoadersNsf", "namespace PtGen", "open PtLoad", "",
           "/-! nsf.py: the translator's reading of `nsftable` (%d rows), `nsftableI` (%d);" % (len(rows), len(irows)),
           "    nsf_tables.py `ENERGY_DEPENDENT_TABLES` (%d tables); `ABSORPTION_WAVELENGTH`. -/" % len(ed), ""]
    out.append(chunked("nsfRows", "NsfRow", [
        "⟨%d, %d, %d, %s, %s, %s, %s, %s, %s, %s, %s, %s, %s⟩" % (
            r["z"], R.sym_code(r["sym"]), r["a"], _opt_unc(r["p"]), translate.lean_str(r["spin"]),
            R.unc_lean(r["b_c"]), R.unc_lean(r["bp"]), R.unc_lean(r["bm"]), "true" if r["isE"] else "false",
            R.unc_lean(r["coh"]), R.unc_lean(r["inc"]), R.unc_lean(r["tot"]), R.unc_lean(r["abs"]))
        for r in rows], "nsf.py `nsftable`"))
    out.append(chunked("nsfIRows", "NsfIRow", [
        "⟨%d, %d, %s, %s, %s⟩" % (r["z"], r["a"], R.unc_lean(r["b_c_i"]), R.unc_lean(r["bp_i"]), R.unc_lean(r["bm_i"]))
        for r in irows], "nsf.py `nsftableI`"))
    tabs = []
    for i, (sym, a, trows) in enumerate(ed):
        out.append("def edRows_%d : List (Dec × Dec × Dec) := [\n%s]\n" % (
            i, ",\n".join("  (%s, %s, %s)" % (e.lean(), re_.lean(), im.lean()) for e, re_, im, _ in trows)))
        tabs.append("⟨%d, %d, edRows_%d⟩" % (R.sym_code(sym), a, i))
    out.append("/-- nsf_tables.py `ENERGY_DEPENDENT_TABLES`: symbol code, isotope (0 = None), (E/eV, Re, Im) rows -/")
    out.append("def edTables : List EDTable := [\n%s]\n" % ",\n".join("  " + t for t in tabs))
    out += ["def nsfTables : NsfTables := ⟨nsfRows, nsfIRows, edTables⟩", "",
            "/-- nsf.py `ABSORPTION_WAVELENGTH` -/",
            "def absorptionWavelength : Dec := %s" % src["ABSORPTION_WAVELENGTH"].lean(),
            "", "end PtGen", ""]
    return "\n".join(out)


JN_LEAN = {"j0": ".j0", "J": ".J", "j2": ".j2", "j4": ".j4", "j6": ".j6"}


def _dec_list(ds):
    return "[" + ", ".join(d.lean() for d in ds) + "]"


@register("Ancillary")
def gen_Ancillary() -> str:
    cord = R.read_cordero(R.cordero_source())
    cryst = R.crystal_source()
    lines_ = R.read_spectral(R.spectral_source())
    mag = R.read_cfml(R.cfml_source())
    f0 = R.read_f0(R.f0_source())
    out = ["import PtVerif.Model.Ancillary", "namespace PtGen", "open PtLoad", "",
           "/-! the translator's reading of covalent_radius.Cordero (%d lines), crystal_structure." % len(cord),
           "    crystal_structures (%d slots), xsf.spectral_lines_data (%d rows), magnetic_ff.CFML_DATA" % (len(cryst), len(lines_)),
           "    (%d entries), xsf/f0_WaasKirf.dat (%d entries). -/" % (len(mag), len(f0)), ""]
    out.append(chunked("corderoRows", "CovRow",
                       [".skip" if r is None else ".row %d %s %s" % (r[0], r[1].lean(), r[2].lean()) for r in cord],
                       "covalent_radius.py `Cordero`"))
    out.append(chunked("crystalList", "(Option Crystal)",
                       ["none" if c is None else "some ⟨%s, [%s]⟩" % (
                           translate.lean_str(c[0]),
                           ", ".join("(%s, %s)" % (translate.lean_str(k), v.lean()) for k, v in c[1]))
                        for c in cryst], "crystal_structure.py `crystal_structures` (index = Z)"))
    out.append(chunked("lineRows", "LineRow",
                       ["⟨%d, %s, %s⟩" % (R.sym_code(s), a.lean(), b.lean()) for s, a, b in lines_],
                       "xsf.py `spectral_lines_data`"))
    out.append(chunked("magRows", "MagRow",
                       ["⟨%s, %d, %d, %s⟩" % (JN_LEAN[jn], R.sym_code(s), q, _dec_list(vs)) for jn, s, q, vs in mag],
                       "magnetic_ff.py `CFML_DATA`", size=50))
    out.append(chunked("cmEntries", "CMEntry",
                       ["⟨%s, %s, %s, %s⟩" % (translate.lean_str(n), _dec_list(a), c.lean(), _dec_list(b))
                        for n, z, q, a, c, b in f0], "xsf/f0_WaasKirf.dat", size=40))
    out.append(chunked("cmAtoms", "(Nat × Option Int)",
                       ["(%d, %s)" % (z, "none" if q is None else "some %s" % lean_int(q)) for n, z, q, a, c, b in f0],
                       "atomic number of each f0 entry (`#S Z name`) and the charge its name denotes "
                       "(`none` for valence-state entries)"))
    out += ["end PtGen", ""]
    return "\n".join(out)
