"""Translator for the activation cluster (C14, C15): `Generated/ActivationDat.lean`.

* `periodictable/activation.dat` is read by an independent reader (tab-separated text, the
  documented column layout; *not* by importing `activation.init`): every reaction row becomes a
  structured `DRow` whose numeric fields are exact decimals `⟨mantissa, exponent⟩`.
* the constants of `activation.py` are read with `ast`: the form of `LN2 = log(2)` and the two
  numeric literals of `root = flux * initialXS * 1e-24 * mass / isotope.isotope * 1.6278e19`.
"""
from __future__ import annotations

import ast
import re

from .. import translate
from ..translate import Unreadable, register, src, module_ast, assigned

DAT = "periodictable/activation.dat"
PY = "periodictable/activation.py"

# column numbers (activation.py COLUMN_NAMES)
C_Z, C_A, C_ISO, C_AB, C_DAUGHTER, C_REACTION, C_FAST = 2, 4, 5, 6, 7, 12, 13
C_XS, C_RES, C_THALF, C_THALF_P, C_XS_P, C_RES_P = 14, 16, 17, 19, 20, 21

NUM = re.compile(r"^([0-9]*)(?:\.([0-9]*))?(?:[eE]([-+]?[0-9]+))?$")


def dec(text: str):
    """exact (mantissa, exponent) of a decimal field; blank = 0"""
    t = text.strip()
    if not t:
        return (0, 0)
    m = NUM.match(t)
    if not m or not (m.group(1) or m.group(2)):
        raise Unreadable("activation.dat: not a plain decimal: %r" % text)
    ip, fp, ex = m.group(1) or "", m.group(2) or "", int(m.group(3) or 0)
    return (int((ip + fp) or "0"), ex - len(fp))


def unq(c: str) -> str:
    return c[1:-1] if c.startswith('"') else c


def read_rows():
    """[(dict of fields)] in file order – the translator's own reading of the table"""
    try:
        text = (translate.REPO / DAT).read_text(encoding="latin-1")
    except OSError as e:
        raise Unreadable("%s: %s" % (DAT, e))
    rows = []
    for lineno, line in enumerate(text.split("\n"), 1):
        cols = line.split("\t")
        if cols[0].strip() in ("", "xx"):
            continue
        if len(cols) < 23:
            raise Unreadable("%s:%d: %d columns" % (DAT, lineno, len(cols)))
        cols = [unq(c) for c in cols]
        try:
            z, a = int(cols[C_Z]), int(cols[C_A])
        except ValueError:
            raise Unreadable("%s:%d: Z/A not integers" % (DAT, lineno))
        rows.append(dict(
            line=lineno, z=z, a=a, isotope=cols[C_ISO], daughter=cols[C_DAUGHTER],
            reaction=cols[C_REACTION], fast=(cols[C_FAST] == "y"),
            abundance=dec(cols[C_AB]), thermalXS=dec(cols[C_XS]), resonance=dec(cols[C_RES]),
            Thalf_hrs=dec(cols[C_THALF]), Thalf_parent=dec(cols[C_THALF_P]),
            thermalXS_parent=dec(cols[C_XS_P]), resonance_parent=dec(cols[C_RES_P])))
    return rows


def raw_lines():
    text = (translate.REPO / DAT).read_text(encoding="latin-1")
    return text.split("\n")


def _numeric_literals(node, text):
    out = []
    for n in ast.walk(node):
        if isinstance(n, ast.Constant) and isinstance(n.value, (int, float)) and not isinstance(n.value, bool):
            seg = ast.get_source_segment(text, n)
            out.append((n.col_offset, seg))
    return [s for _, s in sorted(out)]


def read_constants():
    """(n of `LN2 = log(n)`, barn literal text, uCi literal text)"""
    text = src(PY)
    tree = module_ast(PY)
    ln2 = assigned(tree, "LN2")
    if not (isinstance(ln2, ast.Call) and isinstance(ln2.func, ast.Name) and ln2.func.id == "log"
            and len(ln2.args) == 1 and isinstance(ln2.args[0], ast.Constant)
            and isinstance(ln2.args[0].value, int) and not ln2.keywords):
        raise Unreadable("activation.LN2 is not of the form log(<integer>)")
    fn = [n for n in tree.body if isinstance(n, ast.FunctionDef) and n.name == "activity"]
    if not fn:
        raise Unreadable("activation.activity not found")
    roots = [n for n in ast.walk(fn[0]) if isinstance(n, ast.Assign)
             and any(isinstance(t, ast.Name) and t.id == "root" for t in n.targets)]
    if len(roots) != 1:
        raise Unreadable("activation.activity: expected one assignment to root")
    lits = _numeric_literals(roots[0].value, text)
    if len(lits) != 2:
        raise Unreadable("activation.activity: root has literals %r, expected two" % (lits,))
    return ln2.args[0].value, lits[0], lits[1]


def lean_dec(d):
    return "⟨%d, %s⟩" % (d[0], translate.lean_int(d[1]))


def lean_reaction(r):
    return {"b": ".b", "2n": ".twoN"}.get(r, ".act")


@register("ActivationDat")
def gen_ActivationDat() -> str:
    rows = read_rows()
    n, barn, uci = read_constants()
    for lit in (barn, uci):
        dec(lit)  # must be a plain decimal
    out = ["import PtVerif.Model.Activation", "namespace PtGen.ActivationDat",
           "open PtModel.Activation", "",
           "/-! activation.dat: %d reaction rows (z, a, fast, reaction, abundance, thermalXS, resonance," % len(rows),
           "    Thalf_hrs, Thalf_parent, thermalXS_parent, resonance_parent), numbers as exact decimals -/", ""]
    chunk = 150
    names = []
    for i in range(0, len(rows), chunk):
        name = "rows%d" % (i // chunk)
        names.append(name)
        body = []
        for r in rows[i:i + chunk]:
            body.append("  ⟨%d, %d, %s, %s, %s⟩" % (
                r["z"], r["a"], "true" if r["fast"] else "false", lean_reaction(r["reaction"]),
                ", ".join(lean_dec(r[k]) for k in
                          ("abundance", "thermalXS", "resonance", "Thalf_hrs", "Thalf_parent",
                           "thermalXS_parent", "resonance_parent"))))
        out += ["def %s : List DRow := [" % name, ",\n".join(body), "]", ""]
    out += ["def table : List DRow := " + " ++ ".join(names), ""]
    bm, be = dec(barn)
    um, ue = dec(uci)
    out += ["/-- `LN2 = log(%d)` -/" % n,
            "def ln2Arg : Nat := %d" % n,
            "/-- the literal `%s` of `root` (cm² per barn) -/" % barn,
            "def barn : Dec := %s" % lean_dec((bm, be)),
            "/-- the literal `%s` of `root` (atoms per mol / decays per second per µCi) -/" % uci,
            "def uCi : Dec := %s" % lean_dec((um, ue)), "",
            "/-- the module constants in any number type (`Float`: driver, `ℝ`: theorems) -/",
            "def consts {α : Type} [Transc α] [NatCast α] [OfScientific α] : Consts α :=",
            "  { ln2 := Transc.log (ln2Arg : α), uCi := uCi.toNum }", "",
            "end PtGen.ActivationDat", ""]
    return "\n".join(out)
