"""Generated/FormulaConsts: formulas.py PACKING_FACTORS (as their defining expressions) and the
unit tables LENGTH_UNITS / MASS_UNITS / VOLUME_UNITS."""
import ast
from fractions import Fraction

from ..translate import Unreadable, assigned, module_ast, register, src, lean_str

REL = "periodictable/formulas.py"


def expr_to_lean(node, text):
    """arithmetic over pi, sqrt and numerals -> a Lean term of type α"""
    if isinstance(node, ast.BinOp):
        op = {ast.Add: "+", ast.Sub: "-", ast.Mult: "*", ast.Div: "/"}.get(type(node.op))
        if op is None:
            raise Unreadable("operator %s in packing factor" % type(node.op).__name__)
        return "(%s %s %s)" % (expr_to_lean(node.left, text), op, expr_to_lean(node.right, text))
    if isinstance(node, ast.Name) and node.id == "pi":
        return "Transc.pi"
    if isinstance(node, ast.Call) and isinstance(node.func, ast.Name) and node.func.id == "sqrt" \
            and len(node.args) == 1:
        return "(Transc.sqrt %s)" % expr_to_lean(node.args[0], text)
    if isinstance(node, ast.Constant) and isinstance(node.value, (int, float)):
        seg = ast.get_source_segment(text, node)
        q = Fraction(seg)
        if q.denominator == 1 and q >= 0:
            return "((%d : Nat) : α)" % q.numerator
        return "(((%d : Nat) : α) / ((%d : Nat) : α))" % (q.numerator, q.denominator)
    raise Unreadable("packing factor expression not understood: %s" % ast.dump(node))


def unit_table(tree, text, name):
    node = assigned(tree, name)
    if not isinstance(node, ast.Dict):
        raise Unreadable("%s is not a dict literal" % name)
    rows = []
    for k, v in zip(node.keys, node.values):
        if not (isinstance(k, ast.Constant) and isinstance(k.value, str) and isinstance(v, ast.Constant)):
            raise Unreadable("%s entry is not literal" % name)
        q = Fraction(ast.get_source_segment(text, v))
        rows.append((k.value, q))
    return rows


@register("FormulaConsts")
def gen_FormulaConsts():
    text = src(REL)
    tree = module_ast(REL)
    pf = assigned(tree, "PACKING_FACTORS")
    if not (isinstance(pf, ast.Call) and isinstance(pf.func, ast.Name) and pf.func.id == "dict" and not pf.args):
        raise Unreadable("PACKING_FACTORS is not dict(name=expr, …)")
    out = ["import PtVerif.Num", "namespace PtGen", "",
           "section", "variable {α : Type} [Add α] [Sub α] [Mul α] [Div α] [NatCast α] [Transc α]", "",
           "/-- formulas.py `PACKING_FACTORS`, each with its defining expression -/",
           "def packingFactors : List (String × α) := ["]
    out.append(",\n".join("  (%s, %s)" % (lean_str(kw.arg), expr_to_lean(kw.value, text)) for kw in pf.keywords))
    out += ["]", "", "end", ""]
    for name, lean in (("LENGTH_UNITS", "lengthUnits"), ("MASS_UNITS", "massUnits"), ("VOLUME_UNITS", "volumeUnits")):
        rows = unit_table(tree, text, name)
        out.append("/-- formulas.py `%s`: (unit, numerator, denominator) of the exact decimal value -/" % name)
        out.append("def %s : List (String × Nat × Nat) := [%s]" % (
            lean, ", ".join("(%s, %d, %d)" % (lean_str(u), q.numerator, q.denominator) for u, q in rows)))
        out.append("")
    out += ["end PtGen", ""]
    return "\n".join(out)
