"""Translators of the x-ray / fasta cluster (C05, C18).

F0Table      <- periodictable/xsf/f0_WaasKirf.dat   (211 coefficient sets, DABAX text)
FastaTables  <- periodictable/fasta.py               (code tables, read with `ast`)

Both read the *text* of the source; nothing is imported.  The readers here are independent of
`cromermann._update_cmformulas` and of `fasta._` / pyparsing.
"""
from __future__ import annotations

import ast
import re
from fractions import Fraction

from .. import translate
from ..translate import Unreadable, lean_int, lean_list, lean_str, module_ast, register, src

# --------------------------------------------------------------------------- f0

F0_FILE = "periodictable/xsf/f0_WaasKirf.dat"
F0_SYMBOL = re.compile(r"([A-Z][a-z]?)(?:([0-9]+)([+-]))?")


def read_f0():
    """[(symbol, Z, q, named, a[5], c, b[5])] with exact Fractions, in file order"""
    rows = []
    cur = None
    want_data = False
    for ln, line in enumerate(src(F0_FILE).split("\n"), 1):
        w = line.split()
        if not w:
            continue
        if w[0] == "#S":
            if len(w) < 3:
                raise Unreadable("%s:%d: malformed #S line" % (F0_FILE, ln))
            cur = (int(w[1]), w[2])
            continue
        if w[0] == "#L":
            want_data = True
            continue
        if w[0].startswith("#"):
            continue
        if not want_data or cur is None:
            raise Unreadable("%s:%d: data line without #S/#L" % (F0_FILE, ln))
        if len(w) != 11:
            raise Unreadable("%s:%d: expected 11 numbers" % (F0_FILE, ln))
        try:
            v = [Fraction(t) for t in w]
        except ValueError:
            raise Unreadable("%s:%d: not a number" % (F0_FILE, ln))
        z, sym = cur
        m = F0_SYMBOL.fullmatch(sym)
        if m:
            q = int(m.group(2)) * (1 if m.group(3) == "+" else -1) if m.group(2) else 0
            named = True
        else:
            q, named = 0, False
        rows.append((sym, z, q, named, v[0:5], v[5], v[6:11]))
        cur, want_data = None, False
    return rows


@register("F0Table")
def gen_F0Table() -> str:
    rows = read_f0()
    dec = 0
    for r in rows:
        for x in list(r[4]) + [r[5]] + list(r[6]):
            k = 0
            while (x * 10 ** k).denominator != 1:
                k += 1
                if k > 30:
                    raise Unreadable("f0 coefficient is not a finite decimal")
            dec = max(dec, k)
    scale = 10 ** dec

    def ints(xs):
        return lean_list(lean_int(int(x * scale)) for x in xs)

    out = ["namespace PtGen", "",
           "/-- one coefficient set of xsf/f0_WaasKirf.dat.  `a`, `c`, `b` are the decimal numbers of",
           "    the file multiplied by `f0Scale`; `named`: the symbol is an element symbol with an",
           "    optional `<digits><sign>` charge suffix (`q`), i.e. it names an atom or ion. -/",
           "structure F0Row where",
           "  sym : String", "  z : Nat", "  q : Int", "  named : Bool",
           "  a : List Int", "  c : Int", "  b : List Int", "",
           "def f0Scale : Nat := %d" % scale, ""]
    names = []
    for i in range(0, len(rows), 60):
        nm = "f0Rows%d" % (i // 60)
        names.append(nm)
        body = ",\n".join(
            "  ⟨%s, %d, %s, %s, %s, %s, %s⟩" % (lean_str(s), z, lean_int(q), "true" if named else "false",
                                           ints(a), lean_int(int(c * scale)), ints(b))
            for s, z, q, named, a, c, b in rows[i:i + 60])
        out += ["def %s : List F0Row := [" % nm, body, "]", ""]
    out += ["/-- all %d coefficient sets, file order -/" % len(rows),
            "def f0Rows : List F0Row := " + " ++ ".join(names), "", "end PtGen", ""]
    return "\n".join(out)


# --------------------------------------------------------------------------- fasta

FASTA = "periodictable/fasta.py"
ATOM_TOKEN = re.compile(r"([A-Z][a-z]?)(?:\[([0-9]+)\])?([0-9]*)")


def _symbols():
    eb = translate.literal(module_ast("periodictable/core.py"), "element_base")
    sym = {v[1]: (z, 0) for z, v in eb.items()}
    sym["D"] = (1, 2)
    sym["T"] = (1, 3)
    return sym


def read_flat_formula(text, sym):
    """'C3H4H[1]NO' -> [(Z, A, count)]; own reader of the plain sub-language used by the tables"""
    pos, out = 0, []
    while pos < len(text):
        m = ATOM_TOKEN.match(text, pos)
        if not m or m.end() == pos:
            raise Unreadable("fasta table formula %r is not a flat formula" % text)
        s, iso, cnt = m.group(1), m.group(2), m.group(3)
        if s not in sym:
            raise Unreadable("fasta table formula %r: unknown symbol %s" % (text, s))
        z, a = sym[s]
        if iso:
            if a:
                raise Unreadable("fasta table formula %r: isotope of D/T" % text)
            a = int(iso)
        out.append((z, a, int(cnt) if cnt else 1))
        pos = m.end()
    return out


def _const(node, what):
    if isinstance(node, ast.Constant):
        return node.value
    if isinstance(node, ast.UnaryOp) and isinstance(node.op, ast.USub) and isinstance(node.operand, ast.Constant):
        return -node.operand.value
    raise Unreadable("fasta.py: %s is not a literal" % what)


def _num_text(node, text):
    seg = ast.get_source_segment(text, node)
    if seg is None or not re.fullmatch(r"[0-9.]+(?:[eE][-+]?[0-9]+)?", seg.strip()):
        raise Unreadable("fasta.py: volume %r is not a plain number" % seg)
    return Fraction(seg.strip())


def read_fasta_tables():
    text = src(FASTA)
    tree = module_ast(FASTA)
    sym = _symbols()
    params = None          # parameter names of the `_` helper in force
    tables = {}
    averages = []          # (target, codes) in program order
    nuc_codes = None
    for node in tree.body:
        if isinstance(node, ast.FunctionDef) and node.name == "_":
            params = [a.arg for a in node.args.args]
        elif isinstance(node, ast.Expr) and isinstance(node.value, ast.Call) \
                and getattr(node.value.func, "id", None) == "_set_amino_acid_average":
            a = node.value.args
            averages.append((_const(a[0], "average target"), _const(a[1], "average codes")))
        elif isinstance(node, ast.Assign):
            tnames = []
            for t in node.targets:
                if isinstance(t, ast.Name):
                    tnames.append(t.id)
                elif isinstance(t, ast.Tuple):
                    tnames += [e.id for e in t.elts if isinstance(e, ast.Name)]
            if tnames and tnames[0] in ("AMINO_ACID_CODES", "RNA_BASES", "DNA_BASES"):
                v = node.value
                if not (isinstance(v, ast.Call) and getattr(v.func, "id", None) == "dict"
                        and len(v.args) == 1 and isinstance(v.args[0], ast.Tuple)):
                    raise Unreadable("fasta.py: %s is not dict((_(…), …))" % tnames[0])
                rows = []
                for call in v.args[0].elts:
                    if not (isinstance(call, ast.Call) and getattr(call.func, "id", None) == "_"):
                        raise Unreadable("fasta.py: %s entry is not a _() call" % tnames[0])
                    if params is None or len(call.args) != len(params):
                        raise Unreadable("fasta.py: %s entry does not match def _" % tnames[0])
                    d = dict(zip(params, call.args))
                    code = _const(d["code"], "code")
                    vol = _num_text(d["V"], text)
                    f = _const(d["formula"], "formula")
                    charge = 0
                    if tnames[0] == "AMINO_ACID_CODES":
                        # the amino-acid helper takes a trailing +/- as the residue charge
                        if f[-1:] == "-":
                            charge, f = -1, f[:-1]
                        elif f[-1:] == "+":
                            charge, f = 1, f[:-1]
                    rows.append((code, vol, read_flat_formula(f, sym), charge))
                tables[tnames[0]] = rows
            elif tnames == ["RNA_CODES", "DNA_CODES"]:
                v = node.value
                try:
                    calls = v.generators[0].iter.args
                except (AttributeError, IndexError):
                    raise Unreadable("fasta.py: RNA_CODES,DNA_CODES is not [dict(v) for v in zip(…)]")
                nuc_codes = []
                for call in calls:
                    if params is None or len(call.args) != len(params):
                        raise Unreadable("fasta.py: nucleotide code entry does not match def _")
                    d = dict(zip(params, call.args))
                    nuc_codes.append((_const(d["code"], "code"), _const(d["bases"], "bases")))
    for k in ("AMINO_ACID_CODES", "RNA_BASES", "DNA_BASES"):
        if k not in tables:
            raise Unreadable("fasta.py: no literal table %s" % k)
    if nuc_codes is None:
        raise Unreadable("fasta.py: no literal RNA_CODES,DNA_CODES")
    for rows in tables.values():
        for code, *_ in rows:
            if not (isinstance(code, str) and len(code) == 1):
                raise Unreadable("fasta.py: code %r is not one character" % (code,))
    return tables, averages, nuc_codes


def lean_char(c: str) -> str:
    if c == "'":
        return "'\\''"
    if c == "\\":
        return "'\\\\'"
    return "'%s'" % c


def _rows(rows):
    return ",\n".join(
        "  (%s, %d, %d, %s, %s)" % (
            lean_char(code), vol.numerator, vol.denominator,
            lean_list("(%d, %d, %d)" % t for t in atoms), lean_int(charge))
        for code, vol, atoms, charge in rows)


@register("FastaTables")
def gen_FastaTables() -> str:
    tables, averages, nuc = read_fasta_tables()
    ty = "List (Char × Nat × Nat × List (Nat × Nat × Nat) × Int)"
    out = ["namespace PtGen", "",
           "/-! fasta.py code tables: `(code, volume numerator, volume denominator, [(Z, A, count)] in the",
           "    order of the formula string, charge)`; averaged codes as `(code, residues)` in program order. -/", ""]
    for lean_name, key in (("aaBase", "AMINO_ACID_CODES"), ("rnaBases", "RNA_BASES"), ("dnaBases", "DNA_BASES")):
        out += ["def %s : %s := [" % (lean_name, ty), _rows(tables[key]), "]", ""]
    out += ["/-- `_set_amino_acid_average(target, codes)` calls -/",
            "def aaAverages : List (Char × List Char) := [",
            ",\n".join("  (%s, %s)" % (lean_char(t), lean_list(lean_char(c) for c in codes)) for t, codes in averages),
            "]", "",
            "/-- the `RNA_CODES, DNA_CODES` rows: `(code, bases averaged)` -/",
            "def nucleotideCodes : List (Char × List Char) := [",
            ",\n".join("  (%s, %s)" % (lean_char(t), lean_list(lean_char(c) for c in codes)) for t, codes in nuc),
            "]", "", "end PtGen", ""]
    return "\n".join(out)
