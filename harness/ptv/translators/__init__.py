"""Cluster translators register their generators in ptv.translate.GENERATORS on import."""
import importlib
import pkgutil

for _m in pkgutil.iter_modules(__path__):
    importlib.import_module(__name__ + "." + _m.name)
