"""Translator of the neutron cluster (C03, C04, C16, C17): `Generated/NeutronConsts.lean`.

Read with `ast` from the *source text* of nsf.py / fasta.py (nothing is imported):

* `ABSORPTION_WAVELENGTH`                       – exact rational of the decimal literal
* `ENERGY_FACTOR`, `VELOCITY_FACTOR`, `_4PI_100` – their *defining expressions*, translated
  operator by operator into a Lean term over `PtGen.<constant>` (constants.py, module
  `Generated/Constants`), `Transc.pi` and exact literals.  The anchor theorems of C04 and the
  spec theorem of C03 are therefore statements about the expressions the source contains: a
  changed factor of ten, exponent or constant breaks a *proof*.
* the water literals `"H2O@0.9982n"` / `"D2O@0.9982n"` inside `nsf._D2O_slds` and at module
  level of fasta.py (formula, natural density) – C16's `fasta_*` theorems need the two modules
  to use the same solvent, which is proved from these generated values.
"""
from __future__ import annotations

import ast
import re
from fractions import Fraction

from .. import translate
from ..translate import Unreadable, module_ast, assigned, src, CONSTANT_NAMES

NSF = "periodictable/nsf.py"
FASTA = "periodictable/fasta.py"


def _nat(n: int) -> str:
    return "((%d : Nat) : α)" % n


def _rat(q: Fraction) -> str:
    if q < 0:
        raise Unreadable("negative literal %s" % q)
    if q.denominator == 1:
        return _nat(q.numerator)
    return "(%s / %s)" % (_nat(q.numerator), _nat(q.denominator))


def expr_to_lean(node: ast.AST, text: str, imported: set) -> str:
    """Python arithmetic expression -> Lean term (polymorphic in α)"""
    if isinstance(node, ast.Constant) and isinstance(node.value, (int, float)) \
            and not isinstance(node.value, bool):
        seg = ast.get_source_segment(text, node)
        if seg is None or not re.fullmatch(r"[0-9.]+(?:[eE][-+]?[0-9]+)?", seg.strip()):
            raise Unreadable("numeric literal %r" % seg)
        return _rat(Fraction(seg.strip()))
    if isinstance(node, ast.Name):
        if node.id in CONSTANT_NAMES and node.id in imported:
            return "(PtGen.%s : α)" % node.id
        if node.id == "pi" and "pi" in imported:
            return "(Transc.pi : α)"
        raise Unreadable("name %s is not a constant imported from constants.py" % node.id)
    if isinstance(node, ast.Attribute) and isinstance(node.value, ast.Name) \
            and node.value.id in ("np", "numpy", "math") and node.attr == "pi":
        return "(Transc.pi : α)"
    if isinstance(node, ast.BinOp):
        if isinstance(node.op, ast.Pow):
            if isinstance(node.right, ast.Constant) and isinstance(node.right.value, int) \
                    and 1 <= node.right.value <= 6:
                b = expr_to_lean(node.left, text, imported)
                return "(" + " * ".join([b] * node.right.value) + ")"
            raise Unreadable("power with a non-literal exponent")
        ops = {ast.Mult: "*", ast.Div: "/", ast.Add: "+", ast.Sub: "-"}
        for k, s in ops.items():
            if isinstance(node.op, k):
                return "(%s %s %s)" % (expr_to_lean(node.left, text, imported), s,
                                       expr_to_lean(node.right, text, imported))
    raise Unreadable("expression %r is not arithmetic over constants" % ast.dump(node)[:80])


def _imported_names(tree: ast.Module) -> set:
    names = set()
    for node in tree.body:
        if isinstance(node, ast.ImportFrom) and node.module in ("constants", "numpy"):
            for a in node.names:
                names.add(a.asname or a.name)
    return names


WATER_RE = re.compile(r"([HD])2O@([0-9]*\.?[0-9]+)n")


def _water_literals(tree: ast.AST, where: str):
    """{'H': Fraction, 'D': Fraction} from the string literals 'H2O@<x>n' / 'D2O@<x>n'"""
    found = {}
    for node in ast.walk(tree):
        if isinstance(node, ast.Constant) and isinstance(node.value, str):
            m = WATER_RE.fullmatch(node.value)
            if m:
                q = Fraction(m.group(2))
                if m.group(1) in found and found[m.group(1)] != q:
                    raise Unreadable("%s: two different %s2O literals" % (where, m.group(1)))
                found[m.group(1)] = q
    if set(found) != {"H", "D"}:
        raise Unreadable("%s: solvent literals H2O@…n / D2O@…n not found (%s)" % (where, sorted(found)))
    return found


def _function(tree: ast.Module, name: str) -> ast.AST:
    for node in tree.body:
        if isinstance(node, ast.FunctionDef) and node.name == name:
            return node
    raise Unreadable("no function %s" % name)


def neutron_constants():
    """the values the generator writes, also used by the harness (exact Fractions / texts)"""
    tree = module_ast(NSF)
    text = src(NSF)
    imported = _imported_names(tree)
    out = {}
    out["ABSORPTION_WAVELENGTH"] = Fraction(translate.number_text(NSF, "ABSORPTION_WAVELENGTH"))
    for n in ("ENERGY_FACTOR", "VELOCITY_FACTOR", "_4PI_100"):
        out[n] = expr_to_lean(assigned(tree, n), text, imported)
    return out


def water_constants():
    """solvent literals of nsf._D2O_slds and of fasta.py: {'nsf_water': {'H':…, 'D':…}, 'fasta_water': …}"""
    tree = module_ast(NSF)
    out = {}
    out["nsf_water"] = _water_literals(_function(tree, "_D2O_slds"), "nsf._D2O_slds")
    ftree = module_ast(FASTA)
    fw = {}
    for name, key in (("H2O_SLD", "H"), ("D2O_SLD", "D")):
        lits = {}
        for node in ast.walk(assigned(ftree, name)):
            if isinstance(node, ast.Constant) and isinstance(node.value, str):
                m = WATER_RE.fullmatch(node.value)
                if m:
                    lits[m.group(1)] = Fraction(m.group(2))
        if set(lits) != {key}:
            raise Unreadable("fasta.%s is not neutron_sld('%s2O@…n')[0]" % (name, key))
        fw[key] = lits[key]
    out["fasta_water"] = fw
    return out


@translate.register("NeutronConsts")
def gen_NeutronConsts() -> str:
    c = neutron_constants()
    L = ["import PtVerif.Num", "import PtVerif.Generated.Constants", "", "namespace PtGen", "",
         "/-! nsf.py – module-level constants of the neutron calculations.  The factors are the",
         "    *defining expressions* of the source, operator by operator. -/",
         "section",
         "variable {α : Type} [Add α] [Sub α] [Mul α] [Div α] [NatCast α] [Transc α]", ""]
    L.append("/-- nsf.py `ABSORPTION_WAVELENGTH = %s` -/" % translate.number_text(NSF, "ABSORPTION_WAVELENGTH"))
    L.append("def ABSORPTION_WAVELENGTH : α := %s" % _rat(c["ABSORPTION_WAVELENGTH"]))
    for n, lean in (("ENERGY_FACTOR", "ENERGY_FACTOR"), ("VELOCITY_FACTOR", "VELOCITY_FACTOR"),
                    ("_4PI_100", "FOUR_PI_100")):
        seg = ast.get_source_segment(src(NSF), assigned(module_ast(NSF), n))
        L.append("/-- nsf.py `%s = %s` -/" % (n, " ".join(seg.split())))
        L.append("def %s : α := %s" % (lean, c[n]))
    L += ["", "end", "", "end PtGen", ""]
    return "\n".join(L)


@translate.register("NeutronWater")
def gen_NeutronWater() -> str:
    c = water_constants()
    L = ["namespace PtGen", "",
         "/-! the solvent literals `\"H2O@<d>n\"` / `\"D2O@<d>n\"` inside `nsf._D2O_slds` and at module",
         "    level of fasta.py (natural density of the solvent) – used by C16 only. -/",
         "section",
         "variable {α : Type} [Div α] [NatCast α]", ""]
    for mod, key in (("nsf", "nsf_water"), ("fasta", "fasta_water")):
        for iso in ("H", "D"):
            L.append("/-- natural density in the literal `%s2O@…n` of %s -/" % (iso, mod))
            L.append("def %s_%s2O_natural_density : α := %s" % (mod, iso, _rat(c[key][iso])))
    L += ["", "end", "", "end PtGen", ""]
    return "\n".join(L)
