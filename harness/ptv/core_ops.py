"""C08 helpers: execute table-core operations on the real code, render them for `ptdriver core`,
and judge each one with a direct oracle (`is` relations and attribute reads on the real objects).

An operation is a tuple; object arguments are indices into the list of objects returned so far
(the same numbering is kept by the driver).  `expect` is what the *generator* knows about the
operation from how it built it (never from parsing it back):
    ("key", (table, Z, A|None, q|None))   must return exactly that atom of that table
    ("raise",)                             must raise
    ("any",)                               no expectation (list results are judged separately)
"""
from __future__ import annotations

import copy
import pickle

from .common import InfraError


def enc(s: str) -> str:
    return "-" if s == "" else ",".join(str(ord(c)) for c in s)


def dec(t: str) -> str:
    return "" if t == "-" else "".join(chr(int(p)) for p in t.split(","))


class PySide:
    """the real code; `results` is the list of atoms returned so far"""

    def __init__(self, pt, counter):
        from periodictable import core, mass
        self.pt, self.core, self.mass = pt, core, mass
        self.tables = {"public": pt.elements}
        self.results = []
        self.ns = {}
        self.counter = counter
        self.created = []

    # -- naming of private tables: unique in the process, removed again by `cleanup`
    def fresh_name(self, label):
        self.counter[0] += 1
        return "%s%d" % (label, self.counter[0])

    def cleanup(self):
        for n in self.created:
            self.core.PRIVATE_TABLES.pop(n, None)
        self.created = []

    def isatom(self, v):
        return isinstance(v, (self.core.Element, self.core.Isotope, self.core.Ion))

    def info(self, x):
        core = self.core
        a = x.isotope if core.isisotope(x) else None
        q = x.charge if core.ision(x) else None
        return (x.table, x.number, a, q, x.symbol, x.name)

    def do(self, op):
        """returns the canonical outcome and appends returned atoms to `results`"""
        core = self.core
        k = op[0]
        try:
            if k == "newtable":
                if op[1] in core.PRIVATE_TABLES and op[1] not in self.tables:
                    raise InfraError("table name %r already used in this process" % op[1])
                t = core.PeriodicTable(op[1])
                self.tables[op[1]] = t
                self.created.append(op[1])
                return ("unit",)
            if k == "loadmass":
                self.mass.init(self.tables[op[1]])
                return ("unit",)
            if k == "define":
                # one namespace per session: a second `define` lands on the names of the first
                ns = getattr(self, "ns", None)
                ns = {} if ns is None else ns
                core.define_elements(self.tables[op[1]], ns)
                self.ns = ns
                return ("unit",)
            if k == "getz":
                v = self.tables[op[1]][op[2]]
            elif k == "symbol":
                v = self.tables[op[1]].symbol(op[2])
            elif k == "name":
                v = self.tables[op[1]].name(op[2])
            elif k == "isotope":
                v = self.tables[op[1]].isotope(op[2])
            elif k == "attr":
                v = getattr(self.tables[op[1]], op[2])
            elif k == "modattr":
                v = self.ns[op[1]]
            elif k == "iso":
                v = self.results[op[1]][op[2]]
            elif k == "addiso":
                v = self.results[op[1]].add_isotope(op[2])
            elif k == "ion":
                v = self.results[op[1]].ion[op[2]]
            elif k == "element":
                v = self.results[op[1]].element
            elif k == "isotopes":
                return ("nats", tuple(self.results[op[1]].isotopes))
            elif k == "itertable":
                v = list(self.tables[op[1]])
            elif k == "iteriso":
                v = list(self.results[op[1]])
            elif k == "reduce":
                x = self.results[op[1]]
                how = op[2]
                if how == "pickle":
                    v = pickle.loads(pickle.dumps(x))
                elif how == "pickle2":
                    v = pickle.loads(pickle.dumps(x, protocol=2))
                elif how == "copy":
                    v = copy.copy(x)
                else:
                    v = copy.deepcopy(x)
            elif k == "changetable":
                v = core.change_table(self.results[op[1]], self.tables[op[2]])
            else:
                raise InfraError("unknown op %r" % (op,))
        except InfraError:
            raise
        except Exception as e:  # noqa: the property only says "raises"
            return ("err", type(e).__name__)
        if k in ("itertable", "iteriso"):
            if not all(self.isatom(x) for x in v):
                return ("err", "not-atoms")
            self.results.extend(v)
            return ("objs", len(v))
        if not self.isatom(v):
            # reading a method or data attribute of the table is not a lookup; a *lookup* that hands
            # back something which is not an atom has not raised
            if k in ("attr", "modattr"):
                return ("err", "not-an-atom")
            return ("notatom", type(v).__name__)
        self.results.append(v)
        return ("obj", len(self.results) - 1)


def driver_line(op):
    k = op[0]
    if k in ("newtable", "define", "itertable"):
        return "%s %s" % (k, enc(op[1]))
    if k == "getz":
        return "getz %s %d" % (enc(op[1]), op[2])
    if k in ("symbol", "name", "isotope", "attr"):
        return "%s %s %s" % (k, enc(op[1]), enc(op[2]))
    if k == "modattr":
        return "modattr %s" % enc(op[1])
    if k in ("iso", "addiso", "ion"):
        return "%s %d %d" % (k, op[1], op[2])
    if k in ("element", "isotopes", "iteriso"):
        return "%s %d" % (k, op[1])
    if k == "reduce":
        return "reduce %d" % op[1]
    if k == "changetable":
        return "changetable %d %s" % (op[1], enc(op[2]))
    raise InfraError("no driver line for %r" % (op,))


def loadmass_lines(name, table):
    """`mass.init(T)` as the model sees it: add_isotope for every isotope the table now has"""
    out = []
    for el in table:
        for a in el.isotopes:
            out.append("addisokey %s %d %d" % (enc(name), el.number, a))
    return out


def parse_reply(r):
    t = r.split()
    if not t:
        return ("bad", r)
    if t[0] == "obj":
        return ("obj", int(t[1]))
    if t[0] == "objs":
        return ("objs", [int(x) for x in t[1:]])
    if t[0] == "nats":
        return ("nats", tuple(int(x) for x in t[1:]))
    if t[0] == "unit":
        return ("unit",)
    if t[0] == "err":
        return ("err", t[1])
    if t[0] == "info":
        a = None if t[3] == "n" else int(t[3])
        q = None if t[4] == "n" else int(t[4])
        return ("info", (dec(t[1]), int(t[2]), a, q, dec(t[5]), dec(t[6])))
    return ("bad", r)


def partition(ids):
    seen = {}
    return [seen.setdefault(i, len(seen)) for i in ids]


# --------------------------------------------------------------------------- direct oracle

class Oracle:
    """judges operations on the real objects.  `base` is the translator's reading of
    element_base: {Z: (name, symbol, sorted ions)} – read with ast, not from the table."""

    def __init__(self, py: PySide, base):
        self.py, self.base = py, base

    def canon(self, key):
        """the atom with this key by plain subscripting; None when it does not exist"""
        t, z, a, q = key
        try:
            x = self.py.tables[t][z]
            if a is not None:
                x = x[a]
            if q is not None:
                x = x.ion[q]
            return x
        except Exception:  # noqa
            return None

    def want_info(self, key):
        t, z, a, q = key
        name, sym, _ = self.base[z]
        if z == 1 and a == 2:
            sym, name = "D", "deuterium"
        if z == 1 and a == 3:
            sym, name = "T", "tritium"
        return (t, z, a, q, sym, name)

    def judge(self, op, expect, outcome):
        """list of (what, detail) failures of the property at this operation"""
        bad = []
        if expect[0] == "raise":
            if outcome[0] != "err":
                got = self.py.info(self.py.results[outcome[1]]) if outcome[0] == "obj" else outcome
                bad.append(("invalid key did not raise", "returned %r" % (got,)))
        elif expect[0] == "key":
            key = expect[1]
            if outcome[0] != "obj":
                bad.append(("valid key failed", "outcome %r" % (outcome,)))
            else:
                x = self.py.results[outcome[1]]
                inf = self.py.info(x)
                if inf != self.want_info(key):
                    bad.append(("returned atom does not match the key", "got %r want %r" % (inf, self.want_info(key))))
                c = self.canon(key)
                if c is not x:
                    bad.append(("route returned a different object than table[Z][A].ion[q]",
                                "canonical %r" % (None if c is None else self.py.info(c),)))
        return bad
