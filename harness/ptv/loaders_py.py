"""Helpers of the loader cluster's checks (C06, C07, C20): protocol encoding, observation of the
real objects, private tables, patching of the embedded tables."""
from __future__ import annotations

import contextlib
import math

from .common import close, h2f, import_repo

_PRIVATE_N = [0]


def hexs(text: str) -> str:
    """raw text -> one protocol token"""
    b = text.encode("utf-8")
    return b.hex() if b else "-"


def tok(v) -> str:
    """canonical token of an observed value: N = None, X = raised, else the float"""
    if v is None:
        return "N"
    if isinstance(v, str):
        return v
    return repr(float(v))


def observe(fn):
    """value of fn(), or 'X' when it raises (AttributeError, TypeError, KeyError …)"""
    try:
        return fn()
    except Exception:  # noqa: the class is not a property-level observable here
        return "X"


def model_val(token: str):
    """protocol token -> None | 'X' | float"""
    if token == "N":
        return None
    if token == "X":
        return "X"
    return h2f(token)


def same(model, impl, rel=1e-9) -> bool:
    """model value (None | 'X' | float) against observed value"""
    if isinstance(model, str) or isinstance(impl, str):
        return model == impl
    if model is None or impl is None:
        return model is None and impl is None
    if isinstance(impl, complex):
        return False
    return close(model, float(impl), rel=rel)


def fresh_private(prefix="c06"):
    """a new, empty private table"""
    from periodictable import core
    while True:
        _PRIVATE_N[0] += 1
        name = "private-%s-%d" % (prefix, _PRIVATE_N[0])
        if name not in core.PRIVATE_TABLES:
            return core.PeriodicTable(name)


def drop_private(tbl):
    from periodictable import core
    for k, v in list(core.PRIVATE_TABLES.items()):
        if v is tbl:
            del core.PRIVATE_TABLES[k]


@contextlib.contextmanager
def patched(module, **attrs):
    """temporarily replace plain module attributes (the tables `init` reads at call time)"""
    old = {k: getattr(module, k) for k in attrs}
    try:
        for k, v in attrs.items():
            setattr(module, k, v)
        yield
    finally:
        for k, v in old.items():
            setattr(module, k, v)


def isfinite(x) -> bool:
    return isinstance(x, (int, float)) and math.isfinite(x)
