"""C09 / C10 helpers: run a *history* of lazy-loading events in a forked child of a parent
process that has imported periodictable and touched nothing lazy, and report what every event
served (as value digests).

Events (JSON-able tuples):
  ("read", T, key, attr)          getattr(atom, attr)           key = (Z, A|0, q|0)
  ("has",  T, key, attr)          hasattr(atom, attr)
  ("getd", T, key, attr)          getattr(atom, attr, None)
  ("import", module)              import periodictable.<module>
  ("calc", name, arg)             a calculator call (see CALCS)
  ("ocalc", name, arg)            a calculator call / computed read outside the model's alphabet (ORDER_CALCS):
                                  judged by the oracle only, against a pristine process that does nothing else
  ("init", M, T)                  <module>.init(T)   (M in INITS; T = "public" or a private label)
  ("newtable", T)                 T = PeriodicTable(name); mass.init(T); density.init(T)
  ("rawtable", T)                 T = PeriodicTable(name) only
  ("assign", T, key, attr, n)     setattr(atom, attr, <sentinel n>)
  ("mutate", T, key, attr, n)     mutate the served object in place (dict item / attribute / list append)
  ("digest", T, atoms)            digest of every lazy attribute of the listed atoms (end of history)
  ("dumps", T, key, attr)         pickle.dumps(getattr(atom, attr))   -> ["val", digest, hex of the pickle data]
  ("loads", T, key, attr, hex)    pickle.loads of such data (taken in another process, under another first-touch
                                  order)  -> ["val", digest of the restored value, digest of what is computed from it]
  ("served", T, key, attr)        ["val", digest of the served value, digest of what is computed from it]

Outcome of an event: ["val", digest] | ["exc", class name] | ["bool", b] | ["ok"].
"""
from __future__ import annotations

import hashlib
import json
import os
import sys
import traceback

LAZY_ATTRS = ["covalent_radius", "covalent_radius_units", "covalent_radius_uncertainty",
              "crystal_structure", "neutron", "neutron_activation", "xray",
              "K_alpha", "K_beta1", "K_alpha_units", "K_beta1_units", "magnetic_ff"]

def init_fn(name):
    """'nsf.init' -> the function object (imports the module)"""
    mod, fn = name.split(".")
    m = __import__("periodictable." + mod, fromlist=[fn])
    return getattr(m, fn)


SUBMODULES = ["nsf", "xsf", "covalent_radius", "crystal_structure", "magnetic_ff", "activation",
              "fasta", "formulas", "plot", "cromermann", "nsf_tables", "util", "constants"]


class Sentinel:
    """a user-assigned value (opaque and immutable)"""
    __slots__ = ("n",)

    def __init__(self, n):
        self.n = n


def _dig(v, depth=0):
    """canonical, value-level description of a served value (never identity, never repr)"""
    import numpy as np
    from periodictable import core
    if depth > 8:
        return "…"
    if v is None or isinstance(v, (bool, int, str)):
        return repr(v)
    if isinstance(v, float):
        return repr(v)
    if isinstance(v, complex):
        return repr(v)
    if isinstance(v, Sentinel):
        return "S%d" % v.n
    if isinstance(v, (core.Element, core.Isotope, core.Ion)):
        a = v.isotope if core.isisotope(v) else 0
        q = v.charge if core.ision(v) else 0
        return "atom(%d,%d,%d)" % (v.number, a, q)
    if isinstance(v, np.ndarray):
        return "nd(%s,%s)" % (v.shape, hashlib.sha1(np.ascontiguousarray(v).tobytes()).hexdigest()[:12])
    if isinstance(v, (np.floating, np.integer, np.complexfloating)):
        return repr(v.item())
    if isinstance(v, dict):
        items = sorted((_dig(k, depth + 1), _dig(x, depth + 1)) for k, x in v.items())
        return "{" + ",".join("%s:%s" % kv for kv in items) + "}"
    if isinstance(v, (list, tuple)):
        return ("[" if isinstance(v, list) else "(") + ",".join(_dig(x, depth + 1) for x in v) + "]"
    d = getattr(v, "__dict__", None)
    if d is not None:
        # objects (Neutron, Xray, ActivationResult, MagneticFormFactor): class + public state;
        # lazily filled private caches (names starting with '_') are not part of the served value,
        # except the ones the loaders set themselves
        keep = {k: x for k, x in d.items() if not k.startswith("_") or k in ("_number_density",)}
        return type(v).__name__ + _dig(keep, depth + 1)
    return type(v).__name__


def digest(v):
    return hashlib.sha1(_dig(v).encode()).hexdigest()[:16]


def derived(v, attr):
    """what is computed from a served lazy value by its own methods (no further attribute of any atom is read)"""
    out = []

    def call(label, fn):
        try:
            out.append((label, fn()))
        except Exception as e:  # noqa
            out.append((label, "raises " + type(e).__name__))
    if attr == "xray":
        call("f0", lambda: v.f0(0.5))
        call("scattering_factors", lambda: v.scattering_factors(energy=8.0))
        call("element", lambda: v.element)
    elif attr == "neutron":
        call("has_sld", lambda: v.has_sld())
        call("sld", lambda: v.sld())
        call("scattering", lambda: v.scattering(wavelength=4.75))
    elif attr == "magnetic_ff":
        call("j0", lambda: sorted((k, x.j0_Q(0.3)) for k, x in v.items()))
    return out


# probe atoms of the laboratory (set by state_lazy before the pool forks): `mutate` reports which of them
# serve the very object that was marked, found without triggering any load
PROBE_KEYS = []


class Child:
    """interprets events inside the forked child"""

    def peek(self, T, key, attr):
        """the object served for (atom, attr) if it is stored on an instance of the delegation chain, else None
        (no property is triggered)"""
        x = self.atom(T, key)
        while True:
            if isinstance(type(x).__dict__.get(attr), property):
                return None
            if attr in x.__dict__:
                return x.__dict__[attr]
            if isinstance(x, self.core.Element):
                return None
            x = x.element

    def __init__(self):
        import periodictable as pt
        from periodictable import core
        self.pt, self.core = pt, core
        self.tables = {"public": pt.elements}

    def atom(self, T, key):
        z, a, q = key
        x = self.tables[T][z]
        if a:
            x = x[a]
        if q:
            x = x.ion[q]
        return x

    def source(self, T, key, attr):
        """where the value served for (atom, attr) lives *now* (no loading is triggered):
           "instance" | "class" (plain class attribute) | "property" | "none" """
        x = self.atom(T, key)
        while True:
            c = type(x).__dict__.get(attr)
            if isinstance(c, property):
                return "property"
            if attr in x.__dict__:
                return "instance"
            if c is not None or attr in type(x).__dict__:
                return "class"
            if isinstance(x, self.core.Element):
                return "none"
            x = x.element

    def outcome(self, fn):
        try:
            return fn()
        except Exception as e:  # noqa
            return ["exc", type(e).__name__]

    def do(self, ev):
        k = ev[0]
        if k == "read":
            return self.outcome(lambda: ["val", digest(getattr(self.atom(ev[1], ev[2]), ev[3]))])
        if k == "has":
            return self.outcome(lambda: ["bool", hasattr(self.atom(ev[1], ev[2]), ev[3])])
        if k == "getd":
            return self.outcome(lambda: ["val", digest(getattr(self.atom(ev[1], ev[2]), ev[3], None))])
        if k == "import":
            def imp():
                __import__("periodictable." + ev[1])
                return ["ok"]
            return self.outcome(imp)
        if k == "calc":
            return self.outcome(lambda: ["val", digest(calc(self, ev[1], ev[2], ev[3] if len(ev) > 3 else "public"))])
        if k == "ocalc":
            return self.outcome(lambda: ["val", digest(calc(self, ev[1], ev[2]))])
        if k == "init":
            def ini():
                init_fn(ev[1])(self.tables[ev[2]])
                return ["ok"]
            return self.outcome(ini)
        if k == "reinit":      # <module>.init(T, reload=True): loads if not loaded, loads again if loaded
            def rini():
                init_fn(ev[1])(self.tables[ev[2]], reload=True)
                return ["ok"]
            return self.outcome(rini)
        if k in ("newtable", "rawtable"):
            def new():
                from periodictable import mass, density
                t = self.core.PeriodicTable("ptv-" + ev[1])
                self.tables[ev[1]] = t
                if k == "newtable":
                    mass.init(t)
                    density.init(t)
                return ["ok"]
            return self.outcome(new)
        if k == "assign":
            def asg():
                setattr(self.atom(ev[1], ev[2]), ev[3], Sentinel(ev[4]))
                return ["ok"]
            return self.outcome(asg)
        if k == "mutate":
            def mut():
                v = getattr(self.atom(ev[1], ev[2]), ev[3])
                src = self.source(ev[1], ev[2], ev[3])     # after the read: nothing of the group is pending
                # the marks an object carries are a set (kept sorted): marking twice is idempotent
                if isinstance(v, dict):
                    v["ptv-mut"] = tuple(sorted(set(v.get("ptv-mut", ())) | {ev[4]}))
                elif isinstance(v, list):
                    old = [x for x in v if isinstance(x, tuple) and x[:1] == ("ptv-mut",)]
                    marks = set(old[0][1:]) if old else set()
                    for x in old:
                        v.remove(x)
                    v.append(("ptv-mut",) + tuple(sorted(marks | {ev[4]})))
                elif hasattr(v, "__dict__"):
                    v.ptv_mut = tuple(sorted(set(getattr(v, "ptv_mut", ())) | {ev[4]}))
                else:
                    return ["exc", "Immutable"]
                shared = [list(k) for k in PROBE_KEYS if tuple(k) != tuple(ev[2]) and self.peek(ev[1], k, ev[3]) is v]
                return ["ok", src, shared]
            return self.outcome(mut)
        if k == "dumps":
            def dmp():
                import pickle
                v = getattr(self.atom(ev[1], ev[2]), ev[3])
                return ["val", digest(v), pickle.dumps(v).hex()]
            return self.outcome(dmp)
        if k == "loads":
            def lds():
                import pickle
                v = pickle.loads(bytes.fromhex(ev[4]))
                return ["val", digest(v), digest(derived(v, ev[3]))]
            return self.outcome(lds)
        if k == "served":
            def srv():
                v = getattr(self.atom(ev[1], ev[2]), ev[3])
                return ["val", digest(v), digest(derived(v, ev[3]))]
            return self.outcome(srv)
        if k == "digest":
            out = []
            for key in ev[2]:
                for attr in LAZY_ATTRS:
                    out.append(self.outcome(lambda: ["val", digest(getattr(self.atom(ev[1], key), attr))]))
            return ["val", hashlib.sha1(json.dumps(out).encode()).hexdigest()[:16], out]
        if k == "kinds":
            out = []
            for key in ev[2]:
                for attr in LAZY_ATTRS:
                    try:
                        v = getattr(self.atom(ev[1], key), attr)
                        mut = isinstance(v, (dict, list)) or (hasattr(v, "__dict__") and not isinstance(v, Sentinel))
                        out.append("mutable" if mut else "immutable")
                    except Exception:  # noqa
                        out.append("exc")
            return ["kinds", out]
        if k == "dictkeys":
            # which lazy names are instance attributes of each object on the delegation chain
            x = self.atom(ev[1], ev[2])
            out = []
            while True:
                out.append([type(x).__name__, sorted(a for a in LAZY_ATTRS if a in x.__dict__)])
                if isinstance(x, self.core.Element):
                    break
                x = x.element
            return ["keys", out]
        if k == "source":
            return ["src", self.source(ev[1], ev[2], ev[3])]
        if k == "formula":
            def frm():
                from periodictable import formulas
                f = formulas.formula(ev[2], table=self.tables[ev[1]])
                t = self.tables[ev[1]]
                ok = all(self.core.change_table(a, t) is a for a in f.atoms)
                return ["bool", ok]
            return self.outcome(frm)
        if k == "pickle":
            def pk():
                import pickle
                x = self.atom(ev[1], ev[2])
                y = pickle.loads(pickle.dumps(x))
                return ["bool", y is x and self.core.change_table(y, self.tables[ev[1]]) is y]
            return self.outcome(pk)
        if k == "ids":
            # id() sets of the mutable per-atom objects of a table (C10 objects_disjoint)
            out = []
            for key in ev[2]:
                for attr in LAZY_ATTRS:
                    try:
                        v = getattr(self.atom(ev[1], key), attr)
                    except Exception:  # noqa
                        continue
                    if self.source(ev[1], key, attr) not in ("instance", "property"):
                        continue
                    if isinstance(v, (dict, list)) or (hasattr(v, "__dict__") and not isinstance(v, (type, Sentinel))):
                        out.append([list(key), attr, id(v)])
            return ["ids", out]
        return ["exc", "UnknownEvent"]


def calc(ch, name, arg, T="public"):
    pt = ch.pt
    tbl = ch.tables[T]
    if name == "neutron_sld":
        return pt.neutron_sld(arg, density=1.0, wavelength=1.798, table=tbl) if T != "public" else \
            pt.neutron_sld(arg, density=1.0, wavelength=1.798)
    if name == "neutron_scattering":
        return pt.neutron_scattering(arg, density=1.0, wavelength=1.798)
    if name == "xray_sld":
        return pt.xray_sld(arg, density=1.0, energy=8.0)
    if name == "neutron_sld_wl":       # arg = [compound, wavelength]
        return pt.neutron_sld(arg[0], density=7.407, wavelength=arg[1])
    if name == "atom_scattering_wl":   # arg = [Z, A, q, wavelength]
        nb = ch.atom(T, tuple(arg[:3])).neutron
        return [nb.scattering_by_wavelength(arg[3]), nb.sld(wavelength=arg[3])]
    if name == "atom_sld":      # element.neutron.sld() on an atom key
        return ch.atom(T, tuple(arg)).neutron.sld()
    if name == "atom_xray_sld":
        return ch.atom(T, tuple(arg)).xray.sld(energy=8.0)
    if name == "f0":
        from periodictable import cromermann
        return cromermann.fxrayatq(arg, 0.5)
    if name == "f0q":           # arg = [symbol, charge]
        from periodictable import cromermann
        return cromermann.fxrayatq(arg[0], 0.5, charge=arg[1])
    if name == "atom_f0":       # atom.xray.f0(Q) on an atom key
        return ch.atom(T, tuple(arg)).xray.f0(0.5)
    if name == "xray_table":    # the lazily read per-atom scattering-factor table and what is computed from it
        x = ch.atom(T, tuple(arg)).xray
        out = []
        for label, fn in (("sftable", lambda: x.sftable),
                          ("scattering_factors", lambda: x.scattering_factors(energy=8.0)),
                          ("sld", lambda: x.sld(energy=8.0))):
            try:
                out.append((label, fn()))
            except Exception as e:  # noqa
                out.append((label, "raises " + type(e).__name__))
        return out
    if name == "activation":
        from periodictable import activation
        env = activation.ActivationEnvironment(fluence=1e8, Cd_ratio=0, fast_ratio=0)
        s = activation.Sample(arg, 1.0)
        s.calculate_activation(env, exposure=1.0, rest_times=(0, 1))
        return sorted((str(k.isotope), k.daughter, tuple(v)) for k, v in s.activity.items())
    if name == "activation_iaea":
        from periodictable import activation
        env = activation.ActivationEnvironment(fluence=1e8, Cd_ratio=0, fast_ratio=0)
        s = activation.Sample(arg, 1.0)
        s.calculate_activation(env, exposure=1.0, rest_times=(0, 1), abundance=activation.IAEA1987_isotopic_abundance)
        return sorted((str(k.isotope), k.daughter, tuple(v)) for k, v in s.activity.items())
    if name == "magnetic_j0":
        return ch.atom(T, tuple(arg)).magnetic_ff[2].j0_Q(0.3)
    if name == "d2o_sld":
        from periodictable import nsf
        return nsf.D2O_sld(arg, volume_fraction=0.5, D2O_fraction=0.5)
    if name == "formula_mass":
        from periodictable import formulas
        return formulas.formula(arg).mass
    raise KeyError(name)


def run_history(history):
    """fork; run the events in the child; return the list of outcomes"""
    r, w = os.pipe()
    pid = os.fork()
    if pid == 0:
        code = 0
        try:
            os.close(r)
            ch = Child()
            out = []
            for ev in history:
                out.append(ch.do(ev))
            data = json.dumps(out).encode()
        except BaseException:  # noqa
            data = json.dumps({"crash": traceback.format_exc()}).encode()
            code = 1
        try:
            with os.fdopen(w, "wb") as f:
                f.write(data)
        finally:
            os._exit(code)
    os.close(w)
    chunks = []
    with os.fdopen(r, "rb") as f:
        while True:
            b = f.read(1 << 16)
            if not b:
                break
            chunks.append(b)
    os.waitpid(pid, 0)
    return json.loads(b"".join(chunks))


def pending_state():
    """which lazy attributes are still pending delayed-load properties (parent must see all True)"""
    from periodictable import core
    return {a: isinstance(core.Element.__dict__.get(a), property) or isinstance(core.Isotope.__dict__.get(a), property)
            for a in LAZY_ATTRS}


def unregistered_state():
    """lazy attribute names the source under test does not know at all in a fresh process: no class of the
    atom hierarchy has the name (neither a pending property nor a loaded default) and no element of the public
    table carries it.  Such a name was dropped from the registrations; that is for the histories to judge
    (the canonical order may still serve it), the parent is pristine all the same."""
    import periodictable
    from periodictable import core
    out = {}
    for a in LAZY_ATTRS:
        known = any(a in c.__dict__ for c in (core.Element, core.Isotope, core.Ion)) or \
            any(a in el.__dict__ for el in periodictable.elements)
        out[a] = not known
    return out


def worker_main():
    """stdin: one JSON history per line; stdout: one JSON outcome list per line.
    The worker imports periodictable once and never touches anything lazy itself."""
    sys.path.insert(0, os.environ["PTV_REPO"])
    import numpy  # noqa  (third-party, not part of periodictable's state; saves the import in every child)
    import pyparsing  # noqa
    import periodictable  # noqa
    st = pending_state()
    un = unregistered_state()
    if not all(st[a] or un[a] for a in LAZY_ATTRS) or not any(st.values()):
        print(json.dumps({"infra": "parent is not pristine: %r" % st}), flush=True)
        return
    print(json.dumps({"ready": True}), flush=True)
    for line in sys.stdin:
        line = line.strip()
        if not line:
            continue
        res = run_history(json.loads(line))
        print(json.dumps(res), flush=True)


if __name__ == "__main__":
    worker_main()


# --------------------------------------------------------------------------- pool (parent side)

class Pool:
    """N pristine worker interpreters; each forks one child per history"""

    def __init__(self, n=None, repo=None):
        import subprocess
        from .common import REPO, VERIF, InfraError
        self.InfraError = InfraError
        n = n or min(16, os.cpu_count() or 4)
        env = dict(os.environ)
        env["PTV_REPO"] = str(repo or REPO)
        env["PYTHONPATH"] = str(VERIF / "harness")
        env["PYTHONDONTWRITEBYTECODE"] = "1"
        self.procs = []
        for _ in range(n):
            p = subprocess.Popen([sys.executable, "-m", "ptv.state_hist"], stdin=subprocess.PIPE,
                                 stdout=subprocess.PIPE, env=env, text=True, bufsize=1)
            self.procs.append(p)
        for p in self.procs:
            first = json.loads(p.stdout.readline())
            if "infra" in first:
                self.close()
                raise InfraError(first["infra"])

    def map(self, histories, timeout=600):
        """outcomes of every history, in order"""
        import threading
        results = [None] * len(histories)
        n = len(self.procs)
        errs = []

        def work(k):
            p = self.procs[k]
            try:
                for i in range(k, len(histories), n):
                    p.stdin.write(json.dumps(histories[i]) + "\n")
                    p.stdin.flush()
                    line = p.stdout.readline()
                    if not line:
                        raise self.InfraError("history worker died")
                    results[i] = json.loads(line)
            except Exception as e:  # noqa
                errs.append(e)
        ts = [threading.Thread(target=work, args=(k,), daemon=True) for k in range(n)]
        for t in ts:
            t.start()
        for t in ts:
            t.join(timeout)
            if t.is_alive():
                self.close()
                raise self.InfraError("history workers timed out")
        if errs:
            raise self.InfraError("history worker failed: %r" % errs[0])
        return results

    def close(self):
        for p in self.procs:
            try:
                p.stdin.close()
                p.kill()
            except Exception:  # noqa
                pass

    def __enter__(self):
        return self

    def __exit__(self, *a):
        self.close()
