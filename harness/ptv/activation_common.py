"""Helpers shared by the C14 and C15 checks: enumeration of the real code's activation rows
against the translator's reading of activation.dat, protocol lines for `ptdriver activation`,
structured generators for environments / samples, and tolerant comparison."""
from __future__ import annotations

import math
from decimal import Decimal as D

from .common import InfraError, close, f2h, h2f, import_repo
from .translators import activation as tr
from . import activation_oracle as O


# --------------------------------------------------------------------------- rows

def dec_float(d):
    """float of a translator decimal (mantissa, exponent) – correctly rounded via the text"""
    return float("%de%d" % d)


class Rows:
    """the 513 rows three ways: translator reading (index = row number of the Lean table),
    the real code's ActivationResult objects, and the mapping between them"""

    def __init__(self):
        pt = import_repo()
        self.pt = pt
        self.trows = tr.read_rows()
        self.objs = []          # real ActivationResult per row number (None if the code has no such row)
        self.iso_of = []        # real Isotope per row number
        seen = {}
        for r in self.trows:
            key = (r["z"], r["a"])
            k = seen.get(key, 0)
            seen[key] = k + 1
            try:
                iso = pt.elements[r["z"]][r["a"]]
                lst = getattr(iso, "neutron_activation", [])
                self.objs.append(lst[k] if k < len(lst) else None)
                self.iso_of.append(iso)
            except (KeyError, IndexError):
                self.objs.append(None)
                self.iso_of.append(None)
        self.index_of = {id(o): i for i, o in enumerate(self.objs) if o is not None}
        self.isotopes = sorted(seen)                       # (z, a) with at least one row
        self.rows_of = {}
        for i, r in enumerate(self.trows):
            self.rows_of.setdefault((r["z"], r["a"]), []).append(i)

    def code_row_count(self):
        n = 0
        for el in self.pt.elements:
            for iso in el:
                n += len(getattr(iso, "neutron_activation", []))
        return n

    def fields(self, i):
        """oracle view of row i (floats from the translator's own reading)"""
        r = self.trows[i]
        return dict(reaction=r["reaction"] if r["reaction"] in ("b", "2n") else "act",
                    reaction_text=r["reaction"], fast=r["fast"],
                    thermalXS=dec_float(r["thermalXS"]), resonance=dec_float(r["resonance"]),
                    Thalf_hrs=dec_float(r["Thalf_hrs"]), Thalf_parent=dec_float(r["Thalf_parent"]),
                    thermalXS_parent=dec_float(r["thermalXS_parent"]),
                    resonance_parent=dec_float(r["resonance_parent"]),
                    abundance=dec_float(r["abundance"]), z=r["z"], a=r["a"],
                    isotope=r["isotope"], daughter=r["daughter"])


FIELD_NAMES = ["abundance", "thermalXS", "resonance", "Thalf_hrs", "Thalf_parent",
               "thermalXS_parent", "resonance_parent"]


def parse_row_reply(rep):
    """`ok z a y|n reaction 7 hex floats` -> dict, or the bare word"""
    t = rep.split()
    if t[0] != "ok":
        return t[0]
    d = dict(z=int(t[1]), a=int(t[2]), fast=(t[3] == "y"), reaction=t[4])
    for n, h in zip(FIELD_NAMES, t[5:12]):
        d[n] = h2f(h)
    return d


# --------------------------------------------------------------------------- protocol lines

def iso_line(z, a, mass, fluence, cd, fast, T, rests):
    return "iso %d %d %s %d %s" % (z, a, " ".join(f2h(x) for x in (mass, fluence, cd, fast, T)),
                                   len(rests), " ".join(f2h(x) for x in rests))


def parse_iso_reply(rep, nrest):
    """-> ('err', name) | ('ok', {rownumber: (amp, [values])})"""
    t = rep.split()
    if t[0] == "err":
        return ("err", t[1])
    if t[0] != "ok":
        raise InfraError("driver: %s" % rep)
    out = {}
    pos = 1
    while pos < len(t):
        k = int(t[pos])
        amp = h2f(t[pos + 1])
        vals = [h2f(h) for h in t[pos + 2:pos + 2 + nrest]]
        out[k] = (amp, vals)
        pos += 2 + nrest
    return ("ok", out)


def calc_line(mass, fluence, cd, fast, T, rests, parts):
    """parts = [(frac, [(z, a, share|None)])]"""
    toks = ["calc"] + [f2h(x) for x in (mass, fluence, cd, fast, T)] + [str(len(rests))]
    toks += [f2h(x) for x in rests]
    toks.append(str(len(parts)))
    for frac, isos in parts:
        toks += [f2h(frac), str(len(isos))]
        for z, a, share in isos:
            toks += [str(z), str(a), "-" if share is None else f2h(share)]
    return " ".join(toks)


def parse_tally(rep, width):
    """`ok (k amp v1 … v_width)*` -> [(k, amp, [v])]"""
    t = rep.split()
    if t[0] != "ok":
        raise InfraError("driver: %s" % rep)
    out = []
    pos = 1
    while pos < len(t):
        out.append((int(t[pos]), h2f(t[pos + 1]), [h2f(h) for h in t[pos + 2:pos + 2 + width]]))
        pos += 2 + width
    return out


# --------------------------------------------------------------------------- tolerant comparison

def tol_for(amp):
    """relative tolerance of a model/code comparison: 1e-9, widened where the formula subtracts
    nearly equal numbers (amp = conditioning estimate reported by the driver)"""
    if amp != amp or amp in (float("inf"),):
        return float("inf")
    return max(1e-9, 1e-14 * amp)


def close_amp(a, b, amp, scale=None):
    rel = tol_for(amp)
    if rel > 0.5:
        return True
    return close(a, b, rel=rel, abs_=1e-300)


# --------------------------------------------------------------------------- generators

FLUENCE = (1e2, 1e16)
EXPOSURE = (1e-3, 1e4)
REST = (0.0, 1e5)
MASS = (1e-6, 1e3)


def logu(rng, lo, hi):
    return math.exp(rng.uniform(math.log(lo), math.log(hi)))


def gen_cd(rng):
    r = rng.random()
    if r < 0.35:
        return 0.0
    if r < 0.45:
        return rng.choice([1.0, 1.0000000001, 2.0, 1e3, 1e6])
    if r < 0.55:
        return rng.choice([0.5, 0.999999, 0.1])          # below 1: epithermal omitted
    return logu(rng, 1.0, 1e4)


def gen_fast(rng):
    r = rng.random()
    if r < 0.35:
        return 0.0
    if r < 0.45:
        return rng.choice([1.0, 1e-3, 1e6, 50.0])
    return logu(rng, 1e-2, 1e4)


def gen_rests(rng):
    n = rng.choice([1, 1, 2, 3, 4, 4, 5, 6])
    out = []
    for _ in range(n):
        r = rng.random()
        if r < 0.2:
            out.append(0.0)
        elif r < 0.3:
            out.append(rng.choice([1.0, 24.0, 360.0, 1e5]))
        elif r < 0.4:
            out.append(float(rng.randint(1, 1000)))
        else:
            out.append(logu(rng, 1e-4, 1e5))
    return out


def gen_env(rng):
    """(mass, fluence, cd, fast, exposure)"""
    r = rng.random()
    fluence = logu(rng, *FLUENCE) if r < 0.8 else rng.choice([1e2, 1e16, 1e5, 1e8, 1e12])
    T = logu(rng, *EXPOSURE) if rng.random() < 0.8 else rng.choice([1e-3, 1e4, 1.0, 10.0])
    mass = logu(rng, *MASS) if rng.random() < 0.8 else rng.choice([1e-6, 1e3, 1.0])
    return mass, fluence, gen_cd(rng), gen_fast(rng), T


def epithermal(cd):
    return 1.0 / cd if cd >= 1 else 0.0


def resonance_fluence(rng, f, cd, fast):
    """a fluence at which the target burn-up rate a is within a random relative distance of
    lam + b (the point where the single-capture formula divides by ~0), if it lies in range"""
    if f["Thalf_hrs"] <= 0:
        return None
    e = epithermal(cd)
    s1 = f["thermalXS"] + e * f["resonance"]
    s2 = f["thermalXS_parent"] + e * f["resonance_parent"]
    lam = math.log(2) / f["Thalf_hrs"]
    k1 = s1 * 3600e-24 / (fast if f["fast"] else 1.0)
    k2 = s2 * 3600e-24
    if k1 <= k2:
        return None
    phi = lam / (k1 - k2)
    if not (FLUENCE[0] <= phi <= FLUENCE[1]):
        return None
    delta = rng.choice([0.0, 1e-15, 1e-13, 1e-11, 1e-9, 1e-7, 1e-5, 1e-3]) * rng.choice([-1, 1]) * rng.uniform(0.5, 2)
    return phi * (1 + delta)
