"""Bridging between the real periodictable objects and the protocol's plain keys.

atom key   = (Z, A, q)   A = 0 for a natural element, q = ion charge
structure  = nested list [(count, key | structure), …]
"""
from __future__ import annotations

from fractions import Fraction

from .common import f2h, h2f, import_repo


def table(name=None):
    pt = import_repo()
    return pt.elements if name is None else name


def key_of(atom):
    from periodictable import core
    q = atom.charge if core.ision(atom) else 0
    base = atom.element if core.ision(atom) else atom
    if isinstance(base, core.Isotope):
        return (base.element.number, base.isotope, q)
    return (base.number, 0, q)


def atom_of(key, tbl=None):
    tbl = table() if tbl is None else tbl
    z, a, q = key
    x = tbl[z]
    if a:
        x = x[a]
    if q:
        x = x.ion[q]
    return x


def struct_keys(structure):
    """Formula.structure -> nested list of (count, key | list)"""
    from periodictable import core
    out = []
    for count, frag in structure:
        if core.isatom(frag):
            out.append((count, key_of(frag)))
        else:
            out.append((count, struct_keys(frag)))
    return out


def struct_objs(s, tbl=None):
    """nested key structure -> nested tuple of real atoms (input for formula())"""
    return tuple((c, atom_of(f, tbl) if is_key(f) else struct_objs(f, tbl)) for c, f in s)


def is_key(f):
    return isinstance(f, tuple) and len(f) == 3 and all(isinstance(v, int) for v in f)


def struct_tokens(s) -> str:
    """protocol text of a nested key structure"""
    out = ["["]
    for c, f in s:
        out.append(f2h(c))
        if is_key(f):
            out += ["a", str(f[0]), str(f[1]), str(f[2])]
        else:
            out += ["g", struct_tokens(f)]
    out.append("]")
    return " ".join(out)


def parse_struct(text: str):
    toks = text.split()
    pos = 0

    def items():
        nonlocal pos
        assert toks[pos] == "[", text
        pos += 1
        res = []
        while toks[pos] != "]":
            c = h2f(toks[pos]); pos += 1
            kind = toks[pos]; pos += 1
            if kind == "a":
                res.append((c, (int(toks[pos]), int(toks[pos + 1]), int(toks[pos + 2]))))
                pos += 3
            else:
                res.append((c, items()))
        pos += 1
        return res
    r = items()
    return r


def parse_alist(text: str):
    """'atoms z A q c …' -> [((z,A,q), c)]"""
    toks = text.split()
    assert toks[0] == "atoms", text
    toks = toks[1:]
    return [((int(toks[i]), int(toks[i + 1]), int(toks[i + 2])), h2f(toks[i + 3]))
            for i in range(0, len(toks), 4)]


def alist_tokens(pairs) -> str:
    return " ".join("%d %d %d %s" % (k[0], k[1], k[2], f2h(c)) for k, c in pairs)


def struct_close(a, b, close) -> bool:
    """same nesting, same atoms, counts equal within tolerance"""
    if len(a) != len(b):
        return False
    for (ca, fa), (cb, fb) in zip(a, b):
        if not close(ca, cb):
            return False
        if is_key(fa) != is_key(fb):
            return False
        if is_key(fa):
            if tuple(fa) != tuple(fb):
                return False
        elif not struct_close(fa, fb, close):
            return False
    return True


def flat_counts(s, mult=Fraction(1)):
    """exact count-weighted atom totals of a nested key structure (oracle arithmetic)"""
    tot = {}
    for c, f in s:
        c = Fraction(c) * mult
        if is_key(f):
            tot[f] = tot.get(f, Fraction(0)) + c
        else:
            for k, v in flat_counts(f, c).items():
                tot[k] = tot.get(k, Fraction(0)) + v
    return tot


def mass_table_lines(tbl=None):
    """`mass z A bits` lines for every element and isotope (un-ionised masses as the table serves them)"""
    tbl = table() if tbl is None else tbl
    lines = []
    for el in tbl:
        lines.append("mass %d 0 %s" % (el.number, f2h(el.mass)))
        for iso in el:
            lines.append("mass %d %d %s" % (el.number, iso.isotope, f2h(iso.mass)))
    return lines


def sym_table_lines(tbl=None):
    """`sym z A code`: the symbol each atom reports (D/T for H[2]/H[3])"""
    from .translate import sym_code
    tbl = table() if tbl is None else tbl
    lines = []
    for el in tbl:
        lines.append("sym %d 0 %d" % (el.number, sym_code(el.symbol)))
        for iso in el:
            if "symbol" in iso.__dict__:   # D, T carry their own symbol
                lines.append("sym %d %d %d" % (el.number, iso.isotope, sym_code(iso.symbol)))
    return lines
