"""Helpers shared by the neutron checks (C03, C04, C16, C17): table lines for the driver,
atom pools, compound generators, the cancellation-aware comparison of scattering results
(DESIGN 4.5) and the high-precision oracle of the documented equations.

The oracle (`Oracle`) evaluates the equations of the `neutron_scattering` docstring in
50-digit `Decimal` / exact `Fraction`.  It shares no code with the model (Lean) or with nsf.py:
constants are the translator's exact readings of constants.py / nsf.py, energy-dependent
scattering lengths are interpolated by the oracle itself from the *literal*
`ENERGY_DEPENDENT_TABLES` (read with `ast`), and π is a literal.
"""
from __future__ import annotations

import ast
import math
from decimal import Decimal, getcontext
from fractions import Fraction

from .common import close, f2h, h2f
from . import pyside, translate

getcontext().prec = 50

PI = Decimal("3.14159265358979323846264338327950288419716939937510582097494")
SCAT_FIELDS = ("sld_re", "sld_im", "sld_inc", "coh_xs", "abs_xs", "inc_xs", "penetration")


# --------------------------------------------------------------------------- real table -> keys

def all_atoms(tbl):
    """every element and isotope of the table (un-ionised)"""
    for el in tbl:
        yield el
        for iso in el:
            yield el[iso] if isinstance(iso, int) else iso


def has_data(a):
    """the atom's neutron record has a scattering length and a number density – decided from the
    served fields, not by asking `Neutron.has_sld()` (which is code under test: natural Sm has a
    tabulated b_c of exactly 0.00 fm and does have data)"""
    n = a.neutron
    return getattr(n, "b_c", None) is not None and getattr(n, "_number_density", None) is not None


def data_keys(tbl):
    """(Z, A) of the atoms whose neutron record has an SLD"""
    out = []
    for a in all_atoms(tbl):
        if has_data(a):
            out.append(pyside.key_of(a)[:2])
    return out


def table_lines(tbl, me):
    """`me`, `mass`, `rec`, `tab` lines describing the real table to the driver.  Masses are sent
    for every element and isotope, records only where `has_sld()` holds."""
    lines = ["reset", "me %s" % f2h(float(me))]
    for a in all_atoms(tbl):
        z, A, _ = pyside.key_of(a)
        if a.mass is not None:
            lines.append("mass %d %d %s" % (z, A, f2h(a.mass)))
        n = a.neutron
        if has_data(a):
            total = float("nan") if n.total is None else n.total
            lines.append("rec %d %d %s %s %s %s" % (z, A, f2h(n.b_c), f2h(n.absorption), f2h(total),
                                                   f2h(n._number_density)))
            if n.nsf_table is not None:
                w, b = n.nsf_table
                lines.append("tab %d %d %d %s" % (z, A, len(w), " ".join(
                    "%s %s %s" % (f2h(x), f2h(y.real), f2h(y.imag)) for x, y in zip(w, b))))
    return lines


def atoms_tokens(pairs) -> str:
    """`n (z A q c)*`"""
    return "%d %s" % (len(pairs), pyside.alist_tokens(pairs))


def atoms_of(formula_obj):
    """`compound.atoms` as [((Z, A, q), count)] in dict order"""
    return [(pyside.key_of(a), float(c)) for a, c in formula_obj.atoms.items()]


# --------------------------------------------------------------------------- pools / generators

class Pools:
    def __init__(self, tbl):
        self.tbl = tbl
        self.data = data_keys(tbl)                                  # (Z, A)
        self.endep = [k for k in self.data if pyside.atom_of((k[0], k[1], 0), tbl).neutron.nsf_table is not None]
        self.elements = [k for k in self.data if k[1] == 0]
        self.isotopes = [k for k in self.data if k[1] != 0]
        self.common = [(1, 0), (1, 1), (1, 2), (6, 0), (7, 0), (8, 0), (14, 0), (5, 0), (5, 10), (3, 6),
                       (48, 0), (64, 0), (2, 3), (23, 0), (22, 0), (25, 0), (28, 58), (28, 62)]
        self.common = [k for k in self.common if k in set(self.data)]
        # atoms without neutron data (elements without density, isotopes not in the table)
        self.nodata = []
        for a in all_atoms(tbl):
            if not has_data(a) and a.mass is not None and a.number > 0:
                self.nodata.append(pyside.key_of(a)[:2])
        # atoms whose σ_c = 4π|b_c|²/100 exceeds the tabulated σ_s: σ_i clips at 0
        self.clip = []
        for z, A in self.data:
            n = pyside.atom_of((z, A, 0), tbl).neutron
            if n.nsf_table is None and 4 * math.pi / 100 * abs(n.b_c_complex) ** 2 > n.total:
                self.clip.append((z, A))
        self.ions = []
        for z, A in self.data:
            el = tbl[z]
            for q in el.ions:
                self.ions.append((z, A, q))

    def atom(self, rng, nodata=0.0):
        r = rng.random()
        if r < nodata:
            z, A = rng.choice(self.nodata)
            return (z, A, 0)
        kind = rng.choice(["common", "common", "element", "element", "isotope", "endep", "ion", "clip"])
        if kind == "ion":
            return rng.choice(self.ions)
        z, A = rng.choice(getattr(self, {"common": "common", "element": "elements",
                                          "isotope": "isotopes", "endep": "endep", "clip": "clip"}[kind]))
        return (z, A, 0)


def gen_count(rng):
    r = rng.random()
    if r < 0.45:
        return float(rng.randint(1, 12))
    if r < 0.6:
        return 1.0
    if r < 0.85:
        return max(round(rng.uniform(0.01, 30), rng.randint(1, 4)), 0.01)   # never 0: counts are positive
    return rng.choice([0.5, 0.25, 1e-3, 100.0, 1000.0, 2.5, 1.0000001])


def gen_atoms(rng, pools, nmax=6, nodata=0.0):
    """a flat compound with distinct atoms [((Z,A,q), count)]"""
    n = rng.choice([1, 1, 2, 2, 3, 3, 4, 5, nmax])
    seen, out = set(), []
    for _ in range(n):
        a = pools.atom(rng, nodata)
        if a in seen:
            continue
        seen.add(a)
        out.append((a, gen_count(rng)))
    return out


def gen_struct(rng, pools, depth=0, maxdepth=3, pool=None):
    """nested [(count, key | list)] over atoms with neutron data; counts are dyadic so that the
    regrouped variants have exactly equal totals"""
    if pool is None:
        pool = []
    n = rng.choice([1, 2, 2, 3, 3, 4]) if depth == 0 else rng.choice([1, 2, 2, 3])
    out = []
    for _ in range(n):
        c = rng.choice([1, 1, 2, 3, 4, 6, 0.5, 1.5, 2.25, 12, 0.125])
        if depth < maxdepth and rng.random() < 0.3:
            out.append((c, gen_struct(rng, pools, depth + 1, maxdepth, pool)))
        else:
            if pool and rng.random() < 0.35:
                a = rng.choice(pool)
            else:
                a = pools.atom(rng)
                pool.append(a)
            out.append((c, a))
    return out


def gen_density(rng):
    r = rng.random()
    if r < 0.1:
        return rng.choice([1.0, 0.9982, 25.0, 1e-3, 2.2, 19.3])
    if r < 0.14:
        # a dilute gas is not a vacuum: every density in (0, 25] is a density
        return 10.0 ** rng.uniform(-14, -5)
    return math.exp(rng.uniform(math.log(1e-3), math.log(25.0)))


def gen_wavelength(rng, pools=None):
    """log-uniform over [0.05, 50] Å plus table nodes, node midpoints, the ends and one step
    outside each end of the energy-dependent tables"""
    r = rng.random()
    if pools is not None and pools.endep and r < 0.35:
        z, A = rng.choice(pools.endep)
        w = pyside.atom_of((z, A, 0), pools.tbl).neutron.nsf_table[0]
        j = rng.randrange(len(w))
        kind = rng.choice(["node", "mid", "first", "last", "below", "above", "ulp"])
        if kind == "node":
            return float(w[j])
        if kind == "mid" and j + 1 < len(w):
            return float(0.5 * (w[j] + w[j + 1]))
        if kind == "first":
            return float(w[0])
        if kind == "last":
            return float(w[-1])
        if kind == "below":
            return float(w[0]) * rng.choice([0.5, 0.9, 0.999999])
        if kind == "above":
            return float(w[-1]) * rng.choice([2.0, 1.1, 1.000001])
        return float(math.nextafter(w[j], rng.choice([0.0, 100.0])))
    if r < 0.45:
        return rng.choice([1.798, 1.0, 4.75, 6.0, 0.05, 50.0, 1.54, 2.0])
    return math.exp(rng.uniform(math.log(0.05), math.log(50.0)))


def compound_obj(pt, atoms, density=None, natural_density=None):
    """the real Formula for a flat atom list"""
    from periodictable.formulas import formula
    s = tuple((c, pyside.atom_of(k, pt.elements)) for k, c in atoms)
    return formula(s, density=density, natural_density=natural_density)


_REVISED_PRIVATE = {}


def revised_private_table(name="ptv-neutron-revised"):
    """A private PeriodicTable (one per process and name) of a user who revised the data:

    * BEFORE the neutron data are attached (`nsf.init`): element densities (x 0.79 .. 1.21 by Z mod 7,
      unchanged where Z mod 7 == 3) and masses of elements (x 0.98 .. 1.02 by Z mod 5) and isotopes
      (x 0.996 .. 1.004 by A mod 3) – the number densities served for direct queries follow from these;
    * AFTER it: scattering length, absorption and total cross section of every record of an element
      that has no energy-dependent entry (b_c x 1.1 .. 1.5 by Z mod 5, absorption x 1.25, total x the
      square), with `b_c_complex` kept equal to its documented definition b_c - i sigma_a/(2000 x 1.798).

    The public table is loaded first (as it is in ordinary use); nothing of it is modified."""
    if name not in _REVISED_PRIVATE:
        from periodictable import core, mass, density, nsf, elements
        from periodictable.nsf_tables import ENERGY_DEPENDENT_TABLES
        hasattr(elements[0], "neutron")            # ordinary use: the public neutron data are there already
        core.PRIVATE_TABLES.pop(name, None)
        T = core.PeriodicTable(name)
        mass.init(T)
        density.init(T)
        for el in T:
            z = el.number
            if getattr(el, "_density", None) is not None:
                el._density = el._density * (1.0 + 0.07 * ((z % 7) - 3))
            if getattr(el, "_mass", None) is not None and z > 0:
                el._mass = el._mass * (1.0 + 0.01 * ((z % 5) - 2))
            for a in el.isotopes:
                iso = el[a]
                if getattr(iso, "_mass", None) is not None and z > 0:
                    iso._mass = iso._mass * (1.0 + 0.004 * ((a % 3) - 1))
        nsf.init(T)
        ed = {sym for sym, _ in ENERGY_DEPENDENT_TABLES} | {"Lu"}
        seen = set()
        for el in T:
            if el.symbol in ed:
                continue
            for x in [el] + [el[a] for a in el.isotopes]:
                rec = x.__dict__.get("neutron")
                if rec is None or id(rec) in seen or rec.b_c is None or rec.absorption is None:
                    continue
                seen.add(id(rec))
                k = 1.0 + 0.1 * ((el.number % 5) + 1)
                rec.b_c = rec.b_c * k
                rec.absorption = rec.absorption * 1.25
                if rec.total is not None:
                    rec.total = rec.total * k * k
                rec.b_c_complex = rec.b_c - 1j * rec.absorption / (2000 * nsf.ABSORPTION_WAVELENGTH)
        _REVISED_PRIVATE[name] = T
    return _REVISED_PRIVATE[name]


class TableView:
    """stands where the `periodictable` package is expected by the helpers of the neutron checks
    (`.elements`, `.neutron_sld`), with a private table as `.elements`"""

    def __init__(self, pt, tbl):
        self.elements = tbl
        self.neutron_sld = pt.neutron_sld
        self.public = pt


_BUFFERS = {}
_BUFLIST = {}


def reused_array(ws):
    """a float64 array holding `ws` that is the SAME object for every call with this length, refilled in
    place: a result must depend on the values passed, never on the identity of the array (stale memo keyed
    on the object) – and the callee must not modify it"""
    import numpy as np
    buf = _BUFFERS.get(len(ws))
    if buf is None:
        buf = _BUFFERS[len(ws)] = np.zeros(len(ws), dtype=float)
    buf[:] = ws
    return buf


def reused_list(ws):
    buf = _BUFLIST.setdefault(len(ws), [0.0] * len(ws))
    buf[:] = ws
    return buf


# --------------------------------------------------------------------------- results

def scat_tuple(res):
    """real `neutron_scattering` result -> 'missing' | 'vacuum' | [7 floats] (scalar call)"""
    if len(res) == 3 and res[0] is None:
        return "missing"
    sld, xs, pen = res
    if isinstance(pen, float) and math.isinf(pen) and tuple(sld) == (0, 0, 0):
        return "vacuum"
    return [float(sld[0]), float(sld[1]), float(sld[2]), float(xs[0]), float(xs[1]), float(xs[2]), float(pen)]


def scat_vectors(res, n):
    """vector call -> 'missing' | 'vacuum' | list of n 7-float lists"""
    import numpy as np
    if len(res) == 3 and res[0] is None:
        return "missing"
    sld, xs, pen = res
    if np.ndim(pen) == 0 and math.isinf(float(pen)):
        return "vacuum"
    cols = [np.broadcast_to(np.asarray(v, dtype=float), (n,)) for v in (*sld, *xs, pen)]
    return [[float(c[i]) for c in cols] for i in range(n)]


def parse_outcome(reply: str):
    t = reply.split()
    if t[0] in ("missing", "vacuum", "none", "raises", "zeros"):
        return t[0]
    if t[0] == "ok":
        return [h2f(x) for x in t[1:]]
    if t[0] == "okv":
        n = int(t[1])
        vals = [h2f(x) for x in t[2:]]
        k = len(vals) // n if n else 0
        return [vals[i * k:(i + 1) * k] for i in range(n)]
    raise ValueError("driver reply %r" % reply)


C4PI100 = 4 * math.pi / 100


def sigma_total_xs(s):
    """Σ_s = N·σ_s recovered from a 7-list: 1/penetration − Σ_abs"""
    if s[6] == 0 or s[6] != s[6]:
        return 0.0
    return abs(1.0 / s[6] - s[4])


def number_density(pt, atoms, density):
    """N (1/Å³) from the inputs, in plain float arithmetic (used only to scale tolerances)"""
    from periodictable.constants import avogadro_number, electron_mass
    m = sum(c * (pyside.atom_of((k[0], k[1], 0), pt.elements).mass - k[2] * electron_mass) for k, c in atoms)
    n = sum(c for _, c in atoms)
    if m == 0 or density == 0:
        return 0.0
    return n / (m / density / avogadro_number * 1e24)


def re_scale(N, tot):
    """the size a real SLD has when nothing cancels: 10·N·sqrt(σ_s/(4π/100)) (tot = N·σ_s).  The real
    part Σ n_k Re b_k can cancel exactly (e.g. 6 B[10] + 0.125 Pt: −1.2 + 1.2), leaving a 1e-19
    rounding residue; it is therefore compared with the absolute tolerance 1e-12·re_scale."""
    if not (N > 0 and tot > 0):
        return 0.0
    return 10.0 * math.sqrt(N * tot / C4PI100)


def inc_close(rho_a, rho_b, N, tot, rel=1e-9):
    """ρ_inc = 10·N·sqrt(σ_i/(4π/100)) compared through σ_i: N·σ_i = (4π/100)·ρ_inc²/(100·N) must
    agree within 1e-12·N·σ_s absolutely (the cancellation residue of σ_s − σ_c) or relatively"""
    if close(rho_a, rho_b, rel=rel):
        return True
    if not N > 0:
        return False
    xa = C4PI100 * rho_a * rho_a / (100 * N)
    xb = C4PI100 * rho_b * rho_b / (100 * N)
    return abs(xa - xb) <= 1e-12 * tot + 2 * rel * max(xa, xb)


def scat_close(a, b, N, rel=1e-9):
    """cancellation-aware comparison of two 7-lists (DESIGN 4.5).

    σ_i = max(σ_s − σ_c, 0) is a difference of nearly equal numbers for energy-dependent atoms
    (σ_s ≡ σ_c by construction), so Σ_inc = N·σ_i is compared with the absolute tolerance
    1e-12·N·σ_s, and ρ_inc with the tolerance that follows through the square root
    (`inc_close`).  `N` is the number density of the case (scales the tolerance only)."""
    if isinstance(a, str) or isinstance(b, str):
        return a == b
    tot = max(sigma_total_xs(a), sigma_total_xs(b))            # Σ_s = N σ_s   (1/cm)
    if not close(a[0], b[0], rel=rel, abs_=max(1e-300, 1e-12 * re_scale(N, tot))):
        return False
    for i in (1, 3, 4, 6):
        if not close(a[i], b[i], rel=rel, abs_=1e-300):
            return False
    if not (close(a[5], b[5], rel=rel) or abs(a[5] - b[5]) <= 1e-12 * tot):
        return False
    return inc_close(a[2], b[2], N, tot, rel)


def sld_close(a, b, N, tot, rel=1e-9):
    """3-tuples (re, im, inc) of SLDs; `tot` = N·σ_s of the case"""
    if isinstance(a, str) or isinstance(b, str):
        return a == b
    return close(a[0], b[0], rel=rel, abs_=max(1e-300, 1e-12 * re_scale(N, tot))) \
        and close(a[1], b[1], rel=rel, abs_=1e-300) and inc_close(a[2], b[2], N, tot, rel)


# --------------------------------------------------------------------------- the oracle

def dec(x) -> Decimal:
    if isinstance(x, Fraction):
        return Decimal(x.numerator) / Decimal(x.denominator)
    if isinstance(x, Decimal):
        return x
    f = Fraction(float(x))              # the exact value of the double
    return Decimal(f.numerator) / Decimal(f.denominator)


class Oracle:
    """docstring equations of `neutron_scattering` in Decimal, on the served table values"""

    def __init__(self, pt):
        self.pt = pt
        tr = translate
        c = lambda n: tr.exact(tr.number_text("periodictable/constants.py", n))  # noqa: E731
        self.NA = dec(c("avogadro_number"))
        self.me = c("electron_mass")
        self.h = dec(c("plancks_constant"))
        self.eV = dec(c("electron_volt"))
        self.mn = dec(c("neutron_mass"))
        self.amu = dec(c("atomic_mass_constant"))
        self.lambda0 = dec(tr.exact(tr.number_text("periodictable/nsf.py", "ABSORPTION_WAVELENGTH")))
        # E = h²/(2 m_n λ²): (h eV s)²·(eV J/eV) / (2 m_n u · kg/u) in meV·Å²
        self.energy_factor = self.h * self.h * self.eV / (2 * self.mn * self.amu) * Decimal(10) ** 23
        self.velocity_factor = self.h * self.eV / (self.mn * self.amu) * Decimal(10) ** 10
        self.ed_tables = self._read_ed_tables()

    def _read_ed_tables(self):
        """literal ENERGY_DEPENDENT_TABLES -> {(symbol, A or 0): [(λ Decimal, re, im)] increasing λ}"""
        tree = translate.module_ast("periodictable/nsf_tables.py")
        raw = translate.literal(tree, "ENERGY_DEPENDENT_TABLES")
        out = {}
        for (sym, iso), rows in raw.items():
            nodes = []
            for row in rows:
                e, re_, im_ = row[0], row[1], row[2]
                lam = (self.energy_factor / (dec(e) * 1000)).sqrt()
                nodes.append((lam, dec(re_), dec(im_)))
            nodes.sort(key=lambda n: n[0])
            out[(sym, iso or 0)] = nodes
        return out

    def wavelength_of_energy(self, e):
        return (self.energy_factor / dec(e)).sqrt()

    def _interp(self, nodes, lam):
        if lam <= nodes[0][0]:
            return nodes[0][1], nodes[0][2]
        if lam >= nodes[-1][0]:
            return nodes[-1][1], nodes[-1][2]
        lo, hi = 0, len(nodes) - 1
        while hi - lo > 1:
            mid = (lo + hi) // 2
            if nodes[mid][0] <= lam:
                lo = mid
            else:
                hi = mid
        (x0, r0, i0), (x1, r1, i1) = nodes[lo], nodes[hi]
        t = (lam - x0) / (x1 - x0)
        return r0 + (r1 - r0) * t, i0 + (i1 - i0) * t

    def atom_b_sigma(self, key, lam):
        """(Re b, Im b, σ_s) of one atom at wavelength lam (Decimal), or None without data"""
        z, A, q = key
        base = pyside.atom_of((z, A, 0), self.pt.elements)
        n = base.neutron
        if n.b_c is None or n._number_density is None:
            return None
        el = self.pt.elements[z]
        ed = self.ed_tables.get((el.symbol, A))
        if ed is not None:
            re_, im_ = self._interp(ed, lam)
        elif el.symbol == "Lu" and A == 0:
            # natural Lu is mixed from Lu-175 (constant) and Lu-176 (table) by abundance
            i175, i176 = el[175], el[176]
            re6, im6 = self._interp(self.ed_tables[("Lu", 176)], lam)
            re5 = dec(i175.neutron.b_c)
            im5 = -dec(i175.neutron.absorption) / (2000 * self.lambda0)
            a5, a6 = dec(i175.abundance), dec(i176.abundance)
            re_, im_ = (re5 * a5 + re6 * a6) / 100, (im5 * a5 + im6 * a6) / 100
            ed = True
        else:
            re_ = dec(n.b_c)
            im_ = -dec(n.absorption) / (1000 * 2 * self.lambda0)
        if ed is not None:
            sig = 4 * PI * (re_ * re_ + im_ * im_) / 100
        else:
            sig = dec(n.total)
        return re_, im_, sig

    def mass(self, key):
        z, A, q = key
        return dec(pyside.atom_of((z, A, 0), self.pt.elements).mass) - q * dec(self.me)

    def scattering(self, atoms, density, lam):
        """the seven documented quantities as Decimals (with σ_i, σ_s, N as extras) or
        'missing' / 'vacuum'"""
        lam = dec(lam)
        rho = dec(density)
        bs = []
        for k, c in atoms:
            b = self.atom_b_sigma(k, lam)
            if b is None:
                return "missing"
            bs.append(b)
        n_tot = sum((dec(c) for _, c in atoms), Decimal(0))
        m = sum((dec(c) * self.mass(k) for k, c in atoms), Decimal(0))
        if m * rho == 0:
            return "vacuum"
        V = m / rho / self.NA * Decimal(10) ** 24
        N = n_tot / V
        re_b = sum((dec(c) * b[0] for (_, c), b in zip(atoms, bs)), Decimal(0)) / n_tot
        im_b = sum((dec(c) * b[1] for (_, c), b in zip(atoms, bs)), Decimal(0)) / n_tot
        sig_s = sum((dec(c) * b[2] for (_, c), b in zip(atoms, bs)), Decimal(0)) / n_tot
        sig_c = 4 * PI * (re_b * re_b + im_b * im_b) / 100
        sig_a = -2000 * im_b * lam            # −1000·4π·Im b / k,  k = 2π/λ
        sig_i = max(sig_s - sig_c, Decimal(0))
        b_i = (100 * sig_i / (4 * PI)).sqrt()
        out = dict(sld_re=10 * N * re_b, sld_im=-10 * N * im_b, sld_inc=10 * N * b_i,
                   coh_xs=N * sig_c, abs_xs=N * sig_a, inc_xs=N * sig_i,
                   penetration=1 / (N * sig_s + N * sig_a),
                   _N=N, _sig_s=sig_s, _sig_i=sig_i, _sig_c=sig_c)
        return out

    def check(self, got, atoms, density, lam, rel=1e-9):
        """compare a real result (7-list | 'missing' | 'vacuum') with the documented equations.
        Returns a list of human-readable failures (empty = the property holds here)."""
        want = self.scattering(atoms, density, lam)
        if isinstance(want, str) or isinstance(got, str):
            return [] if want == got else ["expected %s, got %s" % (want if isinstance(want, str) else "numbers", got if isinstance(got, str) else "numbers")]
        bad = []
        N, sig_s = want["_N"], want["_sig_s"]
        for i, name in enumerate(SCAT_FIELDS):
            w = float(want[name])
            g = got[i]
            if name == "inc_xs":
                ok = close(g, w, rel=rel) or abs(g - w) <= 1e-12 * float(N * sig_s)
            elif name == "sld_inc":
                ok = inc_close(g, w, float(N), float(N * sig_s), rel)
            elif name == "sld_re":
                ok = close(g, w, rel=rel, abs_=max(1e-300, 1e-12 * re_scale(float(N), float(N * sig_s))))
            else:
                ok = close(g, w, rel=rel, abs_=1e-300)
            if not ok:
                bad.append("%s: documented equations give %r, code returns %r" % (name, w, g))
        return bad


def parse_nodes(reply: str):
    """driver reply `nodes n (λ re im)*` -> [(λ, re, im)]"""
    t = reply.split()
    assert t[0] == "nodes", reply
    n = int(t[1])
    vals = [h2f(x) for x in t[2:]]
    return [tuple(vals[3 * i:3 * i + 3]) for i in range(n)]
