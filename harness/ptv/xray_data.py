"""Independent readers and exact reference arithmetic for the x-ray cluster (C05).

Nothing here imports periodictable: the `.nff` tables, `f0_WaasKirf.dat` and constants.py are
read as text.  Reference values are computed with `Fraction` / 50-digit `Decimal`.
"""
from __future__ import annotations

import math
from decimal import Decimal, getcontext
from fractions import Fraction

from . import translate
from .common import REPO
from .translate import Unreadable

getcontext().prec = 50

XSF_DIR = "periodictable/xsf"


def element_symbols():
    """{Z: symbol} from the core.py literal"""
    eb = translate.literal(translate.module_ast("periodictable/core.py"), "element_base")
    return {z: v[1] for z, v in eb.items()}


def element_ions():
    eb = translate.literal(translate.module_ast("periodictable/core.py"), "element_base")
    return {z: sorted(list(v[2]) + list(v[3])) for z, v in eb.items()}


class NffTable:
    """one .nff file: rows in file order as exact Fractions + the doubles the loader gets"""

    def __init__(self, z, sym, rows):
        self.z, self.sym = z, sym
        self.raw = rows                      # [(ev, f1, f2)] Fractions, file order
        self.rows = sorted(rows, key=lambda r: r[0])      # ordered by energy (stable)
        self.raw_increasing = all(a[0] < b[0] for a, b in zip(rows, rows[1:]))
        self.distinct = all(a[0] < b[0] for a, b in zip(self.rows, self.rows[1:]))
        # node energies in keV exactly as `float(text)*0.001` gives them
        self.kev = [float(r[0]) * 0.001 for r in self.rows]

    def bracket(self, e: float):
        """index j with kev[j] <= e < kev[j+1] (j = last for e == kev[-1]); None outside"""
        k = self.kev
        if not (e >= k[0] and e <= k[-1]):
            return None
        lo, hi = 0, len(k) - 1
        while hi - lo > 1:
            mid = (lo + hi) // 2
            if k[mid] <= e:
                lo = mid
            else:
                hi = mid
        if e == k[-1]:
            return len(k) - 1
        return lo

    def expected(self, e: float, col: int):
        """(value | nan, scale): the linear interpolation of the tabulated values at e keV,
        in exact arithmetic; NaN outside the range or next to a -9999 marker.
        scale = size of the node values involved (for cancellation-aware comparison)."""
        return self.expected_both(e)[col - 1]

    def expected_both(self, e: float):
        """((f1, scale1), (f2, scale2)) at e keV"""
        j = self.bracket(e)
        if j is None:
            return (math.nan, 0.0), (math.nan, 0.0)
        r0 = self.rows[j]
        if e == self.kev[j]:
            return tuple(((math.nan if r0[c] == -9999 else float(r0[c])), abs(float(r0[c]))) for c in (1, 2))
        r1 = self.rows[j + 1]
        x0, x1 = r0[0] / 1000, r1[0] / 1000
        t = (Fraction(e) - x0) / (x1 - x0)
        out = []
        for c in (1, 2):
            y0, y1 = r0[c], r1[c]
            if y0 == -9999 or y1 == -9999:
                out.append((math.nan, 0.0))
            else:
                out.append((float(y0 + (y1 - y0) * t), max(abs(float(y0)), abs(float(y1)))))
        return tuple(out)


def read_nff_tables():
    """{Z: NffTable} for every element symbol that has a file"""
    out = {}
    for z, sym in element_symbols().items():
        if sym == "n":
            continue
        p = REPO / XSF_DIR / (sym.lower() + ".nff")
        if not p.exists():
            continue
        rows = []
        for ln, line in enumerate(p.read_text().split("\n")[1:], 2):
            w = line.split()
            if not w:
                continue
            if len(w) != 3:
                raise Unreadable("%s:%d: expected 3 columns" % (p.name, ln))
            try:
                rows.append(tuple(Fraction(t) for t in w))
            except ValueError:
                raise Unreadable("%s:%d: not a number" % (p.name, ln))
        out[z] = NffTable(z, sym, rows)
    return out


def constants():
    names = ["avogadro_number", "plancks_constant", "speed_of_light", "electron_radius", "electron_mass"]
    return {n: Fraction(translate.number_text("periodictable/constants.py", n)) for n in names}


def energy_of_wavelength(w: float, c) -> float:
    return float(c["plancks_constant"] * c["speed_of_light"] / Fraction(w) * 10 ** 7)


def close_scaled(a, b, scale=0.0, rel=1e-9):
    """|a-b| <= rel*max(|a|,|b|, scale); NaN equals NaN"""
    a, b = float(a), float(b)
    if a != a or b != b:
        return a != a and b != b
    if a == b:
        return True
    if math.isinf(a) or math.isinf(b):
        return False
    return abs(a - b) <= rel * max(abs(a), abs(b), scale) + 1e-300


def f0_reference(a, b, c, stol):
    """Σ a·exp(−b·s²) + c in 50-digit Decimal"""
    stol = Fraction(stol)
    sd = Decimal(stol.numerator) / Decimal(stol.denominator)
    s2 = sd * sd
    tot = Decimal(c.numerator) / Decimal(c.denominator)
    for ai, bi in zip(a, b):
        ad = Decimal(ai.numerator) / Decimal(ai.denominator)
        bd = Decimal(bi.numerator) / Decimal(bi.denominator)
        tot += ad * (-(bd * s2)).exp()
    return float(tot)


def f0_key(symbol: str, q: int) -> str:
    """the table symbol that names the ion `symbol` with charge q (the file's convention)"""
    if q == 0:
        return symbol
    return "%s%d%s" % (symbol, abs(q), "+" if q > 0 else "-")
