"""Seeded generators shared by the correspondences (DESIGN 4.6).  Every random choice comes
from the single `random.Random` of the run, so a case is reproducible from (seed, index)."""
from __future__ import annotations

from .pyside import table

_CACHE = {}


def atom_pools(tbl=None):
    """keys by kind: element, isotope, alias(D/T), element ion, isotope ion"""
    tbl = table() if tbl is None else tbl
    if id(tbl) in _CACHE:
        return _CACHE[id(tbl)]
    el, iso, eli, isoi = [], [], [], []
    for e in tbl:
        if e.number == 0:
            continue
        el.append((e.number, 0, 0))
        for q in e.ions:
            eli.append((e.number, 0, q))
        for i in e.isotopes:
            iso.append((e.number, i, 0))
            for q in e.ions:
                isoi.append((e.number, i, q))
    pools = dict(element=el, isotope=iso, alias=[(1, 2, 0), (1, 3, 0)], element_ion=eli,
                 isotope_ion=isoi, common=[(1, 0, 0), (6, 0, 0), (8, 0, 0), (7, 0, 0), (26, 0, 0),
                                           (1, 2, 0), (26, 0, 2), (26, 0, 3), (8, 18, 0), (6, 13, 0)])
    _CACHE[id(tbl)] = pools
    return pools


def gen_atom(rng, tbl=None, kinds=("common", "element", "isotope", "alias", "element_ion", "isotope_ion")):
    """uniform over kinds first, then over the table, so rare kinds are not drowned"""
    pools = atom_pools(tbl)
    k = rng.choice(kinds)
    return rng.choice(pools[k])


BOUNDARY_COUNTS = [1, 1.0, 0.5, 2, 3, 10, 0.25, 1.5, 1e-4, 999999, 1000000.0, 0.1, 12, 100]


def gen_count(rng, allow_zero=False):
    r = rng.random()
    if r < 0.40:
        return rng.randint(1, 30)
    if r < 0.55:
        return 1
    if r < 0.75:
        d = rng.randint(1, 5)
        return max(round(rng.uniform(0.001, 50), d), 10.0 ** -d)   # never rounds to 0
    if r < 0.85:
        return rng.choice(BOUNDARY_COUNTS)
    if r < 0.90 and allow_zero:
        return rng.choice([0, 0.0])
    return float(rng.randint(1, 9))


def gen_struct(rng, depth=0, maxdepth=4, tbl=None, repeat_pool=None, kinds=None):
    """size-biased nested structure; atoms repeat with probability ~1/3"""
    if repeat_pool is None:
        repeat_pool = []
    n = rng.choice([1, 1, 2, 2, 3, 4]) if depth else rng.choice([1, 2, 2, 3, 3, 4, 5])
    out = []
    for _ in range(n):
        c = gen_count(rng)
        if depth < maxdepth and rng.random() < (0.30 if depth == 0 else 0.22):
            out.append((c, gen_struct(rng, depth + 1, maxdepth, tbl, repeat_pool, kinds)))
        else:
            if repeat_pool and rng.random() < 0.35:
                a = rng.choice(repeat_pool)
            else:
                a = gen_atom(rng, tbl, kinds) if kinds else gen_atom(rng, tbl)
                repeat_pool.append(a)
            out.append((c, a))
    return out


def depth_of(s):
    from .pyside import is_key
    d = 0
    for _, f in s:
        if not is_key(f):
            d = max(d, 1 + depth_of(f))
    return d
