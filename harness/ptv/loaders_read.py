"""Independent reading of the embedded tables of the loader cluster (C06, C07, C20).

Everything here works on the *source text* of /repo (string / number literals found with `ast`,
data files read as text) and shares no code with the library's loaders nor with the Lean
model: fields are recognised with regular expressions written from the documented notations,
numbers are kept exact (`Dec` = integer mantissa and number of decimals).  It is used

* by the translator (`translators/loaders.py`) to write `Generated/*.lean`, and
* by the direct oracles of C06 / C07 / C20 ("the row that belongs to this atom").
"""
from __future__ import annotations

import ast
import re
from decimal import Decimal
from fractions import Fraction

from . import translate
from .translate import Unreadable

# --------------------------------------------------------------------------- exact decimals

NUM = r"[-+]?(?:[0-9]+\.?[0-9]*|\.[0-9]+)(?:[eE][-+]?[0-9]+)?"


class Dec(tuple):
    """exact decimal m / 10**e (not normalised)"""
    __slots__ = ()

    def __new__(cls, m, e):
        return tuple.__new__(cls, (int(m), int(e)))

    @property
    def m(self):
        return self[0]

    @property
    def e(self):
        return self[1]

    def frac(self) -> Fraction:
        return Fraction(self[0], 10 ** self[1])

    def lean(self) -> str:
        return "⟨%s, %d⟩" % (translate.lean_int(self[0]), self[1])


def dec(text: str) -> Dec:
    """exact value of a decimal literal as written"""
    text = text.strip()
    if not re.fullmatch(NUM, text):
        raise Unreadable("not a decimal literal: %r" % text)
    sign, digits, exp = Decimal(text).as_tuple()
    m = int("".join(map(str, digits)))
    if sign:
        m = -m
    if exp >= 0:
        return Dec(m * 10 ** exp, 0)
    return Dec(m, -exp)


# --------------------------------------------------------------------------- value(unc) notations

def read_unc(text: str):
    """The documented notations (util.py docstring):
        ''            -> ('missing',)
        'v'           -> ('plain', v)
        'v(u)' ['#']  -> ('valunc', v, u)   u in units of the last digit of v unless u has a point
        '[v]'         -> ('nominal', v)
        '[lo,hi]'     -> ('range', lo, hi)
    """
    if text == "":
        return ("missing",)
    m = re.fullmatch(r"\[\s*(%s)\s*\]" % NUM, text)
    if m:
        return ("nominal", dec(m.group(1)))
    m = re.fullmatch(r"\[\s*(%s)\s*,\s*(%s)\s*\]" % (NUM, NUM), text)
    if m:
        return ("range", dec(m.group(1)), dec(m.group(2)))
    m = re.fullmatch(r"(%s)\(([0-9]+|[0-9]*\.[0-9]*)\)[#*]?" % NUM, text)
    if m:
        v = dec(m.group(1))
        u = m.group(2)
        if "." in u or "." not in m.group(1):
            return ("valunc", v, dec(u))
        # units of the last digit of v
        return ("valunc", v, Dec(int(u), v.e))
    m = re.fullmatch(NUM, text)
    if m:
        return ("plain", dec(text))
    raise Unreadable("field %r is in none of the documented notations" % text)


def unc_value(r):
    """(value, uncertainty) as exact Fractions; the uncertainty of a range is returned as
    ('range-width', hi-lo) because (hi-lo)/sqrt(12) is irrational"""
    k = r[0]
    if k == "missing":
        return None, None
    if k in ("plain", "nominal"):
        return r[1].frac(), Fraction(0)
    if k == "valunc":
        return r[1].frac(), r[2].frac()
    return (r[1].frac() + r[2].frac()) / 2, ("range-width", r[2].frac() - r[1].frac())


def unc_lean(r) -> str:
    k = r[0]
    if k == "missing":
        return ".missing"
    if k == "plain":
        return "(.plain %s)" % r[1].lean()
    if k == "nominal":
        return "(.nominal %s)" % r[1].lean()
    if k == "valunc":
        return "(.valUnc %s %s)" % (r[1].lean(), r[2].lean())
    return "(.range %s %s)" % (r[1].lean(), r[2].lean())


def sym_code(sym: str) -> int:
    return translate.sym_code(sym)


# --------------------------------------------------------------------------- mass.py

def mass_source():
    """raw text of the three tables (string literals of mass.py)"""
    tree = translate.module_ast("periodictable/mass.py")
    out = {}
    for name in ("isotope_mass", "element_mass", "isotope_abundance"):
        v = translate.literal(tree, name)
        if not isinstance(v, str):
            raise Unreadable("mass.%s is not a string literal" % name)
        out[name] = v
    return out


def read_iso_mass(text: str):
    """[(z, sym, a, m_reading, avg_reading)]"""
    rows = []
    for line in text.split("\n"):
        m = re.fullmatch(r"\s*([0-9]+)\s*-([^-,]*)-\s*([0-9]+)\s*,([^,]*),([^,]*),([^,]*)", line)
        if not m:
            raise Unreadable("isotope_mass line %r" % line)
        rows.append((int(m.group(1)), m.group(2), int(m.group(3)), read_unc(m.group(4)),
                     read_unc(m.group(6))))
    return rows


def read_element_mass(text: str):
    """[(z, reading | None)]  (None for '-')"""
    rows = []
    for line in text.split("\n"):
        m = re.match(r"\s*([0-9]+)\s+(\S+)\s+(\S+)\s+(\S+)", line)
        if not m:
            raise Unreadable("element_mass line %r" % line)
        rows.append((int(m.group(1)), None if m.group(4) == "-" else read_unc(m.group(4))))
    return rows


def read_abundance(text: str):
    """[('header', z) | ('entry', a, reading)]"""
    out = []
    for line in text.split("\n"):
        if re.match(r"[ \t]", line):
            m = re.match(r"\s+([0-9]+)\s+(\S+)", line)
            if not m:
                raise Unreadable("isotope_abundance entry %r" % line)
            out.append(("entry", int(m.group(1)), read_unc(m.group(2))))
        else:
            m = re.match(r"([0-9]+)(\s|$)", line)
            if not m:
                raise Unreadable("isotope_abundance header %r" % line)
            out.append(("header", int(m.group(1))))
    return out


def abundance_sections(lines):
    """{z: [(a, reading)]} in table order (the composition of each element)"""
    out, cur = {}, None
    for l in lines:
        if l[0] == "header":
            cur = out.setdefault(l[1], [])
        else:
            if cur is None:
                raise Unreadable("isotope entry before the first element header")
            cur.append((l[1], l[2]))
    return out


def neutron_mass_consts():
    return (dec(translate.number_text("periodictable/constants.py", "neutron_mass")),
            dec(translate.number_text("periodictable/constants.py", "neutron_mass_unc")))


# --------------------------------------------------------------------------- density.py

def density_source():
    """[(symbol, Dec | None)] from the keyword arguments of `element_densities = dict(…)`"""
    rel = "periodictable/density.py"
    tree = translate.module_ast(rel)
    node = translate.assigned(tree, "element_densities")
    text = translate.src(rel)
    rows = []
    if isinstance(node, ast.Call) and isinstance(node.func, ast.Name) and node.func.id == "dict" \
            and not node.args:
        items = [(k.arg, k.value) for k in node.keywords]
    elif isinstance(node, ast.Dict):
        items = [(ast.literal_eval(k), v) for k, v in zip(node.keys, node.values)]
    else:
        raise Unreadable("element_densities is not a dict(...) of literals")
    for key, v in items:
        if key is None:
            raise Unreadable("element_densities uses ** expansion")
        if isinstance(v, ast.Tuple) and v.elts:
            v = v.elts[0]
        if isinstance(v, ast.Constant) and v.value is None:
            rows.append((key, None))
            continue
        seg = ast.get_source_segment(text, v)
        if seg is None or not re.fullmatch(NUM, seg.strip()):
            raise Unreadable("density of %s is not a numeric literal: %r" % (key, seg))
        rows.append((key, dec(seg)))
    return rows


# --------------------------------------------------------------------------- nsf.py / nsf_tables.py

def nsf_source():
    """raw text of nsftable / nsftableI, ABSORPTION_WAVELENGTH"""
    tree = translate.module_ast("periodictable/nsf.py")
    out = {}
    for name in ("nsftable", "nsftableI"):
        v = translate.literal(tree, name)
        if not isinstance(v, str):
            raise Unreadable("nsf.%s is not a string literal" % name)
        out[name] = v
    out["ABSORPTION_WAVELENGTH"] = dec(translate.number_text("periodictable/nsf.py", "ABSORPTION_WAVELENGTH"))
    return out


def read_fix(text: str):
    """a numeric column of the neutron table: '' missing, '<v' a limit, 'v*' / 'v(u)*' an
    estimate – all read as the bare number (with its uncertainty kept in the reading)"""
    t = text
    if t.startswith("<"):
        t = t[1:]
    if t.endswith("*"):
        t = t[:-1]
    if "<" in t or "*" in t:
        raise Unreadable("neutron table field %r" % text)
    return read_unc(t)


def read_nsf(text: str):
    """[dict(z, sym, a, p, spin, b_c, bp, bm, isE, coh, inc, tot, abs)]; a = 0 for element rows;
    p = None for a half-life, else a reading ('missing' when blank; not read for element rows)"""
    rows = []
    for line in text.split("\n"):
        c = line.split(",")
        if len(c) != 11:
            raise Unreadable("nsftable line with %d columns: %r" % (len(c), line))
        m = re.fullmatch(r"([0-9]+)-([^-]*)(?:-([0-9]+))?", c[0])
        if not m:
            raise Unreadable("nsftable key %r" % c[0])
        a = int(m.group(3)) if m.group(3) is not None else 0
        if a == 0:
            p = ("missing",)
        elif " " in c[1]:
            if not re.fullmatch(r"[0-9.eE+-]+ [A-Za-z]+", c[1]):
                raise Unreadable("nsftable half-life %r" % c[1])
            p = None
        else:
            p = read_fix(c[1])
        rows.append(dict(z=int(m.group(1)), sym=m.group(2), a=a, p=p, spin=c[2],
                         b_c=read_fix(c[3]), bp=read_fix(c[4]), bm=read_fix(c[5]), isE=(c[6] == "E"),
                         coh=read_fix(c[7]), inc=read_fix(c[8]), tot=read_fix(c[9]), abs=read_fix(c[10])))
    return rows


def read_nsf_imag(text: str):
    """[dict(z, a, b_c_i, bp_i, bm_i)]"""
    rows = []
    for line in text.split("\n"):
        c = line.split(",")
        if len(c) != 4:
            raise Unreadable("nsftableI line %r" % line)
        m = re.fullmatch(r"([0-9]+)-([^-]*)(?:-([0-9]+))?", c[0])
        if not m:
            raise Unreadable("nsftableI key %r" % c[0])
        rows.append(dict(z=int(m.group(1)), sym=m.group(2), a=int(m.group(3)) if m.group(3) else 0,
                         b_c_i=read_fix(c[1]), bp_i=read_fix(c[2]), bm_i=read_fix(c[3])))
    return rows


def _num_node(text, node):
    """exact Dec of a numeric literal node (possibly negated)"""
    neg = False
    while isinstance(node, ast.UnaryOp) and isinstance(node.op, (ast.USub, ast.UAdd)):
        if isinstance(node.op, ast.USub):
            neg = not neg
        node = node.operand
    seg = ast.get_source_segment(text, node)
    if not isinstance(node, ast.Constant) or seg is None or not re.fullmatch(NUM, seg.strip()):
        raise Unreadable("not a numeric literal: %r" % seg)
    d = dec(seg)
    return Dec(-d.m, d.e) if neg else d


def energy_tables_source():
    """[(symbol, A | 0, [(E_eV, re, im, absval)])] from nsf_tables.ENERGY_DEPENDENT_TABLES (dict order)"""
    rel = "periodictable/nsf_tables.py"
    tree = translate.module_ast(rel)
    node = translate.assigned(tree, "ENERGY_DEPENDENT_TABLES")
    text = translate.src(rel)
    if not isinstance(node, ast.Dict):
        raise Unreadable("ENERGY_DEPENDENT_TABLES is not a dict literal")
    out = []
    for k, v in zip(node.keys, node.values):
        try:
            key = ast.literal_eval(k)
        except (ValueError, TypeError):
            raise Unreadable("ENERGY_DEPENDENT_TABLES key is not a literal")
        if not (isinstance(key, tuple) and len(key) == 2 and isinstance(key[0], str)
                and (key[1] is None or isinstance(key[1], int))):
            raise Unreadable("ENERGY_DEPENDENT_TABLES key %r" % (key,))
        if not isinstance(v, (ast.List, ast.Tuple)):
            raise Unreadable("ENERGY_DEPENDENT_TABLES[%r] is not a list literal" % (key,))
        rows = []
        for r in v.elts:
            if not isinstance(r, (ast.List, ast.Tuple)) or len(r.elts) != 4:
                raise Unreadable("ENERGY_DEPENDENT_TABLES[%r] row is not a 4-list" % (key,))
            rows.append(tuple(_num_node(text, e) for e in r.elts))
        out.append((key[0], key[1] or 0, rows))
    return out


# --------------------------------------------------------------------------- ancillary tables (C20)

def _string_literal(rel, name):
    v = translate.literal(translate.module_ast(rel), name)
    if not isinstance(v, str):
        raise Unreadable("%s: %s is not a string literal" % (rel, name))
    return v


def cordero_source():
    return _string_literal("periodictable/covalent_radius.py", "Cordero")


def read_cordero(text: str):
    """[None (alternate spin state, '-') | (z, r, dr)]; dr in units of 0.01 Å, 0 when not given"""
    rows = []
    for line in text.split("\n"):
        m = re.fullmatch(r"\s*(-|[0-9]+)\s+(\S+)\s+(%s)(?:\s+(%s)(?:\s+\S+)*)?\s*" % (NUM, NUM), line)
        if not m:
            raise Unreadable("Cordero line %r" % line)
        if m.group(1) == "-":
            rows.append(None)
        else:
            rows.append((int(m.group(1)), dec(m.group(3)), dec(m.group(4)) if m.group(4) else Dec(0, 0)))
    return rows


def crystal_source():
    """[None | (symmetry, [(key, Dec)])] – list index is Z"""
    rel = "periodictable/crystal_structure.py"
    tree = translate.module_ast(rel)
    node = translate.assigned(tree, "crystal_structures")
    text = translate.src(rel)
    if not isinstance(node, (ast.List, ast.Tuple)):
        raise Unreadable("crystal_structures is not a list literal")
    out = []
    for e in node.elts:
        if isinstance(e, ast.Constant) and e.value is None:
            out.append(None)
            continue
        if not isinstance(e, ast.Dict):
            raise Unreadable("crystal_structures entry is not a dict literal")
        sym, params = None, []
        for k, v in zip(e.keys, e.values):
            if not (isinstance(k, ast.Constant) and isinstance(k.value, str)):
                raise Unreadable("crystal_structures key is not a string")
            if k.value == "symmetry":
                if not (isinstance(v, ast.Constant) and isinstance(v.value, str)):
                    raise Unreadable("crystal symmetry is not a string")
                sym = v.value
            else:
                params.append((k.value, _num_node(text, v)))
        if sym is None:
            raise Unreadable("crystal_structures entry without symmetry")
        out.append((sym, params))
    return out


def spectral_source():
    return _string_literal("periodictable/xsf.py", "spectral_lines_data")


def read_spectral(text: str):
    """[(symbol, K_alpha, K_beta1)]"""
    rows = []
    for line in text.split("\n"):
        m = re.fullmatch(r"\s*([A-Za-z]+)\s+(%s)\s+(%s)\s*" % (NUM, NUM), line)
        if not m:
            raise Unreadable("spectral_lines_data line %r" % line)
        rows.append((m.group(1), dec(m.group(2)), dec(m.group(3))))
    return rows


def cfml_source():
    return _string_literal("periodictable/magnetic_ff.py", "CFML_DATA")


JN_OF = {"Form": None, "j2": "j2", "j4": "j4", "j6": "j6"}


def read_cfml(text: str):
    """[(jn, symbol, charge, [Dec])] in table order, read from the whole Fortran text with one
    regular expression (not line by line)"""
    rows = []
    pat = re.compile(r"Magnetic_(Form|j2|j4|j6)\s*\(\s*[0-9]+\s*\)\s*=\s*Magnetic_Form_Type\s*\(\s*\"([^\"]*)\"\s*,"
                     r"\s*(?:&\s*\n)?\s*\(/([^/]*)/\)\s*\)")
    for m in pat.finditer(text):
        kind, state, nums = m.group(1), m.group(2), m.group(3)
        if kind == "Form":
            if state[:1] not in ("M", "J"):
                raise Unreadable("Magnetic_Form state %r" % state)
            jn = "j0" if state[0] == "M" else "J"
            state = state[1:]
        else:
            jn = kind
        ms = re.fullmatch(r"([A-Za-z]{1,2}?)([0-9])\s*", state)
        if not ms:
            raise Unreadable("CFML state %r" % state)
        sym = ms.group(1)
        sym = sym[0].upper() + sym[1:].lower()
        rows.append((jn, sym, int(ms.group(2)), [dec(x) for x in nums.split(",")]))
    n_eq = sum(1 for line in text.replace("&\n", "").split("\n") if "=" in line)
    if n_eq != len(rows):
        raise Unreadable("CFML_DATA: %d lines contain '=' but %d entries were recognised" % (n_eq, len(rows)))
    return rows


def f0_source():
    p = translate.REPO / "periodictable" / "xsf" / "f0_WaasKirf.dat"
    try:
        return p.read_text()
    except OSError as e:
        raise Unreadable("f0_WaasKirf.dat: %s" % e)


def read_f0(text: str):
    """[(name, Z, charge | None, a[5], c, b[5])] – DABAX blocks `#S Z name / #N / #L / numbers`;
    charge None for valence-state entries (names that are not `Sym` or `Sym<n><+|->`)"""
    out = []
    pat = re.compile(r"^#S\s+([0-9]+)\s+(\S+)[^\n]*\n(?:#[^SL][^\n]*\n)*#L[^\n]*\n([^\n]*)$", re.M)
    for m in pat.finditer(text):
        nums = m.group(3).split()
        if len(nums) != 11:
            raise Unreadable("f0 block %s has %d numbers" % (m.group(2), len(nums)))
        v = [dec(x) for x in nums]
        name = m.group(2)
        mm = re.fullmatch(r"([A-Z][a-z]?)(?:([0-9]+)([+-]))?", name)
        q = None
        if mm:
            q = 0 if mm.group(2) is None else int(mm.group(2)) * (1 if mm.group(3) == "+" else -1)
        out.append((name, int(m.group(1)), q, v[0:5], v[5], v[6:11]))
    if len(out) != len(re.findall(r"^#S\b", text, re.M)):
        raise Unreadable("f0_WaasKirf.dat: not every #S block was recognised")
    return out
