"""Shared machinery of every check: paths, seeded PRNG, float <-> bit pattern, the Lean
build + axiom audit, the driver line protocol, verdict / evidence / findings.

Runs under /venv/bin/python (stdlib + numpy + the repository itself, imported in place).
"""
from __future__ import annotations

import fcntl
import json
import os
import random
import re
import struct
import subprocess
import sys
import time
from pathlib import Path

VERIF = Path(__file__).resolve().parents[2]
REPO = Path(os.environ.get("PTV_REPO", "/repo"))
LEAN = VERIF / "lean"
GEN = LEAN / "PtVerif" / "Generated"
EVIDENCE = VERIF / "evidence"
REPLAYS = VERIF / "replays"
DRIVER = LEAN / ".lake" / "build" / "bin" / "ptdriver"

ALLOWED_AXIOMS = {"propext", "Classical.choice", "Quot.sound"}
FORBIDDEN = re.compile(
    r"\bsorry\b|\badmit\b|^\s*axiom\s|native_decide|bv_decide|implemented_by|\bunsafe\s|maxHeartbeats\s+0")

TRUSTED_BASE = [
    "Lean 4.33.0 kernel (thorough tier: re-checked by leanchecker)",
    "Mathlib v4.33.0 as a library of kernel-checked lemmas",
    "axioms: propext, Classical.choice, Quot.sound only (audited per theorem on every run)",
    "harness/ptv/translate.py (ast literal extraction -> Generated/*.lean)",
    "Lean compiler + runtime for the executable driver (correspondence only; no theorem depends on it)",
    "the correspondence harness (generators, canonicalisation, tolerances)",
]


def import_repo():
    """import the real code in place (hooks guard on)"""
    os.environ.setdefault("PERIODICTABLE_VERIF", "1")
    p = str(REPO)
    if p not in sys.path:
        sys.path.insert(0, p)
    import periodictable  # noqa
    got = Path(periodictable.__file__).resolve().parent.parent
    if got != REPO.resolve():
        raise InfraError("periodictable imported from %s, expected %s" % (got, REPO))
    return periodictable


class InfraError(Exception):
    """infrastructure failure: exit 2, never a violation"""


# --------------------------------------------------------------------------- floats

def f2h(x) -> str:
    return "%016x" % struct.unpack("<Q", struct.pack("<d", float(x)))[0]


def h2f(s: str) -> float:
    return struct.unpack("<d", struct.pack("<Q", int(s, 16)))[0]


def close(a, b, rel=1e-9, abs_=1e-300) -> bool:
    """tolerant float comparison used by every correspondence (DESIGN 4.5)"""
    if a is None or b is None:
        return a is None and b is None
    a = float(a)
    b = float(b)
    if a != a or b != b:
        return a != a and b != b
    if a == b:
        return True
    if a in (float("inf"), float("-inf")) or b in (float("inf"), float("-inf")):
        return False
    return abs(a - b) <= max(abs_, rel * max(abs(a), abs(b)))


# --------------------------------------------------------------------------- lean build / audit

class _Lock:
    def __enter__(self):
        LEAN.mkdir(exist_ok=True)
        (LEAN / ".lake").mkdir(exist_ok=True)
        self.f = open(LEAN / ".lake" / "ptv.lock", "w")
        fcntl.flock(self.f, fcntl.LOCK_EX)
        return self

    def __exit__(self, *a):
        fcntl.flock(self.f, fcntl.LOCK_UN)
        self.f.close()


def lake_build(targets, timeout=3000):
    """(ok, output).  Serialised by a file lock so concurrent checks do not race in .lake"""
    with _Lock():
        try:
            p = subprocess.run(["lake", "build", *targets], cwd=LEAN, capture_output=True,
                               text=True, timeout=timeout)
        except subprocess.TimeoutExpired:
            raise InfraError("lake build timed out: %s" % (targets,))
    return p.returncode == 0, p.stdout + p.stderr


AUDIT_TMPL = """import Lean
import {module}
open Lean Elab Command
run_cmd do
  let env ← getEnv
  let some idx := env.getModuleIdx? `{module} | throwError "no module"
  for (n, ci) in env.constants.map₁.toList do
    if env.getModuleIdxFor? n == some idx then
      match ci with
      | .thmInfo _ =>
        if !n.isInternalDetail then
          let axs ← Lean.collectAxioms n
          logInfo m!"THM {{n}} AXIOMS {{axs.toList}}"
      | _ => pure ()
"""


def audit(module: str):
    """list the theorems of a property module with the axioms each depends on.
    Returns [(name, [axioms])]."""
    (LEAN / ".lake").mkdir(exist_ok=True)
    f = LEAN / ".lake" / ("audit_%s.lean" % module.replace(".", "_"))
    f.write_text(AUDIT_TMPL.format(module=module))
    with _Lock():
        p = subprocess.run(["lake", "env", "lean", str(f)], cwd=LEAN, capture_output=True,
                           text=True, timeout=1200)
    if p.returncode != 0:
        raise InfraError("axiom audit failed for %s:\n%s" % (module, (p.stdout + p.stderr)[-2000:]))
    out = []
    text = p.stdout.replace("\n  ", " ")
    for m in re.finditer(r"THM (\S+) AXIOMS \[([^\]]*)\]", text):
        axs = [a.strip() for a in m.group(2).replace("\n", " ").split(",") if a.strip()]
        out.append((m.group(1), axs))
    return sorted(out)


def import_cone(module: str):
    """project-local .lean files transitively imported by `module`"""
    seen, todo = [], [module]
    while todo:
        m = todo.pop()
        path = LEAN / (m.replace(".", "/") + ".lean")
        if not path.exists() or path in seen:
            continue
        seen.append(path)
        for line in path.read_text().splitlines():
            mm = re.match(r"\s*import\s+(PtVerif\.\S+)", line)
            if mm:
                todo.append(mm.group(1))
    return seen


def strip_comments(src: str) -> str:
    src = re.sub(r"/-.*?-/", "", src, flags=re.S)
    return re.sub(r"--.*", "", src)


def grep_forbidden(module: str):
    hits = []
    for path in import_cone(module):
        for i, line in enumerate(strip_comments(path.read_text()).splitlines(), 1):
            if FORBIDDEN.search(line):
                hits.append("%s:%d: %s" % (path.relative_to(LEAN), i, line.strip()))
    return hits


# --------------------------------------------------------------------------- interpreter settings

SETTINGS = {
    "default": [],
    # asserts compiled away
    "optimize": ["-O"],
    # UserWarning raised in the library's own data / calculator modules is an error (formulas.py and fasta.py are
    # left out: pyparsing attributes its deprecation warnings to the former, the latter deprecates tritium itself)
    "userwarning": [x for m in ("nsf", "xsf", "activation", "core", "mass", "density", "util", "cromermann",
                                "magnetic_ff", "covalent_radius", "crystal_structure", "nsf_tables")
                    for x in ("-W", "error::UserWarning:periodictable.%s" % m)]
    + ["-W", "error::UserWarning:__main__"],     # (a warning raised with stacklevel=2 is attributed to the caller)
    "npraise": [],
    "decimal4": [],
}


def settings_probe(run):
    """a small fixed set of the property's values, computed in fresh interpreters under process-global settings an
    application is entitled to have (python -O, UserWarning as error in the library's modules, numpy error state
    'raise', a 4-digit decimal context): they do not depend on the setting.  See ptv/flags_probe.py."""
    import json as _json
    env = dict(os.environ, PYTHONPATH=str(VERIF / "harness"), PYTHONDONTWRITEBYTECODE="1")
    env.pop("PYTHONOPTIMIZE", None)
    procs = {}
    for name, flags in SETTINGS.items():
        procs[name] = subprocess.Popen([sys.executable] + flags + ["-m", "ptv.flags_probe", str(REPO), run.pid, name],
                                       stdout=subprocess.PIPE, stderr=subprocess.PIPE, text=True, env=env)
    outs = {}
    for name, p in procs.items():
        try:
            so, se = p.communicate(timeout=600)
        except subprocess.TimeoutExpired:
            p.kill()
            raise InfraError("settings probe (%s) timed out" % name)
        line = next((l for l in so.splitlines() if l.startswith("PROBE ")), None)
        outs[name] = _json.loads(line[6:]) if line else {"<interpreter>": "no output: " + se.strip()[-300:]}
    ref = outs["default"]
    for name, got in outs.items():
        if name == "default":
            continue
        for key in sorted(set(ref) | set(got)):
            run.count(key=("settings", name, key), nontrivial=True, tag="interpreter-settings")
            if ref.get(key) != got.get(key):
                run.violation("under the interpreter setting %r the value %r is %s; by default it is %s"
                              % (name, key, str(got.get(key))[:300], str(ref.get(key))[:300]),
                              dict(kind="interpreter-setting", setting=name, flags=SETTINGS[name], value=key,
                                   got=str(got.get(key))[:400], default=str(ref.get(key))[:400]))
    bad = [k for k, v in ref.items() if isinstance(v, str) and v.startswith("raises ") and k == "<section>"]
    if bad:
        run.violation("the probe values cannot be computed on this tree: %s" % ref["<section>"][:300],
                      dict(kind="interpreter-setting", setting="default", value="<section>"))


# --------------------------------------------------------------------------- driver

def run_driver(sub: str, lines, timeout=3000):
    """send lines to `ptdriver <sub>`, return the list of reply strings (without 'R ')"""
    if not DRIVER.exists():
        raise InfraError("driver not built: %s" % DRIVER)
    data = "\n".join(lines) + "\n"
    try:
        p = subprocess.run([str(DRIVER), sub], input=data, capture_output=True, text=True,
                           timeout=timeout)
    except subprocess.TimeoutExpired:
        raise InfraError("driver timed out")
    if p.returncode != 0:
        raise InfraError("driver failed (%s): %s" % (p.returncode, p.stderr[-1000:]))
    return [l[2:] for l in p.stdout.split("\n") if l.startswith("R ")]


# --------------------------------------------------------------------------- the run object

class Run:
    """One execution of one property's check."""

    def __init__(self, pid: str, tier: str, seed: int):
        self.pid, self.tier, self.seed = pid, tier, seed
        self.t0 = time.time()
        self.rng = random.Random("%s/%d" % (pid, seed))
        self.module = "PtVerif.Properties.%s" % pid
        self.theorems = []           # [(name, axioms)]
        self.proof_broken = []       # names / messages of obligations that no longer check
        self.disagreements = []      # correspondence disagreements {corr, input, model, impl}
        self.violations = []         # confirmed on the real code {what, input, ...}
        self.known_hits = []
        self.evaluations = 0
        self.nontrivial = set()
        self.samples = []
        self.dist = {}
        self.notes = []
        self.exhaustive = False
        self.findings = load_findings(pid)

    # -- counting -----------------------------------------------------------------
    def count(self, key=None, nontrivial=False, sample=None, tag=None):
        self.evaluations += 1
        if nontrivial and key is not None:
            self.nontrivial.add(key)
        if tag is not None:
            self.dist[tag] = self.dist.get(tag, 0) + 1
        if sample is not None and len(self.samples) < 8:
            self.samples.append(sample)

    # -- step 1/2: regenerate + build + audit ---------------------------------------
    def prove(self, generated=()):
        from . import translate
        t = time.time()
        try:
            translate.generate(list(generated))
        except translate.Unreadable as e:
            self.proof_broken.append("translator: %s" % e)
            self.notes.append("translator could not read a source construct: %s" % e)
        ok, out = lake_build([self.module, "ptdriver"])
        self.build_s = time.time() - t
        if not ok:
            errs = re.findall(r"error: (\S+?):(\d+):\d+: (.*)", out)
            names = failing_decls(out)
            self.proof_broken.extend(names or ["build of %s failed" % self.module])
            self.build_log = out[-6000:]
            return False
        hits = grep_forbidden(self.module)
        if hits:
            raise InfraError("forbidden construct in proof cone: %s" % hits[:5])
        self.theorems = audit(self.module)
        bad = [(n, a) for n, a in self.theorems if not set(a) <= ALLOWED_AXIOMS]
        if bad:
            raise InfraError("theorem depends on a disallowed axiom: %s" % bad[:3])
        if not self.theorems:
            raise InfraError("no theorems found in %s" % self.module)
        if self.tier == "thorough":
            with _Lock():
                p = subprocess.run(["lake", "env", "leanchecker", self.module], cwd=LEAN,
                                   capture_output=True, text=True, timeout=3000)
            self.leanchecker = p.returncode
            if p.returncode != 0:
                self.proof_broken.append("leanchecker rejected %s" % self.module)
        return True

    # -- step 3: correspondence -----------------------------------------------------
    def disagree(self, corr, inp, model, impl, **extra):
        d = dict(corr=corr, input=inp, model=model, impl=impl)
        d.update(extra)
        self.disagreements.append(d)

    def violation(self, what, inp, **extra):
        """a failure of the *property* shown on the real code at `inp`"""
        d = dict(what=what, input=inp)
        d.update(extra)
        for f in self.findings.get("known", []):
            if finding_matches(f, d):
                if f["id"] not in [k["id"] for k in self.known_hits]:
                    self.known_hits.append(f)
                return
        self.violations.append(d)

    # -- step 4/5: verdict + evidence --------------------------------------------------
    def finish(self, rule, assumptions=(), extra=None):
        REPLAYS.mkdir(exist_ok=True)
        EVIDENCE.mkdir(exist_ok=True)
        code = 0
        lines = []
        for f in self.known_hits:
            lines.append("KNOWN-FINDING: property=%s %s" % (self.pid, f["what"]))
        stamp = "%s-%s-%d" % (self.pid, self.tier, self.seed)
        if self.violations:
            path = REPLAYS / ("%s-violation.json" % stamp)
            path.write_text(json.dumps(dict(
                property=self.pid, kind="failing-input", violations=self.violations[:20],
                replay_cmd="./check %s --replay %s" % (self.pid, path.relative_to(VERIF)),
                proof_broken=self.proof_broken, disagreements=self.disagreements[:20]), indent=1, default=str))
            lines.append("VIOLATION property=%s replay=%s" % (self.pid, path.relative_to(VERIF)))
            code = 1
        elif self.proof_broken or self.disagreements:
            path = REPLAYS / ("%s-unproved.json" % stamp)
            path.write_text(json.dumps(dict(
                property=self.pid, kind="no-failing-input-found",
                no_longer_checks=self.proof_broken + sorted({d["corr"] for d in self.disagreements}),
                disagreements=self.disagreements[:20],
                build_log=getattr(self, "build_log", None)), indent=1, default=str))
            lines.append("VIOLATION property=%s replay=%s no-failing-input-found"
                         % (self.pid, path.relative_to(VERIF)))
            code = 1
        nthm = len(self.theorems)
        cov = dict(
            obligations=max(nthm + len(self.proof_broken), 1),
            discharged=nthm,
            checker_cmd="cd lean && lake build %s && lake env lean .lake/audit_%s.lean  (thorough: lake env leanchecker %s)"
                        % (self.module, self.module.replace(".", "_"), self.module),
            trusted_base=TRUSTED_BASE,
            theorems=[dict(name=n, axioms=a) for n, a in self.theorems],
            evaluations=self.evaluations,
            distinct_nontrivial=len(self.nontrivial),
            rule=rule,
            samples=self.samples or ["(no correspondence cases were run)"],
            distribution=self.dist,
            exhaustive=self.exhaustive,
            correspondence_disagreements=len(self.disagreements),
            proof_obligations_broken=self.proof_broken,
            known_findings_confirmed=[f["id"] for f in self.known_hits],
            build_s=round(getattr(self, "build_s", 0.0), 2),
            notes=self.notes,
        )
        if extra:
            cov.update(extra)
        ev = dict(property_id=self.pid, tier=self.tier, seed=self.seed, level="proof",
                  coverage=cov, assumptions=list(assumptions),
                  wall_s=round(time.time() - self.t0, 2),
                  violations=len(self.violations) + (1 if code and not self.violations else 0))
        (EVIDENCE / ("%s.json" % self.pid)).write_text(json.dumps(ev, indent=1, default=str))
        for l in lines:
            print(l)
        print("%s %s seed=%d: theorems=%d evaluations=%d nontrivial=%d disagreements=%d violations=%d wall=%.1fs"
              % (self.pid, self.tier, self.seed, nthm, self.evaluations, len(self.nontrivial),
                 len(self.disagreements), len(self.violations), time.time() - self.t0))
        return code


def failing_decls(out: str):
    """names of the declarations lake reported errors in (best effort: file:line -> decl name)"""
    names = []
    for m in re.finditer(r"error: (PtVerif/\S+?\.lean):(\d+):\d+", out):
        path, line = LEAN / m.group(1), int(m.group(2))
        try:
            src = path.read_text().splitlines()
        except OSError:
            continue
        name = None
        for i in range(min(line, len(src)) - 1, -1, -1):
            mm = re.match(r"\s*(?:private\s+|protected\s+)?(?:theorem|lemma|def|example|instance)\s+(\S+)?", src[i])
            if mm:
                name = "%s:%s" % (m.group(1), mm.group(1) or "example@%d" % (i + 1))
                break
        names.append(name or "%s:%d" % (m.group(1), line))
    return sorted(set(names))


class CallTimeout(BaseException):
    """a single call into the real code did not return within its limit (a BaseException so that no
    `except Exception` on the way swallows it; the timer re-fires every few seconds in case a bare
    `except:` does)"""


class time_limit:
    """`with time_limit(20): real_code()` – raises CallTimeout (main thread, SIGALRM).  A call that does
    not finish is a failure to compute, reported by the caller as a violation, not a hung check."""

    def __init__(self, seconds):
        self.seconds = int(seconds)

    def __enter__(self):
        import signal

        def _raise(signum, frame):
            raise CallTimeout("no result after %d s" % self.seconds)
        self._old = signal.signal(signal.SIGALRM, _raise)
        signal.setitimer(signal.ITIMER_REAL, self.seconds, 5)
        return self

    def __exit__(self, *a):
        import signal
        signal.setitimer(signal.ITIMER_REAL, 0)
        signal.signal(signal.SIGALRM, self._old)
        return False


# --------------------------------------------------------------------------- findings

def load_findings(pid):
    """known_findings.json plus the per-cluster fragments findings.d/*.json (same format)"""
    known, fixed = [], []
    files = [VERIF / "known_findings.json"] + sorted((VERIF / "findings.d").glob("*.json"))
    for p in files:
        if not p.exists():
            continue
        data = json.loads(p.read_text())
        known += [f for f in data.get("known", []) if f["property"] == pid]
        fixed += [f for f in data.get("fixed", []) if f["property"] == pid]
    return {"known": known, "fixed": fixed}


def finding_matches(f, v) -> bool:
    """a known finding names a *specific* failing input class: every key of f['match'] must
    equal (or, for a list value, contain) the corresponding key of the violation record."""
    for k, want in f.get("match", {}).items():
        got = v.get(k)
        if isinstance(want, list):
            if got not in want:
                return False
        elif got != want:
            return False
    return bool(f.get("match"))


def tier_from_env(argv_tier=None):
    t = argv_tier or os.environ.get("VERIF_TIER") or "quick"
    return "thorough" if t.startswith("t") else "quick"


def seed_from_env():
    try:
        return int(os.environ.get("VERIF_SEED", "0"))
    except ValueError:
        return 0
