"""C09 / C10: the laboratory shared by both checks.

* reads the lazy configuration (translator), starts the pool of pristine interpreters,
* takes the canonical values in a pristine child (digest of every lazy attribute of every probe
  atom, which names are instance attributes of which object – the row profile the model needs),
* translates histories between the Python event language (state_hist) and the driver's,
* compares what the model says every event serves with what the real code served
  (value tokens ↔ digests must be one-to-one per (atom, attribute)),
* judges every history with the direct oracle: a public read must serve the canonical digest;
  a read on a freshly initialised, unassigned private table must serve the public canonical digest.
"""
from __future__ import annotations

from .common import InfraError, run_driver
from .state_hist import LAZY_ATTRS, Pool
from .translators.state import lazy_config

# probe atoms: (Z, A, q).  Chosen to cover, for every group, atoms with and without data reached
# through an element, an isotope, an element ion and an isotope ion, plus element 0.
PROBES = [(0, 0, 0), (1, 0, 0), (8, 0, 0), (26, 0, 0), (27, 0, 0), (29, 0, 0), (96, 0, 0), (118, 0, 0),
          (1, 1, 0), (1, 2, 0), (26, 56, 0), (27, 59, 0), (118, 294, 0), (0, 1, 0),
          (26, 0, 2), (26, 56, 2), (1, 2, 1), (118, 294, 0),
          # an element and an isotope that carry the energy-dependent scattering-length tables
          (64, 0, 0), (64, 157, 0)]
PROBES = list(dict.fromkeys(PROBES))
from . import state_hist as _sh  # noqa: E402
_sh.PROBE_KEYS = list(PROBES)

MUTABLE_ATTRS = ["crystal_structure", "neutron", "neutron_activation", "xray", "magnetic_ff"]

# calculator calls and the attribute reads they perform on the public table
CALCS = {
    ("neutron_sld", "H2O"): [((1, 0, 0), "neutron"), ((8, 0, 0), "neutron")],
    ("neutron_scattering", "Fe2O3"): [((26, 0, 0), "neutron"), ((8, 0, 0), "neutron")],
    ("xray_sld", "Fe2O3"): [((26, 0, 0), "xray"), ((8, 0, 0), "xray")],
    ("atom_sld", (26, 56, 0)): [((26, 56, 0), "neutron")],
    ("atom_sld", (1, 2, 0)): [((1, 2, 0), "neutron")],
    ("atom_xray_sld", (26, 0, 2)): [((26, 0, 2), "xray")],
    ("atom_xray_sld", (26, 56, 2)): [((26, 56, 2), "xray")],
    ("magnetic_j0", (26, 0, 0)): [((26, 0, 0), "magnetic_ff")],
    ("d2o_sld", "C3H4H[1]NO@1.29n"): [((1, 0, 0), "neutron"), ((1, 1, 0), "neutron"), ((1, 2, 0), "neutron"),
                                       ((8, 0, 0), "neutron")],
    ("activation", "Co"): [((27, 59, 0), "neutron_activation")],
    ("activation_iaea", "Co"): [((27, 59, 0), "neutron_activation")],
}
# calculators on the energy-dependent scattering-length tables (attached lazily by nsf.init) at scalar
# wavelengths, some of them nearly equal: what is computed for one wavelength does not depend on which
# wavelengths were asked for before
WAVELENGTHS = [1.0, 1.0000004, 1.00003, 1.798, 1.7980000001, 0.5, 4.75]
for _w in WAVELENGTHS:
    CALCS[("neutron_sld_wl", ("Gd2O3", _w))] = [((64, 0, 0), "neutron"), ((8, 0, 0), "neutron")]
    CALCS[("atom_scattering_wl", (64, 157, 0, _w))] = [((64, 157, 0), "neutron")]
WL_CALCS = [c for c in CALCS if c[0].endswith("_wl")]

# calculator calls and computed reads outside the model's alphabet (event "ocalc"), by family of lazily loaded
# data: what each of them returns does not depend on which member of the family (or which attribute read) was the
# first touch of the process.  Judged by the oracle only, against a pristine process that does nothing else.
ORDER_CALCS = {
    # the per-atom x-ray tables: the neutron pseudo-element (no table), nitrogen (n.nff) through an element, an
    # ion, an isotope and an isotope ion, and through the compound calculator
    "xray": [("xray_table", (0, 0, 0)), ("xray_table", (0, 1, 0)), ("xray_table", (7, 0, 0)), ("xray_table", (7, 0, 3)),
             ("xray_table", (7, 15, 0)), ("xray_table", (7, 15, -3)), ("xray_sld", "N2"), ("xray_sld", "NaCl"),
             ("xray_table", (11, 0, 1)), ("atom_xray_sld", (7, 14, 0))],
    # the activation calculator on explicit isotopes, ions of isotopes and natural elements
    "activation": [("activation", "Co[59]"), ("activation", "D2O"), ("activation", "Co[59]{2+}"), ("activation", "Co"),
                   ("activation", "Co30Fe70"), ("activation_iaea", "Co[59]"), ("activation", "H[2]"),
                   ("activation", "Au[197]Co")],
    # f0 of the Waasmaier-Kirfel table: the bare proton / deuteron, other ions, atoms, isotopes
    "f0": [("atom_f0", (1, 0, 1)), ("atom_f0", (1, 2, 1)), ("f0q", ("H", 1)), ("atom_f0", (1, 0, -1)),
           ("atom_f0", (1, 0, 0)), ("atom_f0", (28, 0, 0)), ("atom_f0", (28, 58, 2)), ("f0q", ("Ni", 2)), ("f0", "O"),
           ("atom_f0", (0, 0, 0)), ("f0q", ("Ca", None))],
}
ORDER_ATTR = {"xray": "xray", "activation": "neutron_activation", "f0": "xray"}

# served values that are objects, and the module their class lives in (unpickling imports it)
PICKLE_ATTRS = {"xray": "xsf", "neutron": "nsf", "magnetic_ff": "magnetic_ff", "neutron_activation": "activation",
                "crystal_structure": None}
PICKLE_KEYS = [(26, 0, 0), (26, 0, 2), (26, 56, 2), (1, 2, 0), (27, 59, 0), (1, 2, 1)]

TABLES = ["public", "T1", "T2"]

FALLBACK_INITS = ["mass.init", "density.init", "covalent_radius.init", "crystal_structure.init", "nsf.init",
                  "activation.init", "xsf.init", "xsf.init_spectral_lines", "magnetic_ff.init"]
FALLBACK_GROUPS = [
    (["covalent_radius", "covalent_radius_units", "covalent_radius_uncertainty"], "covalent_radius.init"),
    (["crystal_structure"], "crystal_structure.init"), (["neutron"], "nsf.init"),
    (["neutron_activation"], "activation.init"), (["xray"], "xsf.init"),
    (["K_alpha", "K_beta1", "K_alpha_units", "K_beta1_units"], "xsf.init_spectral_lines"),
    (["magnetic_ff"], "magnetic_ff.init")]
FALLBACK_MODULES = ["nsf", "xsf", "covalent_radius", "crystal_structure", "magnetic_ff", "activation",
                    "fasta", "formulas", "plot", "cromermann", "nsf_tables", "util", "constants"]


def nodes_of(key):
    """the delegation chain of an atom as (class letter, node key)"""
    z, a, q = key
    out = []
    if q:
        out.append(("N", (z, a, q)))
    if a:
        out.append(("I", (z, a, 0)))
    out.append(("E", (z, 0, 0)))
    return out


CLSNAME = {"N": "ion", "I": "isotope", "E": "element"}


class Lab:
    def __init__(self, nworkers=None):
        from .translate import Unreadable
        self.model_ok = True
        try:
            self.cfg = lazy_config()
        except Unreadable as e:
            # the source no longer has the shape the translator reads: no model predictions;
            # histories are still run and judged by the oracle (DESIGN 4.7)
            self.model_ok = False
            self.unreadable = str(e)
            self.cfg = dict(attrs=list(LAZY_ATTRS), inits=list(FALLBACK_INITS), modules=list(FALLBACK_MODULES),
                            groups=[], guards=[])
        self.attrs = self.cfg["attrs"]
        if sorted(self.attrs) != sorted(LAZY_ATTRS):
            if set(self.attrs) - set(LAZY_ATTRS):
                raise InfraError("registered lazy attributes changed: %r" % (self.attrs,))
            # a name the event language knows is no longer registered: the generated model cannot express
            # the histories; they are still run and judged by the oracle against the canonical values
            self.degrade("lazy attributes no longer registered: %r" % sorted(set(LAZY_ATTRS) - set(self.attrs)))
            self.attrs = self.cfg["attrs"]
        self.pool = Pool(nworkers)
        self.node_ids = {}
        self.tok2dig, self.dig2tok = {}, {}
        self._canonical()

    def close(self):
        self.pool.close()

    def degrade(self, reason):
        """the generated model no longer lines up with the event language (an init or module the
        corpus names is not in the generated configuration): keep running the histories on the real
        code, judged by the oracle only"""
        self.model_ok = False
        self.unreadable = reason
        self.cfg = dict(attrs=list(LAZY_ATTRS), inits=list(FALLBACK_INITS), modules=list(FALLBACK_MODULES),
                        groups=[], guards=[])

    # ---------------------------------------------------------------- canonical child
    def _canonical(self):
        h = [("digest", "public", PROBES), ("kinds", "public", PROBES)] + \
            [("dictkeys", "public", k) for k in PROBES] + \
            [("has", "public", k, a) for k in PROBES for a in LAZY_ATTRS] + \
            [("calc", c[0], list(c[1]) if isinstance(c[1], tuple) else c[1]) for c in CALCS] + \
            [("served", "public", k, a) for k in PICKLE_KEYS for a in PICKLE_ATTRS]
        # (a calculator with a wavelength argument: its canonical value is that of a process that asks for
        #  nothing else)
        alone = self.pool.map([[("calc", c[0], list(c[1]))] for c in WL_CALCS])
        ocs = [c for fam in ORDER_CALCS.values() for c in fam]
        self.canon_ocalc = {}
        for c, r in zip(ocs, self.pool.map([[ocalc_event(c)] for c in ocs])):
            if isinstance(r, dict):
                raise InfraError("canonical child crashed: %s" % str(r)[-400:])
            self.canon_ocalc[c] = list(r[0])
        res = self.pool.map([h])[0]
        if isinstance(res, dict):
            raise InfraError("canonical child crashed: %s" % res.get("crash", res)[-400:])
        dig = res[0][2]
        kinds = res[1][1]
        self.canon, self.kind, self.canon_has, self.canon_calc = {}, {}, {}, {}
        i = 0
        for k in PROBES:
            for a in LAZY_ATTRS:
                self.canon[(k, a)] = tuple(dig[i])
                self.kind[(k, a)] = kinds[i]
                i += 1
        self.dictkeys = {}
        for j, k in enumerate(PROBES):
            keys = res[2 + j][1]
            for (letter, nk), (clsname, names) in zip(nodes_of(k), keys):
                self.dictkeys[(letter, nk)] = set(names)
        base = 2 + len(PROBES)
        i = 0
        for k in PROBES:
            for a in LAZY_ATTRS:
                self.canon_has[(k, a)] = res[base + i][1]
                i += 1
        base += i
        for j, c in enumerate(CALCS):
            self.canon_calc[c] = tuple(res[base + j])
        for c, r in zip(WL_CALCS, alone):
            if isinstance(r, dict):
                raise InfraError("canonical child crashed: %s" % str(r)[-400:])
            self.canon_calc[c] = tuple(r[0])
        base += len(CALCS)
        self.canon_served = {}
        for j, ka in enumerate((k, a) for k in PICKLE_KEYS for a in PICKLE_ATTRS):
            self.canon_served[ka] = list(res[base + j])
        self.chain_text = {k: self._chain(k) for k in PROBES}
        self.key_of_chain = {v: k for k, v in self.chain_text.items()}

    def rows(self, letter, nk):
        """the instance-write effects (init, index) that select this object"""
        out = []
        names = self.dictkeys[(letter, nk)]
        for g in self.cfg["groups"]:
            for m, effs in g["inits"]:
                zero_attrs = {e[2] for e in effs if e[0] == "instWrite" and e[3] == "zero" and e[1] == CLSNAME[letter]}
                for k, e in enumerate(effs):
                    if e[0] != "instWrite" or e[1] != CLSNAME[letter]:
                        continue
                    if e[3] == "zero":
                        sel = nk[0] == 0
                    else:
                        sel = e[2] in names and not (nk[0] == 0 and e[2] in zero_attrs)
                    if sel and (m, k) not in out:
                        out.append((m, k))
        return out

    def _chain(self, key):
        parts = []
        for letter, nk in nodes_of(key):
            nid = self.node_ids.setdefault(nk, len(self.node_ids) + 1)
            r = self.rows(letter, nk)
            parts.append("%s:%d:%s" % (letter, nid, "+".join("%d.%d" % x for x in r) if r else "-"))
        return "/".join(parts)

    # ---------------------------------------------------------------- translation
    def t_id(self, T):
        return TABLES.index(T)

    def model_lines(self, ev, out=None):
        """driver lines for one Python event + what each reply is about:
           [(line, (kind, key, attr))].  `out` is the real outcome of the event where it is known."""
        k = ev[0]
        if k in ("read", "has"):
            return [("%s %d %s %d" % (k, self.t_id(ev[1]), self.chain_text[tuple(ev[2])], self.attrs.index(ev[3])),
                     (k, tuple(ev[2]), ev[3]))]
        if k in ("init", "reinit"):
            # (reload=True on a table without user assignments re-applies the same effects: for the model a
            #  repeated init; what the real code makes of it is judged by the oracle)
            return [("init %d %d" % (self.cfg["inits"].index(ev[1]), self.t_id(ev[2])), ("init", None, None))]
        if k == "import":
            return [("import %d" % self.cfg["modules"].index(ev[1]), ("import", None, None))]
        if k == "assign":
            return [("assign %d %s %d %d" % (self.t_id(ev[1]), self.chain_text[tuple(ev[2])], self.attrs.index(ev[3]), ev[4]),
                     ("assign", tuple(ev[2]), ev[3]))]
        if k == "mutate":
            # one loader may store one object on two atoms of a table (an element without a row of its own
            # gets its first isotope's record): the real code reports which probe atoms serve the marked
            # object, and the model, whose objects are per atom, is told to mark those too
            keys = [tuple(ev[2])]
            if out is not None and out[0] == "ok" and len(out) > 2:
                keys += [tuple(x) for x in out[2] if tuple(x) in self.chain_text]
            return [("mutate %d %s %d %d" % (self.t_id(ev[1]), self.chain_text[kk], self.attrs.index(ev[3]), ev[4]),
                     ("mutate", kk, ev[3])) for kk in keys]
        if k == "calc":
            arg = tuple(ev[2]) if isinstance(ev[2], list) else ev[2]
            return [("read 0 %s %d" % (self.chain_text[key], self.attrs.index(a)), ("calcread", key, a))
                    for key, a in CALCS[(ev[1], arg)]]
        if k == "digest":
            return [("read %d %s %d" % (self.t_id(ev[1]), self.chain_text[tuple(key)], self.attrs.index(a)),
                     ("read", tuple(key), a)) for key in ev[2] for a in LAZY_ATTRS]
        if k in ("dumps", "served"):     # for the model a read of the attribute
            return [("read %d %s %d" % (self.t_id(ev[1]), self.chain_text[tuple(ev[2])], self.attrs.index(ev[3])),
                     ("read", tuple(ev[2]), ev[3]))]
        if k == "loads":       # unpickling imports the module of the value's class; nothing else is touched
            m = PICKLE_ATTRS.get(ev[3])
            return [("import %d" % self.cfg["modules"].index(m), ("import", None, None))] if m in self.cfg["modules"] else []
        if k in ("newtable", "formula", "pickle", "ids", "ocalc"):
            return []      # no counterpart in the lazy model (judged by the oracle only)
        raise InfraError("no model line for %r" % (ev,))

    def parse_event(self, text):
        """driver event text -> Python event"""
        t = text.split()
        if t[0] in ("read", "has"):
            return (t[0], TABLES[int(t[1])], self.key_of_chain[t[2]], self.attrs[int(t[3])])
        if t[0] == "init":
            return ("init", self.cfg["inits"][int(t[1])], TABLES[int(t[2])])
        if t[0] == "import":
            return ("import", self.cfg["modules"][int(t[1])])
        if t[0] in ("assign", "mutate"):
            return (t[0], TABLES[int(t[1])], self.key_of_chain[t[2]], self.attrs[int(t[3])], int(t[4]))
        raise InfraError("cannot parse event %r" % text)

    def with_tables(self, hist, rng=None):
        """insert ("newtable", T) before the first use of a private table (random earlier spot)"""
        out = list(hist)
        for T in TABLES[1:]:
            first = next((i for i, e in enumerate(out) if T in e[1:3] and e[0] != "newtable"), None)
            if first is not None and not any(e[0] == "newtable" and e[1] == T for e in out):
                at = first if rng is None else rng.randint(0, first)
                out.insert(at, ("newtable", T))
        return out

    # ---------------------------------------------------------------- closure histories
    def closure_histories(self, group, ntables, limit=20000):
        if not self.model_ok:
            return 0, []
        lines = ["atom %s" % self.chain_text[k] for k in PROBES] + ["closure %d %d %d" % (group, ntables, limit)]
        rep = run_driver("lazy", lines)
        if not rep or not rep[-1].startswith("end"):
            raise InfraError("closure did not finish: %r" % rep[-1:])
        nstates = int(rep[-1].split()[1])
        hs = []
        for r in rep[:-1]:
            if r.startswith("H "):
                hs.append([self.parse_event(x) for x in r[2:].split(";") if x])
        return nstates, hs

    # ---------------------------------------------------------------- running and comparing
    def run_model(self, histories, outs=None):
        """replies of the driver for every history: list (per history) of list (per event) of replies"""
        if not self.model_ok:
            return [None] * len(histories)
        lines, shape = [], []
        for hi, h in enumerate(histories):
            lines.append("reset")
            per = []
            o_h = outs[hi] if outs is not None and isinstance(outs[hi], list) else None
            for ei, ev in enumerate(h):
                ml = self.model_lines(ev, o_h[ei] if o_h is not None and ei < len(o_h) else None)
                per.append(len(ml))
                lines += [l for l, _ in ml]
            shape.append(per)
        rep = run_driver("lazy", lines)
        if len(rep) != sum(sum(p) for p in shape):
            raise InfraError("driver returned %d replies, expected %d" % (len(rep), sum(sum(p) for p in shape)))
        out, pos = [], 0
        for per in shape:
            evs = []
            for n in per:
                evs.append(rep[pos:pos + n])
                pos += n
            out.append(evs)
        return out

    def match(self, what, model, real):
        """None when the model's reply and the real outcome agree, else a description"""
        kind, key, attr = what
        if kind in ("init", "import", "assign", "mutate"):
            if model == "done":
                return None if real[0] == "ok" else "model done, real %r" % (real,)
            if model == "attrError":
                return None if real == ["exc", "AttributeError"] else "model AttributeError, real %r" % (real,)
            if model in ("otherError", "outOfFuel"):
                return None if real[0] == "exc" and real[1] != "AttributeError" else "model error, real %r" % (real,)
            return "model %s, real %r" % (model, real)
        if kind == "has":
            return None if (model.startswith("bool") and real == ["bool", model.endswith("true")]) else \
                "model %s, real %r" % (model, real)
        # read
        if model == "attrError":
            return None if real == ["exc", "AttributeError"] else "model AttributeError, real %r" % (real,)
        if model in ("otherError", "outOfFuel"):
            return None if real[0] == "exc" and real[1] != "AttributeError" else "model %s, real %r" % (model, real)
        if real[0] != "val":
            return "model %s, real %r" % (model, real)
        d = real[1]
        a = self.tok2dig.setdefault((key, attr, model), d)
        b = self.dig2tok.setdefault((key, attr, d), model)
        if a != d:
            return "model token %r was digest %s before, now %s" % (model, a, d)
        if b != model:
            return "digest %s was model token %r before, now %r" % (d, b, model)
        return None


def served_canon_token(lab: Lab, key, attr):
    """the model's canonical token of a public read (driver `canon`)"""
    r = run_driver("lazy", ["canon read 0 %s %d" % (lab.chain_text[key], lab.attrs.index(attr))])
    return r[0]


# --------------------------------------------------------------------------- oracle + comparison of one history

def group_of(lab: Lab, attr):
    if not lab.cfg["groups"]:
        return next(gi for gi, (names, _) in enumerate(FALLBACK_GROUPS) if attr in names)
    return next(gi for gi, g in enumerate(lab.cfg["groups"]) if attr in g["names"])


def init_group(lab: Lab, init_name):
    if not lab.cfg["groups"]:
        return next((gi for gi, (_, ini) in enumerate(FALLBACK_GROUPS) if ini == init_name), None)
    m = lab.cfg["inits"].index(init_name)
    for gi, g in enumerate(lab.cfg["groups"]):
        if any(i == m for i, _ in g["inits"]):
            return gi
    return None


def oracle(lab: Lab, hist, outs):
    """property failures of one executed history on the real code: [(event index, what, keys)]"""
    bad = []
    fresh = {}       # (T, group) -> True once the group's init ran on T without error
    touched = set()  # (T, node key, attr) assigned / mutated by the user
    classmut = set() # attributes whose class-level default object was mutated in place
    idsets = {}
    for i, (ev, out) in enumerate(zip(hist, outs)):
        k = ev[0]
        if k in ("init", "reinit"):
            gi = init_group(lab, ev[1])
            if out != ["ok"]:
                bad.append((i, "%s(%s) raised %s" % (ev[1], ev[2], out[1] if len(out) > 1 else out),
                            dict(kind="init-raises", init=ev[1])))
            elif gi is not None and ev[2] != "public":
                # (what the user assigned or marked before stays "touched": an init overwrites only the
                #  atoms it has rows for – an isotope-level assignment survives crystal_structure.init, a
                #  marked cached Xray object survives xsf.init – so reads through those atoms are not judged)
                fresh[(ev[2], gi)] = True
        elif k == "import":
            if out != ["ok"]:
                bad.append((i, "import %s raised %r" % (ev[1], out), dict(kind="import-raises")))
        elif k in ("assign", "mutate"):
            for _, nk in nodes_of(tuple(ev[2])):
                touched.add((ev[1], nk, ev[3]))
            if k == "mutate" and out[0] == "ok" and len(out) > 2:
                for other in out[2]:     # other atoms of the table that serve the very same (now marked) object
                    for _, nk in nodes_of(tuple(other)):
                        touched.add((ev[1], nk, ev[3]))
            if k == "mutate" and out[0] == "ok" and len(out) > 1 and out[1] == "class":
                classmut.add(ev[3])
        elif k in ("formula", "pickle"):
            if out != ["bool", True]:
                bad.append((i, "%s on table %s: %r" % (k, ev[1], out), dict(kind=k + "-leaves-table")))
        elif k == "ids":
            idsets[ev[1]] = {(tuple(x[0]), x[1]): x[2] for x in out[1]}
            for T, other in idsets.items():
                if T == ev[1]:
                    continue
                for ka, ident in idsets[ev[1]].items():
                    if other.get(ka) == ident:
                        bad.append((i, "%s and %s serve the same object for %s.%s" % (T, ev[1], ka[0], ka[1]),
                                    dict(kind="shared-object", attr=ka[1])))
                        break
        elif k == "loads":
            want = lab.canon_served.get((tuple(ev[2]), ev[3]))
            if want is not None and list(out) != want:
                what = "raises %s" % out[1] if out[0] == "exc" else \
                    ("is another value (%s)" % out[1] if out[:2] != want[:2] else "computes other values (%s)" % out[2])
                bad.append((i, "the pickled public %s.%s, loaded after this history, %s; the canonical order serves %s"
                            % (tuple(ev[2]), ev[3], what, show(want)),
                            dict(kind="pickled-value-differs", attr=ev[3], got=out[0] if out[0] != "val" else "value")))
        elif k in ("read", "has", "digest", "dumps"):
            T = ev[1]
            if k == "dumps":
                out = out[:2]
            items = [(tuple(ev[2]), ev[3], out)] if k != "digest" else \
                [(tuple(key), a, o) for (key, a), o in zip([(key, a) for key in ev[2] for a in LAZY_ATTRS], out[2])]
            for key, attr, o in items:
                if k == "has":
                    want = ["bool", lab.canon_has[(key, attr)]]
                else:
                    want = list(lab.canon[(key, attr)])
                if T == "public":
                    if o != want:
                        kind = "public-differs-after-class-default-mutation" if attr in classmut else "public-differs"
                        bad.append((i, "public %s.%s serves %s, the canonical order serves %s" % (
                            key, attr, show(o), show(want)),
                            dict(kind=kind, attr=attr, got=o[0] if o[0] != "val" else "value")))
                else:
                    gi = group_of(lab, attr)
                    dirty = any((T, nk, attr) in touched for _, nk in nodes_of(key))
                    if fresh.get((T, gi)) and not dirty and attr not in classmut and o != want:
                        bad.append((i, "freshly initialised %s: %s.%s serves %s, the public table serves %s" % (
                            T, key, attr, show(o), show(want)), dict(kind="private-differs", attr=attr)))
        elif k == "calc":
            arg = tuple(ev[2]) if isinstance(ev[2], list) else ev[2]
            want = list(lab.canon_calc[(ev[1], arg)])
            if out != want:
                bad.append((i, "%s(%r) returns %s, in the canonical order %s" % (ev[1], ev[2], show(out), show(want)),
                            dict(kind="calc-differs", calc=ev[1])))
        elif k == "ocalc":
            arg = tuple(ev[2]) if isinstance(ev[2], list) else ev[2]
            want = lab.canon_ocalc[(ev[1], arg)]
            if list(out) != want:
                bad.append((i, "%s(%r) %s; a pristine process that does nothing else %s" % (
                    ev[1], ev[2], "raises " + str(out[1]) if out[0] == "exc" else "returns " + show(out),
                    "raises " + str(want[1]) if want[0] == "exc" else "returns " + show(want)),
                    dict(kind="calc-differs-by-order", calc=ev[1], got=out[0] if out[0] != "val" else "value")))
    return bad


def ocalc_event(c):
    return ("ocalc", c[0], list(c[1]) if isinstance(c[1], tuple) else c[1])


def show(o):
    return "%s" % (o[1] if o[0] in ("val", "bool") else "raises " + str(o[1]) if o[0] == "exc" else o,)


def compare(lab: Lab, hist, outs, replies):
    """first disagreement between model replies and real outcomes: (event index, text) or None"""
    if replies is None:
        return None
    for i, (ev, out, reps) in enumerate(zip(hist, outs, replies)):
        ml = lab.model_lines(ev, out)
        k = ev[0]
        if k in ("newtable", "formula", "pickle", "ids", "ocalc"):
            continue
        if k == "loads":
            if ml and reps[0] != "done":
                return (i, "loads: model import %s" % reps[0])
            continue
        if k == "dumps":
            out = out[:2]
        if k == "calc":
            arg = tuple(ev[2]) if isinstance(ev[2], list) else ev[2]
            # the model says every constituent read is canonical  <=>  the result is the canonical one
            model_canon = all(rep == lab.canon_token(key, a) for (_, (_, key, a)), rep in zip(ml, reps))
            real_canon = (out == list(lab.canon_calc[(ev[1], arg)]))
            if model_canon != real_canon:
                return (i, "calc: model says canonical=%s, real canonical=%s" % (model_canon, real_canon))
            continue
        if k == "digest":
            for (_, what), rep, o in zip(ml, reps, out[2]):
                m = lab.match(what, rep, o)
                if m:
                    return (i, "final digest %s.%s: %s" % (what[1], what[2], m))
            continue
        m = lab.match(ml[0][1], reps[0], out)
        if m:
            return (i, m)
    return None


def _canon_token(self, key, attr):
    c = getattr(self, "_ctok", None)
    if c is None:
        pairs = [(k, a) for k in PROBES for a in LAZY_ATTRS]
        rep = run_driver("lazy", ["canon read 0 %s %d" % (self.chain_text[k], self.attrs.index(a)) for k, a in pairs])
        c = self._ctok = dict(zip(pairs, rep))
    return c[(key, attr)]


Lab.canon_token = _canon_token


def admissible(lab: Lab, h):
    """histories outside the modelled alphabet are dropped (documented in docs/notes-state.md):
       * in-place mutation of an immutable value (float / str / None) is not an event;
       * a user-assigned opaque value for `magnetic_ff` followed by magnetic_ff.init on the same
         table makes the loader itself raise TypeError (it merges into the existing value);
       * a user-assigned `neutron_activation` on an *element* followed by activation.init on the same
         table makes the loader raise AttributeError (`hasattr(isotope)` is true by delegation,
         `del isotope.neutron_activation` then fails)."""
    assigned = set()
    act = set()
    for e in h:
        if e[0] == "mutate" and (e[3] not in MUTABLE_ATTRS or lab.kind[(tuple(e[2]), e[3])] != "mutable"):
            return False
        if e[0] == "assign" and e[3] == "magnetic_ff":
            assigned.add(e[1])
        if e[0] == "init" and e[1] == "magnetic_ff.init" and e[2] in assigned:
            return False
        if e[0] == "assign" and e[3] == "neutron_activation" and e[2][1] == 0 and e[2][2] == 0:
            act.add(e[1])
        if e[0] == "init" and e[1] == "activation.init" and e[2] in act:
            return False
    return True
