"""C06 — mass, abundance and density of every nuclide are those of the embedded tables.

Tie of the Lean model (`Model/Loaders.lean`: `parseUncertainty`, `Mass.loadText`, `Density.*`) to
mass.py / density.py / util.py, on every run:

1. translator: `Generated/MassTables`, `Generated/Density` are rewritten from the source literals;
   the kernel re-checks the data facts of `Properties/C06.lean`;
2. `mass_selfcheck`: the compiled string-level model parses the raw table text (read with `ast`)
   and must reproduce the generated rows (the translator's independent reading) exactly;
3. exhaustive sweep: every element and isotope of the public table and of a freshly initialised
   private table – mass, mass uncertainty, abundance, abundance uncertainty, density, number
   density, interatomic distance, list of isotopes – against the model run on the raw text;
4. loader differential on generated tables: `mass.isotope_mass / element_mass /
   isotope_abundance` and `density.element_densities` are patched with generated tables (rows
   deleted / duplicated / reordered, last element varied, notations swapped, blanks varied, errors
   injected) and `mass.init(private)`, `density.init(private)` are compared with the model;
5. the direct oracle (exact `Fraction`s from the translator's reading of the row that belongs to
   the atom, shares no code with model or library) is evaluated on every swept atom;
6. other routes to the same nuclide (`sweep_routes`, real code + oracle): deuterium / tritium through
   `table.D`, `table.isotope('D')`, `table.symbol('T')`, `table.name('tritium')`, the by-name exports of
   `core.define_elements(table, ns)` (`ns['D']`, `ns['tritium']`) and the package attributes
   `periodictable.D / .deuterium / .T / .tritium`; density, number
   density, interatomic distance and abundance of every element and isotope read through each of
   its ions, and n / d of the element read through its isotopes;
7. a private table that is read, revised by its owner (seeded: H[1]=1 rescaling of the guide,
   enriched elements, revised densities / abundances, D and T always, two densities revised to exactly 0:
   known, so n = 0 rather than "unknown"; generated density tables carry zero entries too) – the relations
   rho_iso = rho*m_iso/m, n = rho*N_A/m, n*d^3 = 1e24 on the values the table returns now – and
   then re-initialised with `mass.init / density.init(table, reload=True)`: the full sweep again;
8. private tables whose loaders were called in another order (`INIT_ORDERS`: density before mass, density - read -
   mass, both twice without reload): the full sweep on each; `parse_uncertainty` on intervals with a limit of
   exactly zero (`range0`, the CIAAW ranges of 36-Ar, 38-Ar, 204-Pb).
"""
from __future__ import annotations

import math
from decimal import Decimal, getcontext
from fractions import Fraction

from ..common import Run, InfraError, close, run_driver, import_repo
from .. import loaders_read as R
from .. import loaders_py as P
from .. import translate

RULE = ("sweep: one case per (table, element | isotope); non-trivial when the atom has a row of its own "
        "in a mass table (isotope mass row, atomic-weight override, composition entry or density entry); "
        "generated tables: one case per table triple, non-trivial when the triple has a duplicated / "
        "reordered / deleted row, a non-default notation, or an injected error; distinct by the "
        "(table kind, atom) pair or by the table text")

getcontext().prec = 60
SQRT12 = Decimal(12).sqrt()


# =========================================================================== oracle

class Expect:
    """what the embedded tables say about every atom (exact), from the translator's reading"""

    def __init__(self, iso_rows, el_rows, ab_lines, dens_rows, nm, nmu, symbols):
        self.symbols = symbols                               # z -> symbol
        self.iso = {}
        self.avg = {}
        self.wellkeyed = True
        for z, s, a, m, avg in iso_rows:
            if (z, a) in self.iso:
                self.wellkeyed = False
            self.iso[(z, a)] = m
            self.avg[z] = avg                                # last row of the element
        self.override = {}
        for z, v in el_rows:
            if z in self.override:
                self.wellkeyed = False
            self.override[z] = v
        self.sections = {}
        cur = None
        seen_hdr = set()
        for l in ab_lines:
            if l[0] == "header":
                if l[1] in seen_hdr or l[1] == 0:
                    self.wellkeyed = False
                seen_hdr.add(l[1])
                cur = self.sections.setdefault(l[1], [])
            else:
                if cur is None or l[1] in [a for a, _ in cur]:
                    self.wellkeyed = False
                else:
                    cur.append((l[1], l[2]))
        self.dens = {}
        for k, v in dens_rows:
            self.dens[k] = v
        self.nm, self.nmu = nm, nmu

    # ---- exact expectations; an uncertainty of a range is returned as a Decimal
    @staticmethod
    def val(reading):
        return R.unc_value(reading)[0]

    @staticmethod
    def unc(reading):
        """exact Fraction; for a range the 1-sigma width as a Decimal (compared at 1e-9: the code
        subtracts the two nearly equal floats)"""
        u = R.unc_value(reading)[1]
        if isinstance(u, tuple):
            return Decimal(u[1].numerator) / Decimal(u[1].denominator) / SQRT12
        return u

    def el_mass(self, z):
        if z == 0 and self.override.get(0) is None:
            return self.nm.frac(), self.nmu.frac()
        r = self.override.get(z)
        if r is None:
            r = self.avg.get(z)
        if r is None:
            return "X", "X"
        return self.val(r), self.unc(r)

    def iso_mass(self, z, a):
        if (z, a) == (0, 1):
            return self.nm.frac(), self.nmu.frac()
        r = self.iso.get((z, a))
        if r is None:
            return self.el_mass(z)          # D / T without a row of their own: the element's
        return self.val(r), self.unc(r)

    def abundance(self, z, a):
        if (z, a) == (0, 1):
            return Fraction(100), Fraction(0)
        if (z, a) not in self.iso:
            return "X", "X"
        sec = dict(self.sections.get(z, []))
        if a not in sec or z == 0:
            return Fraction(0), Fraction(0)
        total = sum(self.val(r) for _, r in self.sections[z])
        u = self.unc(sec[a])
        if isinstance(u, Decimal):
            u = u * 100 / (Decimal(total.numerator) / Decimal(total.denominator))
        else:
            u = 100 * u / total
        return 100 * self.val(sec[a]) / total, u

    def density(self, z):
        s = self.symbols.get(z)
        if s not in self.dens:
            return "X"
        v = self.dens[s]
        return None if v is None else v.frac()


def fnum(x):
    """exact expectation -> float (correctly rounded)"""
    if isinstance(x, Fraction):
        return x.numerator / x.denominator
    if isinstance(x, Decimal):
        return float(x)
    return x


def agrees(expected, got, rel):
    """expected: Fraction | Decimal | None | 'X';  got: observed value"""
    if isinstance(expected, str) or isinstance(got, str):
        return expected == got
    if expected is None or got is None:
        return expected is None and got is None
    e = fnum(expected)
    if isinstance(expected, Decimal):
        rel = max(rel, 1e-9)
    if rel == 0:
        return e == got
    return close(e, got, rel=rel, abs_=0.0) or e == got


def oracle_atom(exp: Expect, tbl, z, a, na, real_data=True, obj=None):
    """property C06 on the real objects of `tbl` for one atom; returns [(observable, expected, got)]
    (`obj`: the isotope object to read, when it was reached by another route than `tbl[z][a]`)"""
    bad = []
    el = tbl[z]

    def chk(name, expected, got, rel):
        if not agrees(expected, got, rel):
            bad.append((name, P.tok(fnum(expected)) if not isinstance(expected, str) else expected, P.tok(got)))

    if a == 0:
        m, u = exp.el_mass(z)
        got_m = P.observe(lambda: el.mass)
        chk("mass", m, got_m, 4e-16)
        chk("mass_unc", u, P.observe(lambda: el._mass_unc), 1e-14)
        rho = exp.density(z)
        got_rho = P.observe(lambda: el.density)
        chk("density", rho, got_rho, 0)
        n = P.observe(lambda: el.number_density)
        d = P.observe(lambda: el.interatomic_distance)
        if isinstance(rho, Fraction) and isinstance(m, Fraction) and m != 0 and rho == 0:
            chk("number_density", Fraction(0), n, 0)       # a zero density: d divides by zero
        elif isinstance(rho, Fraction) and isinstance(m, Fraction) and m != 0:
            chk("number_density", rho * na / m, n, 1e-13)
            if P.isfinite(n) and P.isfinite(d) and n > 0:
                if not close(n * d ** 3, 1e24, rel=1e-12):
                    bad.append(("n*d^3", "1e24", P.tok(n * d ** 3)))
            else:
                bad.append(("interatomic_distance", "finite", P.tok(d)))
        elif rho is None:
            chk("number_density", None, n, 0)
            chk("interatomic_distance", None, d, 0)
        # an element listed in the composition table: abundances sum to 100 %, the atomic
        # weight is the abundance-weighted isotope mass within the stated uncertainty
        if z in exp.sections and z != 0 and exp.sections[z] and exp.wellkeyed:
            isos = [el[i] for i in el.isotopes if (z, i) in exp.iso]
            tot = P.observe(lambda: math.fsum(i.abundance for i in isos))
            if not (P.isfinite(tot) and abs(tot - 100.0) < 1e-9):
                bad.append(("sum of abundances", "100", P.tok(tot)))
            w = P.observe(lambda: math.fsum(i.abundance * i.mass for i in isos) / 100.0)
            mu = P.observe(lambda: el._mass_unc)
            if real_data and P.isfinite(w) and P.isfinite(got_m) and P.isfinite(mu):
                if abs(w - got_m) > mu * (1 + 1e-9) + 1e-12:
                    bad.append(("atomic weight vs weighted isotope mass", "|%r-%r| <= %r" % (got_m, w, mu),
                                P.tok(abs(w - got_m))))
    else:
        iso = el[a] if obj is None else obj
        m, u = exp.iso_mass(z, a)
        got_m = P.observe(lambda: iso.mass)
        chk("mass", m, got_m, 4e-16)
        chk("mass_unc", u, P.observe(lambda: iso._mass_unc), 1e-14)
        ab, abu = exp.abundance(z, a)
        chk("abundance", ab, P.observe(lambda: iso.abundance), 1e-13)
        chk("abundance_unc", abu, P.observe(lambda: iso._abundance_unc), 1e-13)
        rho = exp.density(z)
        got = P.observe(lambda: iso.density)
        em, _ = exp.el_mass(z)
        if rho is None:
            chk("density", None, got, 0)           # unknown, not an error
        elif isinstance(rho, Fraction) and isinstance(m, Fraction) and isinstance(em, Fraction) and em != 0:
            chk("density", rho * m / em, got, 1e-13)
    return bad


# =========================================================================== model side

def table_lines(iso_text, el_text, ab_text, dens_rows):
    lines = ["mass_iso " + P.hexs(iso_text), "mass_el " + P.hexs(el_text), "mass_ab " + P.hexs(ab_text),
             "dens_clear"]
    for k, v in dens_rows:
        lines.append("dens %s %s" % (P.hexs(k), "N" if v is None else "%d %d" % (v.m, v.e)))
    return lines


def query_lines(atoms):
    out = []
    for z, a in atoms:
        out.append("q_el %d" % z if a == 0 else "q_iso %d %d" % (z, a))
    return out


def observe_table(tbl, zs):
    """everything C06 observes on the real objects: {(z, a): [values]}, {z: isotopes}"""
    obs, isotopes = {}, {}
    for z in zs:
        try:
            el = tbl[z]
        except KeyError:
            continue
        obs[(z, 0)] = [P.observe(lambda: el.mass), P.observe(lambda: el._mass_unc),
                       P.observe(lambda: el.density), P.observe(lambda: el.number_density),
                       P.observe(lambda: el.interatomic_distance)]
        isotopes[z] = list(el.isotopes)
        for a in el.isotopes:
            iso = el[a]
            obs[(z, a)] = [P.observe(lambda: iso.mass), P.observe(lambda: iso._mass_unc),
                           P.observe(lambda: iso.abundance), P.observe(lambda: iso._abundance_unc),
                           P.observe(lambda: iso.density)]
    return obs, isotopes


def compare_table(run: Run, label, obs, isotopes, replies, atoms, zs, inp):
    """diff model replies against the observations; returns the list of disagreeing atoms"""
    it = iter(replies)
    out = []
    for z in zs:
        if z not in isotopes:
            continue
        toks = next(it).split()
        model_iso = [int(t) for t in toks]
        if model_iso != isotopes[z]:
            run.disagree("mass-loader", dict(inp, z=z, what="isotopes"), model_iso, isotopes[z])
            out.append((z, 0))
    for z, a in atoms:
        toks = next(it).split()
        if a != 0:
            if toks[0] != "1":
                run.disagree("mass-loader", dict(inp, z=z, a=a, what="isotope exists"), toks, "exists")
                out.append((z, a))
                continue
            toks = toks[1:]
        mv = [P.model_val(t) for t in toks]
        if len(mv) != len(obs[(z, a)]) or not all(P.same(m, o) for m, o in zip(mv, obs[(z, a)])):
            run.disagree("mass-loader", dict(inp, z=z, a=a), [P.tok(m) for m in mv],
                         [P.tok(o) for o in obs[(z, a)]])
            out.append((z, a))
    return out


# =========================================================================== sweeps

def symbols_of(pt):
    return {el.number: el.symbol for el in pt.elements}


def sweep(run: Run, label, tbl, exp: Expect, src, dens_rows, na, nontrivial_keys, extra=None):
    extra = extra or {}
    zs = list(range(0, 119))
    obs, isotopes = observe_table(tbl, zs)
    atoms = sorted(obs)
    lines = table_lines(src["isotope_mass"], src["element_mass"], src["isotope_abundance"], dens_rows)
    lines.append("mass_load")
    lines += ["q_isotopes %d" % z for z in zs if z in isotopes]
    lines += query_lines(atoms)
    rep = run_driver("loader", lines)
    if rep[0] != "ok":
        run.disagree("mass-loader", dict(table=label, what="init"), rep[0], "loads")
        return
    compare_table(run, label, obs, isotopes, rep[1:], atoms, zs, dict(extra, table=label))
    # the nuclides an element enumerates are the rows of the mass table (plus D and T of H and the
    # neutron's single isotope); `iter(el)` and `table.isotope()` serve the same ones
    for z in zs:
        if z not in isotopes:
            continue
        want = sorted({a for (zz, a) in exp.iso if zz == z} | ({2, 3} if z == 1 else set()) | ({1} if z == 0 else set()))
        got = {"isotopes": isotopes[z], "iter": [iso.isotope for iso in tbl[z]]}
        for how, g in got.items():
            if g != want:
                run.violation("%s enumerates other nuclides than the mass table (%s)" % (exp.symbols.get(z), how),
                              dict(extra, table=label, z=z, how=how, expected=want, got=g), observable="isotopes", z=z)
                break
        for a in want[:1] + want[-1:]:
            ok = P.observe(lambda: tbl.isotope("%d-%s" % (a, exp.symbols[z])).isotope) if z else a
            if ok != a:
                run.violation("table.isotope('%d-%s') does not find the nuclide" % (a, exp.symbols.get(z)),
                              dict(extra, table=label, z=z, a=a, got=P.tok(ok)), observable="isotope()", z=z)
    for z, a in atoms:
        run.count(key=(label, z, a), nontrivial=(z, a) in nontrivial_keys,
                  sample="%s %s[%d]" % (label, exp.symbols.get(z), a) if (z, a) in ((92, 235), (1, 2), (17, 0)) else None,
                  tag="sweep:" + label)
        for name, e, g in oracle_atom(exp, tbl, z, a, na):
            run.violation("%s of %s%s is not the table's" % (name, exp.symbols.get(z), "[%d]" % a if a else ""),
                          dict(extra, table=label, z=z, a=a, observable=name, expected=e, got=g),
                          observable=name, z=z, a=a)
    sweep_routes(run, label, tbl, exp, na, atoms, nontrivial_keys, extra)


# =========================================================================== other routes to the same nuclide

ALIASES = (("D", 2, "deuterium"), ("T", 3, "tritium"))


def alias_routes(tbl, name, long_name):
    """the documented ways to reach deuterium / tritium other than H[2] / H[3]"""
    import periodictable
    from periodictable import core

    def exported(key):
        ns = {}
        core.define_elements(tbl, ns)
        return ns[key]

    routes = [("table.%s" % name, lambda: getattr(tbl, name)),
              ("table.isotope(%r)" % name, lambda: tbl.isotope(name)),
              ("table.symbol(%r)" % name, lambda: tbl.symbol(name)),
              ("table.name(%r)" % long_name, lambda: tbl.name(long_name)),
              # the by-name exports: `core.define_elements(table, namespace)` (how the package builds
              # `periodictable.D`, `periodictable.deuterium`, and how a private table is exported)
              ("table.define_elements[%r]" % name, lambda: exported(name)),
              ("table.define_elements[%r]" % long_name, lambda: exported(long_name))]
    if tbl is periodictable.elements:
        routes += [("table.module.%s" % name, lambda: getattr(periodictable, name)),
                   ("table.module.%s" % long_name, lambda: getattr(periodictable, long_name))]
    return routes


def oracle_ion(exp: Expect, tbl, z, a, q, na, atom=None):
    """an ion hands everything but charge and mass on to its atom: density, number density, interatomic
    distance (and abundance) read through `atom.ion[q]` are those of the nuclide"""
    bad = []
    if atom is None:
        atom = tbl[z] if a == 0 else tbl[z][a]
    ion = P.observe(lambda: atom.ion[q])
    if isinstance(ion, str):
        return [("ion", "exists", "X")]

    def chk(name, expected, got, rel):
        if not agrees(expected, got, rel):
            bad.append((name, P.tok(fnum(expected)) if not isinstance(expected, str) else expected, P.tok(got)))

    rho = exp.density(z)
    em, _ = exp.el_mass(z)
    got_rho = P.observe(lambda: ion.density)
    n = P.observe(lambda: ion.number_density)
    d = P.observe(lambda: ion.interatomic_distance)
    if rho is None:
        chk("density", None, got_rho, 0)               # unknown, not an error
        chk("number_density", None, n, 0)
        chk("interatomic_distance", None, d, 0)
    elif isinstance(rho, Fraction) and isinstance(em, Fraction) and em != 0:
        if a == 0:
            chk("density", rho, got_rho, 0)
        else:
            m, _ = exp.iso_mass(z, a)
            if isinstance(m, Fraction):
                chk("density", rho * m / em, got_rho, 1e-13)
        if rho != 0:
            chk("number_density", rho * na / em, n, 1e-13)
            if P.isfinite(n) and P.isfinite(d) and n > 0:
                if not close(n * d ** 3, 1e24, rel=1e-12):
                    bad.append(("n*d^3", "1e24", P.tok(n * d ** 3)))
            else:
                bad.append(("interatomic_distance", "finite", P.tok(d)))
    if a != 0:
        ab, _ = exp.abundance(z, a)
        chk("abundance", ab, P.observe(lambda: ion.abundance), 1e-13)
    return bad


def sweep_routes(run: Run, label, tbl, exp: Expect, na, atoms, nontrivial_keys, extra):
    """real code + oracle only: the nuclides of the sweep reached by another documented route –
    deuterium and tritium by their aliases, every nuclide through its ions, and the number density /
    interatomic distance of an element read through its isotopes"""
    for name, a, long_name in ALIASES:
        for how, get in alias_routes(tbl, name, long_name):
            run.count(key=(label, "alias", how), nontrivial=True, tag="routes:alias",
                      sample="%s %s" % (label, how) if how.startswith("table.isotope") else None)
            obj = P.observe(get)
            inp = dict(extra, table=label, z=1, a=a, route=how)
            if isinstance(obj, str):
                run.violation("%s does not find the nuclide" % how, dict(inp, got="X"), observable="alias", z=1, a=a)
                continue
            if P.observe(lambda: (obj.number, obj.isotope)) != (1, a):
                run.violation("%s is not %d-H" % (how, a), dict(inp, got=repr(obj)), observable="alias", z=1, a=a)
                continue
            for what, e, g in oracle_atom(exp, tbl, 1, a, na, obj=obj):
                run.violation("%s of %d-H reached as %s is not the table's" % (what, a, how),
                              dict(inp, observable=what, expected=e, got=g), observable=what, z=1, a=a)
            for q in (1, -1):
                for what, e, g in oracle_ion(exp, tbl, 1, a, q, na, atom=obj):
                    run.violation("%s of %d-H reached as %s.ion[%d] is not the table's" % (what, a, how, q),
                                  dict(inp, q=q, observable=what, expected=e, got=g), observable=what, z=1, a=a)
    for z, a in atoms:
        el = tbl[z]
        charges = P.observe(lambda: list(el.ions))
        if isinstance(charges, str):
            charges = []
        if a != 0:
            # n and d of an isotope are those of the element it belongs to
            iso = el[a]
            rho = exp.density(z)
            em, _ = exp.el_mass(z)
            n = P.observe(lambda: iso.number_density)
            d = P.observe(lambda: iso.interatomic_distance)
            bad = []
            if rho is None:
                if n is not None:
                    bad.append(("number_density", "N", P.tok(n)))
                if d is not None:
                    bad.append(("interatomic_distance", "N", P.tok(d)))
            elif isinstance(rho, Fraction) and isinstance(em, Fraction) and em != 0 and rho != 0:
                if not agrees(rho * na / em, n, 1e-13):
                    bad.append(("number_density", P.tok(fnum(rho * na / em)), P.tok(n)))
                elif not (P.isfinite(d) and close(n * d ** 3, 1e24, rel=1e-12)):
                    bad.append(("n*d^3", "1e24", P.tok(d)))
            for what, e, g in bad:
                run.violation("%s read through %s[%d] is not the element's" % (what, exp.symbols.get(z), a),
                              dict(extra, table=label, z=z, a=a, route="isotope", observable=what, expected=e, got=g),
                              observable=what, z=z, a=a)
        for q in charges:
            run.count(key=(label, "ion", z, a, q), nontrivial=(z, a) in nontrivial_keys, tag="routes:ion",
                      sample="%s %s[%d].ion[%d]" % (label, exp.symbols.get(z), a, q) if (z, a, q) == (26, 56, 3) else None)
            for what, e, g in oracle_ion(exp, tbl, z, a, q, na):
                run.violation("%s of %s%s read through its ion %+d is not the table's"
                              % (what, exp.symbols.get(z), "[%d]" % a if a else "", q),
                              dict(extra, table=label, z=z, a=a, q=q, route="ion", observable=what, expected=e, got=g),
                              observable=what, z=z, a=a)


# =========================================================================== revised and re-initialised tables

def read_everything(tbl):
    """a first read of every observable of every nuclide and of its ions"""
    for el in tbl:
        for atom in [el] + list(el):
            for q in (0,) + tuple(el.ions[:1]) + tuple(el.ions[-1:]):
                x = atom if q == 0 else P.observe(lambda: atom.ion[q])
                for name in ("mass", "density", "number_density", "interatomic_distance", "abundance"):
                    P.observe(lambda: getattr(x, name))
    for name, _a, long_name in ALIASES:
        for _how, get in alias_routes(tbl, name, long_name):
            P.observe(lambda: get().mass)


def customise(tbl, seed):
    """the owner of a private table revises it (seeded): masses rescaled to H[1] = 1 as in
    doc/sphinx/guide/customizing.rst, isotopically enriched elements, revised densities and abundances;
    returns the atomic numbers of the elements whose mass or density was revised"""
    import random
    rng = random.Random(seed)
    mode = rng.choice(["enriched", "both"])    # (rescaling alone leaves rho/m, hence n and d, unchanged)
    touched = set()
    if mode in ("H=1", "both"):
        scale = tbl.H[1].mass if rng.random() < 0.7 else rng.uniform(0.5, 2.0)
        for el in tbl:
            el._mass /= scale
            if getattr(el, "_density", None) is not None:
                el._density /= scale
            for iso in el:
                iso._mass /= scale
            touched.add(el.number)
    if mode in ("enriched", "both"):
        els = [el for el in tbl if el.number and el.isotopes]
        picks = rng.sample(els, 25) + [tbl.H, tbl.Li, tbl.C]
        for el in picks:
            r = rng.random()
            iso = el[rng.choice(el.isotopes)]
            if r < 0.6:
                el._mass = iso.mass                       # the pure isotope
                for other in el:
                    other._abundance = 100.0 if other is iso else 0.0
            elif r < 0.8:
                el._mass = el.mass * rng.uniform(0.9, 1.1)
                iso._mass = iso.mass * rng.uniform(0.99, 1.01)
                iso._mass_unc = 0.5
            else:
                el._density = rng.uniform(0.1, 20.0)
            touched.add(el.number)
    for a in rng.choice([(2,), (3,), (2, 3)]):          # deuterium / tritium are always part of the revision
        if True:
            tbl.H[a]._mass = tbl.H[a].mass * rng.uniform(0.9, 1.1)
            tbl.H[a]._abundance = rng.uniform(0.0, 50.0)
            touched.add(1)
    # a density revised to the boundary value exactly zero (the library anticipates zero densities, see
    # formulas.mix_by_volume): known, so n = rho*N_A/m = 0 and the isotope densities are 0 - not "unknown"
    els = [el for el in tbl if el.number and el.isotopes and isinstance(el.mass, float) and el.mass > 0]
    for el in rng.sample(els, 2):
        el._density = rng.choice([0, 0.0])
        touched.add(el.number)
    return touched


def oracle_relations(tbl, z, na):
    """the relations of the property that hold in ANY table, on the values the table returns now:
    isotope density = element density * mass ratio, n = rho*N_A/m, n*d^3 = 1e24 – for the element, its
    isotopes and one ion of each"""
    bad = []
    el = tbl[z]
    rho, m = P.observe(lambda: el.density), P.observe(lambda: el.mass)
    atoms = [(0, 0, el)]
    for iso in el:
        atoms.append((iso.isotope, 0, iso))
        if el.ions:
            q = el.ions[iso.isotope % len(el.ions)]
            atoms.append((iso.isotope, q, P.observe(lambda: iso.ion[q])))
    if el.ions:
        atoms.append((0, el.ions[0], P.observe(lambda: el.ion[el.ions[0]])))
    for a, q, x in atoms:
        if isinstance(x, str):
            bad.append((a, q, "ion", "exists", "X"))
            continue
        got_rho = P.observe(lambda: x.density)
        n = P.observe(lambda: x.number_density)
        d = P.observe(lambda: x.interatomic_distance)
        if rho is None:
            for name, g in (("density", got_rho), ("number_density", n), ("interatomic_distance", d)):
                if g is not None:
                    bad.append((a, q, name, "N", P.tok(g)))
            continue
        if P.isfinite(rho) and P.isfinite(m) and m > 0 and rho == 0:
            # a known density of exactly zero: rho_iso = 0*m_iso/m = 0 and n = 0*N_A/m = 0 (d, which
            # divides by zero, is not judged)
            if not (P.isfinite(got_rho) and got_rho == 0):
                bad.append((a, q, "density", "0.0", P.tok(got_rho)))
            if not (P.isfinite(n) and n == 0):
                bad.append((a, q, "number_density", "0.0", P.tok(n)))
            continue
        if not (P.isfinite(rho) and P.isfinite(m) and m > 0 and rho > 0):
            continue
        if a:
            mi = P.observe(lambda: el[a].mass)
            if P.isfinite(mi):
                e = Fraction(rho) * Fraction(mi) / Fraction(m)
                if not agrees(e, got_rho, 1e-13):
                    bad.append((a, q, "density", P.tok(fnum(e)), P.tok(got_rho)))
        elif got_rho != rho:
            bad.append((a, q, "density", P.tok(rho), P.tok(got_rho)))
        e = Fraction(rho) * na / Fraction(m)
        if not agrees(e, n, 1e-13):
            bad.append((a, q, "number_density", P.tok(fnum(e)), P.tok(n)))
        elif not (P.isfinite(d) and close(n * d ** 3, 1e24, rel=1e-12)):
            bad.append((a, q, "n*d^3", "1e24", P.tok(d if not P.isfinite(d) else n * d ** 3)))
    return bad


def revised_table(mass, density, seed, first_read=True):
    """a private table initialised, read, revised by its owner (seeded)"""
    tbl = P.fresh_private("c06")
    mass.init(tbl)
    density.init(tbl)
    if first_read:
        read_everything(tbl)
    touched = customise(tbl, seed)
    return tbl, touched


def reloaded_table(mass, density, seed):
    tbl, _ = revised_table(mass, density, seed)
    read_everything(tbl)
    mass.init(tbl, reload=True)
    density.init(tbl, reload=True)
    return tbl


def revise_and_reload(run: Run, exp, src, dens_rows, na, nontrivial_keys, mass, density):
    """read – revise – read again, then the documented way back: init(table, reload=True)"""
    seed = run.rng.randrange(1 << 30)
    extra = dict(custom_seed=seed)
    try:
        tbl, touched = revised_table(mass, density, seed)
    except Exception as e:  # noqa
        run.violation("revising a private table raises: %s: %s" % (type(e).__name__, e),
                      dict(extra, table="private-revised"), observable="revise")
        return
    for z in range(0, 119):
        run.count(key=("private-revised", z, seed), nontrivial=z in touched, tag="sweep:private-revised",
                  sample="private-revised seed=%d z=%d" % (seed, z) if z == 3 else None)
        for a, q, name, e, g in oracle_relations(tbl, z, na):
            run.violation("%s of %s%s%s in a revised private table does not follow from the table's mass and density"
                          % (name, exp.symbols.get(z), "[%d]" % a if a else "", ".ion[%d]" % q if q else ""),
                          dict(extra, table="private-revised", z=z, a=a, q=q, observable=name, expected=e, got=g),
                          observable=name, z=z, a=a)
    try:
        read_everything(tbl)
        mass.init(tbl, reload=True)
        density.init(tbl, reload=True)
    except Exception as e:  # noqa
        run.violation("init(table, reload=True) raises: %s: %s" % (type(e).__name__, e),
                      dict(extra, table="private-reloaded"), observable="reload")
        P.drop_private(tbl)
        return
    sweep(run, "private-reloaded", tbl, exp, src, dens_rows, na, nontrivial_keys, extra=extra)
    P.drop_private(tbl)


# =========================================================================== generated tables

def gen_number(rng, lo=0.001, hi=300.0, maxdec=9):
    d = rng.choice([0, 1, 2, 3, 4, 5, 6, maxdec])
    x = rng.uniform(lo, hi)
    s = "%.*f" % (d, x)
    if rng.random() < 0.05 and d > 0:
        s = s.rstrip("0")          # '12.' / '12.5'
    return s


def gen_unc_text(rng, kinds, quirk=False):
    """a field in one of the notations; returns text"""
    k = rng.choice(kinds)
    if k == "plain":
        return rng.choice(["1", "0.5", gen_number(rng, 0.001, 1.0)])
    if k == "nominal":
        return "[%d]" % rng.randint(1, 300)
    if k == "range":
        a = float(gen_number(rng))
        w = rng.choice([0.0, 0.001, 0.02, 1.5])
        d = rng.randint(2, 6)
        return "[%.*f,%.*f]" % (d, a, d, a + w)
    if k == "range0":
        # an interval one of whose limits is exactly zero (the CIAAW ranges of 36-Ar, 38-Ar, 204-Pb are such):
        # still [low,high] = midpoint with width (high-low)/sqrt(12); a nominal value of zero is still [nominal]
        d = rng.randint(0, 6)
        zero = rng.choice(["%.*f" % (d, 0.0), "0", "0.0", "0.", ".0", "0e0", "-0.0", "+0", "000"])
        other = "%.*f" % (d, float(gen_number(rng, 0.0001, 50.0)))
        form = rng.random()
        sp = rng.choice(["", "", " "])
        if form < 0.55:
            return "[%s,%s%s]" % (zero, sp, other)
        if form < 0.75:
            return "[-%s,%s%s]" % (other, sp, zero)
        if form < 0.9:
            return "[%s,%s%s]" % (zero, sp, rng.choice([zero, "0", "0.0"]))
        return "[%s]" % zero
    v = gen_number(rng)
    dec = len(v.split(".")[1]) if "." in v else 0
    r = rng.random()
    if r < 0.12 or (v.endswith(".") and not quirk):       # '69.(6)' is the quirk class too
        u = "%d.%d" % (rng.randint(0, 3), rng.randint(0, 9))
    elif quirk and r < 0.3:
        u = "%d" % rng.randint(10 ** dec, 10 ** (dec + 1))       # more digits than decimals
    else:
        u = "%d" % rng.randint(0, 10 ** min(max(dec, 1), 4) - 1) if dec else "%d" % rng.randint(0, 9)
        if dec and len(u) > dec:
            u = u[:dec]
    return "%s(%s)%s" % (v, u, "#" if rng.random() < 0.15 else "")


def ws(rng):
    return rng.choice([" ", "\t", "  ", " \t", "    "])


def gen_tables(rng, symbols, real_dens):
    """(iso_text, el_text, ab_text, dens_rows, tags)"""
    tags = set()
    quirk = rng.random() < 0.15
    if quirk:
        tags.add("unc-longer-than-decimals")
    nel = rng.choice([1, 2, 3, 4, 6, 9, 14])
    zs = sorted(rng.sample(range(1, 119), nel))
    if rng.random() < 0.25 and 1 not in zs:
        zs = [1] + zs                                       # H: D and T pre-exist
    rows = []
    isos = {}
    for z in zs:
        n_iso = rng.choice([1, 1, 2, 3, 5])
        As = sorted(rng.sample(range(1, 300), n_iso))
        if z == 1 and rng.random() < 0.6:
            As = sorted(set(As) | {rng.choice([2, 3])})
        isos[z] = As
        # (a `[lo,hi]` range cannot appear in the comma-separated isotope table)
        avg = gen_unc_text(rng, ["valunc", "valunc", "nominal", "plain"], quirk)
        for a in As:
            avg_i = avg
            if rng.random() < 0.15:
                avg_i = gen_unc_text(rng, ["valunc", "nominal"], quirk)
                tags.add("avg-differs")
            if rng.random() < 0.03:
                avg_i = ""
                tags.add("avg-empty")
            m = gen_unc_text(rng, ["valunc", "valunc", "valunc", "plain", "nominal"], quirk)
            if rng.random() < 0.01:
                m = gen_unc_text(rng, ["range"])
                tags.add("err-range-in-csv")
            p = rng.choice(["", "", "12.5(3)"])
            rows.append((z, a, "%d-%s-%d,%s,%s,%s" % (z, symbols[z], a, m, p, avg_i)))
    r = rng.random()
    if r < 0.15 and len(rows) > 1:
        rng.shuffle(rows); tags.add("reordered")
    elif r < 0.30 and len(rows) > 1:
        i = rng.randrange(len(rows))
        z, a, _ = rows[i]
        dup = "%d-%s-%d,%s,,%s" % (z, symbols[z], a, gen_unc_text(rng, ["valunc"]), gen_unc_text(rng, ["valunc"]))
        rows.insert(rng.randrange(len(rows) + 1), (z, a, dup)); tags.add("duplicated")
    elif r < 0.40 and len(rows) > 1:
        i, j = rng.randrange(len(rows)), rng.randrange(len(rows))
        rows[i], rows[j] = rows[j], rows[i]; tags.add("reordered")
    iso_lines = [t for _, _, t in rows]
    # element_mass
    el_lines = []
    for z in zs:
        if rng.random() < 0.7:
            v = gen_unc_text(rng, ["valunc", "valunc", "range", "nominal", "plain"], quirk) if rng.random() < 0.8 else "-"
            if v == "-":
                tags.add("dash")
            note = rng.choice(["", "", ws(rng) + "g m", ws(rng) + "[1.0,2.0]", ws(rng) + "r"])
            el_lines.append("%d%s%s%s%s%s%s%s" % (z, ws(rng), symbols[z], ws(rng), "name", ws(rng), v, note))
    if rng.random() < 0.1 and el_lines:
        el_lines.append(el_lines[0].split()[0] + "\tXx\tname\t" + gen_unc_text(rng, ["valunc"]))
        tags.add("el-duplicated")
    if rng.random() < 0.15 and len(el_lines) > 1:
        rng.shuffle(el_lines)
    if not el_lines:
        z = zs[0]
        el_lines.append("%d\t%s\tname\t-" % (z, symbols[z])); tags.add("dash")
    # isotope_abundance
    ab_lines = []
    listed = [z for z in zs if rng.random() < 0.7]
    if rng.random() < 0.15:
        rng.shuffle(listed)
    for z in listed:
        ab_lines.append("%d%s%s%sname" % (z, ws(rng), symbols[z], ws(rng)))
        As = [a for a in isos[z] if rng.random() < 0.8]
        if rng.random() < 0.06:
            As = []
            tags.add("empty-section")
        for a in As:
            kind = rng.choice(["valunc", "valunc", "range", "plain"])
            if kind == "plain":
                v = rng.choice(["1", "0.5", "0.25"])
            elif kind == "range":
                lo = rng.uniform(0.0, 0.9)
                v = "[%.5f,%.5f]" % (lo, lo + rng.uniform(0, 0.05))
            else:
                d = rng.randint(3, 7)
                v = "%.*f(%d)" % (d, rng.uniform(0.0001, 1.0), rng.randint(1, 99 if d > 1 else 9))
            note = rng.choice(["", "", "\tm", " [0.1,0.2]", "\tg r"])
            ab_lines.append("%s%d%s%s%s" % (rng.choice(["    ", "\t", " ", "  \t"]), a, ws(rng), v, note))
        if As and rng.random() < 0.07:
            ab_lines.append("    %d\t%s" % (As[0], "0.125(5)")); tags.add("entry-repeated")
    r = rng.random()
    if r < 0.05 and listed:
        ab_lines.append("%d\t%s\tname" % (listed[0], symbols[listed[0]])); tags.add("header-repeated")
        ab_lines.append("    %d\t0.5" % isos[listed[0]][0])
    elif r < 0.09:
        ab_lines.insert(0, "    7\t0.5"); tags.add("entry-before-header")
    elif r < 0.12:
        ab_lines.append("0\tn\tneutron"); ab_lines.append("    1\t1"); tags.add("header-zero")
    if not ab_lines:
        z = zs[-1]
        ab_lines = ["%d\t%s\tname" % (z, symbols[z]), "    %d\t1" % isos[z][-1]]
    # injected errors (the real code raises; the model must say ERR)
    r = rng.random()
    if r < 0.03:
        i = rng.randrange(len(iso_lines)); iso_lines[i] = iso_lines[i].replace("-%s-" % symbols[rows[i][0]], "-Zz-", 1)
        tags.add("err-symbol")
    elif r < 0.06:
        i = rng.randrange(len(iso_lines)); iso_lines[i] = iso_lines[i] + ",extra"; tags.add("err-fields")
    elif r < 0.09:
        i = rng.randrange(len(iso_lines)); parts = iso_lines[i].split(","); parts[1] = "12.3.4(5)"
        iso_lines[i] = ",".join(parts); tags.add("err-number")
    elif r < 0.11:
        ab_lines.append("    999\t0.5"); tags.add("err-unknown-isotope")
    elif r < 0.13:
        ab_lines.insert(rng.randrange(len(ab_lines) + 1), ""); tags.add("err-blank-line")
    elif r < 0.15:
        el_lines.append("7 N"); tags.add("err-short-line")
    elif r < 0.17:
        z = zs[-1]
        ab_lines += ["%d\t%s\tname" % (z, symbols[z]), "    %d\t0" % isos[z][0]]; tags.add("err-zero-total")
    elif r < 0.19:
        iso_lines.append("119-Uue-300,300.1(1),,[300]"); tags.add("err-unknown-element")
    # densities: a subset of the real entries with changed numbers
    dens_rows = []
    for k, v in real_dens:
        q = rng.random()
        if q < 0.85:
            dens_rows.append((k, v))
        elif q < 0.92:
            dens_rows.append((k, None))
        elif q < 0.97:
            if rng.random() < 0.15:
                # a density that is known and exactly zero: n = rho*N_A/m = 0, not "unknown"
                dens_rows.append((k, R.dec(rng.choice(["0", "0.0", "0.000"]))))
                tags.add("zero-density")
            else:
                dens_rows.append((k, R.dec(gen_number(rng, 0.01, 25.0, 4))))
    if not tags:
        tags.add("plain")
    return "\n".join(iso_lines), "\n".join(el_lines), "\n".join(ab_lines), dens_rows, tags


def run_generated(run: Run, cases, symbols, nm, nmu, na, mass, density):
    """cases: [(iso_text, el_text, ab_text, dens_rows, tags)]"""
    lines, metas = [], []
    for iso_text, el_text, ab_text, dens_rows, tags in cases:
        tbl = P.fresh_private("c06")
        dens_dict = {}
        for k, v in dens_rows:
            dens_dict[k] = None if v is None else float(v.frac())
        err = None
        try:
            with P.patched(mass, isotope_mass=iso_text, element_mass=el_text, isotope_abundance=ab_text), \
                    P.patched(density, element_densities=dens_dict):
                mass.init(tbl)
                density.init(tbl)
        except Exception as e:  # noqa
            err = type(e).__name__
        zs = list(range(0, 119))
        if err is None:
            obs, isotopes = observe_table(tbl, zs)
        else:
            obs, isotopes = {}, {}
        atoms = sorted(obs)
        l = table_lines(iso_text, el_text, ab_text, dens_rows) + ["mass_load"]
        l += ["q_isotopes %d" % z for z in zs if z in isotopes] + query_lines(atoms)
        metas.append((len(l) - 4 - len(dens_rows), err, obs, isotopes, atoms, tbl,
                      (iso_text, el_text, ab_text, dens_rows, tags)))
        lines += l
    rep = run_driver("loader", lines)
    pos = 0
    for n, err, obs, isotopes, atoms, tbl, case in metas:
        iso_text, el_text, ab_text, dens_rows, tags = case
        inp = dict(kind="generated", isotope_mass=iso_text, element_mass=el_text, isotope_abundance=ab_text,
                   densities=[(k, None if v is None else [v.m, v.e]) for k, v in dens_rows])
        key = (iso_text, el_text, ab_text)
        run.count(key=key, nontrivial=tags != {"plain"}, tag=None,
                  sample=dict(tags=sorted(tags), isotope_mass=iso_text[:120]) if len(iso_text) < 200 else None)
        for t in tags:
            run.dist["gen:" + t] = run.dist.get("gen:" + t, 0) + 1
        model_ok = rep[pos] == "ok"
        if err is not None or not model_ok:
            run.dist["gen:raises"] = run.dist.get("gen:raises", 0) + (1 if err else 0)
            if (err is None) != model_ok:
                run.disagree("mass-loader", dict(inp, what="init"), rep[pos], err or "loads")
            pos += 1 if not model_ok else n
            P.drop_private(tbl)
            continue
        bad = compare_table(run, "generated", obs, isotopes, rep[pos + 1:pos + n], atoms,
                            list(range(0, 119)), inp)
        pos += n
        # the property itself on the real objects, for well-keyed tables in the documented notations
        try:
            exp = Expect(R.read_iso_mass(iso_text), R.read_element_mass(el_text), R.read_abundance(ab_text),
                         dens_rows, nm, nmu, symbols)
        except translate.Unreadable:
            exp = None
        if exp is not None and exp.wellkeyed and "unc-longer-than-decimals" not in tags \
                and not any(t.startswith("err-") or t in ("avg-empty", "entry-before-header", "reordered")
                            for t in tags):
            for z, a in atoms:
                for name, e, g in oracle_atom(exp, tbl, z, a, na, real_data=False):
                    run.violation("%s of %s%s is not the table's (generated tables)"
                                  % (name, symbols.get(z), "[%d]" % a if a else ""),
                                  dict(inp, z=z, a=a, observable=name, expected=e, got=g),
                                  observable=name, z=z, a=a)
        P.drop_private(tbl)


# =========================================================================== parse_uncertainty

PU_FIXED = ["", "23", "23.0035(12)", "23(1)", "23.0(1.0)", "23(1.0)", "[289]", "[28.084,28.086]",
            "5.03987(215)#", "12.0(0)", "18.7(28)", "0.975(60)", "1.0078250319000(100)", "6.0E-6",
            "1e3", ".5", "5.", "-3.7409(11)", "+2.5", " 7.5 ", "[ 1.5 , 2.5 ]", "[1,2,3]", "1.5(2)(3)",
            "abc", "1.2.3", "(5)", "[", "[]", "1.5(", "1.5()", "1.5(x)", "--1", "1e", "1e+", "e5", ".",
            # intervals with a limit of exactly zero (composition table: 36-Ar, 38-Ar, 204-Pb), a zero nominal value
            "[0.0000,0.0207]", "[0.000,0.043]", "[0.0000,0.0158]", "[0,1]", "[0.0,0.0]", "[-0.5,0.0]", "[0]", "[0.000]",
            "0(0)", "0.0(5)", "0"]


def check_parse_uncertainty(run: Run, parse_uncertainty, n):
    cases = list(PU_FIXED)
    for _ in range(n):
        cases.append(gen_unc_text(run.rng, ["valunc", "valunc", "plain", "nominal", "range"],
                                  quirk=run.rng.random() < 0.3))
    for _ in range(max(20, n // 10)):
        cases.append(gen_unc_text(run.rng, ["range0"]))
    rep = run_driver("loader", ["pu " + P.hexs(c) for c in cases])
    for c, r in zip(cases, rep):
        try:
            v, u = parse_uncertainty(c)
            impl = [v, u]
        except Exception:  # noqa
            impl = "ERR"
        toks = r.split()
        model = "ERR" if toks[0] == "ERR" else [P.model_val(t) for t in toks]
        ok = (impl == "ERR") == (model == "ERR")
        if ok and impl != "ERR":
            ok = P.same(model[0], impl[0]) and P.same(model[1], impl[1])
        zero_bound = c.startswith("[") and any(P.observe(lambda t=t: float(t)) == 0 for t in c.strip("[] ").split(","))
        run.count(key=("pu", c), nontrivial=("(" in c or "[" in c),
                  tag="parse_uncertainty:zero-bound" if zero_bound else "parse_uncertainty")
        if not ok:
            run.disagree("parse_uncertainty", dict(kind="pu", text=c), model, impl)
            # the property: the documented notations
            try:
                rd = R.read_unc(c)
            except translate.Unreadable:
                continue
            ev, eu = Expect.val(rd) if rd[0] != "missing" else None, Expect.unc(rd) if rd[0] != "missing" else None
            if impl == "ERR" or not agrees(ev, impl[0], 4e-16) or not agrees(eu, impl[1], 1e-14):
                if "unc-longer" not in c:
                    run.violation("parse_uncertainty(%r) does not read the documented notation" % c,
                                  dict(kind="pu", text=c, expected=[P.tok(fnum(ev)), P.tok(fnum(eu))],
                                       got=impl if impl == "ERR" else [P.tok(impl[0]), P.tok(impl[1])]),
                                  observable="parse_uncertainty")


# =========================================================================== entry points

def setup(pt):
    from periodictable import mass, density, core  # noqa
    src = R.mass_source()
    dens_rows = R.density_source()
    nm, nmu = R.neutron_mass_consts()
    na = translate.exact(translate.number_text("periodictable/constants.py", "avogadro_number"))
    symbols = symbols_of(pt)
    exp = Expect(R.read_iso_mass(src["isotope_mass"]), R.read_element_mass(src["element_mass"]),
                 R.read_abundance(src["isotope_abundance"]), dens_rows, nm, nmu, symbols)
    return src, dens_rows, nm, nmu, na, symbols, exp


# label -> (description, steps); 'd' = density.init(table), 'm' = mass.init(table), 'r' = read what is there
INIT_ORDERS = {
    "private-density-first": ("density.init(table) before mass.init(table)", "dm"),
    "private-density-read-mass": ("density.init(table), the densities read, then mass.init(table)", "drm"),
    "private-init-twice": ("mass.init, density.init, then both once more without reload", "mdrmd"),
    "private-density-twice-mass": ("density.init twice, then mass.init", "ddm"),
}


def init_in_order(tbl, label, mass, density):
    for step in INIT_ORDERS[label][1]:
        if step == "d":
            density.init(tbl)
        elif step == "m":
            mass.init(tbl)
        else:
            for el in tbl:
                P.observe(lambda: el.density), P.observe(lambda: el.mass), P.observe(lambda: el.isotopes)


def run(run: Run) -> int:
    pt = import_repo()
    from periodictable import mass, density
    from periodictable.util import parse_uncertainty
    run.prove(generated=["ElementBase", "Constants", "MassTables", "Density"])
    try:
        src, dens_rows, nm, nmu, na, symbols, exp = setup(pt)
    except translate.Unreadable as e:
        run.proof_broken.append("translator: %s" % e)
        return run.finish(RULE)
    # 2. the string-level model reproduces the generated rows
    rep = run_driver("loader", table_lines(src["isotope_mass"], src["element_mass"],
                                           src["isotope_abundance"], dens_rows) + ["mass_selfcheck"])
    if not rep or not rep[0].startswith("ok"):
        run.disagree("translator-vs-model-parse", dict(kind="selfcheck"), rep[:1], "generated rows")
    nontrivial_keys = set(exp.iso) | {(z, 0) for z in exp.override} | {(z, 0) for z in exp.sections} \
        | {(z, 0) for z, s in symbols.items() if s in exp.dens and exp.dens[s] is not None}
    # 3. exhaustive sweeps: public table, fresh private table
    sweep(run, "public", pt.elements, exp, src, dens_rows, na, nontrivial_keys)
    priv = P.fresh_private("c06")
    mass.init(priv)
    density.init(priv)
    sweep(run, "private", priv, exp, src, dens_rows, na, nontrivial_keys)
    P.drop_private(priv)
    # a private table that was looked at before its data arrived serves the same values
    priv = P.fresh_private("c06")
    for el in priv:
        _ = el.isotopes, [iso.isotope for iso in el], P.observe(lambda: el.mass), P.observe(lambda: el.density)
    P.observe(lambda: priv.isotope("56-Fe"))
    P.observe(lambda: priv.isotope("1-H"))
    mass.init(priv)
    density.init(priv)
    sweep(run, "private-inspected", priv, exp, src, dens_rows, na, nontrivial_keys)
    P.drop_private(priv)
    # private tables whose loaders were called in another order: "any freshly initialised private table"
    for label in sorted(INIT_ORDERS):
        priv = P.fresh_private("c06")
        try:
            init_in_order(priv, label, mass, density)
        except Exception as e:  # noqa
            run.violation("initialising a private table (%s: %s) raises %s: %s"
                          % (label, INIT_ORDERS[label][0], type(e).__name__, str(e)[:120]), dict(table=label), observable="init")
            P.drop_private(priv)
            continue
        sweep(run, label, priv, exp, src, dens_rows, na, nontrivial_keys)
        P.drop_private(priv)
    # a private table that was read, revised by its owner, and re-initialised with reload=True
    revise_and_reload(run, exp, src, dens_rows, na, nontrivial_keys, mass, density)
    run.exhaustive = True
    # parse_uncertainty on its own
    check_parse_uncertainty(run, parse_uncertainty, 300 if run.tier == "quick" else 50000)
    # 4. generated tables
    n = 40 if run.tier == "quick" else 8000
    cases = [gen_tables(run.rng, symbols, dens_rows) for _ in range(n)]
    for i in range(0, n, 250):
        run_generated(run, cases[i:i + 250], symbols, nm, nmu, na, mass, density)
    return run.finish(RULE, assumptions=[
        "floats are compared at 1e-9 relative (model) / 1e-13 or exactly (oracle); rounding of the "
        "normalisation 100*v/total and of (hi+lo)/2 is not proved",
        "Python's int()/float() are modelled for ASCII decimal literals (no '_', 'inf', 'nan')",
        "the equality 'string-level model on the raw text = generated rows' is checked by the compiled "
        "driver (Lean compiler), not by the kernel"])


def replay(data) -> int:
    pt = import_repo()
    from periodictable import mass, density
    src, dens_rows, nm, nmu, na, symbols, exp = setup(pt)
    r = Run("C06", "quick", 0)
    for v in data.get("violations", []) + data.get("disagreements", []):
        inp = v["input"]
        print("input:", {k: (x if not isinstance(x, str) or len(x) < 200 else x[:200] + "…") for k, x in inp.items()})
        if inp.get("kind") == "pu":
            from periodictable.util import parse_uncertainty
            print(" real code :", P.observe(lambda: parse_uncertainty(inp["text"])))
            print(" model     :", run_driver("loader", ["pu " + P.hexs(inp["text"])]))
            print(" documented:", P.observe(lambda: R.read_unc(inp["text"])))
            continue
        if inp.get("kind") == "generated":
            dr = [(k, None if x is None else R.Dec(x[0], x[1])) for k, x in inp["densities"]]
            case = (inp["isotope_mass"], inp["element_mass"], inp["isotope_abundance"], dr, {"replay"})
            run_generated(r, [case], symbols, nm, nmu, na, mass, density)
        elif inp.get("kind") == "selfcheck":
            print(run_driver("loader", table_lines(src["isotope_mass"], src["element_mass"],
                                                   src["isotope_abundance"], dens_rows) + ["mass_selfcheck"]))
            continue
        else:
            tbl = pt.elements
            if inp.get("table") == "private-revised":
                tbl, _ = revised_table(mass, density, inp["custom_seed"])
                print(" relations on the real code:", oracle_relations(tbl, inp.get("z", 0), na))
                continue
            if inp.get("table") == "private-reloaded":
                tbl = reloaded_table(mass, density, inp["custom_seed"])
            elif str(inp.get("table")).startswith("private"):
                tbl = P.fresh_private("c06")
                if inp.get("table") == "private-inspected":
                    for el in tbl:
                        _ = el.isotopes, [iso.isotope for iso in el]
                if inp.get("table") in INIT_ORDERS:
                    print(" table initialised as:", INIT_ORDERS[inp["table"]][0])
                    P.observe(lambda: init_in_order(tbl, inp["table"], mass, density))
                else:
                    mass.init(tbl)
                    density.init(tbl)
            z, a = inp.get("z", 0), inp.get("a", 0)
            print(" oracle on the real code:", oracle_atom(exp, tbl, z, a, na))
            if inp.get("route") == "ion":
                print(" oracle on the ion       :", oracle_ion(exp, tbl, z, a, inp["q"], na))
            elif str(inp.get("route", "")).startswith("table."):
                for name, aa, long_name in ALIASES:
                    for how, get in alias_routes(tbl, name, long_name):
                        if how == inp["route"]:
                            print(" oracle through %s:" % how, oracle_atom(exp, tbl, 1, aa, na, obj=P.observe(get)))
            obs, _ = observe_table(tbl, [z])
            print(" real code :", [P.tok(x) for x in obs.get((z, a), [])])
            lines = table_lines(src["isotope_mass"], src["element_mass"], src["isotope_abundance"], dens_rows)
            rep = run_driver("loader", lines + ["mass_load"] + query_lines([(z, a)]))
            toks = rep[-1].split()
            print(" model     :", [P.tok(P.model_val(t)) for t in (toks[1:] if a else toks)])
    for d in r.disagreements:
        print(" disagreement:", d["input"].get("what", ""), "z=%s a=%s" % (d["input"].get("z"), d["input"].get("a")),
              "model", d["model"], "impl", d["impl"])
    for d in r.violations:
        print(" violation:", d["what"], d["input"].get("expected"), d["input"].get("got"))
    return 0
