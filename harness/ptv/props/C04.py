"""C04 — neutron results obey density, cell-size, grouping, unit and vector invariances.

* proofs: `Properties/C04.lean` over the C03 model; the anchor theorems (1.798 Å = 2200 m/s =
  25.3 meV) are `norm_num` facts about the *generated* constants and defining expressions
  (`Generated/Constants`, `Generated/NeutronConsts`), re-checked against the source on every run;
* correspondence: conversions (`conv`), and for every related pair both members through
  `ptdriver neutron` (`scat`, `scats` = `Items.atoms` of a nested structure, `scatv`, `scate`);
* oracle = the relation itself, two calls on the real code (plus exact reference values of the
  constants for `E·λ²`, `v·λ` in Decimal): density scaling, count scaling (`c*formula`, scaled
  dict), permutation, regrouping (flatten to a dict, reversed nesting, wrapped in a group with
  divided counts, split entries, Hill form), energy vs wavelength, vector vs scalars,
  natural_density vs density, non-negativity of every result;
  same-charge ions of different isotopes of one element in one compound (distinct atoms, 12% of the cases);
  `stage_two_tables`: the same nuclide from the public table and from a private table with revised neutron
  records in one compound - listed, reversed, grouped, as a dict, as the sum of its public and private parts in
  both orders; `stage_weighted_parts`: a compound given as weighted parts (`neutron_composite_sld`) with parts
  whose text forms coincide (shared name=, counts equal to six digits, same text from two tables) - parts listed
  forwards vs backwards vs `neutron_sld` of the summed formula ("depend only on composition per unit mass,
  density and wavelength"; the calculator itself is C17's subject).
"""
from __future__ import annotations

import math
from fractions import Fraction

from ..common import Run, close, f2h, h2f, run_driver, import_repo
from .. import pyside
from .. import neutron_common as nc
from . import C03 as base

RULE = ("related pairs generated together: (compound, ρ, λ) with k·ρ; c·counts as c*formula and as a "
        "scaled dict; a shuffled / regrouped / split / flattened / Hill-ordered structure of nesting "
        "depth 0..3 over atoms with data (incl. ions, energy-dependent); energy=E(λ) vs wavelength=λ; "
        "a vector of 1..6 wavelengths vs its scalars; natural_density vs the equivalent density; "
        "conversions on log-uniform E, λ, v and vectors; 12% of the structures hold 2..3 same-charge ions of "
        "different isotopes of one element; 300 (quick) compounds holding the same nuclide from the public and from "
        "a private table with revised records in 8..10 orders/groupings/sums; 200 (quick) compounds given as "
        "2..4 weighted parts whose text forms coincide, parts forwards / backwards / summed, and one calculator applied in "
        "turn to the weights, the weights x c and the density x k with all three results held and judged afterwards "
        "(vector entries also against calculators built with each wavelength alone); "
        "D2O_sld / D2O_match of every case by energy= vs wavelength=; natural_density recomputed from the atoms' masses "
        "(keyword and '@..n' spelling); 60 (quick) compounds of a private table whose atoms carry user-defined "
        "neutron records, vector vs scalars vs energies; a case is non-trivial when the compound has "
        ">= 2 distinct atoms or a nested group; distinct by canonical input")


# --------------------------------------------------------------------------- structures

gen_struct = nc.gen_struct


def reverse_all(s):
    return [(c, f if pyside.is_key(f) else reverse_all(f)) for c, f in reversed(s)]


def split_entries(rng, s):
    out = []
    for c, f in s:
        if not pyside.is_key(f):
            out.append((c, split_entries(rng, f)))
        elif rng.random() < 0.5:
            out.append((c / 4, f))
            out.append((c * 3 / 4, f))
        else:
            out.append((c, f))
    return out


def wrap(rng, s):
    m = rng.choice([2.0, 4.0, 0.5, 8.0])
    return [(m, [(c / m, f) for c, f in s])]


def variants(rng, s):
    """[(name, structure | dict)] all denoting the same composition"""
    flat = pyside.flat_counts(s)
    return [("reversed", reverse_all(s)), ("split", split_entries(rng, s)), ("wrapped", wrap(rng, s)),
            ("dict", {k: float(v) for k, v in flat.items()}),
            ("shuffled-dict", {k: float(flat[k]) for k in rng.sample(sorted(flat), len(flat))})]


def obj_of(pt, s, density):
    from periodictable.formulas import formula
    tbl = pt.elements
    if isinstance(s, dict):
        return formula({pyside.atom_of(k, tbl): c for k, c in s.items()}, density=density)
    return formula(pyside.struct_objs(s, tbl), density=density)


def scalar(pt, f, w):
    from periodictable import nsf
    return nc.scat_tuple(nsf.neutron_scattering(f, wavelength=w))


def scaled(res, k):
    if isinstance(res, str):
        return res
    return [res[0] * k, res[1] * k, res[2] * k, res[3] * k, res[4] * k, res[5] * k, res[6] / k]


def check_nonneg(run, res, inp):
    if isinstance(res, str):
        return
    if min(res[1:6]) < 0 or not res[6] > 0:
        run.violation("a neutron result is negative (sld_im, sld_inc, cross sections) or penetration is not > 0",
                      inp, site="nonneg")


# --------------------------------------------------------------------------- stages

def stage_conversions(run, pt, orc, quick):
    from periodictable import nsf
    import numpy as np
    rng = run.rng
    n = 400 if quick else 20000
    vals = [math.exp(rng.uniform(math.log(1e-3), math.log(1e5))) for _ in range(n)]
    vals += [25.3, 1.798, 2200.0, 0.05, 50.0, 81.80420236140121, 1.0]
    lines = []
    for x in vals:
        lines += ["conv wl %s" % f2h(x), "conv en %s" % f2h(x), "conv wv %s" % f2h(x)]
    rep = iter(run_driver("neutron", lines))
    EF, VF = orc.energy_factor, orc.velocity_factor
    for x in vals:
        run.count(key="conv:%r" % x, nontrivial=True, tag="conversion")
        wl, en, wv = float(nsf.neutron_wavelength(x)), float(nsf.neutron_energy(x)), \
            float(nsf.neutron_wavelength_from_velocity(x))
        for name, impl in (("neutron_wavelength", wl), ("neutron_energy", en),
                           ("neutron_wavelength_from_velocity", wv)):
            m = h2f(next(rep))
            if not close(m, impl, rel=1e-12):
                run.disagree("conversions", dict(fn=name, x=x), m, impl)
        inp = dict(conversion=x)
        if not close(x * wl * wl, float(EF), rel=1e-12):
            run.violation("E*lambda(E)^2 is not ENERGY_FACTOR = h^2/(2 m_n)", inp, site="E_mul_lambda_sq")
        if not close(en * x * x, float(EF), rel=1e-12):
            run.violation("E(lambda)*lambda^2 is not ENERGY_FACTOR = h^2/(2 m_n)", inp, site="E_mul_lambda_sq")
        if not close(x * wv, float(VF), rel=1e-12):
            run.violation("v*lambda(v) is not VELOCITY_FACTOR = h/m_n", inp, site="v_mul_lambda")
        if not close(float(nsf.neutron_energy(wl)), x, rel=1e-12) or \
                not close(float(nsf.neutron_wavelength(en)), x, rel=1e-12):
            run.violation("energy -> wavelength -> energy is not the identity", inp, site="roundtrip")
    # vectors are elementwise
    arr = np.array(vals[:50])
    for fn in (nsf.neutron_wavelength, nsf.neutron_energy, nsf.neutron_wavelength_from_velocity):
        v = fn(arr)
        if np.shape(v) != arr.shape or not all(close(float(v[i]), float(fn(float(arr[i]))), rel=1e-15) for i in range(len(arr))):
            run.violation("%s of a vector is not the vector of scalar results" % fn.__name__,
                          dict(conversion=list(map(float, arr[:5]))), site="vector-conversion")
    # anchors on the real code (the proof side is Properties/C04.lean over the generated constants)
    if not abs(float(nsf.neutron_wavelength(25.3)) - 1.798) < 5e-4:
        run.violation("neutron_wavelength(25.3 meV) is not 1.798 A", dict(conversion=25.3), site="anchor")
    if not abs(float(nsf.neutron_wavelength_from_velocity(2200.)) - 1.798) < 5e-4:
        run.violation("neutron_wavelength_from_velocity(2200 m/s) is not 1.798 A", dict(conversion=2200.0), site="anchor")
    if not abs(float(nsf.neutron_energy(1.798)) - 25.3) < 1e-2:
        run.violation("neutron_energy(1.798 A) is not 25.3 meV", dict(conversion=1.798), site="anchor")
    if nsf.ABSORPTION_WAVELENGTH != 1.798:
        run.violation("ABSORPTION_WAVELENGTH is not 1.798", dict(conversion=1.798), site="anchor")


def evaluate_case(pt, case):
    """all related results of one case on the real code: {name: (outcome, N)}"""
    from periodictable import nsf
    import numpy as np
    s = case["struct"]
    rho, w, k, c = case["density"], case["w"], case["k"], case["c"]
    f = obj_of(pt, s, rho)
    atoms = nc.atoms_of(f)
    N = nc.number_density(pt, atoms, rho)
    out = {"base": scalar(pt, f, w)}
    out["density*k"] = scalar(pt, obj_of(pt, s, rho * k), w)
    g = c * f
    g.density = rho
    out["c*formula"] = scalar(pt, g, w)
    out["scaled-dict"] = scalar(pt, obj_of(pt, {a: c * n for a, n in atoms}, rho), w)
    for name, v in case["variants"]:
        out["regroup:" + name] = scalar(pt, obj_of(pt, v, rho), w)
    out["hill"] = scalar(pt, _with_density(f.hill, rho), w)
    e = float(nsf.neutron_energy(w))
    out["energy"] = nc.scat_tuple(nsf.neutron_scattering(f, energy=e))
    # the other documented entry points of the same calculation: the function neutron_sld and the
    # Formula method, each by wavelength and by the equivalent energy
    def _sld3(v):
        return "missing" if v is None or v[0] is None else [float(x) for x in v]
    out["entry:neutron_sld(wavelength)"] = _sld3(nsf.neutron_sld(f, wavelength=w))
    out["entry:neutron_sld(energy)"] = _sld3(nsf.neutron_sld(f, energy=e))
    out["entry:Formula.neutron_sld(wavelength)"] = _sld3(f.neutron_sld(wavelength=w))
    out["entry:Formula.neutron_sld(energy)"] = _sld3(f.neutron_sld(energy=e))
    # the D2O contrast route takes the same beam keywords: by wavelength and by the equivalent energy
    vf, df = case.get("vf", 0.75), case.get("df", 0.25)
    if rho > 0 and f.mass > 0:
        for kind, beam in (("wavelength", dict(wavelength=w)), ("energy", dict(energy=e))):
            try:
                v = nsf.D2O_sld(f, volume_fraction=vf, D2O_fraction=df, **beam)
                m = nsf.D2O_match(f, **beam)
                out["d2o:" + kind] = "missing" if v is None or v[0] is None else \
                    [float(x) for x in v] + [float(m[0]), float(m[1])]
            except Exception as ex:  # noqa
                out["d2o:" + kind] = "raises %s: %s" % (type(ex).__name__, ex)
    # the natural density computed here from the atoms' own masses (every isotope replaced by its natural element,
    # charges kept) - not from Formula.natural_density
    nd_indep = None
    me = float(base.me_exact())
    nat = sum(n_ * (pt.elements[a_[0]].mass - a_[2] * me) for a_, n_ in atoms)
    if nat > 0 and f.mass > 0:
        out["natural-independent"] = scalar(pt, _natural(pt, s, rho * nat / f.mass), w)
        nd_indep = float(rho * nat / f.mass)
    ws = case["ws"]
    if all(float(x) == int(x) for x in ws):
        ints = [int(x) for x in ws]
        warr = [ints, tuple(ints), np.array(ints)][len(ints) % 3]       # integers given as integers
    else:
        warr = nc.reused_array(ws)
    vec = nc.scat_vectors(nsf.neutron_scattering(f, wavelength=warr), len(ws))
    if [float(x) for x in warr] != [float(x) for x in ws]:
        out["argument-modified"] = True
    out["vector"] = vec
    out["scalars"] = [scalar(pt, f, x) for x in ws]
    # natural density: the same compound given by its natural density
    nd = f.natural_density
    out["natural"] = scalar(pt, _natural(pt, s, nd), w)
    # the keywords on a Formula object that already carries a (different) density: the keyword wins,
    # however the compound is passed
    from periodictable.formulas import formula as _formula
    other = _formula(pyside.struct_objs(s, pt.elements), density=rho * 1.75)
    out["natural-keyword-on-object"] = nc.scat_tuple(nsf.neutron_scattering(other, natural_density=nd, wavelength=w))
    out["density-keyword-on-object"] = nc.scat_tuple(nsf.neutron_scattering(other, density=rho, wavelength=w))
    # the compound as a string, after a formula obtained from the same string (and the same keywords) was
    # modified by its owner: the string still means what it says
    try:
        text = str(_formula(pyside.struct_objs(s, pt.elements)))
        if _formula(text) == _formula(pyside.struct_objs(s, pt.elements)):
            mine = _formula(text, density=rho)
            mine.density = rho * 3.0
            mine += _formula("Xe")
            out["string-after-modification"] = nc.scat_tuple(nsf.neutron_scattering(text, density=rho, wavelength=w))
            if nd_indep is not None and "e" not in repr(nd_indep) and "@" not in text:
                out["natural-independent-string"] = nc.scat_tuple(nsf.neutron_scattering(
                    "%s@%rn" % (text, nd_indep), wavelength=w))
    except Exception as e:  # noqa
        out["string-after-modification"] = "raises " + type(e).__name__
    return f, atoms, N, out


def _with_density(f, rho):
    f.density = rho
    return f


def _natural(pt, s, nd):
    from periodictable.formulas import formula
    return formula(pyside.struct_objs(s, pt.elements), natural_density=nd)


def model_lines(case, atoms):
    rho, w, k, c = case["density"], case["w"], case["k"], case["c"]
    L = ["scats %s %s %s" % (f2h(rho), f2h(w), pyside.struct_tokens(case["struct"])),
         "scat %s %s %s" % (f2h(rho * k), f2h(w), nc.atoms_tokens(atoms)),
         "scat %s %s %s" % (f2h(rho), f2h(w), nc.atoms_tokens([(a, c * n) for a, n in atoms]))]
    for name, v in case["variants"]:
        if isinstance(v, dict):
            L.append("scat %s %s %s" % (f2h(rho), f2h(w), nc.atoms_tokens(list(v.items()))))
        else:
            L.append("scats %s %s %s" % (f2h(rho), f2h(w), pyside.struct_tokens(v)))
    from periodictable import nsf
    L.append("scate %s %s %s" % (f2h(rho), f2h(float(nsf.neutron_energy(w))), nc.atoms_tokens(atoms)))
    L.append("scatv %s %d %s %s" % (f2h(rho), len(case["ws"]), " ".join(f2h(x) for x in case["ws"]),
                                  nc.atoms_tokens(atoms)))
    return L


def gen_isotope_ions(rng, pools):
    """2..3 ions of the same charge of different isotopes of one element (the natural element's ion among
    them in 40%): an isotopically enriched salt written with explicit charges.  They are distinct atoms."""
    groups = getattr(pools, "_ion_groups", None)
    if groups is None:
        d = {}
        for z, A, q in pools.ions:
            d.setdefault((z, q), []).append(A)
        groups = pools._ion_groups = sorted((k, sorted(v)) for k, v in d.items() if len(v) >= 2)
    (z, q), As = rng.choice(groups)
    picks = rng.sample(As, 3 if len(As) >= 3 and rng.random() < 0.3 else 2)
    if 0 in As and 0 not in picks and rng.random() < 0.4:
        picks[rng.randrange(len(picks))] = 0
    return [(rng.choice([1, 1, 2, 3, 4, 0.5, 1.5]), (z, A, q)) for A in picks]


def gen_case(rng, pools):
    import random
    s = gen_struct(rng, pools)
    if rng.random() < 0.12:
        for e in gen_isotope_ions(rng, pools):
            s.insert(rng.randrange(len(s) + 1), e)
    vseed = rng.randrange(2 ** 31)
    return dict(struct=s, vseed=vseed, density=nc.gen_density(rng), w=nc.gen_wavelength(rng, pools),
                k=rng.choice([2.0, 0.5, 10.0, 1e-3, 3.7, 0.1, 1.0000001, 123.456, 1e-9, 1e-12, 1e6]),
                c=rng.choice([2.0, 3.0, 0.5, 10.0, 0.1, 7.0, 1e3, 1e-3, 2.5, 1e-11, 1e-13, 1e9]),
                ws=([float(rng.randint(1, 20)) for _ in range(rng.randint(1, 6))] if rng.random() < 0.2 else
                    [nc.gen_wavelength(rng, pools) for _ in range(rng.randint(1, 6))]),
                variants=variants(random.Random(vseed), s))


def judge(run, pt, case, replies):
    f, atoms, N, out = evaluate_case(pt, case)
    inp = dict(struct=case["struct"], density=case["density"], w=case["w"], k=case["k"], c=case["c"], ws=case["ws"],
               vseed=case["vseed"])
    b = out["base"]
    k = case["k"]
    rel = []                         # (relation name, expected, got, N for tolerance)
    rel.append(("density scaled by k", scaled(b, k), out["density*k"], N * k))
    rel.append(("counts scaled by c (c*formula)", b, out["c*formula"], N))
    rel.append(("counts scaled by c (dict)", b, out["scaled-dict"], N))
    for name, _ in case["variants"]:
        rel.append(("regrouping/reordering (%s)" % name, b, out["regroup:" + name], N))
    rel.append(("Hill reordering", b, out["hill"], N))
    rel.append(("energy= vs wavelength=", b, out["energy"], N))
    rel.append(("natural_density vs density", b, out["natural"], N))
    if "natural-independent" in out:
        rel.append(("natural_density vs density (natural_density = density x natural mass / actual mass from the "
                    "atoms' masses)", b, out["natural-independent"], N))
    if "natural-independent-string" in out:
        rel.append(("natural_density vs density (the '@<natural density>n' spelling)", b, out["natural-independent-string"], N))
    rel.append(("natural_density= keyword on a Formula object with its own density", b, out["natural-keyword-on-object"], N))
    rel.append(("density= keyword on a Formula object with its own density", b, out["density-keyword-on-object"], N))
    if "string-after-modification" in out:
        rel.append(("the compound as a string, after an earlier formula from that string was modified", b,
                    out["string-after-modification"], N))
    if isinstance(out["vector"], str):
        rel.append(("vector vs scalar", out["scalars"][0], out["vector"], N))
    else:
        for i, (v, sc) in enumerate(zip(out["vector"], out["scalars"])):
            rel.append(("vector entry %d vs scalar call" % i, sc, v, N))
    for name in [n_ for n_ in out if n_.startswith("entry:")]:
        want3 = b if isinstance(b, str) else list(b[:3])
        if isinstance(b, str) and b == "vacuum":
            want3 = [0.0, 0.0, 0.0]
        got3 = out[name]
        ok = (want3 == got3) if isinstance(want3, str) or isinstance(got3, str) else \
            nc.sld_close(got3, want3, N, nc.sigma_total_xs(b))
        if not ok:
            run.violation("invariance broken: %s differs from neutron_scattering(wavelength=)" % name[6:], inp,
                          relation="energy= vs wavelength=", site="entry-point", got=str(got3), expected=str(want3))
    dw, de = out.get("d2o:wavelength"), out.get("d2o:energy")
    if dw is not None or de is not None:
        if isinstance(dw, str) or isinstance(de, str):
            okd = dw == de or (isinstance(dw, str) and isinstance(de, str) and dw[:6] == de[:6] == "raises")
        else:
            tot = nc.sigma_total_xs(b) if not isinstance(b, str) else 0.0
            okd = all(close(x, y, rel=1e-7, abs_=max(1e-12, 1e-10 * nc.re_scale(N, tot))) for x, y in zip(dw, de))
        if not okd:
            run.violation("invariance broken: D2O_sld / D2O_match with energy= differ from the equivalent wavelength=: "
                          "%r vs %r" % (de, dw), inp, relation="energy= vs wavelength=", site="d2o-route")
    if out.get("argument-modified"):
        run.violation("neutron_scattering modified the wavelength array it was given", inp,
                      relation="vector entry", site="argument-modified")
    for name, want, got, n in rel:
        if not nc.scat_close(want, got, n):
            run.violation("invariance broken: %s" % name, inp, relation=name.split(" (")[0], site="invariance")
            break
    for r in [b, out["density*k"], out["energy"]] + ([] if isinstance(out["vector"], str) else out["vector"]):
        check_nonneg(run, r, inp)
    # correspondence: model on each related input vs the real result
    it = iter(replies)
    pairs = [("base(Items.atoms)", out["base"], N), ("density*k", out["density*k"], N * k),
             ("scaled counts", out["scaled-dict"], N)]
    pairs += [("regroup:" + name, out["regroup:" + name], N) for name, _ in case["variants"]]
    pairs += [("energy", out["energy"], N)]
    for name, real, n in pairs:
        m = nc.parse_outcome(next(it))
        if not nc.scat_close(real, m, n):
            run.disagree("neutron_scattering/" + name.split(":")[0], inp, m, real, which=name)
            return
    mv = nc.parse_outcome(next(it))
    rv = out["vector"]
    if isinstance(mv, str) or isinstance(rv, str):
        if mv != rv:
            run.disagree("neutron_scattering/vector", inp, mv, rv)
    else:
        for a, bb in zip(mv, rv):
            if not nc.scat_close(bb, a, N):
                run.disagree("neutron_scattering/vector", inp, a, bb)
                break


def nontrivial(case):
    from ..gens import depth_of
    return depth_of(case["struct"]) > 0 or len(pyside.flat_counts(case["struct"])) >= 2


def run_cases(run, pt, tl, cases):
    lines = list(tl)
    spans = []
    for c in cases:
        f = obj_of(pt, c["struct"], c["density"])
        ml = model_lines(c, nc.atoms_of(f))
        spans.append(len(ml))
        lines += ml
    rep = run_driver("neutron", lines)
    pos = 0
    for c, n in zip(cases, spans):
        key = repr((c["struct"], c["density"], c["w"], c["k"], c["c"], c["ws"]))
        run.count(key=key, nontrivial=nontrivial(c), tag="related-pairs",
                  sample=dict(struct=c["struct"], density=c["density"], w=c["w"], k=c["k"], c=c["c"])
                  if len(key) < 500 else None)
        judge(run, pt, c, rep[pos:pos + n])
        pos += n


def stage_no_density(run, pt, pools, n):
    """no density given at all: whatever the calculator does (default density of a single-element
    material, rejection of a compound) it does for every spelling of the same composition"""
    import random
    rng = run.rng

    def outcome(form):
        try:
            return scalar(pt, obj_of(pt, form, None), 1.8)
        except Exception as e:  # noqa: the rejection is part of the behaviour compared
            return "raises " + type(e).__name__

    def same(a, b):
        if isinstance(a, str) or isinstance(b, str):
            return a == b
        return len(a) == len(b) and all(close(x, y, rel=1e-9) for x, y in zip(a, b))

    for i in range(n):
        if i % 3 == 0:
            z, a = rng.choice(pools.elements + pools.common)
            k = (z, a, 0)
            s = [(rng.choice([1.0, 2.0, 3.0]), k)] if rng.random() < 0.5 else [(2.0, [(1.0, k), (2.0, k)])]
        else:
            s = gen_struct(rng, pools)
        ref = outcome(s)
        forms = variants(random.Random(rng.randrange(2 ** 31)), s) + \
            [("all counts doubled", [(2 * c, f) for c, f in s]), ("one group, multiplier 2", [(2.0, s)]),
             ("one group, multiplier 1", [(1.0, s)])]
        run.count(key=("no-density", repr(s)), nontrivial=True, tag="no-density",
                  sample=dict(struct=s, outcome=ref if isinstance(ref, str) else "values") if i < 3 else None)
        for name, form in forms:
            got = outcome(form)
            if not same(ref, got):
                run.violation("without a density the %s spelling gives %s, the original %s"
                              % (name, got if isinstance(got, str) else "values", ref if isinstance(ref, str) else "other values"),
                              dict(kind="no-density", struct=s, variant=name, form=form if not isinstance(form, dict) else
                                   [[list(k), v] for k, v in form.items()]), relation="regroup-no-density")
                break


# --------------------------------------------------------------------------- atoms of two tables in one compound

def _mixed_objs(pt, T, entries):
    return tuple((c, pyside.atom_of(tuple(k), T if priv else pt.elements)) for c, k, priv in entries)


def _mixed_forms(pt, T, entries, rho):
    """[(name, Formula)]: the same atoms (each from its own table) listed / grouped / summed in different ways"""
    from periodictable.formulas import formula
    objs = _mixed_objs(pt, T, entries)
    pub = tuple(o for o, e in zip(objs, entries) if not e[2])
    prv = tuple(o for o, e in zip(objs, entries) if e[2])
    h = max(1, len(objs) // 2)
    forms = [("listed", formula(objs, density=rho)),
             ("reversed", formula(tuple(reversed(objs)), density=rho)),
             ("private atoms first", formula(prv + pub, density=rho)),
             ("public atoms first", formula(pub + prv, density=rho)),
             ("first half in a group", formula(((2.0, tuple((c / 2, a) for c, a in objs[:h])),) + objs[h:], density=rho)),
             ("last half in a group", formula(objs[:h] + ((4.0, tuple((c / 4, a) for c, a in objs[h:])),), density=rho))]
    if pub and prv:
        a, b = formula(pub), formula(prv)
        forms.append(("sum: public part + private part", _with_density(a + b, rho)))
        forms.append(("sum: private part + public part", _with_density(b + a, rho)))
    d1, d2 = {}, {}
    for c, a in objs:
        d1[a] = d1.get(a, 0) + c
    for c, a in reversed(objs):
        d2[a] = d2.get(a, 0) + c
    forms.append(("dict", formula(d1, density=rho)))
    forms.append(("dict, reversed insertion", formula(d2, density=rho)))
    return forms


def _mixed_results(pt, T, inp):
    from periodictable.constants import avogadro_number
    rho, w = inp["density"], inp["w"]
    forms = _mixed_forms(pt, T, inp["entries"], rho)
    f = forms[0][1]
    n_atoms = sum(f.atoms.values())
    N = n_atoms / (f.mass / rho / avogadro_number * 1e24) if f.mass > 0 else 0.0
    return N, [(name, scalar(pt, g, w)) for name, g in forms]


def stage_two_tables(run, pt, pools, n):
    """one compound holding the same nuclide from two tables (the public one and a private one with revised
    neutron records): every atom carries its own record, so listing, grouping or summing the same atoms in
    another order changes nothing"""
    rng = run.rng
    try:
        T = nc.revised_private_table()
    except Exception as e:  # noqa
        run.violation("a private table with revised data cannot be set up: %s: %s" % (type(e).__name__, e),
                      dict(kind="two-tables"), relation="regrouping/reordering", site="two-tables")
        return
    for i in range(n):
        entries = []
        seen = set()
        for _ in range(rng.choice([1, 1, 2, 3])):
            k = pools.atom(rng)
            if k in seen:
                continue
            seen.add(k)
            # the same nuclide from both tables (now and then under another charge in the private one)
            entries.append([rng.choice([1, 2, 3, 4, 6, 0.5, 1.5, 12]), list(k), False])
            k2 = k
            if rng.random() < 0.2:
                qs = [q for (z, A, q) in pools.ions if (z, A) == k[:2] and q != k[2]]
                if qs:
                    k2 = (k[0], k[1], rng.choice(qs))
            entries.append([rng.choice([1, 2, 3, 4, 6, 0.5, 1.5, 12]), list(k2), True])
        for _ in range(rng.choice([0, 1, 2])):
            k = pools.atom(rng)
            if k not in seen:
                seen.add(k)
                entries.append([rng.choice([1, 2, 3, 4, 0.5, 8]), list(k), rng.random() < 0.5])
        rng.shuffle(entries)
        inp = dict(kind="two-tables", entries=entries, density=nc.gen_density(rng), w=nc.gen_wavelength(rng, pools))
        run.count(key=("two-tables", repr(entries), inp["density"], inp["w"]), nontrivial=True, tag="two-tables",
                  sample=inp if i < 2 else None)
        try:
            N, res = _mixed_results(pt, T, inp)
        except Exception as e:  # noqa
            run.violation("a compound of atoms from two tables raises %s: %s" % (type(e).__name__, e), inp,
                          relation="regrouping/reordering", site="two-tables")
            continue
        base_name, b = res[0]
        for name, r in res[1:]:
            if not nc.scat_close(b, r, N):
                run.violation("invariance broken: the same atoms (the same nuclide from a private table with revised neutron "
                              "records and from the public table) %s differ from the atoms as %s" % (name, base_name),
                              inp, relation="regrouping/reordering", site="two-tables", variant=name)
                break
        check_nonneg(run, b, inp)


# --------------------------------------------------------------------------- compounds given as weighted parts

def _composite_materials(pt, T, inp):
    from periodictable.formulas import formula
    ms = []
    for m in inp["materials"]:
        tbl = T if m.get("private") else pt.elements
        ms.append(formula(pyside.struct_objs(_fix(m["struct"]), tbl), name=m.get("name")))
    return ms


def _composite_results(pt, T, inp, extra=None):
    """the compound sum_k w_k*material_k at one density: through the calculator for weighted parts with the parts
    listed forwards and backwards, and as the explicitly summed formula -> per wavelength 3 x [re, im, inc], N, tot"""
    import functools
    import operator
    import numpy as np
    from periodictable import nsf
    from periodictable.constants import avogadro_number
    ms = _composite_materials(pt, T, inp)
    wts = [float(x) for x in inp["weights"]]
    ws = inp["ws"]
    warg = ws[0] if inp["scalar"] else np.array(ws, dtype=float)
    n = len(ws)
    rho = inp["density"]

    def cols(v):
        c = [np.broadcast_to(np.asarray(x, dtype=float), (n,)) for x in v]
        return [[float(x[i]) for x in c] for i in range(n)]

    calc = nsf.neutron_composite_sld(ms, wavelength=warg)
    fwd = calc(np.array(wts), density=rho)
    fwd_at_once = cols(fwd)
    if extra is not None:
        # one calculator used for a series (the result of the first call is held while the same calculator is applied to
        # all counts x c and then to density x k): the held results obey the same relations
        k, c = inp.get("k", 2.0), inp.get("c", 3.0)
        cnt = calc(np.array(wts) * c, density=rho)
        dens = calc(np.array(wts), density=rho * k)
        extra["held"] = cols(fwd)
        extra["counts*c"] = cols(cnt)
        extra["density*k"] = cols(dens)
        # every wavelength of the vector on its own ("i-th entries equal the scalar call at the i-th wavelength")
        extra["scalars"] = [cols(nsf.neutron_composite_sld(ms, wavelength=x)(np.array(wts), density=rho))[0] for x in ws] \
            if not inp["scalar"] else None
    rev = nsf.neutron_composite_sld(ms[::-1], wavelength=warg)(np.array(wts[::-1]), density=rho)
    mix = functools.reduce(operator.add, [w * m for w, m in zip(wts, ms)])
    direct = nsf.neutron_scattering(mix, density=rho, wavelength=warg)
    full = [nc.scat_tuple(direct)] if inp["scalar"] else nc.scat_vectors(direct, n)
    N = sum(mix.atoms.values()) / (mix.mass / rho / avogadro_number * 1e24)
    return fwd_at_once, cols(rev), [x[:3] for x in full], N, [nc.sigma_total_xs(x) for x in full]


def _judge_series(run, inp, extra, direct, N, tot):
    """the calculator for weighted parts used for a series of calls: the results held from the earlier calls, looked at
    after the later ones, still obey the invariances (summed formula, counts x c, density x k, vector entry = scalar call)"""
    k = inp["k"]
    for j in range(len(inp["ws"])):
        d = direct[j]
        if isinstance(d, str):
            return
        if not nc.sld_close(extra["held"][j], d, N, tot[j]):
            run.violation("invariance broken: the SLD of a compound given as weighted parts, held while the same calculator "
                          "was applied to other weights and densities, differs from neutron_sld of the same atoms summed "
                          "into one formula (entry %d): %r vs %r" % (j, extra["held"][j], d), inp,
                          relation="regrouping/reordering", site="weighted-parts-series", variant="held result")
            return
        if not nc.sld_close(extra["counts*c"][j], d, N, tot[j]):
            run.violation("invariance broken: counts scaled by c (all weights of the parts x %r, result held during a later "
                          "call of the calculator) (entry %d): %r vs %r" % (inp["c"], j, extra["counts*c"][j], d), inp,
                          relation="counts scaled by c", site="weighted-parts-series", variant="weights*c")
            return
        want = [x * k for x in d]
        if not nc.sld_close(extra["density*k"][j], want, N * k, tot[j] * k):
            run.violation("invariance broken: density scaled by k = %r through the calculator for weighted parts (entry %d): "
                          "%r vs k x %r" % (k, j, extra["density*k"][j], d), inp,
                          relation="density scaled by k", site="weighted-parts-series", variant="density*k")
            return
        if extra.get("scalars") is not None and not nc.sld_close(extra["held"][j], extra["scalars"][j], N, tot[j]):
            run.violation("invariance broken: vector entry %d of the calculator for weighted parts (held during later calls) "
                          "differs from the calculator built with that wavelength alone: %r vs %r"
                          % (j, extra["held"][j], extra["scalars"][j]), inp,
                          relation="vector entry", site="weighted-parts-series", variant="scalar calculators")
            return


def stage_weighted_parts(run, pt, pools, n):
    """`neutron_composite_sld(parts, wavelength)(weights, density)` is the neutron SLD of the compound
    sum_k weights[k]*parts[k] at that density: it depends on the composition, the density and the wavelength only -
    not on the order in which the parts are listed, their display names, how their counts print, or the table
    object an atom was taken from.  Parts whose text forms coincide are generated on purpose."""
    rng = run.rng
    try:
        T = nc.revised_private_table()
    except Exception as e:  # noqa
        run.violation("a private table with revised data cannot be set up: %s: %s" % (type(e).__name__, e),
                      dict(kind="weighted-parts"), relation="regrouping/reordering", site="weighted-parts")
        return
    for i in range(n):
        kind = rng.choice(["same-name", "nearby-counts", "two-tables", "repeated"])
        s1 = gen_struct(rng, pools, maxdepth=1)
        if kind == "same-name":
            # e.g. the h- and the d-form of one molecule, both carrying the molecule's name
            mats = [dict(struct=s1, name="part"), dict(struct=gen_struct(rng, pools, maxdepth=1), name="part")]
        elif kind == "nearby-counts":
            # two steps of a composition fit: one count differs in the seventh digit
            j = rng.randrange(len(s1))
            s2 = [(c * (1 + 3e-7) if jj == j else c, f) for jj, (c, f) in enumerate(s1)]
            mats = [dict(struct=s1), dict(struct=s2)]
        elif kind == "two-tables":
            mats = [dict(struct=s1), dict(struct=s1, private=True)]
        else:
            mats = [dict(struct=s1), dict(struct=s1)]
        for _ in range(rng.choice([0, 1, 1, 2])):
            mats.insert(rng.randrange(len(mats) + 1), dict(struct=gen_struct(rng, pools, maxdepth=1)))
        weights = [rng.choice([1.0, 2.0, 0.5, 3.0, 12.0, 0.25]) if rng.random() < 0.5 else round(rng.uniform(0.05, 20), 3)
                   for _ in mats]
        scalar_w = rng.random() < 0.5
        ws = [nc.gen_wavelength(rng, pools) for _ in range(1 if scalar_w else rng.randint(1, 4))]
        inp = dict(kind="weighted-parts", materials=mats, weights=weights, density=nc.gen_density(rng), ws=ws,
                   scalar=scalar_w, k=rng.choice([2.0, 0.5, 3.7, 0.1, 10.0]), c=rng.choice([2.0, 3.0, 0.5, 10.0, 2.5]))
        run.count(key=("weighted-parts", repr(mats), repr(weights), inp["density"], repr(ws), scalar_w), nontrivial=True,
                  tag="weighted-parts:" + kind, sample=inp if i < 2 else None)
        extra = {}
        try:
            fwd, rev, direct, N, tot = _composite_results(pt, T, inp, extra)
        except Exception as e:  # noqa
            run.violation("a compound given as weighted parts raises %s: %s" % (type(e).__name__, e), inp,
                          relation="regrouping/reordering", site="weighted-parts")
            continue
        _judge_series(run, inp, extra, direct, N, tot)
        for j in range(len(ws)):
            if not nc.sld_close(fwd[j], rev[j], N, tot[j]):
                run.violation("invariance broken: the SLD of a compound given as weighted parts changes when the parts are "
                              "listed in reverse order (entry %d): %r vs %r" % (j, fwd[j], rev[j]), inp,
                              relation="regrouping/reordering", site="weighted-parts", variant="reversed parts")
                break
            if not nc.sld_close(fwd[j], direct[j], N, tot[j]):
                run.violation("invariance broken: the SLD of a compound given as weighted parts differs from neutron_sld of "
                              "the same atoms summed into one formula (entry %d): %r vs %r" % (j, fwd[j], direct[j]), inp,
                              relation="regrouping/reordering", site="weighted-parts", variant="summed formula")
                break


# --------------------------------------------------------------------------- user-defined neutron records

def stage_user_records(run, pt, pools, n):
    """compounds of a private table in which some atoms carry a user's own neutron record (a subclass of
    nsf.Neutron overriding the per-wavelength method `scattering_by_wavelength`): a vector of wavelengths still
    returns the scalar results entry by entry, and energy= agrees with the equivalent wavelength="""
    import numpy as np
    from periodictable import core, mass, density, nsf
    from periodictable.formulas import formula
    rng = run.rng
    try:
        class UserNeutron(nsf.Neutron):
            def scattering_by_wavelength(self, wavelength):
                w = wavelength if np.isscalar(wavelength) else np.asarray(wavelength, dtype=float)
                return self.b_c_complex * (1 + 0.1 * w), self.total * (1 + 0.05 * w)

        core.PRIVATE_TABLES.pop("ptv-neutron-userrec", None)
        T = core.PeriodicTable("ptv-neutron-userrec")
        mass.init(T)
        density.init(T)
        nsf.init(T)
        mine = [T.Fe, T.H[2], T.Ni[58], T.O, T.Si]
        for a in mine:
            rec = UserNeutron()
            rec.__dict__.update(a.neutron.__dict__)
            a.neutron = rec
    except Exception as e:  # noqa
        run.violation("a private table with user-defined neutron records cannot be set up: %s: %s" % (type(e).__name__, e),
                      dict(kind="user-records"), relation="vector entry", site="user-records")
        return
    others = [T.H, T.C, T.N, T.Al, T.Gd, T.Ca, T.Cl]
    for i in range(n):
        atoms = rng.sample(mine, rng.randint(1, 3)) + rng.sample(others, rng.randint(0, 2))
        rng.shuffle(atoms)
        comp = [(float(rng.randint(1, 6)), a) for a in atoms]
        rho = nc.gen_density(rng)
        ws = [nc.gen_wavelength(rng, pools) for _ in range(rng.randint(1, 4))]
        inp = dict(kind="user-records", atoms=[[c, str(a)] for c, a in comp], density=rho, ws=ws)
        run.count(key=("user-records", repr(inp["atoms"]), rho, repr(ws)), nontrivial=True, tag="user-records",
                  sample=inp if i < 1 else None)
        try:
            f = formula(tuple(comp), density=rho)
            vec = nc.scat_vectors(nsf.neutron_scattering(f, wavelength=np.array(ws)), len(ws))
            sc = [nc.scat_tuple(nsf.neutron_scattering(f, wavelength=x)) for x in ws]
            en = [nc.scat_tuple(nsf.neutron_scattering(f, energy=float(nsf.neutron_energy(x)))) for x in ws]
            from periodictable.constants import avogadro_number
            N = sum(f.atoms.values()) / (f.mass / rho / avogadro_number * 1e24)
        except Exception as e:  # noqa
            run.violation("a compound with user-defined neutron records raises %s: %s" % (type(e).__name__, e), inp,
                          relation="vector entry", site="user-records")
            continue
        if isinstance(vec, str):
            vec = [vec] * len(ws)
        for j in range(len(ws)):
            if not nc.scat_close(sc[j], vec[j], N):
                run.violation("invariance broken: vector entry %d differs from the scalar call at that wavelength for a compound "
                              "whose atoms carry user-defined neutron records: %r vs %r" % (j, vec[j], sc[j]), inp,
                              relation="vector entry", site="user-records")
                break
            if not nc.scat_close(sc[j], en[j], N):
                run.violation("invariance broken: energy= differs from the equivalent wavelength= for a compound whose atoms "
                              "carry user-defined neutron records: %r vs %r" % (en[j], sc[j]), inp,
                              relation="energy= vs wavelength=", site="user-records")
                break


def run(run: Run) -> int:
    pt = import_repo()
    run.prove(generated=["Constants", "NeutronConsts"])
    quick = run.tier == "quick"
    orc = nc.Oracle(pt)
    tl = nc.table_lines(pt.elements, base.me_exact())
    pools = nc.Pools(pt.elements)
    stage_conversions(run, pt, orc, quick)
    n = 1200 if quick else 100000
    cases = [gen_case(run.rng, pools) for _ in range(n)]
    for i in range(0, n, 2000):
        run_cases(run, pt, tl, cases[i:i + 2000])
    # replay consistency: the first cases once more at the end of the run – a result must not depend on
    # what was computed in between (stale or poisoned state)
    run_cases(run, pt, tl, cases[:150])
    stage_no_density(run, pt, pools, 150 if quick else 5000)
    stage_two_tables(run, pt, pools, 300 if quick else 20000)
    stage_weighted_parts(run, pt, pools, 200 if quick else 10000)
    stage_user_records(run, pt, pools, 60 if quick else 3000)
    return run.finish(RULE, assumptions=[
        "floating-point rounding: relations are compared at 1e-9 relative (incoherent terms with the cancellation-aware rule of DESIGN 4.5)",
        "numpy broadcasting is modelled as the pointwise map (vector_is_map is a theorem about that model; the correspondence compares the real vector call with it)"])


def _fix(s):
    """JSON round trip: lists -> tuples for atom keys"""
    if isinstance(s, dict):
        return s
    out = []
    for c, f in s:
        if isinstance(f, list) and len(f) == 3 and all(isinstance(v, int) for v in f):
            out.append((c, tuple(f)))
        elif pyside.is_key(f):
            out.append((c, f))
        else:
            out.append((c, _fix(f)))
    return out


def replay(data) -> int:
    import random
    pt = import_repo()
    for v in data.get("violations", []) + data.get("disagreements", []):
        inp = v["input"]
        print("input:", inp, "|", v.get("what", v.get("corr")))
        if "conversion" in inp:
            from periodictable import nsf
            x = inp["conversion"]
            x = x if isinstance(x, float) else x[0]
            print("  wavelength(E)=%r energy(λ)=%r wavelength(v)=%r" % (
                float(nsf.neutron_wavelength(x)), float(nsf.neutron_energy(x)),
                float(nsf.neutron_wavelength_from_velocity(x))))
            continue
        if inp.get("kind") == "two-tables" and "entries" in inp:
            N, res = _mixed_results(pt, nc.revised_private_table(), inp)
            for name, r in res:
                print("  %-34s %s" % (name, r))
            continue
        if inp.get("kind") == "weighted-parts" and "materials" in inp:
            extra = {} if "k" in inp else None
            fwd, rev, direct, N, tot = _composite_results(pt, nc.revised_private_table(), inp, extra)
            for name, v in (extra or {}).items():
                print("  series, %-10s:" % name, v)
            print("  parts as listed  :", fwd)
            print("  parts reversed   :", rev)
            print("  summed formula   :", direct)
            continue
        if inp.get("kind") == "user-records":
            print("  (rerun the check to reproduce: stage_user_records)")
            continue
        if inp.get("kind") == "no-density":
            s = _fix(inp["struct"])
            form = inp["form"]
            form = {tuple(k): c for k, c in form} if inp["variant"].endswith("dict") else _fix(form)
            for name, x in (("original", s), (inp["variant"], form)):
                try:
                    print("  %-22s %s" % (name, scalar(pt, obj_of(pt, x, None), 1.8)))
                except Exception as e:  # noqa
                    print("  %-22s raises %s: %s" % (name, type(e).__name__, e))
            continue
        s = _fix(inp["struct"])
        case = dict(struct=s, density=inp["density"], w=inp["w"], k=inp["k"], c=inp["c"], ws=inp["ws"],
                    vseed=inp.get("vseed", 0), variants=variants(random.Random(inp.get("vseed", 0)), s))
        f, atoms, N, out = evaluate_case(pt, case)
        for name, r in out.items():
            print("  %-22s %s" % (name, r))
    return 0
