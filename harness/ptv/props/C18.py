"""C18 — biomolecule sequences are the sum of their residues; FASTA reading.

Tie of Model/Fasta.lean to fasta.py / formulas.py:
* translator: `Generated/FastaTables` (code tables read from fasta.py with `ast`), `Constants`,
  `ElementBase`; table well-formedness facts are kernel-checked;
* correspondence with `ptdriver fasta`: every code of the three tables (exhaustive); random code
  strings of length 0..5000 with blanks, `*`, unknown codes; permutations; `aa:`/`dna:`/`rna:`
  prefixes through `formula()`; random FASTA texts through `read_fasta` (iterable of lines) and
  through real files (`Sequence.load/loadall`, universal newlines, type from the extension);
* real code only (oracle, permutation, sum of two parts): a few sequences of 10 000 .. 30 000 codes;
  FASTA files opened through symbolic links (plain / relative / chained / hard links, linked directories) whose
  names carry another or no extension: typed by the name they are opened under; Sequence objects of every type
  after copy.copy / copy.deepcopy / pickle (every protocol), judged by the per-code sum oracle;
* direct oracle: sums over the residue entries of the real tables in exact `Fraction`s, the
  record structure of the text recomputed independently.
"""
from __future__ import annotations

import io
import os
import shutil
from fractions import Fraction
from pathlib import Path

from ..common import Run, close, f2h, h2f, run_driver, import_repo, InfraError
from .. import pyside, translate
from ..translators import xray as xtr

RULE = ("distinct inputs: (table, code) entries; (type, code string) sequences; FASTA texts; file names. "
        "A sequence is non-trivial when it has at least two residues or contains a blank, '*', an "
        "averaged code or an unknown code; a FASTA text when it has at least one header")

SCRATCH = Path("/tmp/xray-scratch/fasta")
TYPES = ("aa", "dna", "rna")


def hx(s: str) -> str:
    return s.encode("utf-8").hex() if s else "-"


def unhx(t: str) -> str:
    return "" if t == "-" else bytes.fromhex(t).decode("utf-8")


class Batch:
    def __init__(self):
        self.lines, self.checks = [], []

    def send(self, line):
        self.lines.append(line)

    def ask(self, line, fn):
        self.lines.append(line)
        self.checks.append(fn)

    def run(self):
        replies = run_driver("fasta", self.lines)
        if len(replies) != len(self.checks):
            raise InfraError("driver returned %d replies for %d requests" % (len(replies), len(self.checks)))
        for r, fn in zip(replies, self.checks):
            fn(r)


def struct_eq(a, b):
    return pyside.struct_close(a, b, lambda x, y: close(x, y, rel=1e-9, abs_=1e-12))


def parse_mol_reply(rep):
    """'ok vol charge mass dmass density | struct | struct'"""
    head, lab, nat = rep.split(" | ")
    w = head.split()
    return dict(vol=h2f(w[1]), charge=h2f(w[2]), mass=h2f(w[3]), dmass=h2f(w[4]), density=h2f(w[5]),
                labile=pyside.parse_struct(lab), natural=pyside.parse_struct(nat))


def observe(seq_obj):
    return dict(vol=seq_obj.cell_volume, charge=seq_obj.charge, mass=seq_obj.mass, dmass=seq_obj.Dmass,
                density=seq_obj.labile_formula.density,
                labile=pyside.struct_keys(seq_obj.labile_formula.structure),
                natural=pyside.struct_keys(seq_obj.natural_formula.structure))


def mol_diff(m, o):
    for k in ("vol", "charge", "mass", "dmass", "density"):
        if not close(m[k], o[k], rel=1e-9, abs_=1e-9):
            return k
    for k in ("labile", "natural"):
        if not struct_eq(m[k], o[k]):
            return k
    return None


def exact_counts(formula_obj):
    return {pyside.key_of(a): Fraction(c) for a, c in formula_obj.atoms.items()}


# --------------------------------------------------------------------------- stream 1: the tables

def stream_codes(run: Run, fasta, batch: Batch):
    tables, averages, nuc = xtr.read_fasta_tables()
    base = {"aa": {r[0]: r for r in tables["AMINO_ACID_CODES"]},
            "rna": {r[0]: r for r in tables["RNA_BASES"]},
            "dna": {r[0]: r for r in tables["DNA_BASES"]}}
    avg = {"aa": dict(averages), "rna": dict(nuc), "dna": dict(nuc)}
    for ty in TYPES:
        real = fasta.CODE_TABLES[ty]

        def chk_codes(rep, ty=ty, real=real):
            got = set(unhx(rep.split()[1])) if rep.startswith("codes") else None
            if got != set(real.keys()):
                run.disagree("code-table keys", dict(type=ty), sorted(got or []), sorted(real.keys()))
        batch.ask("codes %s" % ty, chk_codes)
        for code, mol in sorted(real.items()):
            run.count(key=("code", ty, code), nontrivial=True, tag="code:" + ty)
            obs = dict(vol=mol.cell_volume, charge=mol.charge,
                       struct=pyside.struct_keys(mol.labile_formula.structure))
            # ---- oracle: the entry is what the table says (base) / the equal-weight average (class)
            if ty == "aa" and code in base["aa"] or ty != "aa":
                pass
            if code in avg[ty]:
                src = real if ty == "aa" else (fasta.RNA_BASES if ty == "rna" else fasta.DNA_BASES)
                members = avg[ty][code]
                n = len(members)
                want = {}
                vol = ch = Fraction(0)
                for c in members:
                    for k, v in exact_counts(src[c].labile_formula).items():
                        want[k] = want.get(k, Fraction(0)) + v
                    vol += Fraction(src[c].cell_volume)
                    ch += Fraction(src[c].charge)
                if n:
                    want = {k: v / n for k, v in want.items()}
                    vol, ch = vol / n, ch / n
                if ty != "aa":
                    ch = Fraction(0)     # nucleotide classes are built without a charge
            else:
                _, v, atoms, q = base[ty][code]
                want = {}
                for z, a, cnt in atoms:
                    want[(z, a, 0)] = want.get((z, a, 0), Fraction(0)) + cnt
                vol, ch = v, Fraction(q)
            got = exact_counts(mol.labile_formula)
            bad = [k for k in set(want) | set(got) if not close(float(want.get(k, 0)), float(got.get(k, 0)))]
            if bad or not close(float(vol), mol.cell_volume) or not close(float(ch), mol.charge, abs_=1e-12):
                run.violation("table entry is not its residue formula / the equal-weight average of its residues",
                              dict(type=ty, code=code, atoms={str(k): float(v) for k, v in got.items()},
                                   expected={str(k): float(v) for k, v in want.items()},
                                   volume=mol.cell_volume, expected_volume=float(vol),
                                   charge=mol.charge, expected_charge=float(ch)), clause="table-entry", code=code, type=ty)

            def chk(rep, ty=ty, code=code, obs=obs):
                if not rep.startswith("ok"):
                    run.disagree("code-table entry", dict(type=ty, code=code), rep, obs)
                    return
                head, st = rep.split(" | ")
                w = head.split()
                if not (close(h2f(w[1]), obs["vol"]) and close(h2f(w[2]), obs["charge"], abs_=1e-12)
                        and struct_eq(pyside.parse_struct(st), obs["struct"])):
                    run.disagree("code-table entry", dict(type=ty, code=code), rep, obs)
            batch.ask("code %s %s" % (ty, hx(code)), chk)


# --------------------------------------------------------------------------- stream 2: sequences

def gen_sequence(rng, codes, tier):
    r = rng.random()
    if r < 0.05:
        n = 0
    elif r < 0.60:
        n = rng.randint(1, 40)
    elif r < 0.90:
        n = rng.randint(41, 400)
    elif r < 0.985:
        n = rng.randint(401, 2000)
    else:
        n = rng.randint(2001, 5000)
    pool = codes if rng.random() < 0.7 else rng.sample(codes, min(len(codes), rng.randint(1, 4)))
    s = [rng.choice(pool) for _ in range(n)]
    tags = []
    if rng.random() < 0.3 and n:
        for _ in range(rng.randint(1, 6)):
            s.insert(rng.randrange(len(s) + 1), " ")
        tags.append("blank")
    if rng.random() < 0.25:
        s.insert(rng.randrange(len(s) + 1), "*")
        if rng.random() < 0.5:
            s += [rng.choice(codes + ["*", " ", "?"]) for _ in range(rng.randint(0, 8))]
        tags.append("star")
    if rng.random() < 0.06:
        s.insert(rng.randrange(len(s) + 1), rng.choice(["O", "U", "a", "?", "\t", "1", "é", ":", ">"]))
        tags.append("odd")
    return "".join(s), tags


_RES = {}


def residue_values(fasta, ty, c):
    """exact values of one table entry (cached): atoms, volume, charge, mass, Dmass, labile mass"""
    k = (ty, c)
    if k not in _RES:
        m = fasta.CODE_TABLES[ty][c]
        _RES[k] = (exact_counts(m.labile_formula), Fraction(m.cell_volume), Fraction(m.charge),
                   Fraction(m.mass), Fraction(m.Dmass), Fraction(m.labile_formula.mass))
    return _RES[k]


def oracle_sequence(fasta, ty, s, na):
    """sums over the residue entries of the real table (exact)"""
    tbl = fasta.CODE_TABLES[ty]
    cleaned = s.split("*", 1)[0].replace(" ", "")
    if any(c not in tbl for c in cleaned):
        return None
    atoms = {}
    vol = ch = mass = dmass = lmass = Fraction(0)
    mult = {}
    for c in cleaned:
        mult[c] = mult.get(c, 0) + 1
    for c, n in mult.items():
        at, v, q, m, dm, lm = residue_values(fasta, ty, c)
        for k, x in at.items():
            atoms[k] = atoms.get(k, Fraction(0)) + n * x
        vol += n * v
        ch += n * q
        mass += n * m
        dmass += n * dm
        lmass += n * lm
    dens = (10 ** 24 * lmass / na / vol) if vol > 0 else Fraction(0)
    return dict(atoms=atoms, vol=vol, charge=ch, mass=mass, dmass=dmass, density=dens)


def check_against_oracle(run, what_input, obs, orc, seq_obj):
    bad = []
    got = exact_counts(seq_obj.labile_formula)
    for k in set(orc["atoms"]) | set(got):
        if not close(float(orc["atoms"].get(k, 0)), float(got.get(k, 0)), rel=1e-9, abs_=1e-9):
            bad.append("count of %s: %r, sum over residues %r" % (k, float(got.get(k, 0)), float(orc["atoms"].get(k, 0))))
    for k in ("vol", "charge", "mass", "dmass", "density"):
        if not close(float(orc[k]), obs[k], rel=1e-9, abs_=1e-7):
            bad.append("%s: %r, from residues %r" % (k, obs[k], float(orc[k])))
    for b in bad:
        run.violation("sequence is not the sum of its residues: " + b, what_input, clause="sum")


def stream_sequences(run: Run, fasta, formula, batch: Batch, n, na):
    rng = run.rng
    for i in range(n):
        ty = rng.choice(TYPES)
        codes = sorted(fasta.CODE_TABLES[ty].keys())
        s, tags = gen_sequence(rng, codes, run.tier)
        inp = dict(type=ty, sequence=s if len(s) < 300 else s[:300] + "…(%d)" % len(s), full=s)
        cleaned = s.split("*", 1)[0].replace(" ", "")
        averaged = any(c in "BJZX-RYKMSWDHVN" for c in cleaned) if ty == "aa" else any(c not in "ACGTU" for c in cleaned)
        run.count(key=(ty, s), nontrivial=len(cleaned) >= 2 or bool(tags) or averaged,
                  tag="seq:%s:%s" % (ty, "+".join(tags) if tags else "plain"),
                  sample="Sequence(%r, type=%r)" % (s, ty) if len(s) < 60 else None)
        run.dist["len:%s" % ("0" if not cleaned else "1-40" if len(cleaned) <= 40 else "41-400" if len(cleaned) <= 400 else "401-2000" if len(cleaned) <= 2000 else "2001-5000")] = \
            run.dist.get("len:%s" % ("0" if not cleaned else "1-40" if len(cleaned) <= 40 else "41-400" if len(cleaned) <= 400 else "401-2000" if len(cleaned) <= 2000 else "2001-5000"), 0) + 1
        try:
            q = fasta.Sequence("x", s, type=ty)
            obs, err = observe(q), None
        except KeyError:
            q, obs, err = None, None, "KeyError"
        orc = oracle_sequence(fasta, ty, s, na)
        if (orc is None) != (err is not None):
            run.violation("sequence %s although %s" % ("raised KeyError" if err else "was accepted",
                                                       "all its codes are in the table" if orc else "a code is not in the table"),
                          inp, clause="accept")
        if q is not None and orc is not None:
            check_against_oracle(run, inp, obs, orc, q)
            # permutation invariance, blanks and '*' on the real code
            if len(cleaned) >= 2 and i % 3 == 0:
                perm = list(cleaned)
                rng.shuffle(perm)
                q2 = observe(fasta.Sequence("x", "".join(perm), type=ty))
                for k in ("vol", "charge", "mass", "dmass", "density"):
                    if not close(q2[k], obs[k], rel=1e-9, abs_=1e-7):
                        run.violation("sequence depends on residue order: %s" % k,
                                      dict(inp, permuted="".join(perm)), clause="permutation")
                if not struct_eq(q2["labile"], obs["labile"]):
                    run.violation("formula depends on residue order", dict(inp, permuted="".join(perm)), clause="permutation")
            if tags:
                q3 = observe(fasta.Sequence("x", cleaned, type=ty))
                if mol_diff(q3, obs):
                    run.violation("blanks / text after '*' change the sequence (%s)" % mol_diff(q3, obs),
                                  dict(inp, cleaned=cleaned), clause="star-blank")
            if i % 2 == 0 and ":" not in ty:
                try:
                    pf = formula(ty + ":" + s)
                    ok = struct_eq(pyside.struct_keys(pf.structure), obs["labile"]) and close(pf.density, obs["density"])
                except Exception as ex:  # noqa
                    ok = False
                if not ok:
                    run.violation("formula('%s:…') differs from the Sequence class" % ty, inp, clause="prefix")

        def chk(rep, inp=inp, obs=obs, err=err):
            if err is not None:
                if not rep.startswith("ERR KeyError"):
                    run.disagree("Sequence", inp, rep[:200], err)
                return
            if not rep.startswith("ok"):
                run.disagree("Sequence", inp, rep[:200], "ok")
                return
            m = parse_mol_reply(rep)
            d = mol_diff(m, obs)
            if d:
                run.disagree("Sequence", dict(inp, field=d), m[d] if d not in ("labile", "natural") else m[d][:12],
                             obs[d] if d not in ("labile", "natural") else obs[d][:12])
        batch.ask("seq %s %s" % (ty, hx(s)), chk)


def stream_long(run: Run, fasta, formula, n, na):
    """sequences of 10 000 .. 30 000 codes (whole genes; the sums are linear, so they stay cheap): the boundary
    lengths around 10 000, repeated charged codes, small pools; judged by the per-code sum oracle, by a
    permutation and by k copies of a block = k times the block (real code only, not sent to the driver)"""
    rng = run.rng
    charged = {"aa": [c for c in sorted(fasta.CODE_TABLES["aa"]) if fasta.CODE_TABLES["aa"][c].charge != 0]}
    lengths = ([10000, 10001, 10002] + [rng.randint(10003, 30000) for _ in range(max(0, n - 3))])[:n]
    for i, length in enumerate(lengths):
        ty = "aa" if i % 3 != 2 else rng.choice(["dna", "rna"])
        codes = sorted(fasta.CODE_TABLES[ty].keys())
        shape = i % 4
        if shape == 0:      # every code of the table, uniformly
            s = "".join(rng.choice(codes) for _ in range(length))
        elif shape == 1:    # a small pool with at least two charged codes, each many times
            pool = rng.sample(codes, rng.randint(2, 5)) + (rng.sample(charged[ty], 2) if ty in charged else [])
            s = "".join(rng.choice(pool) for _ in range(length))
        elif shape == 2:    # k copies of a block and a remainder
            block = "".join(rng.choice(codes) for _ in range(rng.randint(50, 400)))
            s = (block * (length // len(block) + 1))[:length]
        else:               # one charged code (or any code) repeated, a few others
            one = rng.choice(charged[ty]) if ty in charged else rng.choice(codes)
            s = "".join(one if rng.random() < 0.8 else rng.choice(codes) for _ in range(length))
        tags = []
        if i % 2 == 1:
            k = rng.randrange(len(s))
            s = s[:k] + " " + s[k:]
            tags.append("blank")
        if i % 5 == 3:
            s += "*" + "".join(rng.choice(codes) for _ in range(rng.randint(0, 300)))
            tags.append("star")
        cleaned = s.split("*", 1)[0].replace(" ", "")
        inp = dict(type=ty, sequence=s[:300] + "…(%d)" % len(s), full=s)
        run.count(key=(ty, s), nontrivial=True, tag="seq-long:%s:%s" % (ty, "+".join(tags) if tags else "plain"))
        run.dist["len:10000+"] = run.dist.get("len:10000+", 0) + 1
        run.last_input = dict(type=ty, length=len(cleaned))
        try:
            q = fasta.Sequence("x", s, type=ty)
            obs = observe(q)
        except Exception as ex:  # noqa
            run.violation("a long sequence over the code table raised %s" % type(ex).__name__, inp, clause="accept")
            continue
        orc = oracle_sequence(fasta, ty, s, na)
        check_against_oracle(run, inp, obs, orc, q)
        if q.sequence != cleaned:
            run.violation("blanks / text after '*' are not dropped from a long sequence", inp, clause="star-blank")
        # the same multiset in another order
        perm = list(cleaned)
        rng.shuffle(perm)
        try:
            q2 = observe(fasta.Sequence("x", "".join(perm), type=ty))
            for k in ("vol", "charge", "mass", "dmass", "density"):
                if not close(q2[k], obs[k], rel=1e-9, abs_=1e-7):
                    run.violation("sequence depends on residue order: %s" % k,
                                  dict(inp, permuted="".join(perm)), clause="permutation")
        except Exception as ex:  # noqa
            run.violation("a permuted long sequence raised %s" % type(ex).__name__, dict(inp, permuted="".join(perm)),
                          clause="permutation")
        # two halves: the whole is the sum of its parts (both routes on the real code)
        cut = rng.randint(1, len(cleaned) - 1)
        try:
            a, b = fasta.Sequence("a", cleaned[:cut], type=ty), fasta.Sequence("b", cleaned[cut:], type=ty)
            for k, whole, parts in (("vol", q.cell_volume, a.cell_volume + b.cell_volume),
                                    ("charge", q.charge, a.charge + b.charge),
                                    ("mass", q.mass, a.mass + b.mass), ("dmass", q.Dmass, a.Dmass + b.Dmass)):
                if not close(whole, parts, rel=1e-9, abs_=1e-7):
                    run.violation("a long sequence is not the sum of its two parts: %s %r, parts %r" % (k, whole, parts),
                                  dict(inp, cut=cut), clause="sum")
        except Exception as ex:  # noqa
            run.violation("a part of a long sequence raised %s" % type(ex).__name__, dict(inp, cut=cut), clause="sum")
        if i % 3 == 1:
            try:
                pf = formula(ty + ":" + s)
                ok = struct_eq(pyside.struct_keys(pf.structure), obs["labile"]) and close(pf.density, obs["density"])
            except Exception as ex:  # noqa
                ok = False
            if not ok:
                run.violation("formula('%s:…') differs from the Sequence class" % ty, inp, clause="prefix")


def stream_prefix(run: Run, fasta, formula, batch: Batch, n):
    rng = run.rng
    prefixes = ["aa", "dna", "rna", "AA", "Aa", "aa ", " aa", "", "dn", "rnaa", "protein", "a:a", "aa:", "dna:rna"]
    for i in range(n):
        p = rng.choice(prefixes[:3]) if rng.random() < 0.6 else rng.choice(prefixes)
        body = "".join(rng.choice("ACGT") for _ in range(rng.randint(0, 12)))
        if rng.random() < 0.2:
            body = body[:3] + ":" + body[3:]
        s = p + ":" + body if rng.random() < 0.9 else body
        run.count(key=("prefix", s), nontrivial=True, tag="prefix")
        # what did the real code do?  compare with the three Sequence classes
        try:
            f = formula(s)
            got = pyside.struct_keys(f.structure)
        except Exception as ex:  # noqa
            got = "raised " + type(ex).__name__
        if ":" in s:
            head, rest = s.split(":", 1)
        else:
            head, rest = None, None

        def chk(rep, s=s, got=got, head=head, rest=rest):
            w = rep.split()
            if w[0] == "seq":
                ty, body_ = w[1], unhx(w[2])
                try:
                    want = pyside.struct_keys(fasta.Sequence("x", body_, type=ty).labile_formula.structure)
                except KeyError:
                    want = "raised KeyError"
                if got != want and not (isinstance(got, list) and isinstance(want, list) and struct_eq(got, want)):
                    run.disagree("formula() prefix dispatch", dict(string=s), "Sequence(%r, %s)" % (body_, ty), str(got)[:200])
                    # both sides are the real code: the prefix form must give the formula of the sequence class
                    run.violation("formula(%r) differs from Sequence(%r, type=%r).labile_formula" % (s[:80], body_[:60], ty),
                                  dict(string=s), clause="prefix")
                if head not in TYPES or rest != body_:
                    run.violation("prefix dispatch does not split at the first ':'", dict(string=s), clause="prefix")
            elif w[0] == "chem":
                if head in TYPES:
                    run.disagree("formula() prefix dispatch", dict(string=s), "chem", "sequence prefix")
                # the chemical parser's verdict is C01's business; only check that it was not
                # silently read as a sequence of another type
            else:
                run.disagree("formula() prefix dispatch", dict(string=s), rep, str(got)[:100])
        batch.ask("formula %s" % hx(s), chk)


# --------------------------------------------------------------------------- stream 3: FASTA texts

WS = [" ", "\t", "  ", " \t ", "\x0b", "\x0c", "\x1c", "\x1f", "\x85", "\xa0", " ", "　"]


def gen_fasta_lines(rng):
    """list of lines *without* terminators + the terminator style"""
    lines = []
    n = rng.choice([0, 1, 2, 3, 5, 8, 13, 30])
    for _ in range(n):
        r = rng.random()
        if r < 0.30:
            l = ">" + "".join(rng.choice("abc XYZ|12>*:") for _ in range(rng.randint(0, 12)))
        elif r < 0.70:
            l = "".join(rng.choice("ACDEFGHIKLMNPQRSTVWY*- ") for _ in range(rng.randint(1, 30)))
        elif r < 0.80:
            l = ""
        elif r < 0.86:
            l = rng.choice(WS)
        elif r < 0.92:
            l = rng.choice(WS) + ">" + "x" * rng.randint(0, 3)
        else:
            l = "AC" + rng.choice(["é", " ", ">", "\x00", "﻿"]) + "GT"
        if rng.random() < 0.25:
            l += rng.choice(WS)
        lines.append(l)
    return lines


def oracle_records(lines):
    """independent reading: one record per header line, sequence = the following lines joined"""
    stripped = [l.rstrip() for l in lines]
    heads = [i for i, l in enumerate(stripped) if l[:1] == ">"]
    out = []
    for k, i in enumerate(heads):
        j = heads[k + 1] if k + 1 < len(heads) else len(stripped)
        out.append((stripped[i], "".join(stripped[i + 1:j])))
    return out


def stream_fasta(run: Run, fasta, batch: Batch, n):
    rng = run.rng
    SCRATCH.mkdir(parents=True, exist_ok=True)
    for i in range(n):
        lines = gen_fasta_lines(rng)
        route = rng.choice(["iter", "iter-nl", "file", "file"])
        nheads = sum(1 for l in lines if l.rstrip()[:1] == ">")
        tag = "fasta:%s" % route
        if route.startswith("iter"):
            given = [l + "\n" for l in lines] if route == "iter-nl" else list(lines)
            key = ("iter", tuple(given))
            got = list(fasta.read_fasta(given))
            want = oracle_records(lines)
            line = "lines " + " ".join(hx(l) for l in given) if given else "lines"
            inp = dict(lines=given)
        else:
            # a real file: line terminators \n, \r\n or \r (universal newlines), maybe none at the end
            lines = [l.replace("\r", "").replace("\n", "") for l in lines]
            term = rng.choice(["\n", "\n", "\r\n", "\r"])
            text = term.join(lines) + (term if lines and rng.random() < 0.7 else "")
            key = ("file", text)
            p = SCRATCH / ("t%d.fa" % i)
            run.last_input = dict(text=text)
            p.write_bytes(text.encode("utf-8"))
            with open(p, "rt", encoding="utf-8") as fh:
                got = list(fasta.read_fasta(fh))
            # what the file's lines are: split at \n, \r\n, \r; no line after a final terminator
            phys = text.replace("\r\n", "\n").replace("\r", "\n").split("\n")
            if phys and phys[-1] == "":
                phys.pop()
            want = oracle_records(phys)
            line = "fasta %s" % hx(text)
            inp = dict(text=text)
            p.unlink()
        run.count(key=key, nontrivial=nheads >= 1, tag=tag,
                  sample=repr(inp)[:200] if i < 2 else None)
        run.dist["records:%s" % (nheads if nheads < 4 else "4+")] = run.dist.get("records:%s" % (nheads if nheads < 4 else "4+"), 0) + 1
        if got != want:
            run.violation("read_fasta does not yield one record per '>' header with the following lines joined",
                          dict(inp, got=got, expected=want), clause="read_fasta")

        def chk(rep, inp=inp, got=got):
            w = rep.split()
            if w[0] != "recs":
                run.disagree("read_fasta", inp, rep[:200], got)
                return
            m = [(unhx(w[k]), unhx(w[k + 1])) for k in range(1, len(w), 2)]
            if m != got:
                run.disagree("read_fasta", inp, m, got)
        batch.ask(line, chk)


def stream_files(run: Run, fasta, batch: Batch, n):
    """Sequence.load / loadall on real files: type from the extension, records, sequences"""
    rng = run.rng
    SCRATCH.mkdir(parents=True, exist_ok=True)
    exts = [".fna", ".ffn", ".faa", ".frn", ".fa", ".fasta", ".txt", "", ".FNA", ".fna.gz", "fna", ".frn ", ".faa.bak"]
    for i in range(n):
        ext = rng.choice(exts[:4]) if rng.random() < 0.6 else rng.choice(exts)
        explicit = rng.choice([None, None, None, "aa", "dna", "rna"])
        name = "f%d%s" % (i, ext)
        want_type = fasta._guess_type_from_filename(name, explicit)
        run.count(key=("ftype", name, explicit), nontrivial=True, tag="file:type")
        # the rule, stated independently
        rule = explicit if explicit is not None else \
            {".fna": "dna", ".ffn": "dna", ".faa": "aa", ".frn": "rna"}.get(name[-4:] if len(name) >= 4 else "", "aa")
        if want_type != rule:
            run.violation("sequence type is not the one the file extension names",
                          dict(filename=name, type=explicit, got=want_type, expected=rule), clause="extension")

        def chk(rep, name=name, explicit=explicit, want_type=want_type):
            if unhx(rep.split()[0]) != want_type:
                run.disagree("_guess_type_from_filename", dict(filename=name, type=explicit), unhx(rep.split()[0]), want_type)
        batch.ask("ftype %s %s" % (hx(name), "none" if explicit is None else hx(explicit)), chk)
        if i % 4 == 0:
            # a real file with valid ACGT records (valid in all three tables): load + loadall
            recs = [(">r%d %s" % (k, "x" * rng.randint(0, 5)), ["".join(rng.choice("ACGT") for _ in range(rng.randint(0, 40)))
                                                                for _ in range(rng.randint(0, 3))])
                    for k in range(rng.randint(1, 4))]
            text = "junk before\n" if rng.random() < 0.3 else ""
            for h, ls in recs:
                text += h + "\n" + "".join(l + rng.choice(["\n", " \n", "\n\n"]) for l in ls)
            p = SCRATCH / name.strip()
            if not p.name:
                continue
            p.write_text(text)
            run.last_input = dict(filename=name, text=text)
            try:
                alls = list(fasta.Sequence.loadall(str(p), type=explicit))
                first = fasta.Sequence.load(str(p), type=explicit)
            finally:
                p.unlink()
            ty = fasta._guess_type_from_filename(str(p), explicit)
            run.count(key=("load", name, text), nontrivial=True, tag="file:load")
            if len(alls) != len(recs) or [a.name for a in alls] != [h.rstrip() for h, _ in recs] \
                    or first.name != alls[0].name or first.sequence != alls[0].sequence:
                run.violation("Sequence.loadall does not yield one sequence per header",
                              dict(filename=name, text=text), clause="read_fasta")
            for a, (h, ls) in zip(alls, recs):
                want_seq = "".join(ls)
                ref = fasta.Sequence(a.name, want_seq, type=ty)
                if a.sequence != want_seq.replace(" ", "") or not close(a.cell_volume, ref.cell_volume) \
                        or not close(a.mass, ref.mass):
                    run.violation("a loaded record is not the concatenation of its lines read with the table "
                                  "of the file type", dict(filename=name, text=text, record=h), clause="read_fasta")

                def chk2(rep, a=a, ty=ty, name=name):
                    if not rep.startswith("ok"):
                        run.disagree("Sequence.loadall", dict(filename=name, record=a.name), rep[:100], "ok")
                        return
                    m = parse_mol_reply(rep)
                    if mol_diff(m, observe(a)):
                        run.disagree("Sequence.loadall", dict(filename=name, record=a.name, type=ty), m["vol"], a.cell_volume)
                batch.ask("seq %s %s" % (ty, hx(want_seq)), chk2)


EXT_RULE = {".fna": "dna", ".ffn": "dna", ".faa": "aa", ".frn": "rna"}


def run_link_case(fasta, na, case, root: Path):
    """a FASTA text stored under one name and opened under another (a symbolic link, possibly a chain / a relative
    link / a link in a linked directory): it is typed by the extension of the name it is OPENED under; every record
    is judged by the per-code sum oracle of that type.  Returns [(what, details, clause)]."""
    bad = []
    shutil.rmtree(root, ignore_errors=True)
    (root / "store").mkdir(parents=True)
    try:
        target = root / "store" / case["stored_as"]
        target.write_text(case["text"])
        opened = root / case["opened_as"]
        how = case["link"]
        if how == "symlink":
            os.symlink(str(target), str(opened))
        elif how == "relative":
            os.symlink(os.path.join("store", case["stored_as"]), str(opened))
        elif how == "chain":
            mid = root / ("mid" + case["mid_ext"])
            os.symlink(str(target), str(mid))
            os.symlink(str(mid), str(opened))
        elif how == "hardlink":
            os.link(str(target), str(opened))
        else:       # "dirlink": the directory is a link, the file name is the stored one
            os.symlink(str(root / "store"), str(root / case["opened_as"]))
            opened = root / case["opened_as"] / case["stored_as"]
        name = str(opened)
        explicit = case["type"]
        ty = explicit if explicit is not None else EXT_RULE.get(name[-4:], "aa")
        try:
            alls = list(fasta.Sequence.loadall(name, type=explicit))
            first = fasta.Sequence.load(name, type=explicit)
        except Exception as ex:  # noqa
            return [("Sequence.load / loadall of a file opened through a link raised %s: %s" % (type(ex).__name__, str(ex)[:100]),
                     {}, "raises")]
        recs = [(h, s) for h, s in case["records"]]
        if [a.name for a in alls] != [h for h, _ in recs] or first.name != recs[0][0]:
            bad.append(("Sequence.loadall of a file opened through a link does not yield one sequence per header",
                        dict(got=[a.name for a in alls]), "read_fasta"))
            return bad
        for a, (h, s) in list(zip(alls, recs)) + [(first, recs[0])]:
            orc = oracle_sequence(fasta, ty, s, na)
            obs = observe(a)
            got = exact_counts(a.labile_formula)
            wrong = [str(k) for k in set(orc["atoms"]) | set(got)
                     if not close(float(orc["atoms"].get(k, 0)), float(got.get(k, 0)), rel=1e-9, abs_=1e-9)]
            wrong += [k for k in ("vol", "charge", "mass", "dmass", "density") if not close(float(orc[k]), obs[k], rel=1e-9, abs_=1e-7)]
            if a.sequence != s.replace(" ", "") or wrong:
                bad.append(("a record loaded from a file opened as %r (stored as %r) is not the sum of its residues in the table "
                            "of the type the opened name's extension gives (%s): %s differ" % (
                                os.path.basename(name), case["stored_as"], ty, ", ".join(wrong[:6]) or "sequence"),
                            dict(record=h, expected_type=ty, formula=str(a.labile_formula), mass=a.mass,
                                 expected_mass=float(orc["mass"])), "extension"))
                break
    finally:
        shutil.rmtree(root, ignore_errors=True)
    return bad


def gen_link_case(rng, i):
    exts = [".fna", ".ffn", ".faa", ".frn", "", ".fa", ".fasta", ".txt"]
    typed = exts[:4]
    recs = [((">r%d %s" % (k, "x" * rng.randint(0, 5))).rstrip(), "".join(rng.choice("ACGT") for _ in range(rng.randint(1, 60))))
            for k in range(rng.randint(1, 3))]
    text = "".join(h + "\n" + s[:len(s) // 2] + "\n" + s[len(s) // 2:] + "\n" for h, s in recs)
    a = rng.choice(typed) if rng.random() < 0.7 else rng.choice(exts)       # the opened name
    b = rng.choice([e for e in exts if EXT_RULE.get(e, "aa") != EXT_RULE.get(a, "aa")] if rng.random() < 0.8 else exts)
    stored = rng.choice(["0a1b2c3d", "blob", "genes", "reads"]) + b
    link = rng.choice(["symlink", "symlink", "relative", "chain", "hardlink", "dirlink"])
    case = dict(link_case=True, link=link, stored_as=stored, opened_as=("reads%d" % i) + a, mid_ext=rng.choice(exts),
                type=rng.choice([None, None, None, None, "aa", "dna", "rna"]), text=text, records=[list(r) for r in recs])
    if link == "dirlink":
        case["opened_as"] = "dir%d%s" % (i, a)
    if i == 0:
        case.update(link="symlink", stored_as="0a1b2c3d", opened_as="reads.fna", type=None)
    if i == 1:
        case.update(link="symlink", stored_as="a.fna", opened_as="latest", type=None)
    return case


def stream_links(run: Run, fasta, n, na):
    rng = run.rng
    root = SCRATCH / "links"
    try:
        probe = SCRATCH / "probe-link"
        SCRATCH.mkdir(parents=True, exist_ok=True)
        if probe.is_symlink():
            probe.unlink()
        os.symlink("nowhere", str(probe))
        probe.unlink()
    except (OSError, NotImplementedError, AttributeError):
        run.notes.append("no symbolic links on this file system: the link stream is skipped")
        return
    for i in range(n):
        case = gen_link_case(rng, i)
        run.count(key=("link", case["link"], case["stored_as"], case["opened_as"], case["type"], case["text"]), nontrivial=True,
                  tag="file:link:" + case["link"], sample=repr({k: case[k] for k in ("link", "stored_as", "opened_as", "type")}) if i < 2 else None)
        run.last_input = case
        for what, info, clause in run_link_case(fasta, na, case, root):
            run.violation(what, dict(case, **info), clause=clause)


def copy_of(seq, how):
    import copy
    import pickle
    if how == "copy":
        return copy.copy(seq)
    if how == "deepcopy":
        return copy.deepcopy(seq)
    if how == "deepcopy-in-list":
        return copy.deepcopy([seq, seq])[1]
    return pickle.loads(pickle.dumps(seq, protocol=int(how.split("-")[1])))


def run_copy_case(fasta, na, case):
    """a Sequence that was pickled / copied is still the Sequence of its codes: judged by the per-code sum oracle
    of the type it was built with; the original is judged again afterwards"""
    bad = []
    ty, s, how = case["type"], case["full"], case["how"]
    orc = oracle_sequence(fasta, ty, s, na)
    cleaned = s.split("*", 1)[0].replace(" ", "")
    try:
        if case["via"] == "load":
            root = SCRATCH / "copies"
            root.mkdir(parents=True, exist_ok=True)
            p = root / ("c" + {"dna": ".fna", "rna": ".frn", "aa": ".faa"}[ty])
            p.write_text(">rec\n" + cleaned + "\n")
            try:
                q = fasta.Sequence.load(str(p))
            finally:
                p.unlink()
        else:
            q = fasta.Sequence("rec", s, type=ty)
    except Exception as ex:  # noqa
        return [("building a sequence over the code table raised %s" % type(ex).__name__, {}, "accept")]
    name = q.name
    try:
        r = copy_of(q, how)
    except Exception as ex:  # noqa
        return [("%s of a %s Sequence raised %s: %s" % (how, ty, type(ex).__name__, str(ex)[:80]), {}, "raises")]
    for label, obj in (("the %s of a %s Sequence" % (how, ty), r), ("a %s Sequence after it was copied (%s)" % (ty, how), q)):
        try:
            obs = observe(obj)
            got = exact_counts(obj.labile_formula)
            nat = exact_counts(obj.natural_formula)
            form = exact_counts(obj.formula)
        except Exception as ex:  # noqa
            bad.append(("%s cannot be inspected: %s" % (label, type(ex).__name__), {}, "raises"))
            continue
        wrong = [str(k) for k in set(orc["atoms"]) | set(got)
                 if not close(float(orc["atoms"].get(k, 0)), float(got.get(k, 0)), rel=1e-9, abs_=1e-9)]
        wrong += [k for k in ("vol", "charge", "mass", "dmass", "density") if not close(float(orc[k]), obs[k], rel=1e-9, abs_=1e-7)]
        if form != got:
            wrong.append("formula != labile_formula")
        # natural form: the labile hydrogens H[1] counted as H
        folded = {}
        for k, v in got.items():
            kk = (1, 0, k[2]) if k[0] == 1 and k[1] == 1 else k
            folded[kk] = folded.get(kk, 0) + v
        if any(not close(float(folded.get(k, 0)), float(nat.get(k, 0)), rel=1e-9, abs_=1e-9) for k in set(folded) | set(nat)):
            wrong.append("natural_formula")
        if obj.sequence != cleaned or obj.name != name:
            wrong.append("name/sequence")
        if wrong:
            bad.append(("%s is not the sum of its residues: %s differ" % (label, ", ".join(wrong[:6])),
                        dict(formula=str(obj.labile_formula), mass=obs["mass"], expected_mass=float(orc["mass"]),
                             volume=obs["vol"], expected_volume=float(orc["vol"])), "sum"))
    return bad


def stream_copies(run: Run, fasta, n, na):
    import pickle
    rng = run.rng
    hows = ["copy", "deepcopy", "deepcopy-in-list"] + ["pickle-%d" % p for p in range(pickle.HIGHEST_PROTOCOL + 1)]
    fixed = [("dna", "ACGT"), ("rna", "ACGU"), ("aa", "ACGT"), ("dna", ""), ("rna", "GGN"), ("dna", "GATTACA")]
    for i in range(n):
        ty = TYPES[i % 3]
        codes = sorted(fasta.CODE_TABLES[ty].keys())
        if i < len(fixed):
            ty, s = fixed[i]
        else:
            k = rng.choice([1, 3, 12, 40, 300])
            pool = codes if rng.random() < 0.6 else [c for c in codes if c in "ACGT"]
            s = "".join(rng.choice(pool) for _ in range(k))
            if rng.random() < 0.15:
                s = s[:len(s) // 2] + " " + s[len(s) // 2:] + "*" + rng.choice(codes)
        case = dict(copy_case=True, type=ty, full=s, how=hows[(i // 3 + i) % len(hows)] if i >= len(fixed) else hows[i % len(hows)],
                    via="load" if (i % 5 == 4 and s and " " not in s and "*" not in s) else "constructor")
        run.count(key=("copy", ty, s, case["how"], case["via"]), nontrivial=True, tag="copy:%s:%s" % (ty, case["how"].split("-")[0]),
                  sample=repr(case)[:200] if i < 2 else None)
        run.last_input = case
        for what, info, clause in run_copy_case(fasta, na, case):
            run.violation(what, dict(case, **info), clause=clause)


def guarded(run, what, fn, *args):
    """an exception escaping the real code inside a stream is a failure of the property on the
    last input that stream built (the stream's remaining cases are lost, the other streams run)"""
    from ..common import time_limit, CallTimeout
    if getattr(run, "timed_out", False):
        return          # an earlier stream did not finish: the remaining ones would not either
    try:
        with time_limit(90 if run.tier == "quick" else 1500):
            fn(*args)
    except InfraError:
        raise
    except CallTimeout as ex:
        run.timed_out = True
        run.violation("the %s stream does not finish (%s): the cost of building sequences grows without bound"
                      % (what, ex), dict(stream=what, last_input=getattr(run, "last_input", None)), clause="raises")
    except Exception as ex:  # noqa
        import traceback
        tb = traceback.extract_tb(ex.__traceback__)
        where = [f for f in tb if "periodictable" in f.filename] or list(tb)
        run.violation("the real code raised %s during the %s stream" % (type(ex).__name__, what),
                      dict(stream=what, exception=repr(ex), last_input=getattr(run, "last_input", None),
                           where=["%s:%d %s" % (f.filename.rsplit("/", 1)[-1], f.lineno, f.name) for f in where[-3:]]),
                      clause="raises")


def run(run: Run) -> int:
    pt = import_repo()
    from periodictable import fasta
    from periodictable.formulas import formula
    run.prove(generated=["Constants", "ElementBase", "FastaTables"])
    na = translate.exact(translate.number_text("periodictable/constants.py", "avogadro_number"))
    me = translate.exact(translate.number_text("periodictable/constants.py", "electron_mass"))
    batch = Batch()
    batch.send("me %s" % f2h(float(me)))
    for l in pyside.mass_table_lines(pt.elements):
        batch.send(l)
    quick = run.tier == "quick"
    try:
        guarded(run, "code tables", stream_codes, run, fasta, batch)
        guarded(run, "sequences", stream_sequences, run, fasta, formula, batch, 1200 if quick else 20000, na)
        guarded(run, "long sequences", stream_long, run, fasta, formula, 8 if quick else 60, na)
        guarded(run, "prefix dispatch", stream_prefix, run, fasta, formula, batch, 300 if quick else 5000)
        guarded(run, "read_fasta", stream_fasta, run, fasta, batch, 1500 if quick else 30000)
        guarded(run, "Sequence.load/loadall", stream_files, run, fasta, batch, 200 if quick else 3000)
        guarded(run, "files opened through links", stream_links, run, fasta, 60 if quick else 1500, na)
        guarded(run, "copies and pickles", stream_copies, run, fasta, 150 if quick else 4000, na)
        batch.run()
    finally:
        shutil.rmtree(SCRATCH, ignore_errors=True)
    return run.finish(RULE, assumptions=[
        "floating-point rounding of the sums is compared at 1e-9, not proved",
        "atomic masses are taken from the table as served (C06); Formula.replace / Hill order are shared with C12 / C19",
        "text decoding and universal-newline splitting of files are CPython's (modelled by splitLines)"])


def replay(data) -> int:
    """re-run the recorded inputs on the real code, the model (driver) and the oracle"""
    pt = import_repo()
    from periodictable import fasta
    na = translate.exact(translate.number_text("periodictable/constants.py", "avogadro_number"))
    me = translate.exact(translate.number_text("periodictable/constants.py", "electron_mass"))
    batch = Batch()
    batch.send("me %s" % f2h(float(me)))
    for l in pyside.mass_table_lines(pt.elements):
        batch.send(l)
    out = []
    for v in data.get("violations", []) + data.get("disagreements", []):
        inp = v["input"]
        label = "%s" % v.get("what", v.get("corr"))
        try:
            if inp.get("link_case") or inp.get("copy_case"):
                if inp.get("link_case"):
                    case = {k: inp[k] for k in ("link_case", "link", "stored_as", "opened_as", "mid_ext", "type", "text", "records")}
                    print("%s\n   file stored as %r, opened as %r (%s), type=%r" % (label, case["stored_as"], case["opened_as"],
                                                                                  case["link"], case["type"]))
                    SCRATCH.mkdir(parents=True, exist_ok=True)
                    bad = run_link_case(fasta, na, case, SCRATCH / "links")
                else:
                    case = {k: inp[k] for k in ("copy_case", "type", "full", "how", "via")}
                    print("%s\n   Sequence('rec', %r, type=%r) [%s] -> %s" % (label, case["full"][:120], case["type"], case["via"], case["how"]))
                    bad = run_copy_case(fasta, na, case)
                for what, info, _ in bad:
                    print("   code fails: %s\n      %s" % (what, info))
                if not bad:
                    print("   code: every judgement of the case holds")
                continue
            if "full" in inp:
                s_, ty = inp["full"], inp["type"]
                label += " | Sequence(%r, type=%r)" % (s_ if len(s_) < 120 else s_[:120] + "…", ty)
                try:
                    q = fasta.Sequence("x", s_, type=ty)
                    code = dict(vol=q.cell_volume, charge=q.charge, mass=q.mass, Dmass=q.Dmass,
                                density=q.labile_formula.density, formula=str(q.labile_formula))
                except KeyError as ex:
                    code = "raised KeyError(%s)" % ex
                orc = oracle_sequence(fasta, ty, s_, na)
                label += "\n   code:   %r\n   oracle (sums over the residue entries): %s" % (
                    code, None if orc is None else {k: float(orc[k]) for k in ("vol", "charge", "mass", "dmass", "density")})
                batch.ask("seq %s %s" % (ty, hx(s_)), lambda rep, label=label: out.append((label, rep, "seq")))
            elif "lines" in inp:
                label += " | read_fasta(%r)" % (inp["lines"],)
                label += "\n   code:   %r\n   oracle: %r" % (list(fasta.read_fasta(inp["lines"])),
                                                              oracle_records([l.rstrip("\n") for l in inp["lines"]]))
                batch.ask("lines " + " ".join(hx(l) for l in inp["lines"]), lambda rep, label=label: out.append((label, rep, "recs")))
            elif "text" in inp and "filename" not in inp:
                label += " | file with text %r" % inp["text"]
                label += "\n   code:   %r" % list(fasta.read_fasta(io.StringIO(inp["text"], newline=None)))
                batch.ask("fasta %s" % hx(inp["text"]), lambda rep, label=label: out.append((label, rep, "recs")))
            elif "filename" in inp:
                label += " | _guess_type_from_filename(%r, %r)" % (inp["filename"], inp.get("type"))
                label += "\n   code:   %r" % fasta._guess_type_from_filename(inp["filename"], inp.get("type"))
                batch.ask("ftype %s %s" % (hx(inp["filename"]), "none" if inp.get("type") is None else hx(inp["type"])),
                          lambda rep, label=label: out.append((label, rep, "hex")))
            else:
                print(label, "| input:", inp)
        except Exception as ex:  # noqa
            print(label, "\n   replay failed:", type(ex).__name__, ex)
    batch.run()
    for label, rep, kind in out:
        print(label)
        if kind == "seq" and rep.startswith("ok"):
            m = parse_mol_reply(rep)
            print("   model: ", {k: m[k] for k in ("vol", "charge", "mass", "dmass", "density")})
        elif kind == "recs" and rep.startswith("recs"):
            w = rep.split()
            print("   model: ", [(unhx(w[k]), unhx(w[k + 1])) for k in range(1, len(w), 2)])
        elif kind == "hex":
            print("   model: ", unhx(rep.split()[0]))
        else:
            print("   model: ", rep[:200])
    return 0
