"""C10 — private tables are isolated from the public table and from each other.

Theorems: lean/PtVerif/Properties/C10.lean over Model/Lazy.lean + `Generated/LazyConfig.lean`.

Tie: as C09 (forked pristine children, model vs real per event, value tokens one-to-one with
digests) with one or two private tables: table creation at any point, `module.init(T)` for the nine
inits in any order relative to any use of the public table, reads on T, attribute assignment and
in-place mutation on atoms of T.  The driver enumerates, per registration group, the reachable
control states with private tables and emits one shortest history per (state, event).
Oracle: public reads / final public digest must equal the canonical digests of a pristine child;
a freshly initialised, untouched private table must serve the public canonical values; id() sets
of per-atom objects of two tables must be disjoint; `formula(s, table=T)` contains only atoms of
T and a pickled atom of T is restored into T.  The fresh-interpreter oracle `state_nested` also revises the data
of a private table R (names, oxidation states, masses, scattering lengths), uses R, and compares everything the
public table and a second private table serve before and after; every route taking a compound string with
table=R must compute what it computes from formula(string, table=R).
"""
from __future__ import annotations

from ..common import Run, InfraError, import_repo
from ..state_hist import LAZY_ATTRS
from ..state_lazy import Lab, PROBES, CALCS, TABLES, MUTABLE_ATTRS, oracle, compare, admissible

RULE = ("one case = one history with at least one private table run in a fresh forked interpreter; "
        "non-trivial when a private-table event (init / assignment / mutation) precedes a public read of "
        "the same registration group, or two tables are involved; distinct by the event sequence")

CORPUS = [
    # D13: a loader runs on a private table before the first public touch
    [("init", "nsf.init", "T1"), ("read", "public", (26, 0, 0), "neutron")],
    [("init", "covalent_radius.init", "T1"), ("read", "public", (26, 0, 0), "covalent_radius")],
    [("init", "crystal_structure.init", "T1"), ("read", "public", (26, 0, 0), "crystal_structure")],
    [("init", "xsf.init_spectral_lines", "T1"), ("read", "public", (29, 0, 0), "K_alpha")],
    [("init", "xsf.init", "T1"), ("read", "public", (26, 0, 2), "xray")],
    [("init", "magnetic_ff.init", "T1"), ("read", "public", (26, 0, 0), "magnetic_ff")],
    [("init", "activation.init", "T1"), ("read", "public", (27, 59, 0), "neutron_activation")],
    # a value the user stored before the group was initialised on that table
    [("assign", "T1", (27, 59, 0), "neutron_activation", 1), ("init", "activation.init", "T1"),
     ("read", "T1", (27, 59, 0), "neutron_activation"), ("read", "public", (27, 59, 0), "neutron_activation")],
    [("assign", "T1", (26, 0, 0), "crystal_structure", 2), ("init", "crystal_structure.init", "T1"),
     ("read", "T1", (26, 0, 0), "crystal_structure"), ("read", "public", (26, 0, 0), "crystal_structure")],
    [("assign", "T1", (26, 56, 0), "neutron", 3), ("init", "nsf.init", "T1"),
     ("read", "T1", (26, 56, 0), "neutron"), ("read", "public", (26, 56, 0), "neutron")],
    [("assign", "T1", (26, 0, 0), "magnetic_ff", 4), ("init", "magnetic_ff.init", "T1"),
     ("read", "T1", (26, 0, 0), "magnetic_ff"), ("read", "public", (26, 0, 0), "magnetic_ff")],
    # the source comment: Ni.K_alpha = 5 then Cu.K_alpha
    [("assign", "T1", (26, 0, 0), "K_alpha", 5), ("read", "public", (29, 0, 0), "K_alpha"),
     ("read", "T1", (26, 0, 0), "K_alpha")],
    # D14: structure records shared by reference
    [("read", "public", (26, 0, 0), "crystal_structure"), ("init", "crystal_structure.init", "T1"),
     ("mutate", "T1", (26, 0, 0), "crystal_structure", 7), ("read", "public", (26, 0, 0), "crystal_structure")],
    [("init", "crystal_structure.init", "T1"), ("init", "crystal_structure.init", "T2"),
     ("mutate", "T1", (26, 0, 0), "crystal_structure", 7), ("read", "T2", (26, 0, 0), "crystal_structure")],
    # test_private.py's interleaving, on a fresh interpreter
    [("init", "xsf.init", "T1"), ("init", "nsf.init", "T1"), ("init", "crystal_structure.init", "T1"),
     ("init", "covalent_radius.init", "T1"), ("read", "public", (96, 0, 0), "crystal_structure"),
     ("read", "T1", (96, 0, 0), "crystal_structure"), ("read", "public", (96, 0, 0), "covalent_radius"),
     ("assign", "T1", (96, 0, 0), "covalent_radius", 3), ("read", "public", (96, 0, 0), "covalent_radius"),
     ("mutate", "T1", (96, 0, 0), "xray", 5), ("read", "public", (96, 0, 0), "xray")],
]


def gen_event(lab, rng, tables):
    r = rng.random()
    if r < 0.22:
        T = rng.choice(tables)
        return (rng.choice(["read", "read", "has"]), T, rng.choice(PROBES), rng.choice(LAZY_ATTRS))
    if r < 0.27:
        return ("import", rng.choice(lab.cfg["modules"]))
    if r < 0.34:
        c = rng.choice(list(CALCS))
        return ("calc", c[0], list(c[1]) if isinstance(c[1], tuple) else c[1])
    if r < 0.62:
        return ("init", rng.choice(lab.cfg["inits"]), rng.choice(tables))
    priv = [t for t in tables if t != "public"]
    T = rng.choice(priv)
    if r < 0.78:
        return ("assign", T, rng.choice(PROBES), rng.choice(LAZY_ATTRS), rng.randint(1, 4))
    if r < 0.92:
        key = rng.choice(PROBES)
        attr = rng.choice(MUTABLE_ATTRS)
        if lab.kind[(key, attr)] != "mutable":
            return ("read", T, key, attr)
        return ("mutate", T, key, attr, rng.randint(1, 4))
    if r < 0.96:
        return ("formula", T, rng.choice(["H2O", "Fe2O3", "D2O", "Fe[56]{2+}O", "CaCO3+6H2O"]))
    return ("pickle", T, rng.choice(PROBES))


def random_history(lab, rng):
    tables = ["public", "T1"] + (["T2"] if rng.random() < 0.4 else [])
    return [gen_event(lab, rng, tables) for _ in range(rng.randint(3, 16))]


def nontrivial(h):
    tabs = {e[1] for e in h if e[0] in ("read", "has", "assign", "mutate")} | {e[2] for e in h if e[0] == "init"}
    return len(tabs) > 1 or any(e[0] in ("assign", "mutate") for e in h)


def execute(run: Run, lab: Lab, histories, corr, tag, rng=None):
    hs = []
    for h in histories:
        if not admissible(lab, h):
            continue
        used = [T for T in TABLES if any(T in e[1:3] for e in h)]
        tail = [("digest", "public", PROBES)] + [("ids", T, PROBES) for T in ["public"] + [t for t in used if t != "public"]]
        hs.append(lab.with_tables(list(h), rng) + tail)
    outs = lab.pool.map(hs)
    try:
        reps = lab.run_model(hs, outs)
    except (ValueError, KeyError, IndexError) as e:
        run.proof_broken.append("the model generated from the lazy-loading source cannot express the histories "
                                "(%s: %s); histories are judged by the oracle only" % (type(e).__name__, e))
        lab.degrade("%s: %s" % (type(e).__name__, e))
        reps = lab.run_model(hs, outs)
    for h, o, r in zip(hs, outs, reps):
        if isinstance(o, dict):
            raise InfraError("history child crashed: %s" % str(o)[-400:])
        body = [e for e in h if e[0] not in ("digest", "ids")]
        run.count(key=repr(body), nontrivial=nontrivial(body), tag=tag, sample=repr(body) if len(body) < 6 else None)
        for e in body:
            run.dist["ev:" + e[0]] = run.dist.get("ev:" + e[0], 0) + 1
        for i, what, keys in oracle(lab, h, o)[:3]:
            run.violation(what, dict(history=h[:i + 1]), **keys)
        d = compare(lab, h, o, r)
        if d:
            run.disagree(corr, dict(history=h[:d[0] + 1]), r[d[0]][:3], o[d[0]] if h[d[0]][0] != "digest" else "digest",
                         what=d[1])


def nested_oracle(run: Run):
    """fresh interpreter: (a) no mutable object nested anywhere inside the per-atom data is shared between the
    public table and a fully initialised private table (in-place mutation through one table would change the
    other); (b) formulas / mixtures built with table=T contain only atoms of T"""
    import json as _json
    import os
    import subprocess
    import sys
    from ..common import REPO, VERIF
    env = dict(os.environ, PYTHONPATH=str(VERIF / "harness"), PYTHONDONTWRITEBYTECODE="1")
    try:
        p = subprocess.run([sys.executable, "-m", "ptv.state_nested", str(REPO), str(run.seed)], capture_output=True, text=True,
                           timeout=600, env=env)
    except subprocess.TimeoutExpired:
        raise InfraError("nested-sharing oracle timed out")
    if p.returncode != 0:
        run.violation("building and reading a fully initialised private table raised: %s" % p.stderr.strip()[-300:],
                      dict(oracle="nested"), kind="private-table-raises")
        return
    res = _json.loads(p.stdout.strip().splitlines()[-1])
    run.count(key="nested-oracle", nontrivial=True, tag="nested-oracle",
              sample="nested mutable objects per table: %d" % res["objects"])
    for s in res["shared"]:
        # the one class-level Neutron() placeholder is the recorded finding D20
        sides = [x.split(" (")[0] for x in s.split(" == ")]
        attr = "neutron" if all(x.endswith(".neutron") or x.endswith(".neutron.__dict__") for x in sides) else "nested"
        run.violation("a mutable object is shared between the public and a private table: %s" % s,
                      dict(oracle="nested", shared=s),
                      kind="public-differs-after-class-default-mutation" if attr == "neutron" else "shared-nested-object",
                      attr=attr)
    for s in res["foreign"]:
        run.violation(s, dict(oracle="nested", what=s), kind="foreign-atom")
    for s in res.get("restored", [])[:10]:
        run.violation(s, dict(oracle="nested", what=s), kind="pickle-not-restored")
    run.count(key="nested-oracle-revised", nontrivial=True, tag="nested-oracle",
              sample="values of the revised private table that differ from its fresh ones: %d" % res.get("revised_effective", 0))
    for s in res.get("revised_err", [])[:5]:
        run.violation(s, dict(oracle="nested", what=s, seed=run.seed), kind="private-table-raises")
    for s in res.get("changed", [])[:10]:
        run.violation("%s (%d differences)" % (s, res.get("nchanged", 0)), dict(oracle="nested", what=s, seed=run.seed),
                      kind="other-table-changed")
    for s in res.get("follows", [])[:10]:
        run.violation(s, dict(oracle="nested", what=s, seed=run.seed), kind="foreign-atom")
    for s in res.get("differs", [])[:10]:
        run.violation("a freshly initialised private table does not serve the public value (%d differences): %s"
                      % (res.get("ndiffers", 0), s), dict(oracle="nested", what=s), kind="private-differs")


def run(run: Run) -> int:
    import_repo()
    run.prove(generated=["LazyConfig"])
    lab = Lab()
    try:
        if not lab.model_ok:
            run.notes.append("translator could not read the lazy-loading source (%s): histories are judged by "
                             "the oracle only" % lab.unreadable)
            if not run.proof_broken:
                run.proof_broken.append("the model generated from the lazy-loading source cannot express the "
                                        "histories (%s); histories are judged by the oracle only" % lab.unreadable)
        execute(run, lab, CORPUS, "iso-corpus", "corpus")
        ntab = 1 if run.tier == "quick" else 2
        total = 0
        for gi in range(len(lab.cfg["groups"]) if lab.model_ok else 0):
            n, hs = lab.closure_histories(gi, ntab)
            total += n
            hs = [h for h in hs if any("T1" in e[1:3] or "T2" in e[1:3] for e in h)]
            if run.tier == "quick":
                hs = [h for j, h in enumerate(hs) if j % 12 == run.seed % 12]
            else:
                hs = [h for j, h in enumerate(hs) if j % 4 == run.seed % 4]
            execute(run, lab, hs, "iso-closure", "closure:g%d" % gi)
        run.notes.append("reachable control states with %d private table(s), summed over groups: %d" % (ntab, total))
        n = 300 if run.tier == "quick" else 12000
        for lo in range(0, n, 1000):
            execute(run, lab, [random_history(lab, run.rng) for _ in range(lo, min(n, lo + 1000))],
                    "iso-random", "random", run.rng)
        nested_oracle(run)
    finally:
        lab.close()
    return run.finish(RULE, assumptions=[
        "CPython's attribute protocol is modelled, not verified",
        "private tables are created with mass and density initialised (nsf.init asserts both)",
        "in-place mutation is applied to dict / list / object values; user-assigned values are opaque sentinels",
        "mutating the class-level placeholder served for an atom *without* a neutron record is a recorded finding (D20)"])


def replay(data) -> int:
    from .C09 import replay as r
    nested = [v for v in data.get("violations", []) if v["input"].get("oracle") == "nested"]
    rest = dict(data, violations=[v for v in data.get("violations", []) if v["input"].get("oracle") != "nested"])
    rc = r(rest) if rest["violations"] or rest.get("disagreements") else 0
    if nested:
        import_repo()
        rr = Run("C10", "quick", int(nested[0]["input"].get("seed", 0)))
        nested_oracle(rr)
        for x in rr.violations[:10]:
            print("ORACLE  :", x["what"])
            rc = 1
    return rc
